(* Model of App::run's shutdown protocol (C20): the accept thread (for stream in incoming() { if flag {break}; dispatch }
   then thread_pool.stop(), listener dropped with the thread) and the signalling thread (recv; flag.store(true); connect
   to the listener to wake accept(); join), with clients connecting at any time. Labelled transition system. *)
From Hv Require Import Prelude.

Inductive conn := Client (n : nat) | Wake.

Inductive apc := AAccept | ACheck (c : conn) | ADispatch (c : conn) | AStop | ADone.
Inductive spc := SWait | SStore | SConnect | SJoin | SReturned.

Record st := {
  a : apc;                 (* accept thread *)
  s : spc;                 (* thread that called run *)
  flag : bool;             (* the AtomicBool *)
  backlog : list conn;     (* kernel accept queue, oldest first *)
  served : list conn;      (* handed to the pool, in order *)
  dropped : list conn;     (* accepted and dropped because the flag was set *)
  listening : bool }.

Definition init : st :=
  {| a := AAccept; s := SWait; flag := false; backlog := []; served := []; dropped := []; listening := true |}.

Inductive label :=
| EnvConnect (n : nat)     (* a client connects (environment) *)
| Signal                   (* the shutdown receiver yields (environment, once) *)
| Accept | CheckBreak | CheckGo | Skip | Dispatch | Stop
| Store | WakeConnect | Join.

Definition is_env (l : label) : bool := match l with EnvConnect _ | Signal => true | _ => false end.

Definition step (x : st) (l : label) : option st :=
  match l with
  | EnvConnect n =>
    if listening x then Some {| a := a x; s := s x; flag := flag x; backlog := backlog x ++ [Client n];
                                served := served x; dropped := dropped x; listening := true |}
    else None                                                    (* connection refused *)
  | Signal =>
    match s x with
    | SWait => Some {| a := a x; s := SStore; flag := flag x; backlog := backlog x; served := served x;
                       dropped := dropped x; listening := listening x |}
    | _ => None
    end
  | Accept =>
    match a x, backlog x with
    | AAccept, c :: rest => Some {| a := ACheck c; s := s x; flag := flag x; backlog := rest; served := served x;
                                    dropped := dropped x; listening := listening x |}
    | _, _ => None                                               (* accept() blocks on an empty queue *)
    end
  | CheckBreak =>
    match a x with
    | ACheck c => if flag x then Some {| a := AStop; s := s x; flag := true; backlog := backlog x; served := served x;
                                         dropped := dropped x ++ [c]; listening := listening x |}
                  else None
    | _ => None
    end
  | CheckGo =>
    match a x with
    | ACheck c => if flag x then None
                  else Some {| a := ADispatch c; s := s x; flag := false; backlog := backlog x; served := served x;
                               dropped := dropped x; listening := listening x |}
    | _ => None
    end
  | Skip =>                                                      (* the iteration ends without a dispatch: accept() returned
                                                                    an error, or the connection condition refused the
                                                                    client; only possible when the flag was not seen *)
    match a x with
    | ACheck c => if flag x then None
                  else Some {| a := AAccept; s := s x; flag := false; backlog := backlog x; served := served x;
                               dropped := dropped x; listening := listening x |}
    | _ => None
    end
  | Dispatch =>                                                  (* pool.execute: unbounded channel, never blocks *)
    match a x with
    | ADispatch c => Some {| a := AAccept; s := s x; flag := flag x; backlog := backlog x; served := served x ++ [c];
                             dropped := dropped x; listening := listening x |}
    | _ => None
    end
  | Stop =>                                                      (* thread_pool.stop() does not join; listener dropped *)
    match a x with
    | AStop => Some {| a := ADone; s := s x; flag := flag x; backlog := []; served := served x;
                       dropped := dropped x; listening := false |}
    | _ => None
    end
  | Store =>
    match s x with
    | SStore => Some {| a := a x; s := SConnect; flag := true; backlog := backlog x; served := served x;
                        dropped := dropped x; listening := listening x |}
    | _ => None
    end
  | WakeConnect =>                                               (* let _ = TcpStream::connect(..): failure ignored *)
    match s x with
    | SConnect => Some {| a := a x; s := SJoin; flag := flag x;
                          backlog := if listening x then backlog x ++ [Wake] else backlog x;
                          served := served x; dropped := dropped x; listening := listening x |}
    | _ => None
    end
  | Join =>
    match s x, a x with
    | SJoin, ADone => Some {| a := ADone; s := SReturned; flag := flag x; backlog := backlog x; served := served x;
                              dropped := dropped x; listening := listening x |}
    | _, _ => None
    end
  end.

Fixpoint run (x : st) (ls : list label) : option st :=
  match ls with
  | [] => Some x
  | l :: ls' => match step x l with Some y => run y ls' | None => None end
  end.

Definition accepts (ls : list label) : bool := match run init ls with Some _ => true | None => false end.

(* progress measure: strictly decreases on every non-environment step *)
Definition aw (p : apc) : nat := match p with AAccept => 2 | ADispatch _ => 3 | ACheck _ => 4 | AStop => 1 | ADone => 0 end.
Definition sw (p : spc) : nat := match p with SWait => 24 | SStore => 18 | SConnect => 12 | SJoin => 6 | SReturned => 0 end.
Definition measure (x : st) : nat := 5 * length (backlog x) + aw (a x) + sw (s x).

Definition all_labels : list label := [Accept; CheckBreak; CheckGo; Skip; Dispatch; Stop; Store; WakeConnect; Join].
Definition enabled_internal (x : st) : bool :=
  existsb (fun l => match step x l with Some _ => true | None => false end) all_labels.
