(* Shared definitions for all models: outcome type, bytes, small list helpers.
   Model files contain definitions only (they must still run when a proof breaks). *)
From Coq Require Export NArith ZArith List Bool.
Export ListNotations.

(* Three-way outcome: Crash marks the places where the Rust code would panic/abort. *)
Inductive outcome (A : Type) : Type :=
| Ok (a : A)
| Err (e : N)      (* error class, small enum per model *)
| Crash (why : N). (* panic site id *)
Arguments Ok {A} a.
Arguments Err {A} e.
Arguments Crash {A} why.

Definition obind {A B} (x : outcome A) (f : A -> outcome B) : outcome B :=
  match x with Ok a => f a | Err e => Err e | Crash w => Crash w end.

Definition is_crash {A} (x : outcome A) : bool :=
  match x with Crash _ => true | _ => false end.

Definition bytes := list N.

Definition byteb (b : N) : bool := N.ltb b 256.
Definition bytesb (l : bytes) : bool := forallb byteb l.

(* chunks: what successive read() calls deliver *)
Definition chunks := list bytes.

(* keeps Z among the extracted datatypes even when no extracted model uses it yet *)
Definition z_keep (z : Z) : Z := Z.add z 1.
