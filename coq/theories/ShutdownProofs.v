From Coq Require Import Lia.
From Hv Require Import Prelude Shutdown.

(* invariants of every reachable state *)
Definition Inv (x : st) : Prop :=
  (* the flag is set exactly from the Store step on *)
  (flag x = true <-> (s x = SConnect \/ s x = SJoin \/ s x = SReturned)) /\
  (* the listener is open until the accept thread has finished *)
  (listening x = true <-> a x <> ADone) /\
  (* the accept thread only leaves its loop once the flag is set *)
  ((a x = AStop \/ a x = ADone) -> flag x = true) /\
  (* at most one accepted connection is dropped, and only after the flag was set *)
  (length (dropped x) <= 1)%nat /\
  (dropped x <> [] -> a x = AStop \/ a x = ADone) /\
  (* the wake-up connection is queued only after the flag was set *)
  (In Wake (backlog x) -> flag x = true) /\
  (forall c, a x = ACheck c \/ a x = ADispatch c -> c = Wake -> flag x = true) /\
  (* after the wake-up connect, an accept thread still in its loop has something to accept *)
  (s x = SJoin -> (a x = AAccept \/ exists c, a x = ADispatch c) -> backlog x <> []) /\
  (* returned only after the accept thread finished *)
  (s x = SReturned -> a x = ADone).

Lemma inv_init : Inv init.
Proof.
  unfold Inv, init; cbn. repeat split; try discriminate; try tauto; try lia;
    try (intros [H|[H|H]]; discriminate); try (intros [H|H]; discriminate); try (intros ? [H|H]; discriminate).
Qed.

Ltac inv_destruct H :=
  destruct H as (Hflag & Hlis & Hstop & Hdrop & Hdropped & Hwake & Hcw & Hjoin & Hret).

Lemma app_one_not_nil {A} (l : list A) x : l ++ [x] <> [].
Proof. destruct l; discriminate. Qed.

Ltac inv_solve :=
  try solve [ intuition (subst; try discriminate; try congruence; eauto) ];
  try solve [ intros; apply app_one_not_nil ];
  try solve [ intros; exfalso; eapply app_one_not_nil; eassumption ];
  try solve [ intros Hin; apply in_app_or in Hin as [Hin|[Hin|[]]]; [intuition eauto | discriminate] ];
  try solve [ intros Hin; apply in_app_or in Hin as [Hin|[Hin|[]]]; intuition (subst; try discriminate; try congruence; eauto) ];
  try solve [ intros; match goal with H : exists _, _ |- _ => destruct H end; intuition (subst; try discriminate; try congruence; eauto) ];
  try solve [ intros ? [K|K] ?; subst; try discriminate; try (injection K as ?; subst); intuition (subst; try discriminate; try congruence; eauto) ];
  try solve [ intros ? [K|[? K]]; subst; try discriminate; intuition (subst; try discriminate; try congruence; eauto) ].

Lemma inv_step x l y : Inv x -> step x l = Some y -> Inv y.
Proof.
  intros H E. inv_destruct H.
  assert (FS : forall p, s x = p -> (p = SConnect \/ p = SJoin \/ p = SReturned) -> flag x = true)
    by (intros p Hp Hq; apply Hflag; rewrite Hp; exact Hq).
  assert (FW : flag x = false -> s x <> SConnect /\ s x <> SJoin /\ s x <> SReturned).
  { intro F. repeat split; intro K; assert (flag x = true) by (apply Hflag; auto); congruence. }
  destruct l; cbn [step] in E.
  - (* EnvConnect *)
    destruct (listening x) eqn:L; [|discriminate]. injection E as <-. unfold Inv; cbn [a s flag backlog served dropped listening].
    repeat split; inv_solve.
  - (* Signal *)
    destruct (s x) eqn:S; try discriminate. injection E as <-. unfold Inv; cbn [a s flag backlog served dropped listening].
    assert (F : flag x = false).
    { destruct (flag x) eqn:F; [|reflexivity]. destruct (proj1 Hflag eq_refl) as [K|[K|K]]; discriminate. }
    repeat split; inv_solve.
  - (* Accept *)
    destruct (a x) eqn:A; try discriminate. destruct (backlog x) as [|c rest] eqn:B; [discriminate|].
    injection E as <-. unfold Inv; cbn [a s flag backlog served dropped listening].
    assert (W1 : In Wake rest -> flag x = true) by (intro; apply Hwake; now right).
    assert (W2 : c = Wake -> flag x = true) by (intros ->; apply Hwake; now left).
    repeat split; inv_solve.
  - (* CheckBreak *)
    destruct (a x) eqn:A; try discriminate. destruct (flag x) eqn:F; [|discriminate].
    injection E as <-. unfold Inv; cbn [a s flag backlog served dropped listening].
    assert (D : dropped x = []).
    { destruct (dropped x) eqn:D; [reflexivity|]. assert (dropped x <> []) as K by (rewrite D; discriminate).
      rewrite D in *. apply Hdropped in K as [K|K]; discriminate. }
    rewrite D. cbn [app length].
    repeat split; inv_solve.
  - (* CheckGo *)
    destruct (a x) eqn:A; try discriminate. destruct (flag x) eqn:F; [discriminate|].
    injection E as <-. unfold Inv; cbn [a s flag backlog served dropped listening].
    destruct (FW eq_refl) as (N1 & N2 & N3).
    assert (CW : c <> Wake) by (intros ->; assert (false = true) by (apply (Hcw Wake); auto); discriminate).
    repeat split; inv_solve.
  - (* Skip *)
    destruct (a x) eqn:A; try discriminate. destruct (flag x) eqn:F; [discriminate|].
    injection E as <-. unfold Inv; cbn [a s flag backlog served dropped listening].
    destruct (FW eq_refl) as (N1 & N2 & N3).
    repeat split; inv_solve.
  - (* Dispatch *)
    destruct (a x) eqn:A; try discriminate. injection E as <-. unfold Inv; cbn [a s flag backlog served dropped listening].
    assert (J : s x = SJoin -> backlog x <> []) by (intro K; apply Hjoin; [assumption|right; eauto]).
    repeat split; inv_solve.
  - (* Stop *)
    destruct (a x) eqn:A; try discriminate. injection E as <-. unfold Inv; cbn [a s flag backlog served dropped listening].
    assert (F : flag x = true) by (apply Hstop; auto).
    repeat split; inv_solve.
  - (* Store *)
    destruct (s x) eqn:S; try discriminate. injection E as <-. unfold Inv; cbn [a s flag backlog served dropped listening].
    repeat split; inv_solve.
  - (* WakeConnect *)
    destruct (s x) eqn:S; try discriminate. injection E as <-. unfold Inv; cbn [a s flag backlog served dropped listening].
    assert (F : flag x = true) by (apply Hflag; auto).
    assert (L : a x <> ADone -> listening x = true) by (intro; now apply Hlis).
    destruct (listening x) eqn:Lx.
    + repeat split; inv_solve.
    + assert (AD : a x = ADone) by (destruct (a x) eqn:A; try reflexivity; exfalso; assert (false = true) by (apply L; discriminate); discriminate).
      repeat split; inv_solve.
  - (* Join *)
    destruct (s x) eqn:S; try discriminate. destruct (a x) eqn:A; try discriminate.
    injection E as <-. unfold Inv; cbn [a s flag backlog served dropped listening].
    assert (F : flag x = true) by (apply Hflag; auto).
    repeat split; inv_solve.
Qed.

Theorem inv_reachable : forall ls x y, Inv x -> run x ls = Some y -> Inv y.
Proof.
  induction ls as [|l ls IH]; intros x y H E; cbn [run] in E.
  - now injection E as <-.
  - destruct (step x l) as [z|] eqn:Es; [|discriminate]. eapply IH; [|exact E]. eapply inv_step; eassumption.
Qed.

(* every non-environment step strictly decreases the measure *)
Theorem internal_step_decreases x l y :
  is_env l = false -> step x l = Some y -> (measure y < measure x)%nat.
Proof.
  intros He E. unfold measure. destruct l; try discriminate; cbn [step] in E.
  - destruct (a x) eqn:A; try discriminate. destruct (backlog x) eqn:B; [discriminate|]. injection E as <-. cbn. lia.
  - destruct (a x) eqn:A; try discriminate. destruct (flag x); [|discriminate]. injection E as <-. cbn. lia.
  - destruct (a x) eqn:A; try discriminate. destruct (flag x); [discriminate|]. injection E as <-. cbn. lia.
  - destruct (a x) eqn:A; try discriminate. destruct (flag x); [discriminate|]. injection E as <-. cbn. lia.
  - destruct (a x) eqn:A; try discriminate. injection E as <-. cbn. lia.
  - destruct (a x) eqn:A; try discriminate. injection E as <-. cbn. lia.
  - destruct (s x) eqn:S; try discriminate. injection E as <-. cbn. lia.
  - destruct (s x) eqn:S; try discriminate. injection E as <-. cbn.
    destruct (listening x); rewrite ?app_length; cbn; lia.
  - destruct (s x) eqn:S; try discriminate. destruct (a x) eqn:A; try discriminate. injection E as <-. cbn. lia.
Qed.

(* an environment step adds at most one queued connection *)
Lemma env_step_bound x l y : is_env l = true -> step x l = Some y -> (measure y <= measure x + 5)%nat.
Proof.
  intros He E. unfold measure. destruct l; try discriminate; cbn [step] in E.
  - destruct (listening x); [|discriminate]. injection E as <-. cbn. rewrite app_length. cbn. lia.
  - destruct (s x) eqn:S; try discriminate. injection E as <-. cbn. lia.
Qed.

(* progress: once the signal has been received, a reachable state that has not returned can always take an internal step *)
Theorem progress_after_signal x :
  Inv x -> s x <> SWait -> s x <> SReturned -> enabled_internal x = true.
Proof.
  intros H NW NR. inv_destruct H. unfold enabled_internal, all_labels. cbn [existsb step].
  destruct (s x) eqn:S; try congruence.
  - (* SStore *) cbn; rewrite ?orb_true_r, ?orb_true_l; reflexivity.
  - (* SConnect *) cbn; rewrite ?orb_true_r, ?orb_true_l; reflexivity.
  - (* SJoin: the accept thread can move, or has finished and Join fires *)
    assert (F : flag x = true) by (apply Hflag; auto).
    destruct (a x) eqn:A.
    + assert (B : backlog x <> []) by (apply Hjoin; auto). destruct (backlog x); [congruence|]. reflexivity.
    + rewrite F. cbn. reflexivity.
    + cbn; rewrite ?orb_true_r, ?orb_true_l; reflexivity.
    + cbn; rewrite ?orb_true_r, ?orb_true_l; reflexivity.
    + cbn; rewrite ?orb_true_r, ?orb_true_l; reflexivity.
Qed.

(* hence a state in which nothing internal can happen after the signal is the returned state: listener closed *)
Corollary stuck_means_returned x :
  Inv x -> s x <> SWait -> enabled_internal x = false -> s x = SReturned /\ listening x = false /\ a x = ADone.
Proof.
  intros H NW E.
  assert (R : s x = SReturned).
  { destruct (s x) eqn:S; try reflexivity; try congruence;
      exfalso; rewrite (progress_after_signal x H) in E; try discriminate; rewrite S; discriminate. }
  inv_destruct H. split; [assumption|]. assert (A : a x = ADone) by (apply Hret; assumption). split; [|assumption].
  destruct (listening x) eqn:L; [|reflexivity]. exfalso. apply (proj1 Hlis eq_refl). exact A.
Qed.

(* bounded return: from any reachable state, a run with k environment steps has at most measure + 5k internal steps *)
Theorem bounded_internal_steps : forall ls x y,
  run x ls = Some y ->
  (length (filter (fun l => negb (is_env l)) ls) + measure y <= measure x + 5 * length (filter is_env ls))%nat.
Proof.
  induction ls as [|l ls IH]; intros x y E; cbn [run] in E.
  - injection E as <-. cbn. lia.
  - destruct (step x l) as [z|] eqn:Es; [|discriminate]. specialize (IH z y E). cbn [filter].
    destruct (is_env l) eqn:He; cbn [negb length].
    + pose proof (env_step_bound x l z He Es). lia.
    + pose proof (internal_step_decreases x l z He Es). lia.
Qed.

(* until the signal is received, nothing is dropped and the server keeps accepting *)
Theorem serves_until_signal : forall ls y, run init ls = Some y -> s y = SWait ->
  dropped y = [] /\ flag y = false /\ listening y = true /\ a y <> AStop /\ a y <> ADone.
Proof.
  intros ls y E S. pose proof (inv_reachable ls init y inv_init E) as H. inv_destruct H.
  assert (F : flag y = false).
  { destruct (flag y) eqn:F; [|reflexivity]. destruct (proj1 Hflag eq_refl) as [K|[K|K]]; congruence. }
  assert (NA : a y <> AStop /\ a y <> ADone).
  { split; intro K; assert (flag y = true) by (apply Hstop; auto); congruence. }
  repeat split; try tauto.
  - destruct (dropped y) eqn:D; [reflexivity|]. exfalso. assert (K : a y = AStop \/ a y = ADone) by (apply Hdropped; discriminate).
    tauto.
Qed.

Theorem at_most_one_dropped : forall ls y, run init ls = Some y -> (length (dropped y) <= 1)%nat.
Proof. intros ls y E. pose proof (inv_reachable ls init y inv_init E) as H. inv_destruct H. assumption. Qed.

(* the accept that returns the wake-up connection, or any connection after it, observes the flag *)
Theorem flag_before_wake : forall ls y c, run init ls = Some y -> a y = ACheck c ->
  (c = Wake \/ s y = SJoin \/ s y = SConnect) -> flag y = true.
Proof.
  intros ls y c E A Hc. pose proof (inv_reachable ls init y inv_init E) as H. inv_destruct H.
  destruct Hc as [->|[K|K]]; [apply (Hcw Wake); auto | apply Hflag; auto | apply Hflag; auto].
Qed.

(* a full trace exists: non-vacuity *)
Example shutdown_trace :
  run init [EnvConnect 1; Accept; CheckGo; Dispatch; Signal; EnvConnect 2; Store; WakeConnect; Accept; CheckBreak; Stop; Join]
  = Some {| a := ADone; s := SReturned; flag := true; backlog := []; served := [Client 1]; dropped := [Client 2];
            listening := false |}.
Proof. reflexivity. Qed.
