(* Shared reader model: a scripted byte source and the std::io::Read operations built on it.
   chunks := list bytes; each element is what one underlying read() call can deliver at most (a read with a smaller
   buffer takes a prefix and leaves the rest of the chunk in front); end of list = EOF; an empty chunk is a read that
   returns Ok(0), which every std consumer treats as EOF.  Sizes are N so that peer-claimed lengths (2^40, 2^63) cost
   nothing.  Definitions only; lemmas in StreamProofs.v.  (BufReader / read_until live in StreamBuf.v.) *)
From Hv Require Import Prelude.
Open Scope N_scope.

Definition blen (l : bytes) : N := N.of_nat (length l).

(* well-formed chunking: no empty chunk (a source that never reports a spurious EOF) *)
Definition wf_chunks (cs : chunks) : Prop := Forall (fun c : bytes => c <> []) cs.
Definition wf_chunksb (cs : chunks) : bool :=
  forallb (fun c : bytes => match c with [] => false | _ => true end) cs.

(* number of bytes the source will ever deliver *)
Definition total_len (cs : chunks) : N := blen (concat cs).

(* ---- Read::read(&mut buf) with buf.len() = n ---- (n = 0 returns 0 bytes and touches nothing) *)
Definition read (n : N) (cs : chunks) : bytes * chunks :=
  if n =? 0 then ([], cs) else
  match cs with
  | [] => ([], [])
  | c :: cs' =>
    if blen c <=? n then (c, cs')
    else (firstn (N.to_nat n) c, skipn (N.to_nat n) c :: cs')
  end.

(* ---- Read::read_exact(&mut buf) with buf.len() = n ----
   loop { read into the unfilled part; Ok(0) => UnexpectedEof }.  None = Err(UnexpectedEof). *)
Fixpoint read_exact (n : N) (cs : chunks) {struct cs} : option (bytes * chunks) :=
  if n =? 0 then Some ([], cs) else
  match cs with
  | [] => None
  | c :: cs' =>
    let l := blen c in
    if l =? 0 then None
    else if n <? l then Some (firstn (N.to_nat n) c, skipn (N.to_nat n) c :: cs')
    else match read_exact (n - l) cs' with
         | Some (b, r) => Some (c ++ b, r)
         | None => None
         end
  end.

(* ---- Read::take(n).read_to_end(&mut v) ----
   reads until n bytes have been delivered or a read returns Ok(0); never asks the source for more than the
   remaining limit.  Returns the bytes appended to v and the source afterwards. *)
Fixpoint read_take (n : N) (cs : chunks) {struct cs} : bytes * chunks :=
  if n =? 0 then ([], cs) else
  match cs with
  | [] => ([], [])
  | c :: cs' =>
    let l := blen c in
    if l =? 0 then ([], cs')
    else if n <? l then (firstn (N.to_nat n) c, skipn (N.to_nat n) c :: cs')
    else let '(b, r) := read_take (n - l) cs' in (c ++ b, r)
  end.

(* ---- flat counterparts on the concatenation ---- *)
Definition take_exact (n : N) (l : bytes) : option (bytes * bytes) :=
  if blen l <? n then None else Some (firstn (N.to_nat n) l, skipn (N.to_nat n) l).

Definition take_upto (n : N) (l : bytes) : bytes * bytes :=
  (firstn (N.to_nat n) l, skipn (N.to_nat n) l).
