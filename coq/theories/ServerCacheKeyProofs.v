(* The static handlers' answer is a function of the cache key. The file cache of humphrey-server is keyed by (request path,
   host index) (static.rs cache_check / inner_file_handler get the index baked into the route's closure by server.rs). For
   the server model this file proves what C16_cache_transparent assumes ("honest F"): two requests that are routed, are
   not refused by the blacklist and have the same path and the same host index get the same answer - whatever their Host
   header values, peers, other header fields, queries. *)
From Coq Require Import Lia.
From Hv Require Import Prelude Bytes TablesHttp TablesConfig Http Krauss Routing RoutingProofs
  Blacklist StaticFs Config Proxy Server ServerProofs.
Open Scope N_scope.

Lemma get_handler_insub subapps default host uri i j :
  get_handler subapps default host uri = Some (InSub i j) ->
  exists s p, nth_error subapps i = Some s /\ find_index (fun r => wildcard_match r uri) (sa_routes s) 0 = Some (j, p).
Proof.
  unfold get_handler.
  assert (D : forall x, match find_index (fun r => wildcard_match r uri) (sa_routes default) 0 with
                        | Some (j0, _) => Some (InDefault j0) | None => None end = Some (InSub i j) -> x).
  { intro x. destruct (find_index _ (sa_routes default) 0) as [[j0 p0]|]; discriminate. }
  destruct host as [h|]; [|apply D].
  destruct (find_index (fun s => wildcard_match (sa_host s) h) subapps 0) as [[i0 s]|] eqn:FH; [|apply D].
  destruct (find_index (fun r => wildcard_match r uri) (sa_routes s) 0) as [[j0 p]|] eqn:FR; [|apply D].
  intro H. injection H as <- <-. apply find_index_some in FH as (_ & Hn & _). rewrite Nat.sub_0_r in Hn.
  exists s, p. split; assumption.
Qed.

Lemma get_handler_indefault subapps default host uri j :
  get_handler subapps default host uri = Some (InDefault j) ->
  exists p, find_index (fun r => wildcard_match r uri) (sa_routes default) 0 = Some (j, p).
Proof.
  unfold get_handler.
  assert (D : match find_index (fun r => wildcard_match r uri) (sa_routes default) 0 with
              | Some (j0, _) => Some (InDefault j0) | None => None end = Some (InDefault j) ->
              exists p, find_index (fun r => wildcard_match r uri) (sa_routes default) 0 = Some (j, p)).
  { destruct (find_index _ (sa_routes default) 0) as [[j0 p0]|]; [|discriminate]. intro H. injection H as <-. eauto. }
  destruct host as [h|]; [|exact D].
  destruct (find_index (fun s => wildcard_match (sa_host s) h) subapps 0) as [[i0 s]|]; [|exact D].
  destruct (find_index (fun r => wildcard_match r uri) (sa_routes s) 0) as [[j0 p]|]; [discriminate|exact D].
Qed.

(* the route index is a function of the host index and the path *)
Theorem route_index_function_of_key subapps default host1 host2 uri ch1 ch2 :
  get_handler subapps default host1 uri = Some ch1 -> get_handler subapps default host2 uri = Some ch2 ->
  fst (handler_ids ch1) = fst (handler_ids ch2) -> ch1 = ch2.
Proof.
  intros H1 H2 E. destruct ch1 as [i1 j1|j1], ch2 as [i2 j2|j2]; cbn [handler_ids fst] in E; try discriminate.
  - injection E as <-. apply get_handler_insub in H1 as (s1 & p1 & N1 & F1). apply get_handler_insub in H2 as (s2 & p2 & N2 & F2).
    rewrite N1 in N2. injection N2 as <-. rewrite F1 in F2. now injection F2 as <- _.
  - apply get_handler_indefault in H1 as (p1 & F1). apply get_handler_indefault in H2 as (p2 & F2).
    rewrite F1 in F2. now injection F2 as <- _.
Qed.

Section Key.
  Variable ipp : bytes -> option bytes.
  Variable fs : StaticFs.node.

  Lemma dispatch_function_of_uri c rt req1 req2 :
    r_uri req1 = r_uri req2 -> dispatch fs c rt Served req1 = dispatch fs c rt Served req2.
  Proof. intro E. unfold dispatch. rewrite E. reflexivity. Qed.

  Theorem server_answer_function_of_cache_key (c : config) p1 p2 req1 req2 ch1 ch2 :
    is_upgrade req1 = false -> is_upgrade req2 = false ->
    Blacklist.serve ipp (cf_bl_mode c =? BLOCK_MODE) (cf_bl_list c) p1 (r_headers req1) = Served ->
    Blacklist.serve ipp (cf_bl_mode c =? BLOCK_MODE) (cf_bl_list c) p2 (r_headers req2) = Served ->
    get_handler (map subapp_of (cf_hosts c)) (subapp_of (cf_default_host c))
                (option_map scalars (hget (HKnown H_Host) (r_headers req1))) (scalars (r_uri req1)) = Some ch1 ->
    get_handler (map subapp_of (cf_hosts c)) (subapp_of (cf_default_host c))
                (option_map scalars (hget (HKnown H_Host) (r_headers req2))) (scalars (r_uri req2)) = Some ch2 ->
    (* the cache key: same path, same host index *)
    r_uri req1 = r_uri req2 -> fst (handler_ids ch1) = fst (handler_ids ch2) ->
    server_response ipp fs c p1 req1 = server_response ipp fs c p2 req2.
  Proof.
    intros U1 U2 V1 V2 G1 G2 Eu Eh.
    assert (Ech : ch1 = ch2).
    { rewrite <- Eu in G2. exact (route_index_function_of_key _ _ _ _ _ _ _ G1 G2 Eh). }
    subst ch2. unfold server_response. rewrite V1, V2, U1, U2, G1, G2.
    destruct (handler_ids ch1) as [h j]. destruct (get_route c h j) as [rt|]; [|reflexivity].
    now apply dispatch_function_of_uri.
  Qed.
End Key.
