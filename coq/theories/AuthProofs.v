(* Proofs for C17 (humphrey-auth). Part 1: the list-based model refines the reference map, operation by operation. *)
From Hv Require Import Prelude Auth.
From Coq Require Import Lia.
Open Scope N_scope.

(* ------------------------------------------------------------------------------------------------ *)
(* small facts about the reference map                                                                *)

Lemma holder_fun : forall r t u x t' x', holder r t u x -> holder r t' u x' -> t = t' /\ x = x'.
Proof.
  intros r t u x t' x' [e [He Hs]] [e' [He' Hs']].
  rewrite He in He'. inversion He'; subst e'. rewrite Hs in Hs'. inversion Hs'. auto.
Qed.

Lemma same_refl : forall r, same r r.
Proof. intros r; split; auto. Qed.

Lemma holder_same : forall r r' t u x, same r r' -> (holder r' t u x <-> holder r t u x).
Proof.
  intros r r' t u x [_ Hm]. unfold holder. rewrite Hm. tauto.
Qed.

Lemma holder_upd : forall r r' u v t u' x, upd r u v r' ->
  (holder r' t u' x <-> (u' = u /\ exists e, v = Some e /\ e_sess e = Some (t, x)) \/ (u' <> u /\ holder r t u' x)).
Proof.
  intros r r' u v t u' x [_ Hm]. unfold holder. rewrite Hm.
  destruct (N.eqb_spec u' u) as [E|E].
  - split.
    + intros [e [H1 H2]]. left. split; auto. exists e; auto.
    + intros [[_ [e [H1 H2]]]|[Hn _]]; [exists e; auto | congruence].
  - split.
    + intros Hh. right. auto.
    + intros [[Hn _]|[_ Hh]]; [congruence | auto].
Qed.

Lemma live_same : forall r r' t now u, same r r' -> (live r' t now u <-> live r t now u).
Proof.
  intros r r' t now u Hs. unfold live. split; intros [x [Hh Hl]]; exists x; split; auto;
  apply (holder_same _ _ t u x Hs); auto.
Qed.


(* ------------------------------------------------------------------------------------------------ *)
Section Refinement.
  Variable H : Type.
  Variable hash : pwd -> N -> list N -> H.
  Variable verify_hash : H -> pwd -> list N -> bool.
  (* Argon2: a hash verifies exactly the password and pepper it was made from *)
  Hypothesis verify_ok : forall pw salt pep pw' pep',
    verify_hash (hash pw salt pep) pw' pep' = true <-> pw' = pw /\ pep' = pep.

  Notation user := (user H).
  Notation state := (state H).
  Notation step := (step H hash verify_hash).
  Notation run := (run H hash verify_hash).
  Notation get_user_by_uid := (get_user_by_uid H).
  Notation get_user_by_token := (get_user_by_token H).
  Notation update_user := (update_user H).

  Notation wf := (Auth.wf H).
  Notation urel := (Auth.urel H hash).
  Notation Rmap := (Auth.Rmap H hash).
  Notation R := (Auth.R H hash).

  (* ---- database.rs facts ---- *)
  Lemma get_uid_some : forall db u x, get_user_by_uid db u = Some x -> In x db /\ uid x = u.
  Proof.
    intros db u x Hf. apply find_some in Hf. destruct Hf as [Hi He].
    apply N.eqb_eq in He. auto.
  Qed.

  Lemma get_uid_none : forall db u, get_user_by_uid db u = None -> ~ In u (map uid db).
  Proof.
    intros db u Hf Hin. apply in_map_iff in Hin. destruct Hin as [x [Hx Hi]].
    pose proof (find_none _ _ Hf x Hi) as Hn. cbn in Hn. apply N.eqb_neq in Hn. auto.
  Qed.

  Lemma get_uid_in : forall db x, wf db -> In x db -> get_user_by_uid db (uid x) = Some x.
  Proof.
    induction db as [|y r IH]; intros x Hwf Hin; [contradiction|].
    unfold Auth.wf in Hwf. cbn [map] in Hwf. inversion Hwf as [|? ? Hni Hnd]; subst.
    unfold Auth.get_user_by_uid. cbn [find].
    destruct Hin as [->|Hin].
    - rewrite N.eqb_refl. reflexivity.
    - destruct (N.eqb_spec (uid y) (uid x)) as [E|E].
      + exfalso. apply Hni. rewrite E. apply in_map. exact Hin.
      + apply IH; assumption.
  Qed.

  Lemma get_uid_cons : forall y r u,
    get_user_by_uid (y :: r) u = if uid y =? u then Some y else get_user_by_uid r u.
  Proof. reflexivity. Qed.

  Lemma update_user_spec : forall db nu x,
    get_user_by_uid db (uid nu) = Some x ->
    exists db', update_user db nu = Some db' /\ map uid db' = map uid db /\
                forall u', get_user_by_uid db' u' = if u' =? uid nu then Some nu else get_user_by_uid db u'.
  Proof.
    induction db as [|y r IH]; intros nu x Hg; [discriminate|].
    rewrite get_uid_cons in Hg. cbn [Auth.update_user].
    destruct (N.eqb_spec (uid y) (uid nu)) as [E|E].
    - exists (nu :: r). split; [reflexivity|]. split; [cbn [map]; congruence|].
      intros u'. rewrite !get_uid_cons. rewrite E.
      destruct (N.eqb_spec (uid nu) u') as [E1|E1]; destruct (N.eqb_spec u' (uid nu)) as [E2|E2];
        try reflexivity; congruence.
    - destruct (IH nu x Hg) as [r' [Hu [Hm Hq]]]. rewrite Hu.
      exists (y :: r'). split; [reflexivity|]. split; [cbn [map]; congruence|].
      intros u'. rewrite !get_uid_cons. rewrite Hq.
      destruct (N.eqb_spec (uid y) u') as [E1|E1]; destruct (N.eqb_spec u' (uid nu)) as [E2|E2];
        try reflexivity; congruence.
  Qed.

  Lemma get_uid_app1 : forall db nu u,
    get_user_by_uid (db ++ [nu]) u =
    match get_user_by_uid db u with Some y => Some y | None => if uid nu =? u then Some nu else None end.
  Proof.
    induction db as [|y r IH]; intros nu u.
    - reflexivity.
    - cbn [app]. rewrite !get_uid_cons. destruct (uid y =? u); [reflexivity|apply IH].
  Qed.

  Lemma get_uid_filter : forall db u u',
    get_user_by_uid (filter (fun x => negb (uid x =? u)) db) u' =
    if u' =? u then None else get_user_by_uid db u'.
  Proof.
    induction db as [|y r IH]; intros u u'.
    - cbn. destruct (u' =? u); reflexivity.
    - cbn [filter]. destruct (N.eqb_spec (uid y) u) as [E|E]; cbn [negb].
      + rewrite IH. rewrite get_uid_cons.
        destruct (N.eqb_spec u' u) as [E1|E1]; [reflexivity|].
        destruct (N.eqb_spec (uid y) u') as [E2|E2]; [congruence|reflexivity].
      + rewrite !get_uid_cons. rewrite IH.
        destruct (N.eqb_spec (uid y) u') as [E2|E2]; [|reflexivity].
        destruct (N.eqb_spec u' u) as [E1|E1]; [congruence|reflexivity].
  Qed.

  Lemma wf_filter : forall (f : user -> bool) db, wf db -> wf (filter f db).
  Proof.
    unfold Auth.wf. induction db as [|y r IH]; intros Hwf; [constructor|].
    cbn [map] in Hwf. inversion Hwf as [|? ? Hni Hnd]; subst.
    cbn [filter]. destruct (f y).
    - cbn [map]. constructor; [|apply IH; assumption].
      intros Hin. apply Hni. apply in_map_iff in Hin. destruct Hin as [z [Hz Hi]].
      apply filter_In in Hi. destruct Hi as [Hi _]. rewrite <- Hz. apply in_map. assumption.
    - apply IH; assumption.
  Qed.

  Lemma NoDup_snoc : forall (l : list N) a, NoDup l -> ~ In a l -> NoDup (l ++ [a]).
  Proof.
    induction l as [|b l IH]; intros a Hnd Hni; cbn [app].
    - constructor; [intros []|constructor].
    - inversion Hnd as [|? ? Hb Hl]; subst. constructor.
      + intros Hin. apply in_app_or in Hin. destruct Hin as [Hin|[E|[]]]; [auto|].
        subst. apply Hni. left. reflexivity.
      + apply IH; [assumption|]. intros Hin. apply Hni. right. assumption.
  Qed.

  Lemma wf_app1 : forall db nu, wf db -> get_user_by_uid db (uid nu) = None -> wf (db ++ [nu]).
  Proof.
    unfold Auth.wf. intros db nu Hwf Hn. rewrite map_app. cbn [map].
    apply NoDup_snoc; [assumption|]. apply get_uid_none. assumption.
  Qed.

  (* ---- the simulation relation ---- *)
  Lemma Rmap_some : forall db r u x, Rmap db r -> get_user_by_uid db u = Some x ->
    exists e, r_map r u = Some e /\ urel x e.
  Proof. intros db r u x HR Hg. specialize (HR u). rewrite Hg in HR. exact HR. Qed.

  Lemma Rmap_none : forall db r u, Rmap db r -> get_user_by_uid db u = None -> r_map r u = None.
  Proof. intros db r u HR Hg. specialize (HR u). rewrite Hg in HR. exact HR. Qed.

  Lemma Rmap_back : forall db r u e, Rmap db r -> r_map r u = Some e ->
    exists x, get_user_by_uid db u = Some x /\ urel x e.
  Proof.
    intros db r u e HR He. specialize (HR u). destruct (get_user_by_uid db u) as [x|].
    - destruct HR as [e' [He' Hu]]. rewrite He in He'. inversion He'; subst. exists x; auto.
    - congruence.
  Qed.

  Lemma has_token_session : forall t (x : user), has_token H t x = true -> exists e, session x = Some (t, e).
  Proof.
    intros t x Hh. unfold has_token in Hh. destruct (session x) as [[t' e]|]; [|discriminate].
    cbn [fst] in Hh. apply N.eqb_eq in Hh. subst. eauto.
  Qed.

  (* token lookup finds a holder of the reference map *)
  Lemma tok_found : forall db r t x, wf db -> Rmap db r -> get_user_by_token db t = Some x ->
    exists e xx, get_user_by_uid db (uid x) = Some x /\ session x = Some (t, xx) /\
                 r_map r (uid x) = Some e /\ urel x e /\ holder r t (uid x) xx.
  Proof.
    intros db r t x Hwf HR Hf. apply find_some in Hf. destruct Hf as [Hin Hh].
    apply has_token_session in Hh. destruct Hh as [xx Hs].
    pose proof (get_uid_in db x Hwf Hin) as Hg.
    destruct (Rmap_some _ _ _ _ HR Hg) as [e [He Hu]].
    exists e, xx. split; [exact Hg|]. split; [exact Hs|]. split; [exact He|]. split; [exact Hu|].
    exists e. split; [exact He|]. destruct Hu as [Hu _]. congruence.
  Qed.

  Lemma tok_none : forall db r t, Rmap db r -> get_user_by_token db t = None -> forall u x, ~ holder r t u x.
  Proof.
    intros db r t HR Hf u x [e [He Hs]].
    destruct (Rmap_back _ _ _ _ HR He) as [y [Hg [Hu _]]].
    apply get_uid_some in Hg. destruct Hg as [Hin _].
    pose proof (find_none _ _ Hf y Hin) as Hn. cbn in Hn.
    unfold has_token in Hn. rewrite <- Hu, Hs in Hn. cbn [fst] in Hn. rewrite N.eqb_refl in Hn. discriminate.
  Qed.

  (* the reference map after replacing the entry of u *)
  Definition rupd (r : rstate) (u : N) (v : option rentry) : rstate :=
    mkR (fun u' => if u' =? u then v else r_map r u') (r_cfg r).

  Lemma upd_rupd : forall r u v, upd r u v (rupd r u v).
  Proof. intros; split; reflexivity. Qed.

  (* replacing the session of a stored user: update_user succeeds and the relation is kept *)
  Lemma R_set_session : forall (s : state) r u x e se,
    R s r -> get_user_by_uid (users s) u = Some x -> r_map r u = Some e ->
    exists db', update_user (users s) (set_session H x se) = Some db' /\
                map uid db' = map uid (users s) /\
                R (with_db H s db') (rupd r u (Some (e_with e se))).
  Proof.
    intros s r u x e se [Hc HR] Hg He.
    pose proof (get_uid_some _ _ _ Hg) as [_ Hux].
    assert (Hg' : get_user_by_uid (users s) (uid (set_session H x se)) = Some x) by (cbn; congruence).
    destruct (update_user_spec _ _ _ Hg') as [db' [Hu [Hm Hq]]].
    exists db'. split; [exact Hu|]. split; [exact Hm|].
    split; [exact Hc|]. intros u'. cbn [users with_db]. rewrite Hq. cbn [uid set_session]. rewrite Hux.
    cbn [rupd r_map]. destruct (N.eqb_spec u' u) as [E|E].
    - exists (e_with e se). split; [reflexivity|].
      destruct (Rmap_some _ _ _ _ HR Hg) as [e0 [He0 [Hs0 [salt Hp]]]].
      rewrite He in He0. inversion He0; subst e0.
      split; [reflexivity|]. exists salt. exact Hp.
    - apply HR.
  Qed.

  (* ---- the operations, one by one ---- *)
  Lemma create_session_refines : forall (s : state) r u life now now2 tok s' o,
    wf (users s) -> R s r ->
    create_session H s u life now now2 tok = (s', o) ->
    wf (users s') /\ exists r', rcreate r u life now now2 tok r' o /\ R s' r'.
  Proof.
    intros s r u life now now2 tok s' o Hwf HR Hst. unfold create_session in Hst.
    destruct (get_user_by_uid (users s) u) as [x|] eqn:Hg.
    - destruct (Rmap_some _ _ _ _ (proj2 HR) Hg) as [e [He [Hs Hp]]].
      destruct (negb _) eqn:Hv.
      + destruct (R_set_session s r u x e (Some (new_session tok now2 life)) HR Hg He) as [db' [Hu [Hm HR']]].
        rewrite Hu in Hst. inversion Hst; subst s' o. split; [unfold Auth.wf; cbn [users with_db]; rewrite Hm; exact Hwf|].
        exists (rupd r u (Some (e_with e (Some (new_session tok now2 life))))). split; [|exact HR'].
        apply rc_ok with (e := e); [exact He| |apply upd_rupd].
        intros [t [xx [Hes Hl]]]. rewrite Hs in Hes. rewrite Hes in Hv. unfold valid in Hv. cbn [snd] in Hv.
        apply N.ltb_lt in Hl. rewrite Hl in Hv. discriminate.
      + inversion Hst; subst s' o. split; [exact Hwf|]. exists r. split; [|exact HR].
        apply rc_exists with (e := e); [exact He| |apply same_refl].
        unfold has_live_session. rewrite Hs. destruct (session x) as [[t xx]|]; [|discriminate].
        exists t, xx. split; [reflexivity|]. unfold valid in Hv. cbn [snd] in Hv.
        apply N.ltb_lt. destruct (now <? xx); [reflexivity|discriminate].
    - inversion Hst; subst s' o. split; [exact Hwf|]. exists r. split; [|exact HR].
      apply rc_nouser; [|apply same_refl]. apply (Rmap_none _ _ _ (proj2 HR) Hg).
  Qed.

  Lemma get_uid_refines : forall (s : state) r t now,
    wf (users s) -> R s r -> tok_unique r ->
    (exists u, get_uid_by_token H s t now = Ok (VId u) /\ live r t now u) \/
    (get_uid_by_token H s t now = Err EInvalidToken /\ dead r t now).
  Proof.
    intros s r t now Hwf [Hc HR] Huq. unfold get_uid_by_token.
    destruct (get_user_by_token (users s) t) as [x|] eqn:Hf.
    - destruct (tok_found _ _ _ _ Hwf HR Hf) as [e [xx [Hg [Hs [He [Hu Hh]]]]]].
      rewrite Hs. unfold valid. cbn [snd]. destruct (N.ltb_spec now xx) as [Hl|Hl].
      + left. exists (uid x). split; [reflexivity|]. exists xx. split; assumption.
      + right. split; [reflexivity|]. intros u' x' Hh'.
        pose proof (Huq _ _ _ _ _ Hh Hh') as Eu. subst u'.
        destruct (holder_fun _ _ _ _ _ _ Hh Hh') as [_ Ex]. subst x'. exact Hl.
    - right. split; [reflexivity|]. intros u x Hh. exfalso. exact (tok_none _ _ _ HR Hf u x Hh).
  Qed.

  Theorem step_refines : forall (s : state) r o s' x,
    wf (users s) -> R s r -> tok_unique r ->
    step s o = (s', x) ->
    wf (users s') /\ exists r', rstep r o r' x /\ R s' r'.
  Proof.
    intros s r o s' x Hwf HR Huq Hst. pose proof HR as [Hc HRm].
    destruct o as [pw fu salt|u|u pw|u|u now now2 tok|u life now now2 tok|t now now2|t|u|t now|cookie now|c];
      cbn [Auth.step] in Hst.
    - (* create_user *)
      unfold add_user in Hst. cbn [uid] in Hst.
      destruct (get_user_by_uid (users s) fu) as [y|] eqn:Hg.
      + inversion Hst; subst s' x. split; [exact Hwf|]. exists r. split; [|exact HR].
        apply rs_create_user_clash; [|apply same_refl].
        destruct (Rmap_some _ _ _ _ HRm Hg) as [e [He _]]. congruence.
      + inversion Hst; subst s' x. split.
        * cbn [users with_db]. apply wf_app1; [exact Hwf|exact Hg].
        * exists (rupd r fu (Some (mkEntry pw (secret_of (c_pepper (r_cfg r))) None))). split.
          -- apply rs_create_user_ok; [apply (Rmap_none _ _ _ HRm Hg)|apply upd_rupd].
          -- split; [exact Hc|]. intros u'. cbn [users with_db]. rewrite get_uid_app1. cbn [uid rupd r_map].
             destruct (get_user_by_uid (users s) u') as [y|] eqn:Hg'.
             ++ destruct (N.eqb_spec u' fu) as [E|E]; [subst; congruence|].
                apply (Rmap_some _ _ _ _ HRm Hg').
             ++ rewrite (N.eqb_sym fu u'). destruct (N.eqb_spec u' fu) as [E|E].
                ** eexists. split; [reflexivity|]. split; [reflexivity|]. exists salt. cbn. rewrite Hc. reflexivity.
                ** apply (Rmap_none _ _ _ HRm Hg').
    - (* exists *)
      inversion Hst; subst s' x. split; [exact Hwf|]. exists r. split; [|exact HR].
      apply rs_exists; [apply same_refl|].
      destruct (get_user_by_uid (users s) u) as [y|] eqn:Hg.
      + destruct (Rmap_some _ _ _ _ HRm Hg) as [e [He _]]. split; [congruence|reflexivity].
      + rewrite (Rmap_none _ _ _ HRm Hg). split; [discriminate|congruence].
    - (* verify *)
      inversion Hst; subst s' x. split; [exact Hwf|]. exists r. split; [|exact HR].
      apply rs_verify; [apply same_refl|].
      destruct (get_user_by_uid (users s) u) as [y|] eqn:Hg.
      + destruct (Rmap_some _ _ _ _ HRm Hg) as [e [He [_ [sl Hp]]]]. rewrite Hp. rewrite verify_ok. rewrite <- Hc.
        split.
        * intros [E1 E2]. exists e. auto.
        * intros [e' [He' [E1 E2]]]. rewrite He in He'. inversion He'; subst e'. auto.
      + rewrite (Rmap_none _ _ _ HRm Hg). split; [discriminate|]. intros [e [He _]]. discriminate.
    - (* remove_user *)
      unfold remove_user in Hst. destruct (get_user_by_uid (users s) u) as [y|] eqn:Hg.
      + inversion Hst; subst s' x. split; [cbn [users with_db]; apply wf_filter; exact Hwf|].
        exists (rupd r u None). split.
        * apply rs_remove_ok; [|apply upd_rupd]. destruct (Rmap_some _ _ _ _ HRm Hg) as [e [He _]]. congruence.
        * split; [exact Hc|]. intros u'. cbn [users with_db]. rewrite get_uid_filter. cbn [rupd r_map].
          destruct (u' =? u); [reflexivity|apply HRm].
      + inversion Hst; subst s' x. split; [exact Hwf|]. exists r. split; [|exact HR].
        apply rs_remove_nouser; [apply (Rmap_none _ _ _ HRm Hg)|apply same_refl].
    - (* create_session *)
      destruct (create_session_refines _ _ _ _ _ _ _ _ _ Hwf HR Hst) as [Hwf' [r' [Hrc HR']]].
      split; [exact Hwf'|]. exists r'. split; [|exact HR']. apply rs_create_session. rewrite <- Hc. exact Hrc.
    - (* create_session_with_lifetime *)
      destruct (create_session_refines _ _ _ _ _ _ _ _ _ Hwf HR Hst) as [Hwf' [r' [Hrc HR']]].
      split; [exact Hwf'|]. exists r'. split; [|exact HR']. apply rs_create_session_lt. exact Hrc.
    - (* refresh_session *)
      unfold refresh in Hst. destruct (get_user_by_token (users s) t) as [y|] eqn:Hf.
      + destruct (tok_found _ _ _ _ Hwf HRm Hf) as [e [xx [Hg [Hs [He [Hu Hh]]]]]].
        rewrite Hs in Hst. unfold valid in Hst. cbn [snd fst] in Hst.
        destruct (N.ltb_spec now xx) as [Hl|Hl].
        * destruct (R_set_session s r (uid y) y e (Some (t, sat_add now2 (c_refresh (cfg s)))) HR Hg He)
            as [db' [Hup [Hm HR']]].
          rewrite Hup in Hst. inversion Hst; subst s' x.
          split; [unfold Auth.wf; cbn [users with_db]; rewrite Hm; exact Hwf|].
          eexists. split; [|exact HR'].
          apply rs_refresh_ok with (u := uid y) (e := e) (x := xx); auto.
          -- destruct Hu as [Hu _]. congruence.
          -- rewrite <- Hc. apply upd_rupd.
        * inversion Hst; subst s' x. split; [exact Hwf|]. exists r. split; [|exact HR].
          apply rs_refresh_dead; [|apply same_refl]. intros u' x' Hh'.
          pose proof (Huq _ _ _ _ _ Hh Hh') as Eu. subst u'.
          destruct (holder_fun _ _ _ _ _ _ Hh Hh') as [_ Ex]. subst x'. exact Hl.
      + inversion Hst; subst s' x. split; [exact Hwf|]. exists r. split; [|exact HR].
        apply rs_refresh_dead; [|apply same_refl]. intros u x Hh. exfalso. exact (tok_none _ _ _ HRm Hf u x Hh).
    - (* invalidate_session *)
      unfold invalidate_session in Hst. destruct (get_user_by_token (users s) t) as [y|] eqn:Hf.
      + destruct (tok_found _ _ _ _ Hwf HRm Hf) as [e [xx [Hg [Hs [He [Hu Hh]]]]]].
        destruct (R_set_session s r (uid y) y e None HR Hg He) as [db' [Hup [Hm HR']]].
        rewrite Hup in Hst. inversion Hst; subst s' x.
        split; [unfold Auth.wf; cbn [users with_db]; rewrite Hm; exact Hwf|].
        eexists. split; [|exact HR'].
        apply rs_invalidate_held with (u := uid y) (e := e) (x := xx); [exact He| |apply upd_rupd].
        destruct Hu as [Hu _]. congruence.
      + inversion Hst; subst s' x. split; [exact Hwf|]. exists r. split; [|exact HR].
        apply rs_invalidate_unknown; [|apply same_refl]. exact (tok_none _ _ _ HRm Hf).
    - (* invalidate_user_session *)
      unfold invalidate_user_session in Hst. destruct (get_user_by_uid (users s) u) as [y|] eqn:Hg.
      + destruct (Rmap_some _ _ _ _ HRm Hg) as [e [He _]].
        destruct (R_set_session s r u y e None HR Hg He) as [db' [Hup [Hm HR']]].
        rewrite Hup in Hst. inversion Hst; subst s' x.
        split; [unfold Auth.wf; cbn [users with_db]; rewrite Hm; exact Hwf|].
        eexists. split; [|exact HR'].
        apply rs_invalidate_user with (e := e); [exact He|apply upd_rupd].
      + inversion Hst; subst s' x. split; [exact Hwf|]. exists r. split; [|exact HR].
        apply rs_invalidate_nouser; [apply (Rmap_none _ _ _ HRm Hg)|apply same_refl].
    - (* get_uid_by_token *)
      inversion Hst; subst s' x. split; [exact Hwf|]. exists r. split; [|exact HR].
      destruct (get_uid_refines s r t now Hwf HR Huq) as [[u [Ho Hl]]|[Ho Hd]]; rewrite Ho.
      + apply rs_get_live; [exact Hl|apply same_refl].
      + apply rs_get_dead; [exact Hd|apply same_refl].
    - (* auth route *)
      inversion Hst; subst s' x. split; [exact Hwf|]. exists r. split; [|exact HR].
      unfold auth_route. destruct cookie as [t|].
      + destruct (get_uid_refines s r t now Hwf HR Huq) as [[u [Ho Hl]]|[Ho Hd]]; rewrite Ho.
        * apply rs_route_live; [exact Hl|apply same_refl].
        * apply rs_route_dead; [exact Hd|apply same_refl].
      + apply rs_route_nocookie. apply same_refl.
    - (* with_config *)
      inversion Hst; subst s' x. split; [exact Hwf|].
      exists (mkR (r_map r) c). split.
      + apply rs_set_config; reflexivity.
      + split; [reflexivity|exact HRm].
  Qed.
End Refinement.

(* ================================================================================================ *)
(* Part 2: the reference map against the token-centred reading of a history (tok_status, cred_status) *)

Definition fresh_ok (r : rstate) (o : op) : Prop :=
  forall tk, In tk (op_fresh_tok o) -> forall u x, ~ holder r tk u x.

Definition hist_tok_ok (r : rstate) (t : N) (a : config * option (N * N)) : Prop :=
  fst a = r_cfg r /\ forall u x, snd a = Some (u, x) <-> holder r t u x.

Definition hist_cred_ok (r : rstate) (u : N) (a : config * option (pwd * list N)) : Prop :=
  fst a = r_cfg r /\
  forall pw pep, snd a = Some (pw, pep) <-> exists e, r_map r u = Some e /\ e_pw e = pw /\ e_pep e = pep.

Lemma drop_owner_some : forall u st u0 x0,
  drop_owner u st = Some (u0, x0) <-> st = Some (u0, x0) /\ u0 <> u.
Proof.
  intros u st u0 x0. unfold drop_owner. destruct st as [[u' x']|].
  - destruct (N.eqb_spec u' u) as [E|E].
    + split; [discriminate|]. intros [E1 E2]. inversion E1; subst. congruence.
    + split.
      * intros E1. inversion E1; subst. auto.
      * intros [E1 _]. exact E1.
  - split; [discriminate|]. intros [E1 _]. discriminate.
Qed.

Lemma drop_owner_id : forall u st, (forall x, st <> Some (u, x)) -> drop_owner u st = st.
Proof.
  intros u st Hn. unfold drop_owner. destruct st as [[u' x']|]; [|reflexivity].
  destruct (N.eqb_spec u' u) as [E|E]; [|reflexivity]. subst. exfalso. apply (Hn x'). reflexivity.
Qed.

Lemma ok_same : forall r r' t a, same r r' -> hist_tok_ok r t a -> hist_tok_ok r' t a.
Proof.
  intros r r' t a Hs [Hc Hst]. split.
  - destruct Hs as [Hs _]. congruence.
  - intros u x. rewrite (holder_same _ _ t u x Hs). apply Hst.
Qed.

(* the entry of u is replaced by one without a session (or removed) *)
Lemma ok_upd_nosess : forall r r' t u v c st,
  upd r u v r' -> (forall e, v = Some e -> e_sess e = None) ->
  hist_tok_ok r t (c, st) -> hist_tok_ok r' t (c, drop_owner u st).
Proof.
  intros r r' t u v c st Hu Hv [Hc Hst]. unfold hist_tok_ok. cbn [fst snd] in *. split.
  - destruct Hu as [Hu _]. congruence.
  - intros u0 x0. rewrite drop_owner_some. rewrite (holder_upd _ _ _ _ t u0 x0 Hu). rewrite Hst. split.
    + intros [Hh Hn]. right. auto.
    + intros [[_ [e [He Hs]]]|[Hn Hh]]; [|auto]. rewrite (Hv e He) in Hs. discriminate.
Qed.

(* the entry of u now carries another token *)
Lemma ok_upd_sess_other : forall r r' t u e' tk X c st,
  upd r u (Some e') r' -> e_sess e' = Some (tk, X) -> tk <> t ->
  hist_tok_ok r t (c, st) -> hist_tok_ok r' t (c, drop_owner u st).
Proof.
  intros r r' t u e' tk X c st Hu He Hn [Hc Hst]. unfold hist_tok_ok. cbn [fst snd] in *. split.
  - destruct Hu as [Hu _]. congruence.
  - intros u0 x0. rewrite drop_owner_some. rewrite (holder_upd _ _ _ _ t u0 x0 Hu). rewrite Hst. split.
    + intros [Hh Hne]. right. auto.
    + intros [[_ [e [E Hs]]]|[Hne Hh]]; [|auto]. inversion E; subst e. rewrite He in Hs. inversion Hs. congruence.
Qed.

(* the entry of u now carries t itself, and nobody else holds t *)
Lemma ok_upd_sess_this : forall r r' t u e' X c st,
  upd r u (Some e') r' -> e_sess e' = Some (t, X) ->
  (forall u0 x0, holder r t u0 x0 -> u0 = u) ->
  hist_tok_ok r t (c, st) -> hist_tok_ok r' t (c, Some (u, X)).
Proof.
  intros r r' t u e' X c st Hu He Honly [Hc Hst]. unfold hist_tok_ok. cbn [fst snd] in *. split.
  - destruct Hu as [Hu _]. congruence.
  - intros u0 x0. rewrite (holder_upd _ _ _ _ t u0 x0 Hu). split.
    + intros E. inversion E; subst. left. split; [reflexivity|]. exists e'. auto.
    + intros [[Eu [e [E Hs]]]|[Hne Hh]].
      * inversion E; subst e. rewrite He in Hs. inversion Hs. subst. reflexivity.
      * exfalso. apply Hne. apply (Honly _ _ Hh).
Qed.

Lemma hist_unique : forall r t a u x u' x',
  hist_tok_ok r t a -> holder r t u x -> holder r t u' x' -> u = u' /\ x = x'.
Proof.
  intros r t a u x u' x' [_ Hst] H1 H2. apply Hst in H1. apply Hst in H2. rewrite H1 in H2. inversion H2. auto.
Qed.

Lemma not_owner_other_token : forall r t t' u x st c,
  hist_tok_ok r t (c, st) -> holder r t' u x -> t' <> t -> forall x0, st <> Some (u, x0).
Proof.
  intros r t t' u x st c [_ Hst] Hh Hn x0 E. cbn [snd] in Hst. apply Hst in E.
  destruct (holder_fun _ _ _ _ _ _ Hh E) as [E1 _]. congruence.
Qed.

Lemma not_owner_no_entry : forall r t u st c,
  hist_tok_ok r t (c, st) -> r_map r u = None -> forall x0, st <> Some (u, x0).
Proof.
  intros r t u st c [_ Hst] Hn x0 E. cbn [snd] in Hst. apply Hst in E. destruct E as [e [He _]]. congruence.
Qed.

Lemma rcreate_tok_ok : forall r u life now now2 tok r' x t c st,
  rcreate r u life now now2 tok r' x ->
  (forall u0 x0, ~ holder r tok u0 x0) ->
  hist_tok_ok r t (c, st) ->
  hist_tok_ok r' t match x with
                   | Ok _ => (c, if tok =? t then Some (u, sat_add now2 life) else drop_owner u st)
                   | _ => (c, st)
                   end.
Proof.
  intros r u life now now2 tok r' x t c st Hc Hfr Hok.
  inversion Hc as [r1 Hn Hs|r1 e He Hl Hs|r1 e He Hl Hu]; subst.
  - apply (ok_same _ _ _ _ Hs Hok).
  - apply (ok_same _ _ _ _ Hs Hok).
  - destruct (N.eqb_spec tok t) as [E|E].
    + subst tok. eapply ok_upd_sess_this; [exact Hu|reflexivity| |exact Hok].
      intros u0 x0 Hh. exfalso. apply (Hfr _ _ Hh).
    + eapply ok_upd_sess_other; [exact Hu|reflexivity|exact E|exact Hok].
Qed.

Lemma tok_event_ok : forall r o r' x t a,
  rstep r o r' x -> fresh_ok r o -> hist_tok_ok r t a -> hist_tok_ok r' t (tok_event t a (o, x)).
Proof.
  intros r o r' x t [c st] Hstep Hfr Hok. pose proof Hok as [Hc Hst]. cbn [fst snd] in Hc, Hst.
  inversion Hstep; subst; cbn [tok_event].
  - (* create_user ok *)
    rewrite <- (drop_owner_id fu st); [|apply (not_owner_no_entry _ _ _ _ _ Hok); assumption].
    eapply ok_upd_nosess; [eassumption| |exact Hok]. intros e E. inversion E. reflexivity.
  - eapply ok_same; eassumption.
  - eapply ok_same; eassumption.
  - eapply ok_same; eassumption.
  - (* remove ok *)
    eapply ok_upd_nosess; [eassumption| |exact Hok]. intros e E. discriminate.
  - (* remove, no such user *)
    rewrite (drop_owner_id u st); [|apply (not_owner_no_entry _ _ _ _ _ Hok); assumption].
    eapply ok_same; eassumption.
  - (* create_session *)
    match goal with Hr : rcreate _ _ _ _ _ _ _ _ |- _ =>
      pose proof (rcreate_tok_ok _ _ _ _ _ _ _ _ t (r_cfg r) st Hr) as Hx end.
    apply Hx; [intros u0 x0; apply Hfr; left; reflexivity|exact Hok].
  - (* create_session_with_lifetime *)
    match goal with Hr : rcreate _ _ _ _ _ _ _ _ |- _ =>
      pose proof (rcreate_tok_ok _ _ _ _ _ _ _ _ t (r_cfg r) st Hr) as Hx end.
    apply Hx; [intros u0 x0; apply Hfr; left; reflexivity|exact Hok].
  - (* refresh ok *)
    match goal with He : r_map r ?u = Some ?e, Hs : e_sess ?e = Some (?t0, ?xx) |- _ =>
      assert (Hh : holder r t0 u xx) by (exists e; auto) end.
    destruct (N.eqb_spec t0 t) as [E|E].
    + subst t0. pose proof (proj2 (Hst _ _) Hh) as Est. rewrite Est.
      eapply ok_upd_sess_this; [eassumption|reflexivity| |exact Hok].
      intros uu xx0 Hh0. destruct (hist_unique _ _ _ _ _ _ _ Hok Hh0 Hh). assumption.
    + rewrite <- (drop_owner_id u st); [|apply (not_owner_other_token _ _ _ _ _ _ _ Hok Hh E)].
      eapply ok_upd_sess_other; [eassumption|reflexivity|exact E|exact Hok].
  - eapply ok_same; eassumption.
  - (* invalidate held *)
    match goal with He : r_map r ?u = Some ?e, Hs : e_sess ?e = Some (?t0, ?xx) |- _ =>
      assert (Hh : holder r t0 u xx) by (exists e; auto) end.
    destruct (N.eqb_spec t0 t) as [E|E].
    + subst t0. pose proof (proj2 (Hst _ _) Hh) as Est.
      replace (@None (N * N)) with (drop_owner u st).
      * eapply ok_upd_nosess; [eassumption| |exact Hok]. intros e0 E0. inversion E0. reflexivity.
      * rewrite Est. cbn [drop_owner]. rewrite N.eqb_refl. reflexivity.
    + rewrite <- (drop_owner_id u st); [|apply (not_owner_other_token _ _ _ _ _ _ _ Hok Hh E)].
      eapply ok_upd_nosess; [eassumption| |exact Hok]. intros e0 E0. inversion E0. reflexivity.
  - (* invalidate unknown *)
    destruct (N.eqb_spec t0 t) as [E|E].
    + subst t0. assert (Est : st = None).
      { destruct st as [[u0 x0]|]; [|reflexivity]. exfalso.
        match goal with Hno : forall u x, ~ holder r t u x |- _ => apply (Hno u0 x0) end.
        apply Hst. reflexivity. }
      rewrite <- Est. eapply ok_same; eassumption.
    + eapply ok_same; eassumption.
  - (* invalidate user *)
    eapply ok_upd_nosess; [eassumption| |exact Hok]. intros e0 E0. inversion E0. reflexivity.
  - (* invalidate user, no such user *)
    rewrite (drop_owner_id u st); [|apply (not_owner_no_entry _ _ _ _ _ Hok); assumption].
    eapply ok_same; eassumption.
  - eapply ok_same; eassumption.
  - eapply ok_same; eassumption.
  - eapply ok_same; eassumption.
  - eapply ok_same; eassumption.
  - eapply ok_same; eassumption.
  - (* with_config *)
    split; [reflexivity|]. cbn [snd]. intros u0 x0. rewrite Hst. unfold holder.
    match goal with Hm : forall u, r_map r' u = r_map r u |- _ => rewrite Hm end. tauto.
Qed.

(* ---- credentials ---- *)
Lemma cred_same : forall r r' u a, same r r' -> hist_cred_ok r u a -> hist_cred_ok r' u a.
Proof.
  intros r r' u a [Hs Hm] [Hc Hst]. split; [congruence|]. intros pw pep. rewrite Hm. apply Hst.
Qed.

(* an entry is replaced by one with the same password and pepper *)
Lemma cred_upd_keep : forall r r' u0 e e' u a,
  upd r u0 (Some e') r' -> r_map r u0 = Some e -> e_pw e' = e_pw e -> e_pep e' = e_pep e ->
  hist_cred_ok r u a -> hist_cred_ok r' u a.
Proof.
  intros r r' u0 e e' u a [Hs Hm] He Hpw Hpep [Hc Hst]. split; [congruence|].
  intros pw pep. rewrite Hst. rewrite Hm. destruct (N.eqb_spec u u0) as [E|E]; [|tauto].
  subst u0. rewrite He. split; intros [e1 [E1 [E2 E3]]]; inversion E1; subst e1.
  - exists e'. repeat split; congruence.
  - exists e. repeat split; congruence.
Qed.

Lemma cred_event_ok : forall r o r' x u a,
  rstep r o r' x -> hist_cred_ok r u a -> hist_cred_ok r' u (cred_event u a (o, x)).
Proof.
  intros r o r' x u [c st] Hstep Hok. pose proof Hok as [Hc Hst]. cbn [fst snd] in Hc, Hst.
  inversion Hstep; subst; cbn [cred_event];
    try (eapply cred_same; eassumption);
    try (eapply cred_upd_keep; [eassumption|eassumption|reflexivity|reflexivity|exact Hok]).
  - (* create_user ok *)
    match goal with Hu : upd r fu _ r' |- _ => destruct Hu as [Hs Hm] end.
    split; [cbn [fst]; congruence|]. cbn [snd]. intros pw0 pep0. rewrite Hm.
    destruct (N.eqb_spec fu u) as [E|E].
    + subst fu. rewrite N.eqb_refl. split.
      * intros E1. inversion E1; subst. eexists. split; [reflexivity|]. auto.
      * intros [e [E1 [E2 E3]]]. inversion E1; subst e. cbn in E2, E3. congruence.
    + rewrite (N.eqb_sym u fu). destruct (N.eqb_spec fu u) as [E'|_]; [congruence|]. apply Hst.
  - (* remove ok *)
    match goal with Hu : upd r ?u1 None r' |- _ => destruct Hu as [Hs Hm] end.
    split; [cbn [fst]; congruence|]. cbn [snd]. intros pw0 pep0. rewrite Hm.
    rewrite (N.eqb_sym u0 u). destruct (u =? u0).
    + split; [discriminate|]. intros [e [E1 _]]. discriminate.
    + apply Hst.
  - (* create_session *)
    match goal with Hr : rcreate _ _ _ _ _ _ _ _ |- _ => inversion Hr; subst end.
    + eapply cred_same; eassumption.
    + eapply cred_same; eassumption.
    + eapply cred_upd_keep; [eassumption|eassumption|reflexivity|reflexivity|exact Hok].
  - match goal with Hr : rcreate _ _ _ _ _ _ _ _ |- _ => inversion Hr; subst end.
    + eapply cred_same; eassumption.
    + eapply cred_same; eassumption.
    + eapply cred_upd_keep; [eassumption|eassumption|reflexivity|reflexivity|exact Hok].
  - (* with_config *)
    split; [reflexivity|]. cbn [snd]. intros pw0 pep0. rewrite Hst.
    match goal with Hm : forall u, r_map r' u = r_map r u |- _ => rewrite Hm end. tauto.
Qed.

(* ---- whole histories on the reference ---- *)
Definition fresh_for (r : rstate) (ops : list op) : Prop :=
  NoDup (fresh_toks ops) /\ forall t, In t (fresh_toks ops) -> forall u x, ~ holder r t u x.

Lemma tok_event_some : forall t a o x u xx,
  snd (tok_event t a (o, x)) = Some (u, xx) ->
  (exists u0 x0, snd a = Some (u0, x0)) \/ In t (op_fresh_tok o).
Proof.
  intros t [c st] o x u xx Hs.
  assert (Hst : forall u1 x1, st = Some (u1, x1) -> (exists u0 x0, snd (c, st) = Some (u0, x0)) \/ In t (op_fresh_tok o))
    by (intros u1 x1 E; left; exists u1, x1; exact E).
  assert (Hdrop : forall u2 u1 x1, drop_owner u2 st = Some (u1, x1) ->
                  (exists u0 x0, snd (c, st) = Some (u0, x0)) \/ In t (op_fresh_tok o))
    by (intros u2 u1 x1 E; apply drop_owner_some in E; destruct E as [E _]; eapply Hst; exact E).
  destruct o; destruct x; cbn [tok_event snd] in Hs; eauto;
    try (match type of Hs with context [?a =? ?b] => destruct (N.eqb_spec a b) as [E|E] end;
         [try subst; try discriminate; try (right; left; reflexivity)|eauto]).
  destruct st as [[u1 x1]|]; [eauto|discriminate].
Qed.

Lemma NoDup_app_r : forall (l1 l2 : list N), NoDup (l1 ++ l2) -> NoDup l2.
Proof.
  induction l1 as [|a l1 IH]; intros l2 Hnd; [exact Hnd|].
  cbn [app] in Hnd. inversion Hnd; subst. apply IH. assumption.
Qed.

Lemma NoDup_app_disj : forall (l1 l2 : list N) a, NoDup (l1 ++ l2) -> In a l1 -> In a l2 -> False.
Proof.
  induction l1 as [|b l1 IH]; intros l2 a Hnd H1 H2; [contradiction|].
  cbn [app] in Hnd. inversion Hnd as [|? ? Hni Hnd']; subst. destruct H1 as [->|H1].
  - apply Hni. apply in_or_app. right. exact H2.
  - eapply IH; eassumption.
Qed.

Lemma rstep_holders : forall r o r' x t u xx,
  rstep r o r' x -> fresh_ok r o -> (forall t0, exists a, hist_tok_ok r t0 a) ->
  holder r' t u xx -> (exists u0 x0, holder r t u0 x0) \/ In t (op_fresh_tok o).
Proof.
  intros r o r' x t u xx Hstep Hfr Hall Hh. destruct (Hall t) as [a Hok].
  pose proof (tok_event_ok _ _ _ _ t a Hstep Hfr Hok) as [_ Hst'].
  apply Hst' in Hh. apply tok_event_some in Hh. destruct Hh as [[u0 [x0 E]]|Hin]; [|right; exact Hin].
  left. exists u0, x0. apply (proj2 Hok). exact E.
Qed.

Lemma fresh_for_step : forall r o r' x ops,
  rstep r o r' x -> (forall t0, exists a, hist_tok_ok r t0 a) ->
  fresh_for r (o :: ops) -> fresh_ok r o /\ fresh_for r' ops.
Proof.
  intros r o r' x ops Hstep Hall [Hnd Hno]. unfold fresh_toks in Hnd, Hno. cbn [flat_map] in Hnd, Hno.
  assert (Hfr : fresh_ok r o).
  { intros tk Hin. apply Hno. apply in_or_app. left. exact Hin. }
  split; [exact Hfr|]. split.
  - apply NoDup_app_r in Hnd. exact Hnd.
  - intros t Hin u xx Hh. destruct (rstep_holders _ _ _ _ _ _ _ Hstep Hfr Hall Hh) as [[u0 [x0 Hh0]]|Hin0].
    + apply (Hno t (in_or_app _ _ _ (or_intror Hin)) u0 x0 Hh0).
    + exact (NoDup_app_disj _ _ _ Hnd Hin0 Hin).
Qed.

Lemma rrun_hist : forall r ops outs r',
  rrun r ops outs r' -> fresh_for r ops ->
  forall (ta : N -> config * option (N * N)) (ca : N -> config * option (pwd * list N)),
    (forall t, hist_tok_ok r t (ta t)) -> (forall u, hist_cred_ok r u (ca u)) ->
    (forall t, hist_tok_ok r' t (fold_left (tok_event t) (combine ops outs) (ta t))) /\
    (forall u, hist_cred_ok r' u (fold_left (cred_event u) (combine ops outs) (ca u))).
Proof.
  intros r ops outs r' Hrun. induction Hrun as [r r' Hs|r o x r1 ops xs r2 Hstep Hrun IH]; intros Hff ta ca Ht Hcr.
  - cbn [combine fold_left]. split; [intros t; apply (ok_same r r' t _ Hs); apply Ht|intros u; apply (cred_same r r' u _ Hs); apply Hcr].
  - cbn [combine fold_left].
    assert (Hall : forall t0, exists a, hist_tok_ok r t0 a) by (intros t0; exists (ta t0); apply Ht).
    destruct (fresh_for_step _ _ _ _ _ Hstep Hall Hff) as [Hfr Hff'].
    apply (IH Hff' (fun t => tok_event t (ta t) (o, x)) (fun u => cred_event u (ca u) (o, x))).
    + intros t. apply (tok_event_ok r o r1 x t (ta t) Hstep Hfr (Ht t)).
    + intros u. apply (cred_event_ok r o r1 x u (ca u) Hstep (Hcr u)).
Qed.

(* ---- verdicts, and tokens that stay dead ---- *)
Lemma presents_time : forall o t now, presents o = Some (t, now) -> In now (op_times o).
Proof.
  intros o t now Hp. destruct o as [| | | | | |t0 n n2| | |t0 n|[t0|] n|]; cbn in Hp; try discriminate;
    inversion Hp; subst; cbn; auto.
Qed.

Lemma presents_not_fresh : forall o t now, presents o = Some (t, now) -> op_fresh_tok o = [].
Proof.
  intros o t now Hp. destruct o as [| | | | | |t0 n n2| | |t0 n|[t0|] n|]; cbn in Hp; try discriminate; reflexivity.
Qed.

(* the reference answers a presented token by the verdict on its holder *)
Lemma rstep_presented : forall r o r' x t now,
  rstep r o r' x -> presents o = Some (t, now) ->
  (exists u, live r t now u /\ x = accept_out o u) \/ (dead r t now /\ same r r' /\ x = reject_out o).
Proof.
  intros r o r' x t now Hstep Hp.
  destruct o as [| | | | | |t0 n n2| | |t0 n|[t0|] n|]; cbn in Hp; try discriminate; inversion Hp; subst;
    inversion Hstep; subst.
  - left. exists u. split; [|reflexivity]. exists x0. split; [|assumption]. exists e. auto.
  - right. auto.
  - left. exists u. auto.
  - right. auto.
  - left. exists u. auto.
  - right. auto.
Qed.

Lemma live_not_dead : forall r t now u lo, live r t now u -> dead r t lo -> lo <= now -> False.
Proof.
  intros r t now u lo [x [Hh Hl]] Hd Hle. specialize (Hd _ _ Hh). lia.
Qed.

Lemma dead_same : forall r r' t lo, same r r' -> dead r t lo -> dead r' t lo.
Proof.
  intros r r' t lo Hs Hd u x Hh. apply (holder_same _ _ t u x Hs) in Hh. apply (Hd _ _ Hh).
Qed.

Lemma dead_upd : forall r r' u v t lo,
  upd r u v r' -> (forall e x0, v = Some e -> e_sess e = Some (t, x0) -> x0 <= lo) ->
  dead r t lo -> dead r' t lo.
Proof.
  intros r r' u v t lo Hu Hv Hd u0 x0 Hh. apply (holder_upd _ _ _ _ t u0 x0 Hu) in Hh.
  destruct Hh as [[_ [e [E Hs]]]|[_ Hh]]; [apply (Hv e x0 E Hs)|apply (Hd _ _ Hh)].
Qed.

Lemma dead_step : forall r o r' x t lo,
  rstep r o r' x -> dead r t lo -> (forall tm, In tm (op_times o) -> lo <= tm) -> ~ In t (op_fresh_tok o) ->
  dead r' t lo.
Proof.
  intros r o r' x t lo Hstep Hd Htm Hfr.
  inversion Hstep; subst; try (eapply dead_same; eassumption);
    try (eapply dead_upd; [eassumption| |exact Hd]; intros e0 xx0 E Hs; inversion E; subst; cbn in Hs; discriminate).
  - (* create_session *)
    match goal with Hr : rcreate _ _ _ _ _ _ _ _ |- _ => inversion Hr; subst end;
      try (eapply dead_same; eassumption).
    eapply dead_upd; [eassumption| |exact Hd]. intros e0 xx0 E Hs. inversion E; subst. cbn in Hs. inversion Hs; subst.
    exfalso. apply Hfr. left. reflexivity.
  - match goal with Hr : rcreate _ _ _ _ _ _ _ _ |- _ => inversion Hr; subst end;
      try (eapply dead_same; eassumption).
    eapply dead_upd; [eassumption| |exact Hd]. intros e0 xx0 E Hs. inversion E; subst. cbn in Hs. inversion Hs; subst.
    exfalso. apply Hfr. left. reflexivity.
  - (* refresh ok: impossible for a dead token, harmless for the others *)
    eapply dead_upd; [eassumption| |exact Hd]. intros e0 xx0 E Hs. inversion E; subst. cbn in Hs. inversion Hs; subst.
    exfalso. assert (Hh : holder r t u x0) by (exists e; auto).
    specialize (Hd _ _ Hh). assert (lo <= now) by (apply Htm; left; reflexivity). lia.
  - (* with_config *)
    intros u0 x0 [e [He Hs]]. apply (Hd u0 x0). exists e. split; [|exact Hs].
    match goal with Hm : forall u, r_map r' u = r_map r u |- _ => rewrite <- Hm end. exact He.
Qed.

Lemma dead_rrun : forall r ops outs r' t lo,
  rrun r ops outs r' -> dead r t lo -> (forall tm, In tm (times ops) -> lo <= tm) -> ~ In t (fresh_toks ops) ->
  forall o x now, In (o, x) (combine ops outs) -> presents o = Some (t, now) -> x = reject_out o.
Proof.
  intros r ops outs r' t lo Hrun. induction Hrun as [r r' Hs|r o x r1 ops xs r2 Hstep Hrun IH];
    intros Hd Htm Hfr o0 x0 now Hin Hp; [contradiction|].
  unfold times in Htm. unfold fresh_toks in Hfr. cbn [flat_map] in Htm, Hfr. cbn [combine] in Hin.
  destruct Hin as [E|Hin].
  - inversion E; subst o0 x0.
    destruct (rstep_presented _ _ _ _ _ _ Hstep Hp) as [[u [Hl _]]|[_ [_ Ex]]]; [|exact Ex].
    exfalso. apply (live_not_dead _ _ _ _ _ Hl Hd). apply Htm. apply in_or_app. left. apply (presents_time _ _ _ Hp).
  - apply (IH) with (now := now); auto.
    + eapply dead_step; [exact Hstep|exact Hd| |].
      * intros tm Hi. apply Htm. apply in_or_app. left. exact Hi.
      * intros Hi. apply Hfr. apply in_or_app. left. exact Hi.
    + intros tm Hi. apply Htm. apply in_or_app. right. exact Hi.
    + intros Hi. apply Hfr. apply in_or_app. right. exact Hi.
Qed.

Lemma rstep_no_crash : forall r o r' x, rstep r o r' x -> is_crash x = false.
Proof.
  intros r o r' x Hstep. inversion Hstep; subst; try reflexivity;
    match goal with Hr : rcreate _ _ _ _ _ _ _ _ |- _ => inversion Hr; reflexivity end.
Qed.

Lemma nd_from_le : forall l lo, nondecreasing_from lo l -> forall a, In a l -> lo <= a.
Proof.
  induction l as [|b l IH]; intros lo Hn a Hin; [contradiction|].
  destruct Hn as [Hle Hn]. destruct Hin as [->|Hin]; [exact Hle|].
  specialize (IH b Hn a Hin). lia.
Qed.

Lemma nd_app_le : forall l1 l2 lo, nondecreasing_from lo (l1 ++ l2) -> forall a b, In a l1 -> In b l2 -> a <= b.
Proof.
  induction l1 as [|c l1 IH]; intros l2 lo Hn a b Ha Hb; [contradiction|].
  cbn [app] in Hn. destruct Hn as [Hle Hn]. destruct Ha as [->|Ha].
  - apply (nd_from_le _ _ Hn). apply in_or_app. right. exact Hb.
  - apply (IH l2 c Hn a b Ha Hb).
Qed.

(* ================================================================================================ *)
(* Part 3: every history of the model                                                                 *)
Section Traces.
  Variable H : Type.
  Variable hash : pwd -> N -> list N -> H.
  Variable verify_hash : H -> pwd -> list N -> bool.
  Hypothesis verify_ok : forall pw salt pep pw' pep',
    verify_hash (hash pw salt pep) pw' pep' = true <-> pw' = pw /\ pep' = pep.

  Notation state := (state H).
  Notation step := (step H hash verify_hash).
  Notation run := (run H hash verify_hash).
  Notation history := (history H hash verify_hash).
  Notation init := (init H).
  Notation wf := (wf H).
  Notation R := (R H hash).

  Lemma run_cons : forall (s : state) o ops,
    run s (o :: ops) = (fst (run (fst (step s o)) ops), snd (step s o) :: snd (run (fst (step s o)) ops)).
  Proof.
    intros s o ops. cbn [Auth.run]. destruct (step s o) as [s1 x]. cbn [fst snd].
    destruct (run s1 ops) as [s2 xs]. reflexivity.
  Qed.

  Lemma run_app : forall ops1 (s : state) ops2,
    run s (ops1 ++ ops2) =
    (fst (run (fst (run s ops1)) ops2), snd (run s ops1) ++ snd (run (fst (run s ops1)) ops2)).
  Proof.
    induction ops1 as [|o ops1 IH]; intros s ops2.
    - cbn [app Auth.run fst snd]. destruct (run s ops2); reflexivity.
    - cbn [app]. rewrite !run_cons. rewrite IH. cbn [fst snd]. reflexivity.
  Qed.

  Lemma run_length : forall ops (s : state), length (snd (run s ops)) = length ops.
  Proof.
    induction ops as [|o ops IH]; intros s; [reflexivity|]. rewrite run_cons. cbn [snd length]. rewrite IH. reflexivity.
  Qed.

  Record Inv (s : state) (r : rstate) (ta : N -> config * option (N * N))
             (ca : N -> config * option (pwd * list N)) : Prop := mkInv {
    inv_wf : wf (users s);
    inv_R : R s r;
    inv_tok : forall t, hist_tok_ok r t (ta t);
    inv_cred : forall u, hist_cred_ok r u (ca u) }.

  Lemma inv_unique : forall s r ta ca, Inv s r ta ca -> tok_unique r.
  Proof.
    intros s r ta ca Hi t u x u' x' H1 H2.
    destruct (hist_unique _ _ _ _ _ _ _ (inv_tok _ _ _ _ Hi t) H1 H2). assumption.
  Qed.

  Lemma inv_step : forall s r ta ca o rest,
    Inv s r ta ca -> fresh_for r (o :: rest) ->
    exists r', rstep r o r' (snd (step s o)) /\ fresh_for r' rest /\
               Inv (fst (step s o)) r' (fun t => tok_event t (ta t) (o, snd (step s o)))
                   (fun u => cred_event u (ca u) (o, snd (step s o))).
  Proof.
    intros s r ta ca o rest Hi Hff. destruct (step s o) as [s1 x] eqn:Hst. cbn [fst snd].
    destruct (step_refines H hash verify_hash verify_ok s r o s1 x (inv_wf _ _ _ _ Hi) (inv_R _ _ _ _ Hi)
                (inv_unique _ _ _ _ Hi) Hst) as [Hwf' [r' [Hrs HR']]].
    assert (Hall : forall t0, exists a, hist_tok_ok r t0 a) by (intros t0; exists (ta t0); apply (inv_tok _ _ _ _ Hi)).
    destruct (fresh_for_step _ _ _ _ _ Hrs Hall Hff) as [Hfr Hff'].
    exists r'. split; [exact Hrs|]. split; [exact Hff'|]. constructor.
    - exact Hwf'.
    - exact HR'.
    - intros t. apply (tok_event_ok r o r' x t (ta t) Hrs Hfr (inv_tok _ _ _ _ Hi t)).
    - intros u. apply (cred_event_ok r o r' x u (ca u) Hrs (inv_cred _ _ _ _ Hi u)).
  Qed.

  Lemma run_inv : forall ops rest s r ta ca,
    Inv s r ta ca -> fresh_for r (ops ++ rest) ->
    exists r', rrun r ops (snd (run s ops)) r' /\ fresh_for r' rest /\
               Inv (fst (run s ops)) r'
                   (fun t => fold_left (tok_event t) (combine ops (snd (run s ops))) (ta t))
                   (fun u => fold_left (cred_event u) (combine ops (snd (run s ops))) (ca u)).
  Proof.
    induction ops as [|o ops IH]; intros rest s r ta ca Hi Hff.
    - cbn [app] in Hff. exists r. cbn [Auth.run fst snd combine fold_left]. split; [constructor; apply same_refl|].
      split; [exact Hff|]. destruct Hi; constructor; assumption.
    - cbn [app] in Hff. destruct (inv_step s r ta ca o (ops ++ rest) Hi Hff) as [r1 [Hrs [Hff1 Hi1]]].
      destruct (IH rest _ _ _ _ Hi1 Hff1) as [r2 [Hrr [Hff2 Hi2]]].
      exists r2. rewrite run_cons. cbn [fst snd combine fold_left]. split; [|split; [exact Hff2|exact Hi2]].
      econstructor; eassumption.
  Qed.

  Lemma init_inv : forall c, Inv (init c) (rinit c) (fun _ => (c, None)) (fun _ => (c, None)).
  Proof.
    intros c. constructor.
    - constructor.
    - split; [reflexivity|]. intros u. reflexivity.
    - intros t. split; [reflexivity|]. intros u x. cbn [snd]. split; [discriminate|].
      intros [e [He _]]. discriminate.
    - intros u. split; [reflexivity|]. intros pw pep. cbn [snd]. split; [discriminate|].
      intros [e [He _]]. discriminate.
  Qed.

  Lemma init_fresh : forall c ops, rng_ok ops -> fresh_for (rinit c) ops.
  Proof.
    intros c ops Hr. split; [exact Hr|]. intros t _ u x [e [He _]]. discriminate.
  Qed.

  (* the invariant at the end of any history *)
  Lemma reach_inv : forall c ops rest, rng_ok (ops ++ rest) ->
    exists r, rrun (rinit c) ops (snd (run (init c) ops)) r /\ fresh_for r rest /\
              Inv (fst (run (init c) ops)) r
                  (fun t => fold_left (tok_event t) (history c ops) (c, None))
                  (fun u => fold_left (cred_event u) (history c ops) (c, None)).
  Proof.
    intros c ops rest Hr. apply (run_inv ops rest (init c) (rinit c) _ _ (init_inv c) (init_fresh c _ Hr)).
  Qed.

  Lemma rng_ok_app_l : forall a b, rng_ok (a ++ b) -> rng_ok a.
  Proof.
    unfold rng_ok, fresh_toks. intros a b Hn. rewrite flat_map_app in Hn.
    revert Hn. generalize (flat_map op_fresh_tok a) (flat_map op_fresh_tok b). clear.
    induction l as [|x l IH]; intros l0 Hn; [constructor|].
    cbn [app] in Hn. inversion Hn as [|? ? Hni Hnd]; subst. constructor.
    - intros Hin. apply Hni. apply in_or_app. left. exact Hin.
    - apply (IH l0 Hnd).
  Qed.

  (* ---- refinement of whole histories: every output is one the reference allows ---- *)
  Theorem run_refines : forall c ops, rng_ok ops ->
    exists r, rrun (rinit c) ops (snd (run (init c) ops)) r /\ R (fst (run (init c) ops)) r.
  Proof.
    intros c ops Hr. rewrite <- (app_nil_r ops) in Hr.
    destruct (reach_inv c ops [] Hr) as [r [Hrr [_ Hi]]]. exists r. split; [exact Hrr|apply (inv_R _ _ _ _ Hi)].
  Qed.

  (* ---- token_owner_only_while_valid ---- *)
  Theorem token_verdict : forall c pre o t now,
    rng_ok pre -> presents o = Some (t, now) ->
    snd (step (fst (run (init c) pre)) o) = verdict o (tok_status c (history c pre) t) now.
  Proof.
    intros c pre o t now Hr Hp.
    assert (Hr' : rng_ok (pre ++ [o])).
    { unfold rng_ok, fresh_toks in *. rewrite flat_map_app. cbn [flat_map]. rewrite (presents_not_fresh _ _ _ Hp).
      cbn [app]. rewrite app_nil_r. exact Hr. }
    destruct (reach_inv c pre [o] Hr') as [r [_ [Hff Hi]]].
    destruct (inv_step _ _ _ _ o [] Hi Hff) as [r' [Hrs _]].
    pose proof (inv_tok _ _ _ _ Hi t) as [_ Hst]. fold (tok_status c (history c pre) t) in Hst.
    unfold verdict.
    destruct (rstep_presented _ _ _ _ _ _ Hrs Hp) as [[u [[x [Hh Hl]] Ex]]|[Hd [_ Ex]]]; rewrite Ex.
    - apply Hst in Hh. rewrite Hh. apply N.ltb_lt in Hl. rewrite Hl. reflexivity.
    - destruct (tok_status c (history c pre) t) as [[u x]|] eqn:Es; [|reflexivity].
      assert (Hh : holder r t u x) by (apply Hst; reflexivity).
      specialize (Hd _ _ Hh). destruct (N.ltb_spec now x) as [Hl|Hl]; [lia|reflexivity].
  Qed.

  (* ---- dead tokens stay dead ---- *)
  Theorem dead_stays_dead : forall c ops1 o1 ops2 t now1,
    env_ok (ops1 ++ o1 :: ops2) -> presents o1 = Some (t, now1) -> ~ In t (fresh_toks ops2) ->
    snd (step (fst (run (init c) ops1)) o1) = reject_out o1 ->
    forall o x now,
      In (o, x) (combine ops2 (snd (run (fst (step (fst (run (init c) ops1)) o1)) ops2))) ->
      presents o = Some (t, now) -> x = reject_out o.
  Proof.
    intros c ops1 o1 ops2 t now1 [Hclk Hrng] Hp Hnf Hrej o x now Hin Hpo.
    destruct (reach_inv c ops1 (o1 :: ops2) Hrng) as [r1 [_ [Hff1 Hi1]]].
    destruct (inv_step _ _ _ _ o1 ops2 Hi1 Hff1) as [r2 [Hrs [Hff2 Hi2]]].
    rewrite Hrej in Hrs.
    destruct (rstep_presented _ _ _ _ _ _ Hrs Hp) as [[u [_ Ex]]|[Hd [Hs _]]].
    { exfalso. destruct o1 as [| | | | | |t0 n n2| | |t0 n|[t0|] n|]; cbn in Hp, Ex; discriminate. }
    rewrite <- (app_nil_r ops2) in Hff2.
    destruct (run_inv ops2 [] _ _ _ _ Hi2 Hff2) as [r3 [Hrr _]].
    apply (dead_rrun _ _ _ _ t now1 Hrr (dead_same _ _ _ _ Hs Hd)) with (now := now); auto.
    intros tm Htm. unfold clock_ok, times in Hclk. rewrite flat_map_app in Hclk. cbn [flat_map] in Hclk.
    rewrite app_assoc in Hclk.
    apply (nd_app_le _ _ _ Hclk now1 tm); [|exact Htm].
    apply in_or_app. right. apply (presents_time _ _ _ Hp).
  Qed.

  (* ---- at most one live session ---- *)
  Theorem one_session_per_user : forall c ops t1 t2 now1 now2 u,
    rng_ok ops ->
    get_uid_by_token H (fst (run (init c) ops)) t1 now1 = Ok (VId u) ->
    get_uid_by_token H (fst (run (init c) ops)) t2 now2 = Ok (VId u) -> t1 = t2.
  Proof.
    intros c ops t1 t2 now1 now2 u Hr H1 H2. rewrite <- (app_nil_r ops) in Hr.
    destruct (reach_inv c ops [] Hr) as [r [_ [_ Hi]]].
    pose proof (inv_unique _ _ _ _ Hi) as Huq.
    destruct (get_uid_refines H hash _ r t1 now1 (inv_wf _ _ _ _ Hi) (inv_R _ _ _ _ Hi) Huq) as [[u1 [E1 [x1 [Hh1 _]]]]|[E1 _]];
      rewrite E1 in H1; [|discriminate].
    destruct (get_uid_refines H hash _ r t2 now2 (inv_wf _ _ _ _ Hi) (inv_R _ _ _ _ Hi) Huq) as [[u2 [E2 [x2 [Hh2 _]]]]|[E2 _]];
      rewrite E2 in H2; [|discriminate].
    inversion H1; inversion H2; subst. destruct (holder_fun _ _ _ _ _ _ Hh1 Hh2). assumption.
  Qed.

  (* ---- tokens never repeat ---- *)
  Lemma create_session_out : forall (s : state) u life now now2 tok,
    snd (create_session H s u life now now2 tok) = Ok (VId tok) \/
    exists e, snd (create_session H s u life now now2 tok) = Err e.
  Proof.
    intros s u life now now2 tok. unfold create_session.
    destruct (get_user_by_uid H (users s) u); [|right; eexists; reflexivity].
    destruct (negb _); [|right; eexists; reflexivity].
    destruct (update_user H _ _); [left; reflexivity|right; eexists; reflexivity].
  Qed.

  Lemma step_issued : forall (s : state) o,
    issued_by (o, snd (step s o)) = [] \/ issued_by (o, snd (step s o)) = op_fresh_tok o.
  Proof.
    intros s o. destruct o; try (left; reflexivity); cbn [Auth.step].
    - destruct (create_session_out s u (c_life (cfg s)) now now2 fresh_tok) as [E|[e E]]; rewrite E;
        [right|left]; reflexivity.
    - destruct (create_session_out s u life now now2 fresh_tok) as [E|[e E]]; rewrite E;
        [right|left]; reflexivity.
  Qed.

  Lemma issued_fresh : forall ops (s : state),
    NoDup (fresh_toks ops) ->
    NoDup (issued (combine ops (snd (run s ops)))) /\
    forall t, In t (issued (combine ops (snd (run s ops)))) -> In t (fresh_toks ops).
  Proof.
    induction ops as [|o ops IH]; intros s Hnd.
    - cbn. split; [constructor|tauto].
    - rewrite run_cons. cbn [snd combine]. unfold issued, fresh_toks in *. cbn [flat_map] in *.
      destruct (IH (fst (step s o)) (NoDup_app_r _ _ Hnd)) as [Hn Hi].
      destruct (step_issued s o) as [E|E]; rewrite E.
      + cbn [app]. split; [exact Hn|]. intros t Hin. apply in_or_app. right. apply Hi. exact Hin.
      + split.
        * revert Hnd Hi Hn. generalize (op_fresh_tok o) as l.
          generalize (flat_map issued_by (combine ops (snd (run (fst (step s o)) ops)))) as m.
          generalize (flat_map op_fresh_tok ops) as f. clear.
          intros f m l. revert f m. induction l as [|a l IHl]; intros f m Hnd Hi Hn; [exact Hn|].
          cbn [app] in *. inversion Hnd as [|? ? Hni Hnd']; subst. constructor.
          -- intros Hin. apply Hni. apply in_app_or in Hin. apply in_or_app. destruct Hin as [Hin|Hin]; [left; exact Hin|].
             right. apply Hi. exact Hin.
          -- apply (IHl f m Hnd' Hi Hn).
        * intros t Hin. apply in_app_or in Hin. apply in_or_app. destruct Hin as [Hin|Hin]; [left; exact Hin|].
          right. apply Hi. exact Hin.
  Qed.

  Theorem issued_tokens_nodup : forall c ops, rng_ok ops -> NoDup (issued (history c ops)).
  Proof. intros c ops Hr. apply (issued_fresh ops (init c) Hr). Qed.

  Theorem issued_tokens_from_rng : forall c ops t, In t (issued (history c ops)) -> In t (fresh_toks ops).
  Proof.
    intros c ops. unfold history. generalize (init c) as s. induction ops as [|o ops IH]; intros s t Hin; [contradiction|].
    rewrite run_cons in Hin. cbn [snd combine] in Hin. unfold issued, fresh_toks in *. cbn [flat_map] in *.
    apply in_app_or in Hin. apply in_or_app. destruct Hin as [Hin|Hin].
    - left. destruct (step_issued s o) as [E|E]; rewrite E in Hin; [contradiction|exact Hin].
    - right. apply (IH _ _ Hin).
  Qed.

  (* ---- passwords ---- *)
  Theorem verify_verdict : forall c pre u pw, rng_ok pre ->
    exists b, snd (step (fst (run (init c) pre)) (Verify u pw)) = Ok (VBool b) /\
              (b = true <-> cred_status c (history c pre) u = Some (pw, secret_of (c_pepper (cfg (fst (run (init c) pre)))))).
  Proof.
    intros c pre u pw Hr.
    assert (Hr' : rng_ok (pre ++ [Verify u pw])).
    { unfold rng_ok, fresh_toks in *. rewrite flat_map_app. cbn [flat_map op_fresh_tok app]. rewrite app_nil_r. exact Hr. }
    destruct (reach_inv c pre [Verify u pw] Hr') as [r [_ [Hff Hi]]].
    destruct (inv_step _ _ _ _ (Verify u pw) [] Hi Hff) as [r' [Hrs _]].
    pose proof (inv_cred _ _ _ _ Hi u) as [_ Hst]. fold (cred_status c (history c pre) u) in Hst.
    pose proof (inv_R _ _ _ _ Hi) as [Hc _].
    inversion Hrs; subst.
    match goal with Hb : ?b = true <-> _ |- _ => exists b; split; [reflexivity|]; rewrite Hb end.
    rewrite Hc. rewrite Hst. split.
    - intros [e [He [E1 E2]]]. exists e. auto.
    - intros [e [He [E1 E2]]]. exists e. auto.
  Qed.

  (* ---- no panic site of the modelled code is reachable ---- *)
  Theorem never_crashes : forall c ops, rng_ok ops -> forall x, In x (snd (run (init c) ops)) -> is_crash x = false.
  Proof.
    intros c ops Hr. destruct (run_refines c ops Hr) as [r [Hrr _]].
    clear Hr. revert Hrr. generalize (snd (run (init c) ops)) as outs. generalize (rinit c) as r0.
    intros r0 outs Hrr. induction Hrr as [|r1 o x r2 ops xs r3 Hstep Hrun IH]; intros y Hin; [contradiction|].
    destruct Hin as [<-|Hin]; [apply (rstep_no_crash _ _ _ _ Hstep)|apply IH; exact Hin].
  Qed.
End Traces.

(* ================================================================================================ *)
(* Part 4: what tok_status means, in plain terms (facts about the history functions alone)            *)

Lemma tok_fold_app : forall t h1 h2 a,
  fold_left (tok_event t) (h1 ++ h2) a = fold_left (tok_event t) h2 (fold_left (tok_event t) h1 a).
Proof. intros. apply fold_left_app. Qed.

(* a token that stands for nothing keeps standing for nothing until the RNG produces it (again) *)
Lemma tok_none_stays : forall t h a,
  snd a = None -> (forall ev, In ev h -> ~ In t (op_fresh_tok (fst ev))) ->
  snd (fold_left (tok_event t) h a) = None.
Proof.
  intros t h. induction h as [|[o x] h IH]; intros a Ha Hno; [exact Ha|].
  cbn [fold_left]. apply IH.
  - destruct (snd (tok_event t a (o, x))) as [[u xx]|] eqn:E; [|reflexivity].
    apply tok_event_some in E. destruct E as [[u0 [x0 E]]|E].
    + rewrite Ha in E. discriminate.
    + exfalso. apply (Hno (o, x)); [left; reflexivity|exact E].
  - intros ev Hin. apply Hno. right. exact Hin.
Qed.

(* the owner recorded for a token is the user it was issued to *)
Lemma tok_event_owner : forall t a o x u xx,
  snd (tok_event t a (o, x)) = Some (u, xx) ->
  (exists x0, snd a = Some (u, x0)) \/
  (exists v, x = Ok v /\ ((exists n n2, o = CreateSession u n n2 t) \/ (exists l n n2, o = CreateSessionLt u l n n2 t))).
Proof.
  intros t [c st] o x u xx Hs.
  assert (Hdrop : forall u2, drop_owner u2 st = Some (u, xx) -> exists x0, snd (c, st) = Some (u, x0))
    by (intros u2 E; apply drop_owner_some in E; destruct E as [E _]; exists xx; exact E).
  destruct o; destruct x; cbn [tok_event snd] in Hs; try (left; exists xx; exact Hs); try (left; eapply Hdrop; exact Hs).
  - destruct (N.eqb_spec fresh_tok t) as [E|E]; [|left; eapply Hdrop; exact Hs].
    inversion Hs; subst. right. exists a. split; [reflexivity|]. left. eauto.
  - destruct (N.eqb_spec fresh_tok t) as [E|E]; [|left; eapply Hdrop; exact Hs].
    inversion Hs; subst. right. exists a. split; [reflexivity|]. right. eauto.
  - destruct (N.eqb_spec t0 t) as [E|E]; [|left; exists xx; exact Hs].
    destruct st as [[u1 x1]|]; [|discriminate]. inversion Hs; subst. left. exists x1. reflexivity.
  - destruct (N.eqb_spec t0 t) as [E|E]; [discriminate|left; exists xx; exact Hs].
  - destruct (N.eqb_spec t0 t) as [E|E]; [discriminate|left; exists xx; exact Hs].
  - destruct (N.eqb_spec t0 t) as [E|E]; [discriminate|left; exists xx; exact Hs].
Qed.

Definition issues_to (t u : N) (ev : event) : Prop :=
  exists v, snd ev = Ok v /\
            ((exists n n2, fst ev = CreateSession u n n2 t) \/ (exists l n n2, fst ev = CreateSessionLt u l n n2 t)).

Lemma tok_status_issued_gen : forall t h a u x,
  snd (fold_left (tok_event t) h a) = Some (u, x) ->
  (exists x0, snd a = Some (u, x0)) \/ exists ev, In ev h /\ issues_to t u ev.
Proof.
  intros t h. induction h as [|[o y] h IH]; intros a u x Hs.
  - left. exists x. exact Hs.
  - cbn [fold_left] in Hs. destruct (IH _ _ _ Hs) as [[x0 E]|[ev [Hin Hi]]].
    + apply tok_event_owner in E. destruct E as [E|[v [Ev Ho]]]; [left; exact E|].
      right. exists (o, y). split; [left; reflexivity|]. exists v. split; [exact Ev|exact Ho].
    + right. exists ev. split; [right; exact Hin|exact Hi].
Qed.

Theorem tok_status_issued : forall c h t u x,
  tok_status c h t = Some (u, x) -> exists ev, In ev h /\ issues_to t u ev.
Proof.
  intros c h t u x Hs. destruct (tok_status_issued_gen _ _ _ _ _ Hs) as [[x0 E]|E]; [discriminate|exact E].
Qed.

(* operations that do not touch t or its owner leave its standing alone *)
Lemma tok_event_frame : forall t u x c o y,
  ~ touches t u o -> snd (tok_event t (c, Some (u, x)) (o, y)) = Some (u, x).
Proof.
  intros t u x c o y Hn. destruct o; destruct y; cbn [tok_event snd touches] in *; try reflexivity;
    try (match goal with |- context [?a =? ?b] => destruct (N.eqb_spec a b) as [E|E] end);
    try reflexivity; try (exfalso; apply Hn; auto; fail);
    try (cbn [drop_owner]; match goal with |- context [?a =? ?b] => destruct (N.eqb_spec a b) as [E'|E'] end;
         [exfalso; apply Hn; auto|reflexivity]).
Qed.

Lemma tok_frame : forall t u x h a,
  snd a = Some (u, x) -> (forall ev, In ev h -> ~ touches t u (fst ev)) ->
  snd (fold_left (tok_event t) h a) = Some (u, x).
Proof.
  intros t u x h. induction h as [|[o y] h IH]; intros [c st] Ha Hno; [exact Ha|].
  cbn [fold_left]. cbn [snd] in Ha. subst st. apply IH.
  - apply tok_event_frame. apply (Hno (o, y)). left. reflexivity.
  - intros ev Hin. apply Hno. right. exact Hin.
Qed.

(* ================================================================================================ *)
(* Part 5: the clauses of the property, in plain terms, for every history of the model                *)
Section Plain.
  Variable H : Type.
  Variable hash : pwd -> N -> list N -> H.
  Variable verify_hash : H -> pwd -> list N -> bool.
  Hypothesis verify_ok : forall pw salt pep pw' pep',
    verify_hash (hash pw salt pep) pw' pep' = true <-> pw' = pw /\ pep' = pep.

  Notation state := (state H).
  Notation step := (step H hash verify_hash).
  Notation run := (run H hash verify_hash).
  Notation history := (history H hash verify_hash).
  Notation init := (init H).

  Lemma combine_app_eq : forall (A B : Type) (a1 a2 : list A) (b1 b2 : list B),
    length a1 = length b1 -> combine (a1 ++ a2) (b1 ++ b2) = combine a1 b1 ++ combine a2 b2.
  Proof.
    induction a1 as [|x a1 IH]; intros a2 b1 b2 Hl; destruct b1 as [|y b1]; try discriminate; [reflexivity|].
    cbn [app combine]. f_equal. apply IH. cbn [length] in Hl. congruence.
  Qed.

  Lemma history_cons_app : forall c pre0 o1 mid,
    history c (pre0 ++ o1 :: mid) =
    history c pre0 ++ (o1, snd (step (fst (run (init c) pre0)) o1))
      :: combine mid (snd (run (fst (step (fst (run (init c) pre0)) o1)) mid)).
  Proof.
    intros c pre0 o1 mid. unfold Auth.history. rewrite (run_app H hash verify_hash). cbn [snd].
    rewrite combine_app_eq; [|symmetry; apply run_length].
    rewrite (run_cons H hash verify_hash). cbn [snd combine]. reflexivity.
  Qed.

  Lemma combine_fst_in : forall (A B : Type) (l : list A) (m : list B) ev, In ev (combine l m) -> In (fst ev) l.
  Proof. intros A B l m [a b] Hin. apply in_combine_l in Hin. exact Hin. Qed.

  (* a token that is accepted was issued to exactly the user it authenticates *)
  Theorem accepted_was_issued_to : forall c pre o t now u,
    rng_ok pre -> presents o = Some (t, now) ->
    snd (step (fst (run (init c) pre)) o) = Ok (VId u) ->
    exists ev, In ev (history c pre) /\ issues_to t u ev.
  Proof.
    intros c pre o t now u Hr Hp Ho.
    rewrite (token_verdict H hash verify_hash verify_ok c pre o t now Hr Hp) in Ho. unfold verdict in Ho.
    destruct (tok_status c (history c pre) t) as [[u' x]|] eqn:Es.
    - destruct (now <? x).
      + assert (u' = u).
        { destruct o as [| | | | | |t0 n n2| | |t0 n|[t0|] n|]; cbn in Hp, Ho; try discriminate; inversion Ho; reflexivity. }
        subst u'. apply (tok_status_issued _ _ _ _ _ Es).
      + destruct o as [| | | | | |t0 n n2| | |t0 n|[t0|] n|]; cbn in Hp, Ho; discriminate.
    - destruct o as [| | | | | |t0 n n2| | |t0 n|[t0|] n|]; cbn in Hp, Ho; discriminate.
  Qed.

  (* after a successful create_session_with_lifetime, as long as nothing touches the token or its owner, the token
     authenticates exactly that user strictly before now2 + lifetime (saturating), and nobody from then on *)
  Theorem issued_token_verdict : forall c pre0 u life n0 n2 t mid o now,
    rng_ok (pre0 ++ CreateSessionLt u life n0 n2 t :: mid) ->
    snd (step (fst (run (init c) pre0)) (CreateSessionLt u life n0 n2 t)) = Ok (VId t) ->
    (forall o', In o' mid -> ~ touches t u o') ->
    presents o = Some (t, now) ->
    snd (step (fst (run (init c) (pre0 ++ CreateSessionLt u life n0 n2 t :: mid))) o) =
    if now <? sat_add n2 life then accept_out o u else reject_out o.
  Proof.
    intros c pre0 u life n0 n2 t mid o now Hr Hok Hno Hp.
    rewrite (token_verdict H hash verify_hash verify_ok c _ o t now Hr Hp).
    unfold tok_status. rewrite history_cons_app. rewrite tok_fold_app. cbn [fold_left]. rewrite Hok.
    rewrite (tok_frame t u (sat_add n2 life)).
    - reflexivity.
    - destruct (fold_left (tok_event t) (history c pre0) (c, None)) as [c1 st1]. cbn [tok_event snd].
      rewrite N.eqb_refl. reflexivity.
    - intros ev Hin. apply Hno. apply (combine_fst_in _ _ _ _ _ Hin).
  Qed.

  (* the same for create_session with the configured default lifetime *)
  Theorem issued_default_token_verdict : forall c pre0 u n0 n2 t mid o now,
    rng_ok (pre0 ++ CreateSession u n0 n2 t :: mid) ->
    snd (step (fst (run (init c) pre0)) (CreateSession u n0 n2 t)) = Ok (VId t) ->
    (forall o', In o' mid -> ~ touches t u o') ->
    presents o = Some (t, now) ->
    snd (step (fst (run (init c) (pre0 ++ CreateSession u n0 n2 t :: mid))) o) =
    if now <? sat_add n2 (c_life (cfg (fst (run (init c) pre0)))) then accept_out o u else reject_out o.
  Proof.
    intros c pre0 u n0 n2 t mid o now Hr Hok Hno Hp.
    rewrite (token_verdict H hash verify_hash verify_ok c _ o t now Hr Hp).
    destruct (reach_inv H hash verify_hash verify_ok c pre0 _ Hr) as [r [_ [_ Hi]]].
    pose proof (inv_tok _ _ _ _ _ _ Hi t) as [Hc _]. pose proof (inv_R _ _ _ _ _ _ Hi) as [Hc' _].
    unfold tok_status. rewrite history_cons_app. rewrite tok_fold_app. cbn [fold_left]. rewrite Hok.
    rewrite (tok_frame t u (sat_add n2 (c_life (cfg (fst (run (init c) pre0)))))).
    - reflexivity.
    - destruct (fold_left (tok_event t) (history c pre0) (c, None)) as [c1 st1]. cbn [tok_event snd fst] in *.
      rewrite N.eqb_refl. congruence.
    - intros ev Hin. apply Hno. apply (combine_fst_in _ _ _ _ _ Hin).
  Qed.

  (* invalidate_session kills the token for good *)
  Theorem rejected_after_invalidation : forall c pre0 t mid o now,
    rng_ok (pre0 ++ InvalidateSession t :: mid) -> ~ In t (fresh_toks mid) ->
    presents o = Some (t, now) ->
    snd (step (fst (run (init c) (pre0 ++ InvalidateSession t :: mid))) o) = reject_out o.
  Proof.
    intros c pre0 t mid o now Hr Hnf Hp.
    rewrite (token_verdict H hash verify_hash verify_ok c _ o t now Hr Hp).
    unfold tok_status. rewrite history_cons_app. rewrite tok_fold_app. cbn [fold_left].
    rewrite tok_none_stays; [reflexivity| |].
    - destruct (fold_left (tok_event t) (history c pre0) (c, None)) as [c1 st1]. cbn [tok_event snd].
      rewrite N.eqb_refl. reflexivity.
    - intros ev Hin Hf. apply Hnf. unfold fresh_toks. apply in_flat_map. exists (fst ev).
      split; [apply (combine_fst_in _ _ _ _ _ Hin)|exact Hf].
  Qed.

  (* removing the owner, or invalidating the owner's session by uid, kills the token for good *)
  Theorem rejected_after_owner_gone : forall c pre0 t u x0 o1 mid o now,
    o1 = RemoveUser u \/ o1 = InvalidateUser u ->
    rng_ok (pre0 ++ o1 :: mid) -> ~ In t (fresh_toks mid) ->
    tok_status c (history c pre0) t = Some (u, x0) ->
    presents o = Some (t, now) ->
    snd (step (fst (run (init c) (pre0 ++ o1 :: mid))) o) = reject_out o.
  Proof.
    intros c pre0 t u x0 o1 mid o now Ho1 Hr Hnf Hs Hp.
    rewrite (token_verdict H hash verify_hash verify_ok c _ o t now Hr Hp).
    unfold tok_status in *. rewrite history_cons_app. rewrite tok_fold_app. cbn [fold_left].
    rewrite tok_none_stays; [reflexivity| |].
    - destruct (fold_left (tok_event t) (history c pre0) (c, None)) as [c1 st1]. cbn [snd] in Hs. subst st1.
      destruct Ho1; subst o1; cbn [tok_event snd drop_owner]; rewrite N.eqb_refl; reflexivity.
    - intros ev Hin Hf. apply Hnf. unfold fresh_toks. apply in_flat_map. exists (fst ev).
      split; [apply (combine_fst_in _ _ _ _ _ Hin)|exact Hf].
  Qed.
End Plain.

(* ================================================================================================ *)
(* Part 6: the executable instance satisfies the Argon2 hypothesis; the pre-repair refresh is refuted  *)
Lemma list_eqb_eq : forall a b, list_eqb a b = true <-> a = b.
Proof.
  induction a as [|x a IH]; destruct b as [|y b]; cbn [list_eqb]; split; try discriminate; try reflexivity.
  - intros Hb. apply andb_true_iff in Hb. destruct Hb as [E1 E2]. apply N.eqb_eq in E1. apply IH in E2. congruence.
  - intros E. inversion E; subst. rewrite N.eqb_refl. cbn. apply IH. reflexivity.
Qed.

Lemma xverify_ok : forall pw salt pep pw' pep',
  xverify (xhash pw salt pep) pw' pep' = true <-> pw' = pw /\ pep' = pep.
Proof.
  intros. unfold xverify, xhash. cbn [fst snd]. rewrite andb_true_iff, !list_eqb_eq. tauto.
Qed.

(* with the old refresh_session a token that has just been rejected as expired is accepted again *)
Lemma refresh_old_refuted :
  exists c ops1 o1 ops2 t now1,
    env_ok (ops1 ++ o1 :: ops2) /\ presents o1 = Some (t, now1) /\ ~ In t (fresh_toks ops2) /\
    snd (xstep_old (fst (xrun_old (xinit c) ops1)) o1) = reject_out o1 /\
    exists o x now,
      In (o, x) (combine ops2 (snd (xrun_old (fst (xstep_old (fst (xrun_old (xinit c) ops1)) o1)) ops2))) /\
      presents o = Some (t, now) /\ x <> reject_out o.
Proof.
  exists default_config, [CreateUser [112; 119] 0 0; CreateSessionLt 0 0 100 100 7], (GetUid 7 100),
         [Refresh 7 100 100; GetUid 7 101; Route (Some 7) 3000], 7, 100.
  split; [|split; [reflexivity|split; [cbn; tauto|split; [vm_compute; reflexivity|]]]].
  - split.
    + cbn. repeat split; lia.
    + cbn. repeat constructor; cbn; tauto.
  - exists (GetUid 7 101), (Ok (VId 0)), 101. split; [vm_compute; tauto|]. split; [reflexivity|discriminate].
Qed.

(* ================================================================================================ *)
(* Part 7: the reference determines every result                                                      *)
Lemma bool_iff_eq : forall (b1 b2 : bool) (P : Prop), (b1 = true <-> P) -> (b2 = true <-> P) -> b1 = b2.
Proof. intros [|] [|] P H1 H2; try reflexivity; [symmetry; apply H2, H1; reflexivity|apply H1, H2; reflexivity]. Qed.

Lemma rcreate_det : forall r u life now now2 tok r1 x1 r2 x2,
  rcreate r u life now now2 tok r1 x1 -> rcreate r u life now now2 tok r2 x2 -> x1 = x2.
Proof.
  intros r u life now now2 tok r1 x1 r2 x2 H1 H2.
  inversion H1; subst; inversion H2; subst; try reflexivity; try congruence;
    match goal with A : r_map r u = Some ?e, B : r_map r u = Some ?e' |- _ => rewrite A in B; inversion B; subst end;
    contradiction.
Qed.

Lemma live_dead_absurd : forall r t now u, live r t now u -> dead r t now -> False.
Proof. intros r t now u Hl Hd. apply (live_not_dead _ _ _ _ _ Hl Hd). lia. Qed.

(* the reference leaves no freedom in the results *)
Lemma rstep_out_deterministic : forall r o r1 x1 r2 x2,
  tok_unique r -> rstep r o r1 x1 -> rstep r o r2 x2 -> x1 = x2.
Proof.
  intros r o r1 x1 r2 x2 Huq H1 H2.
  inversion H1; subst; inversion H2; subst; try reflexivity; try congruence;
    try (eapply rcreate_det; eassumption);
    try (f_equal; f_equal; eapply bool_iff_eq; eassumption);
    try (exfalso; eapply live_dead_absurd; eassumption).
  - exfalso. match goal with Hd : dead r t now |- _ => assert (Hh : holder r t u x) by (exists e; auto); specialize (Hd _ _ Hh); lia end.
  - exfalso. match goal with Hd : dead r t now |- _ => assert (Hh : holder r t u x) by (exists e; auto); specialize (Hd _ _ Hh); lia end.
  - match goal with A : live r t now ?a, B : live r t now ?b |- _ => destruct A as [xa [Ha _]]; destruct B as [xb [Hb _]]; rewrite (Huq _ _ _ _ _ Ha Hb) end. reflexivity.
  - match goal with A : live r t now ?a, B : live r t now ?b |- _ => destruct A as [xa [Ha _]]; destruct B as [xb [Hb _]]; rewrite (Huq _ _ _ _ _ Ha Hb) end. reflexivity.
Qed.

(* ================================================================================================ *)
(* Part 8: expired or unknown tokens are rejected by every operation, and nothing changes              *)
Section Plain2.
  Variable H : Type.
  Variable hash : pwd -> N -> list N -> H.
  Variable verify_hash : H -> pwd -> list N -> bool.
  Hypothesis verify_ok : forall pw salt pep pw' pep',
    verify_hash (hash pw salt pep) pw' pep' = true <-> pw' = pw /\ pep' = pep.

  Notation state := (state H).
  Notation step := (step H hash verify_hash).
  Notation run := (run H hash verify_hash).
  Notation history := (history H hash verify_hash).
  Notation init := (init H).

  Lemma presented_state : forall (s : state) o t now,
    presents o = Some (t, now) -> fst (step s o) = s \/ snd (step s o) = Ok VUnit.
  Proof.
    intros s o t now Hp. destruct o as [| | | | | |t0 n n2| | |t0 n|[t0|] n|]; cbn in Hp; try discriminate;
      cbn [Auth.step]; try (left; reflexivity).
    unfold refresh. destruct (get_user_by_token H (users s) t0); [|left; reflexivity].
    destruct (session u); [|left; reflexivity]. destruct (valid n s0); [|left; reflexivity].
    destruct (update_user H _ _); [right|left]; reflexivity.
  Qed.

  Theorem expired_or_unknown_rejected : forall c pre o t now,
    rng_ok pre -> presents o = Some (t, now) ->
    (forall u x, tok_status c (history c pre) t = Some (u, x) -> x <= now) ->
    step (fst (run (init c) pre)) o = (fst (run (init c) pre), reject_out o).
  Proof.
    intros c pre o t now Hr Hp Hdead.
    pose proof (token_verdict H hash verify_hash verify_ok c pre o t now Hr Hp) as Hv.
    assert (Hrej : snd (step (fst (run (init c) pre)) o) = reject_out o).
    { rewrite Hv. unfold verdict. destruct (tok_status c (history c pre) t) as [[u x]|]; [|reflexivity].
      specialize (Hdead u x eq_refl). destruct (N.ltb_spec now x); [lia|reflexivity]. }
    destruct (presented_state (fst (run (init c) pre)) o t now Hp) as [Hs|Hs].
    - rewrite (surjective_pairing (step _ o)). rewrite Hs, Hrej. reflexivity.
    - rewrite Hrej in Hs. destruct o as [| | | | | |t0 n n2| | |t0 n|[t0|] n|]; cbn in Hp, Hs; discriminate.
  Qed.

  (* at most one token stands for a given user *)
  Theorem one_standing_token_per_user : forall c ops t1 t2 u x1 x2,
    rng_ok ops ->
    tok_status c (history c ops) t1 = Some (u, x1) -> tok_status c (history c ops) t2 = Some (u, x2) -> t1 = t2.
  Proof.
    intros c ops t1 t2 u x1 x2 Hr H1 H2. rewrite <- (app_nil_r ops) in Hr.
    destruct (reach_inv H hash verify_hash verify_ok c ops [] Hr) as [r [_ [_ Hi]]].
    pose proof (inv_tok _ _ _ _ _ _ Hi t1) as [_ Hs1]. pose proof (inv_tok _ _ _ _ _ _ Hi t2) as [_ Hs2].
    apply Hs1 in H1. apply Hs2 in H2. destruct (holder_fun _ _ _ _ _ _ H1 H2). assumption.
  Qed.
End Plain2.

(* ================================================================================================ *)
(* Part 9: what cred_status means; fresh uids                                                         *)
Definition creates_user (u : N) (pw : pwd) (ev : event) : Prop :=
  exists salt v, ev = (CreateUser pw u salt, Ok v).

Lemma cred_event_created : forall u a o x pw pep,
  snd (cred_event u a (o, x)) = Some (pw, pep) ->
  snd a = Some (pw, pep) \/ creates_user u pw (o, x).
Proof.
  intros u [c st] o x pw pep Hs.
  destruct o; destruct x; cbn [cred_event snd] in Hs; try (left; exact Hs).
  - destruct (N.eqb_spec fresh_uid u) as [E|E]; [|left; exact Hs].
    inversion Hs; subst. right. exists fresh_salt, a. reflexivity.
  - destruct (N.eqb_spec u0 u) as [E|E]; [discriminate|left; exact Hs].
Qed.

Lemma cred_status_created_gen : forall u h a pw pep,
  snd (fold_left (cred_event u) h a) = Some (pw, pep) ->
  snd a = Some (pw, pep) \/ exists ev, In ev h /\ creates_user u pw ev.
Proof.
  intros u h. induction h as [|[o y] h IH]; intros a pw pep Hs; [left; exact Hs|].
  cbn [fold_left] in Hs. destruct (IH _ _ _ Hs) as [E|[ev [Hin Hc]]].
  - apply cred_event_created in E. destruct E as [E|E]; [left; exact E|].
    right. exists (o, y). split; [left; reflexivity|exact E].
  - right. exists ev. split; [right; exact Hin|exact Hc].
Qed.

(* the password recorded for a uid is the one given to the successful create_user that returned that uid *)
Theorem cred_status_created : forall c h u pw pep,
  cred_status c h u = Some (pw, pep) -> exists ev, In ev h /\ creates_user u pw ev.
Proof.
  intros c h u pw pep Hs. destruct (cred_status_created_gen _ _ _ _ _ Hs) as [E|E]; [discriminate|exact E].
Qed.

Section Plain3.
  Variable H : Type.
  Variable hash : pwd -> N -> list N -> H.
  Variable verify_hash : H -> pwd -> list N -> bool.
  Hypothesis verify_ok : forall pw salt pep pw' pep',
    verify_hash (hash pw salt pep) pw' pep' = true <-> pw' = pw /\ pep' = pep.

  Notation step := (step H hash verify_hash).
  Notation run := (run H hash verify_hash).
  Notation history := (history H hash verify_hash).
  Notation init := (init H).

  (* a password verifies only for a user that was created with it *)
  Theorem verified_password_is_the_users_own : forall c pre u pw,
    rng_ok pre ->
    snd (step (fst (run (init c) pre)) (Verify u pw)) = Ok (VBool true) ->
    exists ev, In ev (history c pre) /\ creates_user u pw ev.
  Proof.
    intros c pre u pw Hr Ho.
    destruct (verify_verdict H hash verify_hash verify_ok c pre u pw Hr) as [b [Eb Hb]].
    rewrite Eb in Ho. inversion Ho; subst b. apply (cred_status_created c _ u pw _ (proj1 Hb eq_refl)).
  Qed.

  Lemma history_fresh_uid : forall c ops ev u pw, In ev (history c ops) -> creates_user u pw ev -> In u (fresh_uids ops).
  Proof.
    intros c ops ev u pw Hin [salt [v E]]. subst ev. unfold Auth.history in Hin. apply in_combine_l in Hin.
    unfold fresh_uids. apply in_flat_map. exists (CreateUser pw u salt). split; [exact Hin|left; reflexivity].
  Qed.

  (* create_user succeeds, and returns the uid drawn for it, whenever that uid has not been drawn before *)
  Theorem create_user_fresh_uid_succeeds : forall c pre pw fu salt,
    rng_ok pre -> ~ In fu (fresh_uids pre) ->
    snd (step (fst (run (init c) pre)) (CreateUser pw fu salt)) = Ok (VId fu).
  Proof.
    intros c pre pw fu salt Hr Hnf.
    assert (Hr' : rng_ok (pre ++ [CreateUser pw fu salt])).
    { unfold rng_ok, fresh_toks in *. rewrite flat_map_app. cbn [flat_map op_fresh_tok app]. rewrite app_nil_r. exact Hr. }
    destruct (reach_inv H hash verify_hash verify_ok c pre [CreateUser pw fu salt] Hr') as [r [_ [Hff Hi]]].
    destruct (inv_step H hash verify_hash verify_ok _ _ _ _ (CreateUser pw fu salt) [] Hi Hff) as [r' [Hrs _]].
    pose proof (inv_cred _ _ _ _ _ _ Hi fu) as [_ Hst]. fold (cred_status c (history c pre) fu) in Hst.
    remember (snd (step (fst (run (init c) pre)) (CreateUser pw fu salt))) as x eqn:Ex. clear Ex.
    inversion Hrs; subst; [reflexivity|]. exfalso.
    match goal with Hne : r_map r fu <> None |- _ => destruct (r_map r fu) as [e|] eqn:He; [|apply Hne; reflexivity] end.
    assert (Hs : cred_status c (history c pre) fu = Some (e_pw e, e_pep e)) by (apply Hst; exists e; auto).
    destruct (cred_status_created _ _ _ _ _ Hs) as [ev [Hin Hc]].
    apply Hnf. apply (history_fresh_uid c pre ev fu (e_pw e) Hin Hc).
  Qed.
End Plain3.

(* ================================================================================================ *)
(* Part 10: the remaining results, read off the history (user existence, create_session)               *)
Section Plain4.
  Variable H : Type.
  Variable hash : pwd -> N -> list N -> H.
  Variable verify_hash : H -> pwd -> list N -> bool.
  Hypothesis verify_ok : forall pw salt pep pw' pep',
    verify_hash (hash pw salt pep) pw' pep' = true <-> pw' = pw /\ pep' = pep.

  Notation step := (step H hash verify_hash).
  Notation run := (run H hash verify_hash).
  Notation history := (history H hash verify_hash).
  Notation init := (init H).

  Lemma rng_ok_snoc : forall pre o, rng_ok pre -> op_fresh_tok o = [] -> rng_ok (pre ++ [o]).
  Proof.
    intros pre o Hr Ho. unfold rng_ok, fresh_toks in *. rewrite flat_map_app. cbn [flat_map]. rewrite Ho.
    cbn [app]. rewrite app_nil_r. exact Hr.
  Qed.

  (* the reference step taken by the model at the end of a history, with the history invariants *)
  Lemma last_step : forall c pre o, rng_ok (pre ++ [o]) ->
    exists r r', rstep r o r' (snd (step (fst (run (init c) pre)) o)) /\
                 (forall t u x, tok_status c (history c pre) t = Some (u, x) <-> holder r t u x) /\
                 (forall u pw pep, cred_status c (history c pre) u = Some (pw, pep) <->
                                   exists e, r_map r u = Some e /\ e_pw e = pw /\ e_pep e = pep).
  Proof.
    intros c pre o Hr.
    destruct (reach_inv H hash verify_hash verify_ok c pre [o] Hr) as [r [_ [Hff Hi]]].
    destruct (inv_step H hash verify_hash verify_ok _ _ _ _ o [] Hi Hff) as [r' [Hrs _]].
    exists r, r'. split; [exact Hrs|]. split.
    - intros t. apply (proj2 (inv_tok _ _ _ _ _ _ Hi t)).
    - intros u. apply (proj2 (inv_cred _ _ _ _ _ _ Hi u)).
  Qed.

  Lemma cred_none_iff : forall c h u (r : rstate),
    (forall pw pep, cred_status c h u = Some (pw, pep) <-> exists e, r_map r u = Some e /\ e_pw e = pw /\ e_pep e = pep) ->
    (cred_status c h u = None <-> r_map r u = None).
  Proof.
    intros c h u r Hst. split.
    - intros Hn. destruct (r_map r u) as [e|] eqn:He; [|reflexivity].
      assert (Hs : cred_status c h u = Some (e_pw e, e_pep e)) by (apply Hst; exists e; auto). congruence.
    - intros Hn. destruct (cred_status c h u) as [[pw pep]|] eqn:Es; [|reflexivity].
      destruct (proj1 (Hst pw pep) eq_refl) as [e [He _]]. congruence.
  Qed.

  (* exists(uid) is true exactly for uids created and not removed since *)
  Theorem exists_verdict : forall c pre u, rng_ok pre ->
    snd (step (fst (run (init c) pre)) (Exists u)) =
    Ok (VBool (match cred_status c (history c pre) u with Some _ => true | None => false end)).
  Proof.
    intros c pre u Hr.
    destruct (last_step c pre (Exists u) (rng_ok_snoc pre (Exists u) Hr eq_refl)) as [r [r' [Hrs [_ Hcr]]]].
    pose proof (cred_none_iff _ _ _ _ (Hcr u)) as Hn.
    remember (snd (step (fst (run (init c) pre)) (Exists u))) as x eqn:Ex. clear Ex.
    inversion Hrs; subst. f_equal. f_equal.
    destruct (cred_status c (history c pre) u) as [p|] eqn:Es.
    - match goal with Hb : ?b = true <-> _ |- _ => apply Hb end. intros E. apply Hn in E. discriminate.
    - match goal with Hb : ?b = true <-> _ |- _ => destruct b; [|reflexivity]; exfalso; apply (proj1 Hb eq_refl) end.
      apply Hn. reflexivity.
  Qed.

  (* remove_user succeeds exactly for such uids *)
  Theorem remove_user_verdict : forall c pre u, rng_ok pre ->
    snd (step (fst (run (init c) pre)) (RemoveUser u)) =
    match cred_status c (history c pre) u with Some _ => Ok VUnit | None => Err EUserNotFound end.
  Proof.
    intros c pre u Hr.
    destruct (last_step c pre (RemoveUser u) (rng_ok_snoc pre (RemoveUser u) Hr eq_refl)) as [r [r' [Hrs [_ Hcr]]]].
    pose proof (cred_none_iff _ _ _ _ (Hcr u)) as Hn.
    remember (snd (step (fst (run (init c) pre)) (RemoveUser u))) as x eqn:Ex. clear Ex.
    inversion Hrs; subst.
    - destruct (cred_status c (history c pre) u); [reflexivity|]. exfalso.
      match goal with Hne : r_map r u <> None |- _ => apply Hne end. apply Hn. reflexivity.
    - match goal with He : r_map r u = None |- _ => apply Hn in He; rewrite He end. reflexivity.
  Qed.

  (* create_session(_with_lifetime): UserNotFound for an unknown uid; SessionAlreadyExists while a token standing for the
     user is unexpired at the first clock read; otherwise the RNG's draw is issued — in particular a user whose session
     has expired is never locked out *)
  Theorem create_session_verdict : forall c pre u life n0 n2 tok,
    rng_ok (pre ++ [CreateSessionLt u life n0 n2 tok]) ->
    (cred_status c (history c pre) u = None ->
     snd (step (fst (run (init c) pre)) (CreateSessionLt u life n0 n2 tok)) = Err EUserNotFound) /\
    (cred_status c (history c pre) u <> None ->
     (exists t x, tok_status c (history c pre) t = Some (u, x) /\ n0 < x) ->
     snd (step (fst (run (init c) pre)) (CreateSessionLt u life n0 n2 tok)) = Err ESessionExists) /\
    (cred_status c (history c pre) u <> None ->
     (forall t x, tok_status c (history c pre) t = Some (u, x) -> x <= n0) ->
     snd (step (fst (run (init c) pre)) (CreateSessionLt u life n0 n2 tok)) = Ok (VId tok)).
  Proof.
    intros c pre u life n0 n2 tok Hr.
    destruct (last_step c pre _ Hr) as [r [r' [Hrs [Htk Hcr]]]].
    pose proof (cred_none_iff _ _ _ _ (Hcr u)) as Hn.
    remember (snd (step (fst (run (init c) pre)) (CreateSessionLt u life n0 n2 tok))) as x eqn:Ex. clear Ex.
    inversion Hrs; subst.
    match goal with Hc : rcreate _ _ _ _ _ _ _ _ |- _ => inversion Hc; subst end.
    - repeat split; try reflexivity; intros Hne; exfalso; apply Hne; apply Hn; assumption.
    - match goal with He : r_map r u = Some ?e, Hl : has_live_session ?e n0 |- _ =>
        destruct Hl as [t0 [x0 [Hs0 Hl0]]]; assert (Hh : holder r t0 u x0) by (exists e; auto) end.
      split; [intros E; apply Hn in E; congruence|]. split; [reflexivity|].
      intros _ Hall. apply Htk in Hh. specialize (Hall _ _ Hh). lia.
    - split; [intros E; apply Hn in E; congruence|]. split; [|reflexivity].
      intros _ [t0 [x0 [Hs0 Hl0]]]. exfalso. apply Htk in Hs0. destruct Hs0 as [e0 [He0 Hse0]].
      match goal with He : r_map r u = Some ?e, Hnl : ~ has_live_session ?e n0 |- _ =>
        apply Hnl; rewrite He in He0; inversion He0; subst e0; exists t0, x0; auto end.
  Qed.
End Plain4.
