(* C02 — proofs about the flat request parser of Http.v: faithfulness on well-formed requests (HttpReqSpec.v),
   case-insensitive field names, cookies, forwarded addresses, and the serialise/parse round trip. *)
From Coq Require Import Lia Arith.
From Hv Require Import Prelude Bytes StreamBuf TablesHttp Http BytesProofs HttpReqSpec.
Open Scope N_scope.
Arguments N.eqb : simpl never.
Arguments N.leb : simpl never.
Arguments N.ltb : simpl never.

(* ------------------------------------------------------------------------------------------------ *)
(* 0. small tools                                                                                   *)
(* ------------------------------------------------------------------------------------------------ *)
Lemma utf8_valid_true l : utf8_valid l = true -> utf8 l.
Proof. apply utf8_valid_iff. Qed.

Lemma utf8_true_valid l : utf8 l -> utf8_valid l = true.
Proof. apply utf8_valid_iff. Qed.

Lemma utf8_CRLF : utf8 CRLF.
Proof. apply utf8_valid_true. reflexivity. Qed.

Lemma utf8_app_crlf l : utf8 l -> utf8 (l ++ CRLF).
Proof. intro H. apply utf8_app; [exact H | exact utf8_CRLF]. Qed.

Lemma read_until_flat_lf l rest : nob LF l = true -> read_until_flat LF (l ++ LF :: rest) = (l ++ [LF], rest).
Proof. intro H. unfold read_until_flat. now rewrite split_incl_app. Qed.

Lemma read_until_flat_crlf l rest : nob LF l = true -> read_until_flat LF (l ++ CRLF ++ rest) = (l ++ CRLF, rest).
Proof.
  intro H. change (l ++ CRLF ++ rest) with (l ++ [CR] ++ LF :: rest). rewrite app_assoc.
  rewrite read_until_flat_lf; [now rewrite <- app_assoc|].
  rewrite nob_app, H. reflexivity.
Qed.

Lemma read_exact_flat_N_app b rest : read_exact_flat_N (N.of_nat (length b)) (b ++ rest) = Some (b, rest).
Proof.
  unfold read_exact_flat_N, read_exact_flat.
  replace (N.of_nat (length (b ++ rest)) <? N.of_nat (length b)) with false
    by (symmetry; apply N.ltb_ge; rewrite app_length; lia).
  rewrite Nat2N.id.
  replace (length b <=? length (b ++ rest))%nat with true
    by (symmetry; apply Nat.leb_le; rewrite app_length; lia).
  now rewrite firstn_app_exact, skipn_app_exact.
Qed.

(* ------------------------------------------------------------------------------------------------ *)
(* 1. the method tables (generated from method.rs) are mutually inverse and harmless                 *)
(* ------------------------------------------------------------------------------------------------ *)
Definition method_ok (m : N) : bool :=
  let s := method_str m in
  negb (beq s []) && nob SP s && nob LF s && utf8_valid s &&
  match assoc_bytes s method_parse_table with Some m' => m' =? m | None => false end.

Lemma method_table_ok : forallb (fun e => method_ok (snd e)) method_parse_table = true.
Proof. vm_compute. reflexivity. Qed.

Lemma wf_method_ok m : wf_method m = true -> method_ok m = true.
Proof.
  unfold wf_method. intro H. apply existsb_exists in H as (e & Hin & He). apply N.eqb_eq in He. subst m.
  exact (proj1 (forallb_forall _ _) method_table_ok e Hin).
Qed.

Lemma assoc_bytes_In {A} k (t : list (bytes * A)) v : assoc_bytes k t = Some v -> In (k, v) t.
Proof.
  induction t as [|[k' v'] t IH]; cbn [assoc_bytes]; [discriminate|].
  destruct (beq k k') eqn:E.
  - intro H. injection H as ->. apply beq_eq in E. subst. now left.
  - intro H. right. now apply IH.
Qed.

(* a method name the parser accepts is the canonical name of its variant *)
Lemma method_parse_ok s m : assoc_bytes s method_parse_table = Some m -> wf_method m = true /\ method_str m = s.
Proof.
  intro H. pose proof (assoc_bytes_In _ _ _ H) as Hin. split.
  - unfold wf_method. apply existsb_exists. exists (s, m). split; [exact Hin|]. apply N.eqb_refl.
  - revert s m H Hin.
    assert (T : forallb (fun e => beq (method_str (snd e)) (fst e)) method_parse_table = true) by (vm_compute; reflexivity).
    intros s m _ Hin. apply (proj1 (forallb_forall _ _) T) in Hin. now apply beq_eq in Hin.
Qed.

(* ------------------------------------------------------------------------------------------------ *)
(* 2. parse_faithful                                                                                *)
(* ------------------------------------------------------------------------------------------------ *)
Ltac split_andb H :=
  repeat match type of H with
         | (_ && _) = true => let H' := fresh H in apply andb_true_iff in H as [H H']
         end.

Record wf_start (g : greq) : Prop := {
  ws_method : method_ok (g_method g) = true;
  ws_path_sp : nob SP (g_path g) = true;
  ws_path_lf : nob LF (g_path g) = true;
  ws_path_q : nob QMARK (g_path g) = true;
  ws_path_u : utf8 (g_path g);
  ws_query : match g_query g with Some q => nob SP q = true /\ nob LF q = true /\ utf8 q | None => True end;
  ws_ver_ne : g_version g <> [];
  ws_ver_sp : nob SP (g_version g) = true;
  ws_ver_lf : nob LF (g_version g) = true;
  ws_ver_u : utf8 (g_version g) }.

Lemma wf_greq_start g : wf_greq g = true -> wf_start g /\ forallb wf_header (g_headers g) = true /\ wf_body g = true.
Proof.
  unfold wf_greq. intro H.
  apply andb_true_iff in H as [H Hb]. apply andb_true_iff in H as [H Hh].
  apply andb_true_iff in H as [H V4]. apply andb_true_iff in H as [H V3]. apply andb_true_iff in H as [H V2].
  apply andb_true_iff in H as [H V1]. apply andb_true_iff in H as [H Q].
  apply andb_true_iff in H as [H P4]. apply andb_true_iff in H as [H P3]. apply andb_true_iff in H as [H P2].
  apply andb_true_iff in H as [M P1].
  split; [|now split]. constructor; try assumption.
  - now apply wf_method_ok.
  - now apply utf8_valid_true.
  - destruct (g_query g) as [q|]; [|exact I]. apply andb_true_iff in Q as [Q Q3]. apply andb_true_iff in Q as [Q1 Q2].
    repeat split; try assumption. now apply utf8_valid_true.
  - apply negb_true_iff, beq_false_iff in V1. exact V1.
  - now apply utf8_valid_true.
Qed.

Lemma target_props g : wf_start g ->
  nob SP (render_target g) = true /\ nob LF (render_target g) = true /\ utf8 (render_target g) /\
  (match split_once QMARK (render_target g) with Some (u, q) => (u, q) | None => (render_target g, []) end)
  = (g_path g, match g_query g with Some q => q | None => [] end).
Proof.
  intros [_ Psp Plf Pq Pu Q _ _ _ _]. unfold render_target. destruct (g_query g) as [q|].
  - destruct Q as (Q1 & Q2 & Q3). rewrite !nob_app, !nob_cons, Psp, Plf, Q1, Q2.
    repeat split; try reflexivity.
    + apply utf8_join_ascii; [reflexivity | assumption | assumption].
    + now rewrite split_once_app.
  - rewrite app_nil_r. repeat split; try assumption. now rewrite split_once_none.
Qed.

Lemma parse_start_line_render g : wf_start g ->
  parse_start_line (render_start g ++ CRLF) =
  Some (g_method g, g_path g, match g_query g with Some q => q | None => [] end, g_version g).
Proof.
  intro W. destruct (target_props g W) as (Tsp & Tlf & Tu & Tq).
  destruct W as [M _ _ _ _ _ Vne Vsp Vlf Vu]. unfold method_ok in M.
  apply andb_true_iff in M as [M M5]. apply andb_true_iff in M as [M M4]. apply andb_true_iff in M as [M M3].
  apply andb_true_iff in M as [M1 M2].
  destruct (assoc_bytes (method_str (g_method g)) method_parse_table) as [m'|] eqn:Em; [|discriminate].
  apply N.eqb_eq in M5. subst m'.
  unfold parse_start_line.
  assert (U : utf8_valid (render_start g ++ CRLF) = true).
  { apply utf8_true_valid. unfold render_start. apply utf8_app_crlf.
    apply utf8_join_ascii; [reflexivity | now apply utf8_valid_true |].
    apply utf8_join_ascii; [reflexivity | assumption | assumption]. }
  rewrite U. cbn [negb].
  unfold render_start. rewrite <- app_assoc. cbn [app]. rewrite split_on_app by assumption.
  rewrite <- app_assoc. cbn [app]. rewrite split_on_app by assumption.
  rewrite split_on_nob by (rewrite nob_app, Vsp; reflexivity).
  rewrite Em. fold QMARK. rewrite Tq. rewrite strip_crlf_app.
  destruct (g_version g) as [|v0 v]; [contradiction|]. reflexivity.
Qed.

(* ---- one header line ---- *)
Record wf_hdr (h : gheader) : Prop := {
  wh_name_colon : nob COLON (gh_name h) = true;
  wh_name_lf : nob LF (gh_name h) = true;
  wh_name_u : utf8 (gh_name h);
  wh_sep : forallb is_ows (gh_sep h) = true;
  wh_value_lf : nob LF (gh_value h) = true;
  wh_value_u : utf8 (gh_value h);
  wh_value_trim : ws_prefix_len (gh_value h) = 0%nat }.

Lemma wf_header_hdr h : wf_header h = true -> wf_hdr h.
Proof.
  unfold wf_header. intro H.
  apply andb_true_iff in H as [H V3]. apply andb_true_iff in H as [H V2]. apply andb_true_iff in H as [H V1].
  apply andb_true_iff in H as [H S]. apply andb_true_iff in H as [H N3]. apply andb_true_iff in H as [N1 N2].
  constructor; try assumption; try (now apply utf8_valid_true).
  apply beq_eq in V3. now apply trim_start_fixed_iff.
Qed.

Lemma is_ows_ws1 b : is_ows b = true -> ws1 b = true.
Proof.
  unfold is_ows, ws1, SP, HTAB. intro H. apply orb_true_iff in H as [H|H]; apply N.eqb_eq in H; subst; reflexivity.
Qed.

Lemma ows_props sep : forallb is_ows sep = true -> forallb ws1 sep = true /\ nob LF sep = true /\ utf8 sep.
Proof.
  induction sep as [|b sep IH]; cbn [forallb]; intro H.
  - repeat split. constructor.
  - apply andb_true_iff in H as [Hb H]. destruct (IH H) as (I1 & I2 & I3).
    rewrite (is_ows_ws1 _ Hb), I1, nob_cons, I2. repeat split.
    + unfold is_ows, SP, HTAB in Hb. apply orb_true_iff in Hb as [Hb|Hb]; apply N.eqb_eq in Hb; subst; reflexivity.
    + apply utf8_ascii_cons; [|exact I3]. now apply ws1_ascii, is_ows_ws1.
Qed.

Definition header_text (h : gheader) : bytes := gh_name h ++ COLON :: gh_sep h ++ gh_value h.

Lemma render_header_line_text h : render_header_line h = header_text h ++ CRLF.
Proof. unfold render_header_line, header_text. rewrite <- !app_assoc. cbn [app]. now rewrite <- app_assoc. Qed.

Lemma header_text_props h : wf_hdr h -> nob LF (header_text h) = true /\ utf8 (header_text h).
Proof.
  intros [N1 N2 N3 S V1 V2 V3]. destruct (ows_props _ S) as (S1 & S2 & S3). unfold header_text. split.
  - rewrite nob_app, nob_cons, nob_app, N2, S2, V1. reflexivity.
  - apply utf8_join_ascii; [reflexivity | assumption |]. now apply utf8_app.
Qed.

Lemma parse_header_line_render h : wf_hdr h -> parse_header_line (header_text h ++ CRLF) = Some (denote_header h).
Proof.
  intros [N1 N2 N3 S V1 V2 V3]. destruct (ows_props _ S) as (S1 & S2 & S3).
  unfold parse_header_line. rewrite strip_crlf_app. unfold header_text. rewrite split_once_app by assumption.
  now rewrite trim_start_sep.
Qed.

Lemma header_line_not_blank h : beq (header_text h ++ CRLF) CRLF = false.
Proof.
  apply beq_false_iff. intro E. apply (f_equal (@length N)) in E. unfold header_text in E.
  rewrite !app_length in E. cbn [length] in E. lia.
Qed.

(* ---- the header loop ---- *)
Lemma header_loop_flat_render hs : Forall wf_hdr hs -> forall fuel rest acc,
  (length hs < fuel)%nat ->
  header_loop_flat fuel (render_headers hs ++ CRLF ++ rest) acc = Ok (rev acc ++ denote_headers hs, rest).
Proof.
  induction 1 as [|h hs Hh Hhs IH]; intros fuel rest acc Hf.
  - destruct fuel as [|f]; [cbn [length] in Hf; lia|]. cbn [render_headers map concat app header_loop_flat].
    pose proof (read_until_flat_crlf [] rest eq_refl) as R. cbn [app] in R. rewrite R.
    cbn [app denote_headers map]. now rewrite app_nil_r.
  - destruct fuel as [|f]; [cbn [length] in Hf; lia|].
    destruct (header_text_props h Hh) as [Tlf Tu].
    unfold render_headers. cbn [map concat]. fold (render_headers hs).
    rewrite render_header_line_text, <- !app_assoc. cbn [header_loop_flat].
    rewrite read_until_flat_crlf by assumption.
    rewrite (utf8_true_valid _ (utf8_app_crlf _ Tu)). cbn [negb].
    rewrite header_line_not_blank, parse_header_line_render by assumption.
    rewrite IH by (cbn [length] in Hf; lia).
    cbn [rev denote_headers map]. now rewrite <- app_assoc.
Qed.

Lemma render_headers_length hs : (length hs <= length (render_headers hs))%nat.
Proof.
  induction hs as [|h hs IH]; [reflexivity|]. unfold render_headers. cbn [map concat]. fold (render_headers hs).
  rewrite app_length. unfold render_header_line. rewrite !app_length. cbn [length]. lia.
Qed.

(* ---- the body ---- *)
Lemma body_of_flat_render g rest : wf_body g = true ->
  body_of_flat E_Stream (denote_headers (g_headers g)) (render_body g ++ rest) = Ok (g_body g, rest).
Proof.
  unfold wf_body, body_of_flat, render_body. intro H.
  destruct (hget (HKnown H_ContentLength) (denote_headers (g_headers g))) as [cl|], (g_body g) as [b|];
    try discriminate; [|reflexivity].
  destruct (parse_usize cl) as [n|]; [|discriminate]. apply N.eqb_eq in H. subst n.
  now rewrite read_exact_flat_N_app.
Qed.

(* ---- the whole request ---- *)
Lemma parse_faithful ipp p g rest :
  wf_greq g = true -> parse_request_flat ipp p (render g ++ rest) = Ok (denote ipp g p, rest).
Proof.
  intro W. apply wf_greq_start in W as (Ws & Wh & Wb).
  assert (Wh' : Forall wf_hdr (g_headers g)).
  { apply Forall_forall. intros h Hin. apply wf_header_hdr. exact (proj1 (forallb_forall _ _) Wh h Hin). }
  pose proof (parse_start_line_render g Ws) as PS.
  destruct (target_props g Ws) as (Tsp & Tlf & Tu & Tq).
  assert (Slf : nob LF (render_start g) = true).
  { destruct Ws as [M _ _ _ _ _ _ _ Vlf _]. unfold method_ok in M.
    apply andb_true_iff in M as [M _]. apply andb_true_iff in M as [M _]. apply andb_true_iff in M as [_ M].
    unfold render_start. rewrite nob_app, nob_cons, nob_app, nob_cons, M, Tlf, Vlf. reflexivity. }
  unfold render. rewrite <- !app_assoc.
  destruct (render_start g) as [|first l0] eqn:Es.
  { exfalso. destruct Ws as [M _ _ _ _ _ _ _ _ _]. unfold render_start in Es.
    destruct (method_str (g_method g)); [vm_compute in M|]; discriminate. }
  cbn [app parse_request_flat].
  rewrite nob_cons in Slf. apply andb_true_iff in Slf as [_ Slf].
  rewrite read_until_flat_crlf by assumption.
  change (first :: l0 ++ CRLF) with ((first :: l0) ++ CRLF). rewrite PS.
  rewrite header_loop_flat_render; [|assumption|].
  2:{ rewrite !app_length. pose proof (render_headers_length (g_headers g)). lia. }
  cbn [rev app]. rewrite body_of_flat_render by assumption. reflexivity.
Qed.
