(* C02 — proofs about the flat request parser of Http.v: faithfulness on well-formed requests (HttpReqSpec.v),
   case-insensitive field names, cookies, forwarded addresses, and the serialise/parse round trip. *)
From Coq Require Import Lia Arith.
From Hv Require Import Prelude Bytes StreamBuf TablesHttp Http BytesProofs HttpReqSpec.
Open Scope N_scope.
Arguments N.eqb : simpl never.
Arguments N.leb : simpl never.
Arguments N.ltb : simpl never.

(* ------------------------------------------------------------------------------------------------ *)
(* 0. small tools                                                                                   *)
(* ------------------------------------------------------------------------------------------------ *)
Lemma utf8_valid_true l : utf8_valid l = true -> utf8 l.
Proof. apply utf8_valid_iff. Qed.

Lemma utf8_true_valid l : utf8 l -> utf8_valid l = true.
Proof. apply utf8_valid_iff. Qed.

Lemma utf8_CRLF : utf8 CRLF.
Proof. apply utf8_valid_true. reflexivity. Qed.

Lemma utf8_app_crlf l : utf8 l -> utf8 (l ++ CRLF).
Proof. intro H. apply utf8_app; [exact H | exact utf8_CRLF]. Qed.

Lemma read_until_flat_lf l rest : nob LF l = true -> read_until_flat LF (l ++ LF :: rest) = (l ++ [LF], rest).
Proof. intro H. unfold read_until_flat. now rewrite split_incl_app. Qed.

Lemma read_until_flat_crlf l rest : nob LF l = true -> read_until_flat LF (l ++ CRLF ++ rest) = (l ++ CRLF, rest).
Proof.
  intro H. change (l ++ CRLF ++ rest) with (l ++ [CR] ++ LF :: rest). rewrite app_assoc.
  rewrite read_until_flat_lf; [now rewrite <- app_assoc|].
  rewrite nob_app, H. reflexivity.
Qed.

Lemma read_exact_flat_N_app b rest : read_exact_flat_N (N.of_nat (length b)) (b ++ rest) = Some (b, rest).
Proof.
  unfold read_exact_flat_N, read_exact_flat.
  replace (N.of_nat (length (b ++ rest)) <? N.of_nat (length b)) with false
    by (symmetry; apply N.ltb_ge; rewrite app_length; lia).
  rewrite Nat2N.id.
  replace (length b <=? length (b ++ rest))%nat with true
    by (symmetry; apply Nat.leb_le; rewrite app_length; lia).
  now rewrite firstn_app_exact, skipn_app_exact.
Qed.

(* ------------------------------------------------------------------------------------------------ *)
(* 1. the method tables (generated from method.rs) are mutually inverse and harmless                 *)
(* ------------------------------------------------------------------------------------------------ *)
Definition method_ok (m : N) : bool :=
  let s := method_str m in
  negb (beq s []) && nob SP s && nob LF s && utf8_valid s &&
  match assoc_bytes s method_parse_table with Some m' => m' =? m | None => false end.

Lemma method_table_ok : forallb (fun e => method_ok (snd e)) method_parse_table = true.
Proof. vm_compute. reflexivity. Qed.

Lemma wf_method_ok m : wf_method m = true -> method_ok m = true.
Proof.
  unfold wf_method. intro H. apply existsb_exists in H as (e & Hin & He). apply N.eqb_eq in He. subst m.
  exact (proj1 (forallb_forall _ _) method_table_ok e Hin).
Qed.

Lemma assoc_bytes_In {A} k (t : list (bytes * A)) v : assoc_bytes k t = Some v -> In (k, v) t.
Proof.
  induction t as [|[k' v'] t IH]; cbn [assoc_bytes]; [discriminate|].
  destruct (beq k k') eqn:E.
  - intro H. injection H as ->. apply beq_eq in E. subst. now left.
  - intro H. right. now apply IH.
Qed.

(* a method name the parser accepts is the canonical name of its variant *)
Lemma method_parse_ok s m : assoc_bytes s method_parse_table = Some m -> wf_method m = true /\ method_str m = s.
Proof.
  intro H. pose proof (assoc_bytes_In _ _ _ H) as Hin. split.
  - unfold wf_method. apply existsb_exists. exists (s, m). split; [exact Hin|]. apply N.eqb_refl.
  - revert s m H Hin.
    assert (T : forallb (fun e => beq (method_str (snd e)) (fst e)) method_parse_table = true) by (vm_compute; reflexivity).
    intros s m _ Hin. apply (proj1 (forallb_forall _ _) T) in Hin. now apply beq_eq in Hin.
Qed.

(* ------------------------------------------------------------------------------------------------ *)
(* 2. parse_faithful                                                                                *)
(* ------------------------------------------------------------------------------------------------ *)
Ltac split_andb H :=
  repeat match type of H with
         | (_ && _) = true => let H' := fresh H in apply andb_true_iff in H as [H H']
         end.

Record wf_start (g : greq) : Prop := {
  ws_method : method_ok (g_method g) = true;
  ws_path_sp : nob SP (g_path g) = true;
  ws_path_lf : nob LF (g_path g) = true;
  ws_path_q : nob QMARK (g_path g) = true;
  ws_path_u : utf8 (g_path g);
  ws_query : match g_query g with Some q => nob SP q = true /\ nob LF q = true /\ utf8 q | None => True end;
  ws_ver_ne : g_version g <> [];
  ws_ver_sp : nob SP (g_version g) = true;
  ws_ver_lf : nob LF (g_version g) = true;
  ws_ver_u : utf8 (g_version g) }.

Lemma wf_greq_start g : wf_greq g = true -> wf_start g /\ forallb wf_header (g_headers g) = true /\ wf_body g = true.
Proof.
  unfold wf_greq. intro H.
  apply andb_true_iff in H as [H Hb]. apply andb_true_iff in H as [H Hh].
  apply andb_true_iff in H as [H V4]. apply andb_true_iff in H as [H V3]. apply andb_true_iff in H as [H V2].
  apply andb_true_iff in H as [H V1]. apply andb_true_iff in H as [H Q].
  apply andb_true_iff in H as [H P4]. apply andb_true_iff in H as [H P3]. apply andb_true_iff in H as [H P2].
  apply andb_true_iff in H as [M P1].
  split; [|now split]. constructor; try assumption.
  - now apply wf_method_ok.
  - now apply utf8_valid_true.
  - destruct (g_query g) as [q|]; [|exact I]. apply andb_true_iff in Q as [Q Q3]. apply andb_true_iff in Q as [Q1 Q2].
    repeat split; try assumption. now apply utf8_valid_true.
  - apply negb_true_iff, beq_false_iff in V1. exact V1.
  - now apply utf8_valid_true.
Qed.

Lemma target_props g : wf_start g ->
  nob SP (render_target g) = true /\ nob LF (render_target g) = true /\ utf8 (render_target g) /\
  (match split_once QMARK (render_target g) with Some (u, q) => (u, q) | None => (render_target g, []) end)
  = (g_path g, match g_query g with Some q => q | None => [] end).
Proof.
  intros [_ Psp Plf Pq Pu Q _ _ _ _]. unfold render_target. destruct (g_query g) as [q|].
  - destruct Q as (Q1 & Q2 & Q3). rewrite !nob_app, !nob_cons, Psp, Plf, Q1, Q2.
    repeat split; try reflexivity.
    + apply utf8_join_ascii; [reflexivity | assumption | assumption].
    + now rewrite split_once_app.
  - rewrite app_nil_r. repeat split; try assumption. now rewrite split_once_none.
Qed.

Lemma parse_start_line_render g : wf_start g ->
  parse_start_line (render_start g ++ CRLF) =
  Some (g_method g, g_path g, match g_query g with Some q => q | None => [] end, g_version g).
Proof.
  intro W. destruct (target_props g W) as (Tsp & Tlf & Tu & Tq).
  destruct W as [M _ _ _ _ _ Vne Vsp Vlf Vu]. unfold method_ok in M.
  apply andb_true_iff in M as [M M5]. apply andb_true_iff in M as [M M4]. apply andb_true_iff in M as [M M3].
  apply andb_true_iff in M as [M1 M2].
  destruct (assoc_bytes (method_str (g_method g)) method_parse_table) as [m'|] eqn:Em; [|discriminate].
  apply N.eqb_eq in M5. subst m'.
  unfold parse_start_line.
  assert (U : utf8_valid (render_start g ++ CRLF) = true).
  { apply utf8_true_valid. unfold render_start. apply utf8_app_crlf.
    apply utf8_join_ascii; [reflexivity | now apply utf8_valid_true |].
    apply utf8_join_ascii; [reflexivity | assumption | assumption]. }
  rewrite U. cbn [negb].
  unfold render_start. rewrite <- app_assoc. cbn [app]. rewrite split_on_app by assumption.
  rewrite <- app_assoc. cbn [app]. rewrite split_on_app by assumption.
  rewrite split_on_nob by (rewrite nob_app, Vsp; reflexivity).
  rewrite Em. fold QMARK. rewrite Tq. rewrite strip_crlf_app.
  destruct (g_version g) as [|v0 v]; [contradiction|]. reflexivity.
Qed.

(* ---- one header line ---- *)
Record wf_hdr (h : gheader) : Prop := {
  wh_name_colon : nob COLON (gh_name h) = true;
  wh_name_lf : nob LF (gh_name h) = true;
  wh_name_u : utf8 (gh_name h);
  wh_sep_lf : nob LF (gh_sep h) = true;
  wh_value_lf : nob LF (gh_value h) = true;
  wh_sv_u : utf8 (gh_sep h ++ gh_value h);
  wh_trim : trim_start (gh_sep h ++ gh_value h) = gh_value h }.

Lemma is_ows_ws1 b : is_ows b = true -> ws1 b = true.
Proof.
  unfold is_ows, ws1, SP, HTAB. intro H. apply orb_true_iff in H as [H|H]; apply N.eqb_eq in H; subst; reflexivity.
Qed.

Lemma ows_props sep : forallb is_ows sep = true -> forallb ws1 sep = true /\ nob LF sep = true /\ utf8 sep.
Proof.
  induction sep as [|b sep IH]; cbn [forallb]; intro H.
  - repeat split. constructor.
  - apply andb_true_iff in H as [Hb H]. destruct (IH H) as (I1 & I2 & I3).
    rewrite (is_ows_ws1 _ Hb), I1, nob_cons, I2. repeat split.
    + unfold is_ows, SP, HTAB in Hb. apply orb_true_iff in Hb as [Hb|Hb]; apply N.eqb_eq in Hb; subst; reflexivity.
    + apply utf8_ascii_cons; [|exact I3]. now apply ws1_ascii, is_ows_ws1.
Qed.

Lemma wf_header_hdr h : wf_header h = true -> wf_hdr h.
Proof.
  unfold wf_header. intro H.
  apply andb_true_iff in H as [H V3]. apply andb_true_iff in H as [H V2]. apply andb_true_iff in H as [H V1].
  apply andb_true_iff in H as [H S]. apply andb_true_iff in H as [H N3]. apply andb_true_iff in H as [N1 N2].
  destruct (ows_props _ S) as (S1 & S2 & S3). apply beq_eq in V3.
  constructor; try assumption; try (now apply utf8_valid_true).
  - apply utf8_app; [assumption | now apply utf8_valid_true].
  - apply trim_start_sep; [assumption | now apply trim_start_fixed_iff].
Qed.

Definition header_text (h : gheader) : bytes := gh_name h ++ COLON :: gh_sep h ++ gh_value h.

Lemma render_header_line_text h : render_header_line h = header_text h ++ CRLF.
Proof. unfold render_header_line, header_text. rewrite <- !app_assoc. cbn [app]. now rewrite <- app_assoc. Qed.

Lemma header_text_props h : wf_hdr h -> nob LF (header_text h) = true /\ utf8 (header_text h).
Proof.
  intros [N1 N2 N3 S V1 U T]. unfold header_text. split.
  - rewrite nob_app, nob_cons, nob_app, N2, S, V1. reflexivity.
  - apply utf8_join_ascii; [reflexivity | assumption | assumption].
Qed.

Lemma parse_header_line_render h : wf_hdr h -> parse_header_line (header_text h ++ CRLF) = Some (denote_header h).
Proof.
  intros [N1 N2 N3 S V1 U T].
  unfold parse_header_line. rewrite strip_crlf_app. unfold header_text. rewrite split_once_app by assumption.
  now rewrite T.
Qed.

Lemma header_line_not_blank h : beq (header_text h ++ CRLF) CRLF = false.
Proof.
  apply beq_false_iff. intro E. apply (f_equal (@length N)) in E. unfold header_text in E.
  rewrite !app_length in E. cbn [length] in E. lia.
Qed.

(* ---- the header loop ---- *)
Lemma header_loop_flat_render hs : Forall wf_hdr hs -> forall fuel rest acc,
  (length hs < fuel)%nat ->
  header_loop_flat fuel (render_headers hs ++ CRLF ++ rest) acc = Ok (rev acc ++ denote_headers hs, rest).
Proof.
  induction 1 as [|h hs Hh Hhs IH]; intros fuel rest acc Hf.
  - destruct fuel as [|f]; [cbn [length] in Hf; lia|]. cbn [render_headers map concat app header_loop_flat].
    pose proof (read_until_flat_crlf [] rest eq_refl) as R. cbn [app] in R. rewrite R.
    cbn [app denote_headers map]. now rewrite app_nil_r.
  - destruct fuel as [|f]; [cbn [length] in Hf; lia|].
    destruct (header_text_props h Hh) as [Tlf Tu].
    unfold render_headers. cbn [map concat]. fold (render_headers hs).
    rewrite render_header_line_text, <- !app_assoc. cbn [header_loop_flat].
    rewrite read_until_flat_crlf by assumption.
    rewrite (utf8_true_valid _ (utf8_app_crlf _ Tu)). cbn [negb].
    rewrite header_line_not_blank, parse_header_line_render by assumption.
    rewrite IH by (cbn [length] in Hf; lia).
    cbn [rev denote_headers map]. now rewrite <- app_assoc.
Qed.

Lemma render_headers_length hs : (length hs <= length (render_headers hs))%nat.
Proof.
  induction hs as [|h hs IH]; [reflexivity|]. unfold render_headers. cbn [map concat]. fold (render_headers hs).
  rewrite app_length. unfold render_header_line. rewrite !app_length. cbn [length]. lia.
Qed.

(* ---- the body ---- *)
Lemma body_of_flat_render g rest : wf_body g = true ->
  body_of_flat E_Stream (denote_headers (g_headers g)) (render_body g ++ rest) = Ok (g_body g, rest).
Proof.
  unfold wf_body, body_of_flat, render_body. intro H.
  destruct (hget (HKnown H_ContentLength) (denote_headers (g_headers g))) as [cl|], (g_body g) as [b|];
    try discriminate; [|reflexivity].
  destruct (parse_usize cl) as [n|]; [|discriminate]. apply N.eqb_eq in H. subst n.
  now rewrite read_exact_flat_N_app.
Qed.

(* ---- the whole request ---- *)
Lemma parse_faithful_gen ipp p g rest :
  wf_start g -> Forall wf_hdr (g_headers g) -> wf_body g = true ->
  parse_request_flat ipp p (render g ++ rest) = Ok (denote ipp g p, rest).
Proof.
  intros Ws Wh' Wb.
  pose proof (parse_start_line_render g Ws) as PS.
  destruct (target_props g Ws) as (Tsp & Tlf & Tu & Tq).
  assert (Slf : nob LF (render_start g) = true).
  { destruct Ws as [M _ _ _ _ _ _ _ Vlf _]. unfold method_ok in M.
    apply andb_true_iff in M as [M _]. apply andb_true_iff in M as [M _]. apply andb_true_iff in M as [_ M].
    unfold render_start. rewrite nob_app, nob_cons, nob_app, nob_cons, M, Tlf, Vlf. reflexivity. }
  unfold render. rewrite <- !app_assoc.
  destruct (render_start g) as [|first l0] eqn:Es.
  { exfalso. destruct Ws as [M _ _ _ _ _ _ _ _ _]. unfold render_start in Es.
    destruct (method_str (g_method g)); [vm_compute in M|]; discriminate. }
  cbn [app parse_request_flat].
  rewrite nob_cons in Slf. apply andb_true_iff in Slf as [_ Slf].
  rewrite read_until_flat_crlf by assumption.
  change (first :: l0 ++ CRLF) with ((first :: l0) ++ CRLF). rewrite PS.
  rewrite header_loop_flat_render; [|assumption|].
  2:{ rewrite !app_length. pose proof (render_headers_length (g_headers g)). lia. }
  cbn [rev app]. rewrite body_of_flat_render by assumption. reflexivity.
Qed.

Lemma parse_faithful ipp p g rest :
  wf_greq g = true -> parse_request_flat ipp p (render g ++ rest) = Ok (denote ipp g p, rest).
Proof.
  intro W. apply wf_greq_start in W as (Ws & Wh & Wb). apply parse_faithful_gen; try assumption.
  apply Forall_forall. intros h Hin. apply wf_header_hdr. exact (proj1 (forallb_forall _ _) Wh h Hin).
Qed.

(* ------------------------------------------------------------------------------------------------ *)
(* 3. field names: case-insensitive, values and same-name order kept                                 *)
(* ------------------------------------------------------------------------------------------------ *)
Lemma hname_eqb_eq a b : hname_eqb a b = true <-> a = b.
Proof.
  destruct a as [i|x], b as [j|y]; cbn [hname_eqb]; split; intro H; try discriminate.
  - apply N.eqb_eq in H. now subst.
  - injection H as ->. apply N.eqb_refl.
  - apply beq_eq in H. now subst.
  - injection H as ->. apply beq_refl.
Qed.

Lemma hname_eqb_refl a : hname_eqb a a = true.
Proof. now apply hname_eqb_eq. Qed.

Lemma hname_of_lower a : hname_of (ascii_lower a) = hname_of a.
Proof. unfold hname_of. now rewrite ascii_lower_idem. Qed.

(* the generated name table is injective: two lower-case names of the same variant are the same name *)
Lemma header_parse_table_inj :
  forallb (fun e1 => forallb (fun e2 => negb (snd e1 =? snd e2) || beq (fst e1) (fst e2)) header_parse_table)
          header_parse_table = true.
Proof. vm_compute. reflexivity. Qed.

Lemma hname_of_eq_iff a b : hname_of a = hname_of b <-> ascii_lower a = ascii_lower b.
Proof.
  split; [|intro H; unfold hname_of; now rewrite H].
  unfold hname_of. intro H.
  destruct (assoc_bytes (ascii_lower a) header_parse_table) as [i|] eqn:Ea,
           (assoc_bytes (ascii_lower b) header_parse_table) as [j|] eqn:Eb; try discriminate.
  - injection H as <-. apply assoc_bytes_In in Ea, Eb.
    pose proof (proj1 (forallb_forall _ _) header_parse_table_inj _ Ea) as T.
    pose proof (proj1 (forallb_forall _ _) T _ Eb) as T'. cbn [fst snd] in T'.
    rewrite N.eqb_refl in T'. cbn [negb orb] in T'. now apply beq_eq.
  - now injection H.
Qed.

Lemma hname_eqb_of a b : hname_eqb (hname_of a) (hname_of b) = ci_eqb a b.
Proof.
  apply Bool.eq_true_iff_eq. unfold ci_eqb. rewrite hname_eqb_eq, hname_of_eq_iff, beq_true_iff. reflexivity.
Qed.

Lemma hget_hd_error n hs : hget n hs = hd_error (hget_all n hs).
Proof.
  unfold hget_all. induction hs as [|[n' v] hs IH]; cbn [hget filter map fst]; [reflexivity|].
  destruct (hname_eqb n n'); [reflexivity | exact IH].
Qed.

Lemma hget_all_denote n hs :
  hget_all (hname_of n) (denote_headers hs) = map gh_value (filter (fun h => ci_eqb n (gh_name h)) hs).
Proof.
  unfold hget_all, denote_headers. induction hs as [|h hs IH]; [reflexivity|].
  cbn [map filter]. unfold denote_header at 1. cbn [fst]. rewrite hname_eqb_of.
  destruct (ci_eqb n (gh_name h)); cbn [map snd]; now rewrite IH.
Qed.

Lemma hget_denote n hs :
  hget (hname_of n) (denote_headers hs) = hd_error (map gh_value (filter (fun h => ci_eqb n (gh_name h)) hs)).
Proof. now rewrite hget_hd_error, hget_all_denote. Qed.

Lemma names_case_insensitive :
  (forall a b, ascii_lower a = ascii_lower b <-> hname_of a = hname_of b) /\
  (forall n hs, hget_all (hname_of n) (denote_headers hs)
                = map gh_value (filter (fun h => ci_eqb n (gh_name h)) hs)) /\
  (forall n hs, hget (hname_of n) (denote_headers hs)
                = hd_error (map gh_value (filter (fun h => ci_eqb n (gh_name h)) hs))).
Proof.
  split; [|split].
  - intros a b. symmetry. apply hname_of_eq_iff.
  - exact hget_all_denote.
  - exact hget_denote.
Qed.

(* ------------------------------------------------------------------------------------------------ *)
(* 4. Headers::iter: hsort is a stable sort                                                          *)
(* ------------------------------------------------------------------------------------------------ *)
From Coq Require Import Permutation.

Lemma bcmp_refl a : bcmp a a = Eq.
Proof. induction a as [|x a IH]; cbn [bcmp]; [reflexivity|]. now rewrite N.compare_refl. Qed.

Lemma hname_le_refl a : hname_le a a = true.
Proof. unfold hname_le. now rewrite N.eqb_refl, bcmp_refl. Qed.

Lemma hinsert_perm h l : Permutation (hinsert h l) (h :: l).
Proof.
  induction l as [|x l IH]; cbn [hinsert]; [reflexivity|].
  destruct (hname_le (fst h) (fst x)); [reflexivity|].
  rewrite IH. apply perm_swap.
Qed.

Lemma hsort_perm l : Permutation (hsort l) l.
Proof.
  induction l as [|h l IH]; [reflexivity|]. unfold hsort. cbn [fold_right]. fold (hsort l).
  rewrite hinsert_perm. now constructor.
Qed.

Lemma hinsert_filter n h l :
  filter (fun x => hname_eqb n (fst x)) (hinsert h l) =
  if hname_eqb n (fst h) then h :: filter (fun x => hname_eqb n (fst x)) l
  else filter (fun x => hname_eqb n (fst x)) l.
Proof.
  induction l as [|x l IH]; cbn [hinsert filter]; [reflexivity|].
  destruct (hname_le (fst h) (fst x)) eqn:Le; cbn [filter]; [reflexivity|].
  rewrite IH. destruct (hname_eqb n (fst h)) eqn:Eh, (hname_eqb n (fst x)) eqn:Ex; try reflexivity.
  apply hname_eqb_eq in Eh, Ex. rewrite <- Eh, <- Ex, hname_le_refl in Le. discriminate.
Qed.

(* the headers of one name keep their arrival order *)
Lemma hsort_filter n l :
  filter (fun x => hname_eqb n (fst x)) (hsort l) = filter (fun x => hname_eqb n (fst x)) l.
Proof.
  induction l as [|h l IH]; [reflexivity|]. unfold hsort. cbn [fold_right]. fold (hsort l).
  rewrite hinsert_filter, IH. reflexivity.
Qed.

Lemma hget_all_hsort n l : hget_all n (hsort l) = hget_all n l.
Proof. unfold hget_all. now rewrite hsort_filter. Qed.

Lemma hget_hsort n l : hget n (hsort l) = hget n l.
Proof. now rewrite !hget_hd_error, hget_all_hsort. Qed.

Lemma hsort_nil_iff l : hsort l = [] <-> l = [].
Proof.
  split; [|now intros ->]. intro H. pose proof (hsort_perm l) as P. rewrite H in P. now apply Permutation_nil.
Qed.

Lemma hsort_Forall (P : header -> Prop) l : Forall P l -> Forall P (hsort l).
Proof.
  intro H. apply Forall_forall. intros x Hin. apply (proj1 (Forall_forall _ _) H).
  apply (Permutation_in _ (hsort_perm l)). exact Hin.
Qed.

Lemma address_of_hsort ipp l p : address_of ipp (hsort l) p = address_of ipp l p.
Proof. unfold address_of. now rewrite hget_hsort. Qed.

(* ------------------------------------------------------------------------------------------------ *)
(* 5. what a successfully parsed request looks like                                                  *)
(* ------------------------------------------------------------------------------------------------ *)

(* a line delivered by read_until(LF): LF can only be its last byte *)
Definition lf_last (line : bytes) : Prop := forall x z y, line = x ++ z :: y -> nob LF x = true.

Lemma app_eq_prefix {A} (a x : list A) b y : a ++ b = x ++ y -> (length x <= length a)%nat -> x = firstn (length x) a.
Proof.
  revert x. induction a as [|c a IH]; intros x E Hl.
  - destruct x; [reflexivity | cbn [length] in Hl; lia].
  - destruct x as [|d x]; [reflexivity|]. cbn [app] in E. injection E as -> E. cbn [length firstn]. f_equal.
    apply IH; [exact E | cbn [length] in Hl; lia].
Qed.

Lemma read_until_flat_lf_last l line rest : read_until_flat LF l = (line, rest) -> lf_last line /\ l = line ++ rest.
Proof.
  unfold read_until_flat. destruct (split_incl LF l) as [[a b]|] eqn:E; intro H; injection H as <- <-.
  - apply split_incl_some in E as (a' & -> & Hn & ->). split; [|now rewrite <- app_assoc].
    intros x z y Hx.
    assert (Hl : (length x <= length a')%nat).
    { apply (f_equal (@length N)) in Hx. rewrite !app_length in Hx. cbn [length] in Hx. lia. }
    rewrite (app_eq_prefix _ _ _ _ Hx Hl). now apply nob_firstn.
  - apply split_incl_none_inv in E. split; [|now rewrite app_nil_r].
    intros x z y ->. rewrite nob_app in E. now apply andb_true_iff in E as [E _].
Qed.

(* ---- start line ---- *)
Lemma parse_start_line_inv L m uri query version :
  parse_start_line L = Some (m, uri, query, version) ->
  exists mname target tail,
    L = mname ++ SP :: target ++ SP :: (version ++ CRLF) ++ tail /\
    (tail = [] \/ exists t, tail = SP :: t) /\
    assoc_bytes mname method_parse_table = Some m /\
    utf8 L /\ nob SP target = true /\ nob SP version = true /\ version <> [] /\
    (match split_once QMARK target with Some (u, q) => (u, q) | None => (target, []) end) = (uri, query).
Proof.
  unfold parse_start_line. destruct (utf8_valid L) eqn:U; [|discriminate]. cbn [negb].
  destruct (split_on SP L) as [|mname [|target [|v more]]] eqn:E; try discriminate.
  destruct (assoc_bytes mname method_parse_table) as [mi|] eqn:Em; [|discriminate].
  fold QMARK.
  destruct (match split_once QMARK target with Some (u, q) => (u, q) | None => (target, []) end) as [u q] eqn:Et.
  destruct (strip_crlf v) as [x|] eqn:Ev; [|discriminate].
  destruct x as [|x0 x]; [discriminate|]. intro H. injection H as <- <- <- <-.
  apply strip_crlf_some in Ev. subst v.
  apply split_on_inv in E as [_ [[E _]|(l1 & -> & E1)]]; [discriminate|].
  apply split_on_inv in E1 as [Tsp [[E1 _]|(l2 & -> & E2)]]; [discriminate|].
  apply split_on_inv in E2 as [Vsp E2].
  rewrite nob_app in Vsp. apply andb_true_iff in Vsp as [Vsp _].
  destruct E2 as [[-> ->]|(l3 & -> & E3)].
  - exists mname, target, []. rewrite app_nil_r.
    repeat split; try assumption; try discriminate; try (now apply utf8_valid_true). now left.
  - exists mname, target, (SP :: l3).
    repeat split; try assumption; try discriminate; try (now apply utf8_valid_true).
    right. eauto.
Qed.

Record start_ok (m : N) (uri query version : bytes) : Prop := {
  so_method : wf_method m = true;
  so_uri_sp : nob SP uri = true;
  so_uri_lf : nob LF uri = true;
  so_uri_q : nob QMARK uri = true;
  so_uri_u : utf8 uri;
  so_q_sp : nob SP query = true;
  so_q_lf : nob LF query = true;
  so_q_u : utf8 query;
  so_v_ne : version <> [];
  so_v_sp : nob SP version = true;
  so_v_lf : nob LF version = true;
  so_v_u : utf8 version }.

Lemma start_line_ok first line m uri query version :
  lf_last line -> parse_start_line (first :: line) = Some (m, uri, query, version) -> start_ok m uri query version.
Proof.
  intros LL H. apply parse_start_line_inv in H as (mname & target & tail & EL & Htail & Em & U & Tsp & Vsp & Vne & Et).
  destruct mname as [|f m']; [vm_compute in Em; discriminate|].
  cbn [app] in EL. injection EL as <- EL.
  (* LF *)
  assert (Tlf : nob LF target = true).
  { assert (X : nob LF (m' ++ SP :: target) = true).
    { apply (LL _ SP ((version ++ CRLF) ++ tail)). rewrite EL. repeat (rewrite <- app_assoc; cbn [app]). reflexivity. }
    rewrite nob_app, nob_cons in X. apply andb_true_iff in X as [_ X]. now apply andb_true_iff in X as [_ X]. }
  assert (Vlf : nob LF version = true).
  { assert (X : nob LF (m' ++ SP :: target ++ SP :: version) = true).
    { apply (LL _ CR (LF :: tail)). rewrite EL. repeat (rewrite <- app_assoc; cbn [app]). reflexivity. }
    rewrite nob_app, nob_cons, nob_app, nob_cons in X.
    apply andb_true_iff in X as [_ X]. apply andb_true_iff in X as [_ X]. apply andb_true_iff in X as [_ X].
    now apply andb_true_iff in X as [_ X]. }
  (* UTF-8 *)
  rewrite EL in U.
  change (first :: m' ++ SP :: target ++ SP :: (version ++ CRLF) ++ tail)
    with ((first :: m') ++ SP :: target ++ SP :: (version ++ CRLF) ++ tail) in U.
  apply utf8_split_ascii in U as [_ U]; [|reflexivity].
  apply utf8_split_ascii in U as [Tu U]; [|reflexivity].
  assert (Vu : utf8 version).
  { destruct Htail as [->|(t & ->)].
    - rewrite app_nil_r in U. apply utf8_split_ascii in U as [U _]; [exact U | reflexivity].
    - apply utf8_split_ascii in U as [U _]; [|reflexivity].
      apply utf8_split_ascii in U as [U _]; [exact U | reflexivity]. }
  (* target = uri [? query] *)
  assert (Huq : nob SP uri = true /\ nob LF uri = true /\ nob QMARK uri = true /\ utf8 uri /\
                nob SP query = true /\ nob LF query = true /\ utf8 query).
  { destruct (split_once QMARK target) as [[u q]|] eqn:Es; injection Et as <- <-.
    - apply split_once_some in Es as [-> Hq]. rewrite nob_app, nob_cons in Tsp, Tlf.
      apply andb_true_iff in Tsp as [S1 S2]. apply andb_true_iff in S2 as [_ S2].
      apply andb_true_iff in Tlf as [L1 L2]. apply andb_true_iff in L2 as [_ L2].
      apply utf8_split_ascii in Tu as [U1 U2]; [|reflexivity]. now repeat split.
    - apply split_once_none_inv in Es. repeat split; try assumption; try reflexivity. constructor. }
  destruct Huq as (A1 & A2 & A3 & A4 & A5 & A6 & A7).
  constructor; try assumption. now apply (method_parse_ok (first :: m')).
Qed.

(* ---- header fields ---- *)
Record hdr_ok (h : header) : Prop := {
  ho_canon : hname_of (hname_str (fst h)) = fst h;
  ho_colon : nob COLON (hname_str (fst h)) = true;
  ho_lf : nob LF (hname_str (fst h)) = true;
  ho_u : utf8 (hname_str (fst h));
  ho_vlf : nob LF (snd h) = true;
  ho_vu : utf8 (snd h);
  ho_vtrim : ws_prefix_len (snd h) = 0%nat }.

(* every variant of the generated header table prints as a name that parses back to it, without ':' or LF *)
Definition known_ok (i : N) : bool :=
  let s := hname_str (HKnown i) in
  hname_eqb (hname_of s) (HKnown i) && nob COLON s && nob LF s && utf8_valid s.

Lemma header_table_ok : forallb (fun e => known_ok (snd e)) header_parse_table = true.
Proof. vm_compute. reflexivity. Qed.

Lemma hname_canon n (h := hname_of n) :
  nob COLON n = true -> nob LF n = true -> utf8 n ->
  hname_of (hname_str h) = h /\ nob COLON (hname_str h) = true /\ nob LF (hname_str h) = true /\ utf8 (hname_str h).
Proof.
  intros Hc Hl Hu. subst h.
  destruct (assoc_bytes (ascii_lower n) header_parse_table) as [i|] eqn:E.
  - assert (Hn : hname_of n = HKnown i) by (unfold hname_of; now rewrite E). rewrite Hn.
    apply assoc_bytes_In in E. pose proof (proj1 (forallb_forall _ _) header_table_ok _ E) as T.
    cbn [snd] in T. unfold known_ok in T.
    apply andb_true_iff in T as [T T4]. apply andb_true_iff in T as [T T3]. apply andb_true_iff in T as [T1 T2].
    apply hname_eqb_eq in T1. repeat split; try assumption. now apply utf8_valid_true.
  - assert (Hn : hname_of n = HCustom (ascii_lower n)) by (unfold hname_of; now rewrite E). rewrite Hn.
    cbn [hname_str]. repeat split.
    + unfold hname_of. now rewrite ascii_lower_idem, E.
    + now rewrite nob_ascii_lower.
    + now rewrite nob_ascii_lower.
    + now apply utf8_ascii_lower.
Qed.

Lemma parse_header_line_ok line h : lf_last line -> utf8 line -> parse_header_line line = Some h -> hdr_ok h.
Proof.
  intros LL U. unfold parse_header_line.
  destruct (strip_crlf line) as [l|] eqn:Es; [|discriminate]. apply strip_crlf_some in Es. subst line.
  destruct (split_once COLON l) as [[n v]|] eqn:Ec; [|discriminate]. intro H. injection H as <-.
  apply split_once_some in Ec as [-> Hn].
  assert (Llf : nob LF (n ++ COLON :: v) = true) by (apply (LL _ CR [LF]); reflexivity).
  rewrite nob_app, nob_cons in Llf. apply andb_true_iff in Llf as [Nlf Vlf]. apply andb_true_iff in Vlf as [_ Vlf].
  apply utf8_split_ascii in U as [U _]; [|reflexivity].
  apply utf8_split_ascii in U as [Nu Vu]; [|reflexivity].
  destruct (hname_canon n Hn Nlf Nu) as (C1 & C2 & C3 & C4).
  constructor; cbn [fst snd]; try assumption.
  - now apply nob_trim_start.
  - now apply utf8_trim_start.
  - apply trim_start_ws0.
Qed.

Lemma header_loop_flat_ok fuel : forall l acc hs rest,
  header_loop_flat fuel l acc = Ok (hs, rest) -> Forall hdr_ok acc -> Forall hdr_ok hs.
Proof.
  induction fuel as [|f IH]; intros l acc hs rest H Hacc; cbn [header_loop_flat] in H; [discriminate|].
  destruct (read_until_flat LF l) as [line rest0] eqn:Er. apply read_until_flat_lf_last in Er as [LL _].
  destruct (utf8_valid line) eqn:U; [|discriminate]. cbn [negb] in H.
  destruct (beq line CRLF).
  - injection H as <- <-. apply Forall_rev. exact Hacc.
  - destruct (parse_header_line line) as [h|] eqn:Ep; [|discriminate].
    apply (IH _ _ _ _ H). constructor; [|exact Hacc].
    apply (parse_header_line_ok line); [exact LL | now apply utf8_valid_true | exact Ep].
Qed.

(* ---- body ---- *)
Definition body_ok (hs : headers) (c : option bytes) : Prop :=
  match hget (HKnown H_ContentLength) hs, c with
  | None, None => True
  | Some cl, Some b => parse_usize cl = Some (N.of_nat (length b))
  | _, _ => False
  end.

Lemma body_of_flat_ok hs l c rest : body_of_flat E_Stream hs l = Ok (c, rest) -> body_ok hs c.
Proof.
  unfold body_of_flat, body_ok. destruct (hget (HKnown H_ContentLength) hs) as [cl|].
  - destruct (parse_usize cl) as [n|]; [|discriminate].
    unfold read_exact_flat_N, read_exact_flat. destruct (N.of_nat (length l) <? n) eqn:E1; [discriminate|].
    destruct (N.to_nat n <=? length l)%nat eqn:E2; [|discriminate]. intro H. injection H as <- <-.
    apply Nat.leb_le in E2. rewrite firstn_length_le by assumption. now rewrite N2Nat.id.
  - intro H. now injection H as <- <-.
Qed.

(* ---- the request ---- *)
Record parsed_ok (ipp : bytes -> option bytes) (p : peer) (r : request) : Prop := {
  po_start : start_ok (r_method r) (r_uri r) (r_query r) (r_version r);
  po_headers : Forall hdr_ok (r_headers r);
  po_body : body_ok (r_headers r) (r_content r);
  po_addr : r_addr r = address_of ipp (r_headers r) p }.

Lemma parse_request_flat_ok ipp p b r rest : parse_request_flat ipp p b = Ok (r, rest) -> parsed_ok ipp p r.
Proof.
  unfold parse_request_flat. destruct b as [|first l0]; [discriminate|].
  destruct (read_until_flat LF l0) as [line l1] eqn:Er. apply read_until_flat_lf_last in Er as [LL _].
  destruct (parse_start_line (first :: line)) as [[[[m uri] query] version]|] eqn:Es; [|discriminate].
  destruct (header_loop_flat (S (length l1)) l1 []) as [[hs l2]|e|w] eqn:Eh; try discriminate.
  destruct (body_of_flat E_Stream hs l2) as [[c l3]|e|w] eqn:Eb; try discriminate.
  intro H. injection H as <- <-. constructor; cbn [r_method r_uri r_query r_version r_headers r_content r_addr].
  - now apply (start_line_ok first line).
  - apply (header_loop_flat_ok _ _ _ _ _ Eh). constructor.
  - now apply (body_of_flat_ok _ _ _ _ Eb).
  - reflexivity.
Qed.

(* ------------------------------------------------------------------------------------------------ *)
(* 6. round trip: Vec<u8>::from(Request) writes a well-formed request that denotes the same request  *)
(* ------------------------------------------------------------------------------------------------ *)
Definition gh_of (h : header) : gheader := {| gh_name := hname_str (fst h); gh_sep := [SP]; gh_value := snd h |}.

Definition g_of (r : request) : greq :=
  {| g_method := r_method r; g_path := r_uri r;
     g_query := match r_query r with [] => None | q => Some q end;
     g_version := r_version r;
     g_headers := map gh_of (hsort (r_headers r));
     g_body := r_content r |}.

Lemma join_crlf_cons x l : l <> [] -> join_crlf (x :: l) = x ++ CRLF ++ join_crlf l.
Proof. destruct l; [contradiction | reflexivity]. Qed.

Lemma join_crlf_lines hs : hs <> [] ->
  join_crlf (map render_header hs) ++ CRLF = render_headers (map gh_of hs).
Proof.
  induction hs as [|h hs IH]; intro Hne; [contradiction|].
  unfold render_headers. cbn [map concat]. fold (render_headers (map gh_of hs)).
  assert (E : render_header_line (gh_of h) = render_header h ++ CRLF).
  { unfold render_header_line, render_header, gh_of. cbn [gh_name gh_sep gh_value]. now rewrite <- !app_assoc. }
  rewrite E. destruct hs as [|h' hs].
  - cbn [map join_crlf render_headers concat]. now rewrite app_nil_r.
  - rewrite join_crlf_cons by discriminate. rewrite <- !app_assoc. do 2 f_equal. apply IH. discriminate.
Qed.

Lemma serialize_render r :
  (r_headers r = [] -> r_content r = None) ->
  serialize_request r = render (g_of r) ++ roundtrip_residue r.
Proof.
  intro Hb. unfold serialize_request, render, roundtrip_residue.
  assert (Es : (let start := match r_query r with
                | [] => method_str (r_method r) ++ [SP] ++ r_uri r ++ [SP] ++ r_version r
                | q => method_str (r_method r) ++ [SP] ++ r_uri r ++ [63] ++ q ++ [SP] ++ r_version r
                end in start) = render_start (g_of r)).
  { unfold render_start, render_target, g_of. cbn [g_method g_path g_query g_version].
    destruct (r_query r) as [|q0 q]; cbn zeta; [now rewrite app_nil_r|]. rewrite <- !app_assoc. reflexivity. }
  cbn zeta in Es. rewrite Es. rewrite <- !app_assoc. f_equal. f_equal.
  unfold render_body. cbn [g_headers g_body g_of].
  destruct (r_headers r) as [|h hs] eqn:Eh.
  - rewrite Hb by reflexivity. reflexivity.
  - assert (Hne : hsort (h :: hs) <> []) by (intro X; apply (proj1 (hsort_nil_iff _)) in X; discriminate X).
    rewrite <- (join_crlf_lines _ Hne). now rewrite <- !app_assoc, app_nil_r.
Qed.

Lemma denote_headers_gh_of hs : Forall hdr_ok hs -> denote_headers (map gh_of hs) = hs.
Proof.
  induction 1 as [|[n v] hs Hh Hhs IH]; [reflexivity|].
  cbn [map denote_headers]. fold (denote_headers (map gh_of hs)). rewrite IH. f_equal.
  unfold denote_header, gh_of. cbn [gh_name gh_value fst snd]. f_equal. exact (ho_canon _ Hh).
Qed.

Lemma wf_header_gh_of h : hdr_ok h -> wf_header (gh_of h) = true.
Proof.
  intros [C1 C2 C3 C4 V1 V2 V3]. unfold wf_header, gh_of. cbn [gh_name gh_sep gh_value].
  rewrite C2, C3, V1, (utf8_true_valid _ C4), (utf8_true_valid _ V2).
  rewrite (trim_start_fixed _ V3), beq_refl. reflexivity.
Qed.

Lemma body_ok_no_headers c : body_ok [] c -> c = None.
Proof. unfold body_ok. cbn [hget]. destruct c; [contradiction | reflexivity]. Qed.

Lemma wf_greq_g_of ipp p r : parsed_ok ipp p r -> wf_greq (g_of r) = true.
Proof.
  intros [[M U1 U2 U3 U4 Q1 Q2 Q3 V0 V1 V2 V3] Hh Hb _]. unfold wf_greq, g_of.
  cbn [g_method g_path g_query g_version g_headers].
  rewrite M, U1, U2, U3, (utf8_true_valid _ U4), V1, V2, (utf8_true_valid _ V3). cbn [andb].
  apply utf8_true_valid in Q3. revert Q1 Q2 Q3. destruct (r_query r) as [|q0 q]; intros Q1 Q2 Q3;
    rewrite ?Q1, ?Q2, ?Q3; cbn [andb].
  all: replace (beq (r_version r) []) with false by (symmetry; now apply beq_false_iff).
  all: cbn [negb andb].
  all: assert (Hs : Forall hdr_ok (hsort (r_headers r))) by now apply hsort_Forall.
  all: apply andb_true_iff; split.
  all: try (apply forallb_forall; intros gh Hin; apply in_map_iff in Hin as (h & <- & Hin);
            apply wf_header_gh_of; exact (proj1 (Forall_forall _ _) Hs h Hin)).
  all: unfold wf_body; cbn [g_headers g_body]; rewrite denote_headers_gh_of by assumption;
       rewrite hget_hsort; unfold body_ok in Hb;
       destruct (hget (HKnown H_ContentLength) (r_headers r)) as [cl|], (r_content r) as [b|]; try contradiction;
       [rewrite Hb; apply N.eqb_refl | reflexivity].
Qed.

(* the request the second parse returns: the same, with the header fields in Headers::iter order *)
Definition sorted_request (r : request) : request :=
  {| r_method := r_method r; r_uri := r_uri r; r_query := r_query r; r_version := r_version r;
     r_headers := hsort (r_headers r); r_content := r_content r; r_addr := r_addr r |}.

Lemma denote_g_of ipp p r : parsed_ok ipp p r -> denote ipp (g_of r) p = sorted_request r.
Proof.
  intros [_ Hh _ Ha]. unfold denote, sorted_request, g_of. cbn [g_method g_path g_query g_version g_headers g_body].
  rewrite denote_headers_gh_of by now apply hsort_Forall.
  rewrite address_of_hsort, <- Ha. f_equal. now destruct (r_query r).
Qed.

Lemma sorted_request_equiv r : req_equiv (sorted_request r) r.
Proof. unfold req_equiv, sorted_request. cbn. repeat split. intro n. apply hget_all_hsort. Qed.

Lemma roundtrip_parsed ipp p r rest' :
  parsed_ok ipp p r ->
  parse_request_flat ipp p (serialize_request r ++ rest') = Ok (sorted_request r, roundtrip_residue r ++ rest').
Proof.
  intro P. rewrite serialize_render.
  - rewrite <- app_assoc, parse_faithful by (now apply (wf_greq_g_of ipp p)). now rewrite (denote_g_of ipp p).
  - intro E. apply body_ok_no_headers. rewrite <- E. exact (po_body _ _ _ P).
Qed.

Lemma roundtrip ipp p b r rest rest' :
  parse_request_flat ipp p b = Ok (r, rest) ->
  exists r', parse_request_flat ipp p (serialize_request r ++ rest') = Ok (r', roundtrip_residue r ++ rest') /\
             req_equiv r' r /\ r_headers r' = hsort (r_headers r).
Proof.
  intro H. apply parse_request_flat_ok in H. exists (sorted_request r). split; [|split].
  - now apply roundtrip_parsed.
  - apply sorted_request_equiv.
  - reflexivity.
Qed.

Lemma roundtrip_exact ipp p b r rest rest' :
  parse_request_flat ipp p b = Ok (r, rest) -> r_headers r <> [] ->
  exists r', parse_request_flat ipp p (serialize_request r ++ rest') = Ok (r', rest') /\ req_equiv r' r.
Proof.
  intros H Hne. destruct (roundtrip ipp p b r rest rest' H) as (r' & H1 & H2 & _). exists r'. split; [|exact H2].
  rewrite H1. unfold roundtrip_residue. destruct (r_headers r); [contradiction | reflexivity].
Qed.

(* with no header field at all the serialiser writes one CRLF too many; it is left unread (not part of the request) *)
Lemma roundtrip_residue_witness :
  exists b r, parse_request_flat ipv4_parse {| p_ip := [49;46;50;46;51;46;52]; p_port := 80 |} b = Ok (r, []) /\
              parse_request_flat ipv4_parse {| p_ip := [49;46;50;46;51;46;52]; p_port := 80 |} (serialize_request r)
              = Ok (r, CRLF).
Proof.
  exists [71;69;84;32;47;32;72;84;84;80;47;49;46;49;13;10;13;10].
  exists {| r_method := 0; r_uri := [47]; r_query := []; r_version := [72;84;84;80;47;49;46;49]; r_headers := [];
            r_content := None;
            r_addr := {| a_origin := [49;46;50;46;51;46;52]; a_proxies := []; a_port := 80 |} |}.
  split; vm_compute; reflexivity.
Qed.

Lemma hsort_stable l :
  Permutation (hsort l) l /\
  (forall n, filter (fun h => hname_eqb n (fst h)) (hsort l) = filter (fun h => hname_eqb n (fst h)) l) /\
  (forall n, hget_all n (hsort l) = hget_all n l) /\ (forall n, hget n (hsort l) = hget n l).
Proof.
  split; [apply hsort_perm|]. split; [intro n; apply hsort_filter|].
  split; intro n; [apply hget_all_hsort | apply hget_hsort].
Qed.

(* ------------------------------------------------------------------------------------------------ *)
(* 7. cookies                                                                                       *)
(* ------------------------------------------------------------------------------------------------ *)
Lemma filter_map_map {A B C} (f : B -> option C) (g : A -> B) l :
  filter_map f (map g l) = filter_map (fun x => f (g x)) l.
Proof. induction l as [|x l IH]; cbn [map filter_map]; [reflexivity|]. now rewrite IH. Qed.

Lemma filter_map_ext_in {A B} (f g : A -> option B) l :
  (forall x, In x l -> f x = g x) -> filter_map f l = filter_map g l.
Proof.
  induction l as [|x l IH]; intro H; cbn [filter_map]; [reflexivity|].
  rewrite (H x (or_introl eq_refl)), IH; [reflexivity|]. intros y Hy. apply H. now right.
Qed.

Definition cookie_piece (c : bytes) : option (bytes * bytes) :=
  match split_once 61 c with Some (k, x) => Some (trim k, trim x) | None => None end.

Lemma cookie_piece_item i : citem_wf i = true -> cookie_piece (citem_text i) = citem_denote i.
Proof.
  unfold cookie_piece. destruct i as [k x|j]; cbn [citem_wf citem_text citem_denote]; intro H.
  - apply andb_true_iff in H as [H _]. apply andb_true_iff in H as [_ H]. fold EQUALS. now rewrite split_once_app.
  - apply andb_true_iff in H as [_ H]. fold EQUALS. now rewrite split_once_none.
Qed.

Lemma cookies_spec hs items :
  hget (HKnown H_Cookie) hs = Some (cookie_value items) -> forallb citem_wf items = true ->
  cookies_of hs = filter_map citem_denote items.
Proof.
  intros Hg Hw. unfold cookies_of. rewrite Hg. fold cookie_piece. unfold cookie_value. fold SEMI.
  destruct items as [|i items]; [reflexivity|].
  rewrite split_on_join.
  - rewrite filter_map_map. apply filter_map_ext_in. intros x Hx. apply cookie_piece_item.
    exact (proj1 (forallb_forall _ _) Hw x Hx).
  - discriminate.
  - apply Forall_forall. intros t Ht. apply in_map_iff in Ht as (x & <- & Hx).
    pose proof (proj1 (forallb_forall _ _) Hw x Hx) as W. destruct x as [k v|j]; cbn [citem_wf citem_text] in *.
    + apply andb_true_iff in W as [W W3]. apply andb_true_iff in W as [W1 _]. rewrite nob_app, nob_cons, W1, W3. reflexivity.
    + now apply andb_true_iff in W as [W _].
Qed.

Lemma cookies_none hs : hget (HKnown H_Cookie) hs = None -> cookies_of hs = [].
Proof. intro H. unfold cookies_of. now rewrite H. Qed.

Definition std_items (kvs : list (bytes * bytes)) : list citem :=
  match kvs with
  | [] => []
  | kv :: t => CPair (fst kv) (snd kv) :: map (fun kv => CPair (SP :: fst kv) (snd kv)) t
  end.

Lemma cookie_std_items kvs : cookie_std kvs = cookie_value (std_items kvs).
Proof.
  unfold cookie_value. destruct kvs as [|[k v] t]; [reflexivity|]. cbn [std_items fst snd map].
  revert k v. induction t as [|[k' v'] t IH]; intros k v; [reflexivity|].
  cbn [map fst snd]. rewrite join_byte_cons by discriminate.
  change (cookie_std ((k, v) :: (k', v') :: t)) with (k ++ EQUALS :: v ++ SEMI :: SP :: cookie_std ((k', v') :: t)).
  rewrite IH. cbn [citem_text]. rewrite <- app_assoc. cbn [app]. do 3 f_equal.
  destruct t as [|[k2 v2] t]; reflexivity.
Qed.

Lemma cookies_std hs kvs :
  hget (HKnown H_Cookie) hs = Some (cookie_std kvs) -> Forall cookie_kv_wf kvs -> cookies_of hs = kvs.
Proof.
  intros Hg Hw. rewrite cookie_std_items in Hg. rewrite (cookies_spec hs _ Hg).
  - destruct kvs as [|[k v] t]; [reflexivity|]. inversion Hw as [|? ? (K1 & K2 & _) Hw']; subst.
    cbn [std_items filter_map citem_denote fst snd] in *. rewrite K1, K2. f_equal.
    clear Hg Hw K1 K2. induction Hw' as [|[k' v'] t (K1 & K2 & _) _ IH]; [reflexivity|].
    cbn [map filter_map citem_denote fst snd] in *. rewrite trim_ws1_cons by reflexivity. now rewrite K1, K2, IH.
  - apply forallb_forall. intros i Hi. destruct kvs as [|[k v] t]; [contradiction|].
    inversion Hw as [|? ? (_ & _ & K3 & K4 & K5) Hw']; subst. cbn [std_items fst snd] in Hi. destruct Hi as [<-|Hi].
    + cbn [citem_wf fst snd] in *. now rewrite K3, K4, K5.
    + apply in_map_iff in Hi as ([k' v'] & <- & Hin). apply (proj1 (Forall_forall _ _) Hw') in Hin as (_ & _ & J3 & J4 & J5).
      cbn [citem_wf fst snd] in *. rewrite !nob_cons, J3, J4, J5. reflexivity.
Qed.

(* ------------------------------------------------------------------------------------------------ *)
(* 8. client and forwarded addresses                                                                *)
(* ------------------------------------------------------------------------------------------------ *)
Definition peer_only (p : peer) : address := {| a_origin := p_ip p; a_proxies := []; a_port := p_port p |}.

Lemma address_no_header ipp hs p : hget XFF hs = None -> address_of ipp hs p = peer_only p.
Proof. intro H. unfold address_of. now rewrite H. Qed.

Lemma xff_parsed (ipp : bytes -> option bytes) xs : xs <> [] -> Forall xe_wf xs ->
  filter_map (fun s => ipp (trim s)) (split_on 44 (xff_value xs)) = filter_map (fun x => ipp (xe_text x)) xs.
Proof.
  intros Hne Hw. unfold xff_value. fold COMMA. rewrite split_on_join.
  - rewrite filter_map_map. apply filter_map_ext_in. intros x Hx.
    apply (proj1 (Forall_forall _ _) Hw) in Hx as [_ Hx]. now rewrite Hx.
  - destruct xs; [contradiction | discriminate].
  - apply Forall_forall. intros t Ht. apply in_map_iff in Ht as (x & <- & Hx).
    now apply (proj1 (Forall_forall _ _) Hw) in Hx as [Hx _].
Qed.

Lemma address_spec ipp hs p xs :
  hget XFF hs = Some (xff_value xs) -> xs <> [] -> Forall xe_wf xs ->
  (filter_map (fun x => ipp (xe_text x)) xs = [] -> address_of ipp hs p = peer_only p) /\
  (forall init last, filter_map (fun x => ipp (xe_text x)) xs = init ++ [last] ->
     address_of ipp hs p = {| a_origin := last; a_proxies := init ++ [p_ip p]; a_port := p_port p |}).
Proof.
  intros Hg Hne Hw. unfold address_of. rewrite Hg, (xff_parsed ipp xs Hne Hw). split.
  - intros ->. reflexivity.
  - intros init last ->. rewrite rev_app_distr. cbn [rev app]. now rewrite rev_involutive.
Qed.

Lemma xe_wfb_wf x : xe_wfb x = true -> xe_wf x.
Proof.
  unfold xe_wfb, xe_wf, xe_raw. intro H.
  apply andb_true_iff in H as [H H5]. apply andb_true_iff in H as [H H4]. apply andb_true_iff in H as [H H3].
  apply andb_true_iff in H as [H1 H2]. apply beq_eq in H4, H5.
  destruct (ows_props _ H1) as (A1 & _ & _). destruct (ows_props _ H2) as (B1 & _ & _). split.
  - assert (C : forall l, forallb is_ows l = true -> nob COMMA l = true).
    { induction l as [|b l IH]; [reflexivity|]. cbn [forallb]. intro X. apply andb_true_iff in X as [Xb X].
      rewrite nob_cons, (IH X). unfold is_ows, SP, HTAB in Xb.
      apply orb_true_iff in Xb as [Xb|Xb]; apply N.eqb_eq in Xb; subst; reflexivity. }
    now rewrite !nob_app, (C _ H1), (C _ H2), H3.
  - now apply trim_pad.
Qed.

(* ------------------------------------------------------------------------------------------------ *)
(* 9. the canonical Content-Length spelling satisfies wf_body                                        *)
(* ------------------------------------------------------------------------------------------------ *)
Lemma wf_body_canonical g b :
  g_body g = Some b -> N.of_nat (length b) <= usize_max ->
  hget (HKnown H_ContentLength) (denote_headers (g_headers g)) = Some (dec_render (N.of_nat (length b))) ->
  wf_body g = true.
Proof.
  intros Hb Hl Hg. unfold wf_body. rewrite Hg, Hb, parse_usize_dec_render by assumption. apply N.eqb_refl.
Qed.

(* ------------------------------------------------------------------------------------------------ *)
(* 10. the parser accepts exactly the renderings of accepted requests                                *)
(* ------------------------------------------------------------------------------------------------ *)
Lemma acc_header_hdr h : acc_header h -> wf_hdr h.
Proof. intros [A1 A2 A3 A4 A5 A6 A7]. constructor; try assumption; now apply utf8_valid_true. Qed.

Lemma hdr_acc_header h : wf_hdr h -> acc_header h.
Proof. intros [A1 A2 A3 A4 A5 A6 A7]. constructor; try assumption; now apply utf8_true_valid. Qed.

Lemma acc_start_wf g : acc_start g -> wf_start g.
Proof.
  intros [A1 A2 A3 A4 A5 A6 A7 A8 A9 A10]. constructor; try assumption; try (now apply utf8_valid_true).
  - now apply wf_method_ok.
  - destruct (g_query g); [|exact I]. destruct A6 as (Q1 & Q2 & Q3). repeat split; try assumption. now apply utf8_valid_true.
Qed.

Lemma wf_greq_accepted g : wf_greq g = true -> accepted g.
Proof.
  intro W. pose proof W as W0. apply wf_greq_start in W as (Ws & Wh & Wb). split; [|split; [|exact Wb]].
  - unfold wf_greq in W0.
    apply andb_true_iff in W0 as [H _]. apply andb_true_iff in H as [H _].
    apply andb_true_iff in H as [H V4]. apply andb_true_iff in H as [H V3]. apply andb_true_iff in H as [H V2].
    apply andb_true_iff in H as [H V1]. apply andb_true_iff in H as [H Q].
    apply andb_true_iff in H as [H P4]. apply andb_true_iff in H as [H P3]. apply andb_true_iff in H as [H P2].
    apply andb_true_iff in H as [M P1].
    constructor; try assumption.
    + destruct (g_query g) as [q|]; [|exact I]. apply andb_true_iff in Q as [Q Q3]. apply andb_true_iff in Q as [Q1 Q2].
      now repeat split.
    + exact (ws_ver_ne _ Ws).
  - apply Forall_forall. intros h Hin. apply hdr_acc_header, wf_header_hdr.
    exact (proj1 (forallb_forall _ _) Wh h Hin).
Qed.

Lemma parse_accepted ipp p g rest :
  accepted g -> parse_request_flat ipp p (render g ++ rest) = Ok (denote ipp g p, rest).
Proof.
  intros (As & Ah & Ab). apply parse_faithful_gen; [now apply acc_start_wf | | exact Ab].
  apply Forall_forall. intros h Hin. apply acc_header_hdr. exact (proj1 (Forall_forall _ _) Ah h Hin).
Qed.

(* ---- converse: start line ---- *)
Lemma start_line_conv first line m uri query version :
  lf_last line -> parse_start_line (first :: line) = Some (m, uri, query, version) ->
  exists qo, first :: line = (method_str m ++ SP :: (uri ++ match qo with Some q => QMARK :: q | None => [] end)
                              ++ SP :: version) ++ CRLF /\
             query = match qo with Some q => q | None => [] end.
Proof.
  intros LL H. apply parse_start_line_inv in H as (mname & target & tail & EL & Htail & Em & U & Tsp & Vsp & Vne & Et).
  destruct mname as [|f m']; [vm_compute in Em; discriminate|].
  apply method_parse_ok in Em as [_ Em]. rewrite Em.
  assert (Ht : tail = []).
  { destruct Htail as [->|(t & ->)]; [reflexivity|]. exfalso.
    cbn [app] in EL. injection EL as _ EL.
    assert (X : nob LF (m' ++ SP :: target ++ SP :: version ++ CRLF) = true).
    { apply (LL _ SP t). rewrite EL. repeat (rewrite <- app_assoc; cbn [app]). reflexivity. }
    unfold CRLF in X. repeat first [rewrite nob_app in X | rewrite nob_cons in X].
    rewrite N.eqb_refl in X. cbn [negb] in X. rewrite !andb_false_r in X. discriminate. }
  subst tail. rewrite app_nil_r in EL.
  destruct (split_once QMARK target) as [[u q]|] eqn:Es; injection Et as <- <-.
  - apply split_once_some in Es as [-> _]. exists (Some q). split; [|reflexivity].
    rewrite EL. repeat (rewrite <- app_assoc; cbn [app]). reflexivity.
  - exists None. split; [|reflexivity]. rewrite EL, app_nil_r. repeat (rewrite <- app_assoc; cbn [app]). reflexivity.
Qed.

(* ---- converse: header lines ---- *)
Lemma parse_header_line_conv line h :
  lf_last line -> utf8 line -> parse_header_line line = Some h ->
  exists gh, wf_hdr gh /\ line = header_text gh ++ CRLF /\ h = denote_header gh.
Proof.
  intros LL U. unfold parse_header_line.
  destruct (strip_crlf line) as [l|] eqn:Es; [|discriminate]. apply strip_crlf_some in Es. subst line.
  destruct (split_once COLON l) as [[n v]|] eqn:Ec; [|discriminate]. intro H. injection H as <-.
  apply split_once_some in Ec as [-> Hn].
  assert (Llf : nob LF (n ++ COLON :: v) = true) by (apply (LL _ CR [LF]); reflexivity).
  rewrite nob_app, nob_cons in Llf. apply andb_true_iff in Llf as [Nlf Vlf]. apply andb_true_iff in Vlf as [_ Vlf].
  apply utf8_split_ascii in U as [U _]; [|reflexivity].
  apply utf8_split_ascii in U as [Nu Vu]; [|reflexivity].
  destruct (trim_start_suffix v) as (pad & Ev).
  exists {| gh_name := n; gh_sep := pad; gh_value := trim_start v |}. split; [|split].
  - rewrite Ev, nob_app in Vlf. apply andb_true_iff in Vlf as [Plf Tlf].
    constructor; cbn [gh_name gh_sep gh_value]; try assumption; now rewrite <- Ev.
  - unfold header_text. cbn [gh_name gh_sep gh_value]. now rewrite <- Ev.
  - reflexivity.
Qed.

Lemma header_loop_flat_conv fuel : forall l acc hs rest,
  header_loop_flat fuel l acc = Ok (hs, rest) ->
  exists ghs, Forall wf_hdr ghs /\ l = render_headers ghs ++ CRLF ++ rest /\ hs = rev acc ++ denote_headers ghs.
Proof.
  induction fuel as [|f IH]; intros l acc hs rest H; cbn [header_loop_flat] in H; [discriminate|].
  destruct (read_until_flat LF l) as [line rest0] eqn:Er. apply read_until_flat_lf_last in Er as [LL El].
  destruct (utf8_valid line) eqn:U; [|discriminate]. cbn [negb] in H.
  destruct (beq line CRLF) eqn:Eb.
  - injection H as <- <-. apply beq_eq in Eb. subst line. exists []. split; [constructor|]. split.
    + exact El.
    + cbn [denote_headers map]. now rewrite app_nil_r.
  - destruct (parse_header_line line) as [h|] eqn:Ep; [|discriminate].
    apply parse_header_line_conv in Ep as (gh & Wg & -> & ->); [|exact LL | now apply utf8_valid_true].
    apply IH in H as (ghs & Wgs & -> & ->). exists (gh :: ghs). split; [now constructor|]. split.
    + rewrite El. unfold render_headers. cbn [map concat]. rewrite render_header_line_text, <- !app_assoc. reflexivity.
    + cbn [rev denote_headers map]. now rewrite <- app_assoc.
Qed.

Lemma body_of_flat_conv hs l c rest : body_of_flat E_Stream hs l = Ok (c, rest) ->
  l = match c with Some b => b | None => [] end ++ rest.
Proof.
  unfold body_of_flat. destruct (hget (HKnown H_ContentLength) hs) as [cl|].
  - destruct (parse_usize cl) as [n|]; [|discriminate].
    unfold read_exact_flat_N, read_exact_flat. destruct (N.of_nat (length l) <? n); [discriminate|].
    destruct (N.to_nat n <=? length l)%nat; [|discriminate]. intro H. injection H as <- <-.
    symmetry. apply firstn_skipn.
  - intro H. now injection H as <- <-.
Qed.

Lemma parse_accepts_conv ipp p b r rest :
  parse_request_flat ipp p b = Ok (r, rest) -> exists g, accepted g /\ b = render g ++ rest /\ r = denote ipp g p.
Proof.
  intro H0. pose proof (parse_request_flat_ok _ _ _ _ _ H0) as [[M U1 U2 U3 U4 Q1 Q2 Q3 V0 V1 V2 V3] _ Hb _].
  revert H0 M U1 U2 U3 U4 Q1 Q2 Q3 V0 V1 V2 V3 Hb.
  unfold parse_request_flat. destruct b as [|first l0]; [discriminate|].
  destruct (read_until_flat LF l0) as [line l1] eqn:Er. apply read_until_flat_lf_last in Er as [LL El0].
  destruct (parse_start_line (first :: line)) as [[[[m uri] query] version]|] eqn:Es; [|discriminate].
  destruct (header_loop_flat (S (length l1)) l1 []) as [[hs l2]|e|w] eqn:Eh; try discriminate.
  destruct (body_of_flat E_Stream hs l2) as [[c l3]|e|w] eqn:Eb; try discriminate.
  intro H. injection H as <- <-. cbn [r_method r_uri r_query r_version r_headers r_content].
  intros M U1 U2 U3 U4 Q1 Q2 Q3 V0 V1 V2 V3 Hb.
  apply start_line_conv in Es as (qo & Eline & Eq); [|exact LL].
  apply header_loop_flat_conv in Eh as (ghs & Wgs & El1 & Ehs). cbn [rev app] in Ehs.
  apply body_of_flat_conv in Eb.
  exists {| g_method := m; g_path := uri; g_query := qo; g_version := version; g_headers := ghs; g_body := c |}.
  split; [|split].
  - split; [|split].
    + constructor; cbn [g_method g_path g_query g_version]; try assumption; try (now apply utf8_true_valid).
      subst query. destruct qo as [q|]; [|exact I]. repeat split; try assumption. now apply utf8_true_valid.
    + apply Forall_forall. intros h Hin. apply hdr_acc_header. exact (proj1 (Forall_forall _ _) Wgs h Hin).
    + unfold wf_body. cbn [g_headers g_body]. rewrite <- Ehs. unfold body_ok in Hb.
      destruct (hget (HKnown H_ContentLength) hs) as [cl|], c as [bd|]; try contradiction; [|reflexivity].
      rewrite Hb. apply N.eqb_refl.
  - unfold render, render_start, render_target, render_body. cbn [g_method g_path g_query g_version g_headers g_body].
    rewrite El0, El1, Eb.
    rewrite app_comm_cons.
    rewrite Eline. repeat (rewrite <- app_assoc; cbn [app]). reflexivity.
  - unfold denote. cbn [g_method g_path g_query g_version g_headers g_body]. subst query hs. reflexivity.
Qed.

Lemma parse_accepts_iff ipp p b r rest :
  parse_request_flat ipp p b = Ok (r, rest) <-> exists g, accepted g /\ b = render g ++ rest /\ r = denote ipp g p.
Proof.
  split; [apply parse_accepts_conv|]. intros (g & A & -> & ->). now apply parse_accepted.
Qed.
