(* What a WebSocket client script means (RFC 6455 sections 5.4 "Fragmentation", 5.5 "Control Frames", 5.5.1-5.5.3,
   1.3 "Opening Handshake"), written independently of the shape of message.rs: no loop over a frame vector, no fuel,
   no reader — a script is a list of frame values and its meaning is computed by structural recursion.
   Shares only the data types with the model (frame, opcode, message).  Definitions only. *)
From Hv Require Import Prelude Stream Frame FrameSpec WsMessage.
From Hv Require Sha1Spec Base64Spec.
Open Scope N_scope.

(* ---- section 5.4/5.5: which frame sequences a client may send ----
   "A fragmented message consists of a single frame with the FIN bit clear and an opcode other than 0, followed by
    zero or more frames with the FIN bit clear and the opcode set to 0, and terminated by a single frame with the FIN
    bit set and an opcode of 0."  "Control frames MAY be injected in the middle of a fragmented message."
   "All control frames MUST have a payload length of 125 bytes or less and MUST NOT be fragmented."
   `open` = a fragmented message is in progress. *)
Fixpoint script_okb (open : bool) (fs : list frame) : bool :=
  match fs with
  | [] => true
  | f :: r =>
    match fopcode f with
    | Close | Ping | Pong => fin f && (blen (payload f) <=? 125) && script_okb open r
    | Continuation => open && script_okb (negb (fin f)) r
    | Text | Binary => negb open && script_okb (negb (fin f)) r
    end
  end.

(* the script ends between messages (no fragmented message left open) *)
Fixpoint ends_closed (open : bool) (fs : list frame) : bool :=
  match fs with
  | [] => negb open
  | f :: r =>
    match fopcode f with
    | Close | Ping | Pong => ends_closed open r
    | _ => ends_closed (negb (fin f)) r
    end
  end.

(* a client frame: well-formed value (FrameSpec.wf), masked (section 5.1: "a client MUST mask all frames") *)
Definition client_frame (f : frame) : Prop := wf f /\ mask f = true.

(* ---- the messages a script sends ----
   cur = the fragmented message in progress: (is text, payload so far).  Nothing is delivered after the first Close. *)
Fixpoint messages_of (cur : option (bool * bytes)) (fs : list frame) : list message :=
  match fs with
  | [] => []
  | f :: r =>
    match fopcode f with
    | Close => []
    | Ping | Pong => messages_of cur r
    | Text =>
      if fin f then mkMsg true (payload f) :: messages_of None r else messages_of (Some (true, payload f)) r
    | Binary =>
      if fin f then mkMsg false (payload f) :: messages_of None r else messages_of (Some (false, payload f)) r
    | Continuation =>
      match cur with
      | Some (t, p) =>
        if fin f then mkMsg t (p ++ payload f) :: messages_of None r else messages_of (Some (t, p ++ payload f)) r
      | None => messages_of None r          (* not a well-formed script *)
      end
    end
  end.

(* ---- the frames the server has to send in reply (5.5.2, 5.5.3, 5.5.1) ----
   "Upon receipt of a Ping frame, an endpoint MUST send a Pong frame in response" with "identical Application data";
   "If an endpoint receives a Close frame and did not previously send a Close frame, the endpoint MUST send a Close
    frame in response" (it "typically echos the status code it received").  A server frame is unmasked, FIN, no RSV. *)
Definition server_frame (o : opcode) (p : bytes) : frame :=
  mkFrame true false false false o false (blen p) zero_key p.

Fixpoint replies_of (fs : list frame) : list frame :=
  match fs with
  | [] => []
  | f :: r =>
    match fopcode f with
    | Ping => server_frame Pong (payload f) :: replies_of r
    | Close => [server_frame Close (payload f)]
    | _ => replies_of r
    end
  end.

Fixpoint has_close (fs : list frame) : bool :=
  match fs with
  | [] => false
  | f :: r => match fopcode f with Close => true | _ => has_close r end
  end.

(* the part of the script the server gets to see: up to and including the first Close *)
Fixpoint upto_close (fs : list frame) : list frame :=
  match fs with
  | [] => []
  | f :: r => match fopcode f with Close => [f] | _ => f :: upto_close r end
  end.

(* a message sent by the server (`send`): one unmasked FIN frame, Text or Binary *)
Definition message_frame (m : message) : frame :=
  server_frame (if m_text m then Text else Binary) (m_payload m).

(* ---- what the server writes when the handler echoes every message: replies and echoes in wire order ---- *)
Fixpoint echo_replies_of (cur : option (bool * bytes)) (fs : list frame) : list frame :=
  match fs with
  | [] => []
  | f :: r =>
    match fopcode f with
    | Close => [server_frame Close (payload f)]
    | Ping => server_frame Pong (payload f) :: echo_replies_of cur r
    | Pong => echo_replies_of cur r
    | Text =>
      if fin f then message_frame (mkMsg true (payload f)) :: echo_replies_of None r
      else echo_replies_of (Some (true, payload f)) r
    | Binary =>
      if fin f then message_frame (mkMsg false (payload f)) :: echo_replies_of None r
      else echo_replies_of (Some (false, payload f)) r
    | Continuation =>
      match cur with
      | Some (t, p) =>
        if fin f then message_frame (mkMsg t (p ++ payload f)) :: echo_replies_of None r
        else echo_replies_of (Some (t, p ++ payload f)) r
      | None => echo_replies_of None r
      end
    end
  end.

(* ---- RFC 6455 section 1.3 / 4.2.2: Sec-WebSocket-Accept = base64 (SHA-1 (key ++ GUID)), on the RFC-side definitions of
   SHA-1 (Sha1Spec.v, RFC 3174 on bit strings) and Base64 (Base64Spec.v, RFC 4648 on bit strings) ---- *)
Definition RFC_GUID : bytes :=   (* "258EAFA5-E914-47DA-95CA-C5AB0DC85B11" *)
  [50; 53; 56; 69; 65; 70; 65; 53; 45; 69; 57; 49; 52; 45; 52; 55; 68; 65; 45; 57; 53; 67; 65; 45; 67; 53; 65; 66; 48; 68;
   67; 56; 53; 66; 49; 49].

Definition accept_spec (key : bytes) : bytes :=
  Base64Spec.encode_spec (Sha1Spec.sha1_spec (key ++ RFC_GUID)).

(* ---- a handler that stops after n messages and drops the stream: the part of the script it gets to see ----
   the shortest prefix containing n complete messages (everything up to the first Close, or the whole script, if there
   are fewer) *)
Fixpoint cut_after (n : nat) (fs : list frame) : list frame :=
  match n with
  | O => []
  | S n' =>
    match fs with
    | [] => []
    | f :: r =>
      match fopcode f with
      | Close => [f]
      | Ping | Pong => f :: cut_after n r
      | _ => if fin f then f :: cut_after n' r else f :: cut_after n r
      end
    end
  end.
