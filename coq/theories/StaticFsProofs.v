(* Confinement of the static handlers (C06): whatever the request path, a 200 response carries the content of a regular
   file located under the served directory. *)
From Coq Require Import Lia.
From Hv Require Import Prelude Bytes TablesHttp Http StaticFs.
Open Scope N_scope.
Arguments N.eqb : simpl never.

Lemma beq_eq a b : beq a b = true <-> a = b.
Proof.
  revert b. induction a as [|x a IH]; intros [|y b]; cbn [beq]; split; try discriminate; try reflexivity.
  - intro H. apply andb_true_iff in H as [H1 H2]. apply N.eqb_eq in H1. apply IH in H2. congruence.
  - intros [= -> ->]. rewrite N.eqb_refl. cbn. now apply IH.
Qed.

Lemma beq_refl a : beq a a = true.
Proof. now apply beq_eq. Qed.

Lemma beq_false a b : beq a b = false <-> a <> b.
Proof. rewrite <- beq_eq. destruct (beq a b); split; congruence. Qed.

(* the models match on the literal 47 ('/'): restate with N.eqb *)
Lemma match47 {A} (x : N) (a b : A) :
  match x with 47 => a | _ => b end = if x =? 47 then a else b.
Proof.
  destruct x as [|p]; [reflexivity|].
  repeat (destruct p as [p|p|]; try reflexivity).
Qed.

Lemma trim_start_slashes_cons x l :
  trim_start_slashes (x :: l) = if x =? 47 then trim_start_slashes l else x :: l.
Proof. cbn [trim_start_slashes]. apply match47. Qed.

Lemma ends_with_slash_spec l : ends_with_slash l = true -> exists r, l = r ++ [SLASH].
Proof.
  unfold ends_with_slash. destruct (rev l) as [|x r] eqn:Er; [discriminate|].
  rewrite match47. destruct (x =? 47) eqn:E; [|discriminate]. apply N.eqb_eq in E. subst x. intros _.
  exists (rev r). rewrite <- (rev_involutive l), Er. reflexivity.
Qed.

(* ---- split_on ---- *)
Lemma split_on_nonempty d l : split_on d l <> [].
Proof.
  induction l as [|x l IH]; cbn [split_on]; [discriminate|].
  destruct (x =? d); [discriminate|]. destruct (split_on d l); [congruence|discriminate].
Qed.

Lemma split_on_app d a b : split_on d (a ++ d :: b) = split_on d a ++ split_on d b.
Proof.
  induction a as [|x a IH]; cbn [app split_on].
  - now rewrite N.eqb_refl.
  - destruct (x =? d); [now rewrite IH|]. rewrite IH.
    pose proof (split_on_nonempty d a) as H. destruct (split_on d a); [congruence|reflexivity].
Qed.

Lemma split_on_no_delim d l : existsb (fun b => b =? d) l = false -> split_on d l = [l].
Proof.
  induction l as [|x l IH]; cbn [existsb split_on]; [reflexivity|].
  intro H. apply orb_false_iff in H as [H1 H2]. rewrite H1, (IH H2). reflexivity.
Qed.

Lemma split_on_first_prefix d : forall p f fs, split_on d p = f :: fs -> exists b, p = f ++ b.
Proof.
  induction p as [|x p IH]; intros f fs H; cbn [split_on] in H.
  - injection H as <- <-. now exists [].
  - destruct (x =? d).
    + injection H as <- <-. now exists (x :: p).
    + destruct (split_on d p) as [|f' fs'] eqn:E; [injection H as <- <-; now exists p|].
      injection H as <- <-. destruct (IH f' fs' eq_refl) as (b & ->). now exists b.
Qed.

Lemma split_on_in d : forall p c, In c (split_on d p) -> exists a b, p = a ++ c ++ b.
Proof.
  induction p as [|x p IH]; intros c Hin; cbn [split_on] in Hin.
  - destruct Hin as [<-|[]]. now exists [], [].
  - destruct (x =? d).
    + destruct Hin as [<-|Hin]; [now exists [], (x :: p)|].
      destruct (IH c Hin) as (a & b & ->). now exists (x :: a), b.
    + destruct (split_on d p) as [|f fs] eqn:Es.
      * destruct Hin as [<-|[]]. exists [], p. reflexivity.
      * destruct Hin as [<-|Hin].
        -- destruct (split_on_first_prefix d p f fs Es) as (b & ->). now exists [], b.
        -- destruct (IH c (or_intror Hin)) as (a & b & ->). now exists (x :: a), b.
Qed.

(* ---- contains_sub ---- *)
Lemma contains_sub_cons sub x l : contains_sub sub (x :: l) = false -> contains_sub sub l = false.
Proof. cbn [contains_sub]. intro H. now apply orb_false_iff in H as [_ H]. Qed.

Lemma contains_sub_prefix s b : contains_sub s (s ++ b) = true.
Proof.
  destruct (s ++ b) as [|x l] eqn:E.
  - destruct s as [|y s]; [reflexivity|cbn in E; discriminate E].
  - cbn [contains_sub]. rewrite <- E, firstn_app, Nat.sub_diag, firstn_all. cbn [firstn]. now rewrite app_nil_r, beq_refl.
Qed.

Lemma contains_sub_app s a b : contains_sub s (a ++ s ++ b) = true.
Proof.
  induction a as [|x a IH]; [cbn [app]; apply contains_sub_prefix|]. cbn [app contains_sub]. rewrite IH. apply orb_true_r.
Qed.

Lemma no_dd_component p c : contains_sub [DOT; DOT] p = false -> In c (split_on SLASH p) -> c <> [DOT; DOT].
Proof.
  intros H Hin ->. apply split_on_in in Hin as (a & b & ->). rewrite contains_sub_app in H. discriminate.
Qed.

(* ---- walking never leaves a directory without ".." ---- *)
Definition under (root loc : list bytes) : Prop := exists suffix, loc = root ++ suffix.

Lemma under_refl root : under root root.
Proof. exists []. now rewrite app_nil_r. Qed.

Lemma under_snoc root loc c : under root loc -> under root (loc ++ [c]).
Proof. intros (s & ->). exists (s ++ [c]). now rewrite app_assoc. Qed.

Lemma walk_under fs : forall comps cur loc root,
  (forall c, In c comps -> c <> [DOT; DOT]) -> under root cur ->
  walk fs cur comps = Some loc -> under root loc.
Proof.
  induction comps as [|c comps IH]; intros cur loc root Hno Hu H; cbn [walk] in H.
  - now injection H as <-.
  - destruct (node_at fs cur) as [[?|es]|]; try discriminate.
    assert (Hno' : forall c0, In c0 comps -> c0 <> [DOT; DOT]) by (intros c0 Hc; apply Hno; now right).
    destruct (beq c [] || beq c [DOT]); [now apply (IH cur loc root)|].
    destruct (beq c [DOT; DOT]) eqn:E.
    + apply beq_eq in E. exfalso. apply (Hno c); [now left|assumption].
    + match type of H with context [match ?X with _ => _ end] => destruct X end; [|discriminate].
      apply (IH (cur ++ [c]) loc root); [assumption | now apply under_snoc | assumption].
Qed.

Lemma walk_app fs : forall c1 c2 cur,
  walk fs cur (c1 ++ c2) = match walk fs cur c1 with Some cur' => walk fs cur' c2 | None => None end.
Proof.
  induction c1 as [|c c1 IH]; intros c2 cur; [reflexivity|]. cbn [app walk].
  destruct (node_at fs cur) as [[?|es]|]; try reflexivity.
  destruct (beq c [] || beq c [DOT]); [apply IH|].
  destruct (beq c [DOT; DOT]); [apply IH|].
  destruct (node_at fs (cur ++ [c])); [apply IH|reflexivity].
Qed.

(* resolving  dir ++ "/" ++ rp  where dir resolves to root and rp has no ".." substring stays under root *)
Lemma resolve_under fs dir rp root loc :
  walk fs [] (split_on SLASH dir) = Some root ->
  (forall c, In c (split_on SLASH rp) -> c <> [DOT; DOT]) ->
  resolve fs (dir ++ [SLASH] ++ rp) = Some loc -> under root loc.
Proof.
  intros Hd Hno H. unfold resolve in H. destruct (has_nul _); [discriminate|].
  cbn [app] in H. rewrite split_on_app, walk_app, Hd in H.
  destruct (walk fs root (split_on SLASH rp)) as [loc'|] eqn:W; [|discriminate].
  assert (U : under root loc') by (eapply walk_under; [exact Hno | apply under_refl | exact W]).
  destruct (node_at fs loc') as [[c|es]|]; try discriminate.
  - match type of H with context [if ?X then _ else _] => destruct X end; [discriminate|]. now injection H as <-.
  - now injection H as <-.
Qed.

(* ---- try_find_path ---- *)
Definition index_name_ok (f : bytes) : Prop :=
  existsb (fun b => b =? SLASH) f = false /\ f <> [DOT; DOT].

Lemma index_files_ok : forall f, In f INDEX_FILES -> index_name_ok f.
Proof.
  intros f [<-|[<-|[]]]; split; try (vm_compute; reflexivity); discriminate.
Qed.

Lemma comps_with_index rp f :
  (ends_with_slash rp = true \/ rp = []) -> index_name_ok f ->
  (forall c, In c (split_on SLASH rp) -> c <> [DOT; DOT]) ->
  forall c, In c (split_on SLASH (rp ++ f)) -> c <> [DOT; DOT].
Proof.
  intros Hend [Hf1 Hf2] Hno c Hin.
  destruct Hend as [Hend | ->].
  - apply ends_with_slash_spec in Hend as (r & Erp).
    rewrite Erp in Hin. rewrite <- app_assoc in Hin. cbn [app] in Hin.
    rewrite split_on_app, (split_on_no_delim _ _ Hf1) in Hin. apply in_app_or in Hin as [Hin|[<-|[]]]; [|assumption].
    apply Hno. rewrite Erp. replace (r ++ [SLASH]) with (r ++ SLASH :: []) by reflexivity.
    rewrite split_on_app. apply in_or_app. now left.
  - cbn [app] in Hin. rewrite (split_on_no_delim _ _ Hf1) in Hin. destruct Hin as [<-|[]]. assumption.
Qed.

Lemma first_index_under fs dir rp root : forall files loc,
  walk fs [] (split_on SLASH dir) = Some root ->
  (ends_with_slash rp = true \/ rp = []) ->
  (forall c, In c (split_on SLASH rp) -> c <> [DOT; DOT]) ->
  (forall f, In f files -> index_name_ok f) ->
  first_index fs (dir ++ [SLASH] ++ rp) files = Some (LFile loc) ->
  under root loc /\ exists c, node_at fs loc = Some (File c).
Proof.
  induction files as [|f files IH]; intros loc Hd Hend Hno Hok H; cbn [first_index] in H; [discriminate|].
  assert (Hok' : forall f0, In f0 files -> index_name_ok f0) by (intros f0 Hf0; apply Hok; now right).
  destruct (resolve fs ((dir ++ [SLASH] ++ rp) ++ f)) as [l|] eqn:R; [|now apply IH].
  destruct (node_at fs l) as [[c|es]|] eqn:N; try (now apply IH).
  injection H as <-. split; [|eauto].
  rewrite <- !app_assoc in R. apply (resolve_under fs dir (rp ++ f) root l Hd); [|exact R].
  apply comps_with_index; [assumption | apply Hok; now left | assumption].
Qed.

Theorem try_find_path_confined fs directory rp root loc :
  walk fs [] (split_on SLASH (trim_end_slashes directory)) = Some root ->
  try_find_path fs directory rp = Some (LFile loc) ->
  under root loc /\ exists c, node_at fs loc = Some (File c).
Proof.
  intros Hd H. unfold try_find_path in H.
  destruct (pct_decode rp) as [dec|]; [|discriminate].
  destruct (negb (utf8_valid dec)); [discriminate|].
  destruct (contains_sub [DOT; DOT] dec || contains_sub [58] dec) eqn:E; [discriminate|].
  apply orb_false_iff in E as [Edd _].
  set (p := trim_start_slashes dec) in *.
  assert (Hp : contains_sub [DOT; DOT] p = false).
  { unfold p. clear -Edd. induction dec as [|x dec IH]; [assumption|]. rewrite trim_start_slashes_cons.
    destruct (x =? 47); [|assumption]. apply IH. eapply contains_sub_cons. exact Edd. }
  assert (Hno : forall c, In c (split_on SLASH p) -> c <> [DOT; DOT]) by (intros c; now apply no_dd_component).
  destruct (ends_with_slash p || match p with [] => true | _ :: _ => false end) eqn:Eend.
  - apply (first_index_under fs _ p root INDEX_FILES loc Hd); [|assumption|apply index_files_ok|assumption].
    apply orb_true_iff in Eend as [?|Hnil]; [now left|right]. now destruct p.
  - destruct (resolve fs (trim_end_slashes directory ++ [SLASH] ++ p)) as [l|] eqn:R; [|discriminate].
    destruct (node_at fs l) as [[c|es]|] eqn:N; try discriminate. injection H as <-.
    split; [|eauto]. eapply resolve_under; eassumption.
Qed.

Lemma serve_loc_200 fs loc always body ct : serve_loc fs loc always = R200 body ct -> node_at fs loc = Some (File body).
Proof.
  unfold serve_loc. destruct (node_at fs loc) as [[c|es]|]; try discriminate.
  destruct (extension _); intros [= <- _]; reflexivity.
Qed.

Theorem serve_dir_confined fs directory root route uri body ct :
  walk fs [] (split_on SLASH (trim_end_slashes directory)) = Some root ->
  serve_dir fs directory route uri = R200 body ct ->
  exists loc, under root loc /\ node_at fs loc = Some (File body).
Proof.
  intros Hd H. unfold serve_dir in H.
  destruct (try_find_path fs directory _) as [[|loc]|] eqn:T; try discriminate.
  destruct (try_find_path_confined _ _ _ _ _ Hd T) as [U _]. exists loc. split; [assumption|].
  eapply serve_loc_200; eassumption.
Qed.

Theorem directory_handler_confined fs directory root matches uri body ct :
  walk fs [] (split_on SLASH (trim_end_slashes directory)) = Some root ->
  directory_handler fs directory matches uri = R200 body ct ->
  exists loc, under root loc /\ node_at fs loc = Some (File body).
Proof.
  intros Hd H. unfold directory_handler in H.
  destruct (drop_chars _ uri) as [rest|]; [|discriminate].
  destruct (try_find_path fs directory rest) as [[|loc]|] eqn:T; try discriminate.
  destruct (try_find_path_confined _ _ _ _ _ Hd T) as [U _]. exists loc. split; [assumption|].
  eapply serve_loc_200; eassumption.
Qed.

Theorem serve_as_file_path_confined fs directory root uri body ct :
  walk fs [] (split_on SLASH (match rev directory with 47 :: r => rev r | _ => directory end)) = Some root ->
  serve_as_file_path fs directory uri = R200 body ct ->
  exists loc, under root loc /\ node_at fs loc = Some (File body).
Proof.
  intros Hd H. unfold serve_as_file_path in H.
  set (fp := match uri with 47 :: r => r | _ => uri end) in *.
  destruct (contains_sub [DOT; DOT] fp || contains_sub [58] fp) eqn:E; [discriminate|].
  apply orb_false_iff in E as [Edd _].
  destruct (resolve fs _) as [loc|] eqn:R; [|discriminate].
  destruct (node_at fs loc) as [[c|es]|] eqn:N; try discriminate.
  exists loc. split.
  - eapply resolve_under; [exact Hd | | exact R]. intros c0. now apply no_dd_component.
  - destruct (extension _); injection H as <- _; exact N.
Qed.

(* the handler as it stood before fix F14 escapes *)
Theorem serve_as_file_path_old_refuted :
  exists fs directory root uri body,
    walk fs [] (split_on SLASH directory) = Some root /\
    serve_as_file_path_old fs directory uri = R200 body None /\
    ~ (exists loc, under root loc /\ node_at fs loc = Some (File body)).
Proof.
  exists (Dir [([119;119;119], Dir [([97], File [1])]); ([115], File [9])]), [47;119;119;119], [[119;119;119]],
         [47;46;46;47;115], [9].
  split; [vm_compute; reflexivity|]. split; [vm_compute; reflexivity|].
  intros (loc & (suffix & ->) & H).
  change ([[119; 119; 119]] ++ suffix) with ([119; 119; 119] :: suffix) in H.
  cbn [node_at assoc_name] in H. rewrite beq_refl in H.
  destruct suffix as [|n suffix]; cbn [node_at] in H; [discriminate|].
  cbn [assoc_name] in H. destruct (beq n [97]); [|discriminate].
  destruct suffix; cbn [node_at] in H; discriminate.
Qed.

(* ---- the prefix-stripping of directory routes cannot panic when the route matched ---- *)
Lemma drop_chars_total : forall n l, (n <= length (filter (fun b => negb (cont b)) l))%nat -> drop_chars n l <> None.
Proof.
  induction n as [|n IH]; intros l H; [discriminate|]. cbn [drop_chars].
  destruct l as [|x l]; [cbn in H; lia|].
  apply IH.
  assert (G : forall l0, length (filter (fun b => negb (cont b)) (skip_cont l0)) = length (filter (fun b => negb (cont b)) l0)).
  { induction l0 as [|y l0 IHl]; [reflexivity|]. cbn [skip_cont filter]. destruct (cont y) eqn:E; cbn [negb]; [exact IHl|].
    cbn [filter]. rewrite E. reflexivity. }
  rewrite G. cbn [filter] in H. destruct (negb (cont x)); cbn [length] in H; lia.
Qed.
