(* Model of humphrey-auth (C17): AuthProvider<Vec<User>> (lib.rs), Session (session.rs), User (user.rs),
   impl AuthDatabase for Vec<User> (database.rs), and the closure registered by with_auth_route (app.rs).
   The model is of the code AFTER the two repairs
     fix: refresh_session rejects a token that has already expired
     fix: session expiry saturates instead of overflowing for very long lifetimes
   Definitions only.

   What is outside the code enters as inputs of each operation, chosen by the environment:
     - the clock: every `UNIX_EPOCH.elapsed()` read is an explicit N (two reads for create_session / refresh_session:
       the one inside `valid()` and the one inside `Session::create_with_lifetime` / `Session::refresh`);
     - the OS RNG: the 32 random bytes of a new token, the v4 UUID of a new user, the salt, as numbers;
     - Argon2: Section variables `hash` / `verify_hash` (hypothesis stated in AuthProofs.v).
   Identifiers (uids, tokens) are N: the i-th distinct string. *)
From Hv Require Import Prelude.
Open Scope N_scope.

Definition pwd := list N.              (* password bytes *)
Definition pepper := option (list N).  (* AuthConfig.pepper *)
(* create_argon2_instance: the Argon2 secret; no pepper is the empty secret (Argon2::default) — and to Argon2 an empty
   pepper IS no pepper (checked on the real crate: a hash made under Some("") verifies under None and vice versa) *)
Definition secret_of (p : pepper) : list N := match p with Some s => s | None => [] end.

(* AuthError classes; 401 is the response of the auth route *)
Definition EGeneric : N := 1.
Definition EUserNotFound : N := 2.
Definition EUserExists : N := 3.
Definition EInvalidToken : N := 4.
Definition ESessionExists : N := 5.
Definition EUnauthorized : N := 401.

(* panic sites *)
Definition CUnwrapSessionInFilter : N := 1.   (* u.session.as_ref().unwrap() in the validity filter *)
Definition CUnwrapUpdate : N := 2.            (* self.users.update_user(user).unwrap() in invalidate_* *)
Definition CUnwrapSession : N := 3.           (* user.session.unwrap() in refresh_session *)

Inductive val := VUnit | VBool (b : bool) | VId (n : N).
Definition out := outcome val.

Record config := mkConfig { c_life : N; c_refresh : N; c_pepper : pepper }.
Definition default_config : config := mkConfig 3600 3600 None.

Definition U64MAX : N := 18446744073709551615.
(* u64::saturating_add *)
Definition sat_add (a b : N) : N := N.min (a + b) U64MAX.

(* Session = (token, expiry) *)
Definition sess := (N * N)%type.
(* Session::valid: now < expiry *)
Definition valid (now : N) (se : sess) : bool := now <? snd se.
(* Session::create_with_lifetime, with the RNG output and the clock reading given *)
Definition new_session (tok now life : N) : sess := (tok, sat_add now life).

(* The operations of the property's quantifier, each with the environment's inputs. *)
Inductive op :=
| CreateUser (pw : pwd) (fresh_uid fresh_salt : N)
| Exists (u : N)
| Verify (u : N) (pw : pwd)
| RemoveUser (u : N)
| CreateSession (u : N) (now now2 : N) (fresh_tok : N)                 (* default lifetime *)
| CreateSessionLt (u : N) (life : N) (now now2 : N) (fresh_tok : N)    (* create_session_with_lifetime *)
| Refresh (t : N) (now now2 : N)
| InvalidateSession (t : N)
| InvalidateUser (u : N)
| GetUid (t : N) (now : N)
| Route (cookie : option N) (now : N)          (* request to a with_auth_route route, HumphreyToken cookie or none *)
| SetConfig (c : config).                      (* AuthProvider::with_config *)

Section Model.
  Variable H : Type.                                   (* PHC hash strings *)
  Variable hash : pwd -> N -> list N -> H.             (* Argon2 hash_password with salt and secret *)
  Variable verify_hash : H -> pwd -> list N -> bool.   (* Argon2 verify_password under a secret *)

  Record user := mkUser { uid : N; session : option sess; phash : H }.
  Record state := mkState { users : list user; cfg : config }.

  Definition init (c : config) : state := mkState [] c.

  Definition set_session (x : user) (se : option sess) : user := mkUser (uid x) se (phash x).

  (* ---- database.rs: impl AuthDatabase for Vec<User> ---- *)
  Definition has_token (t : N) (x : user) : bool :=
    match session x with Some se => fst se =? t | None => false end.

  (* iter().find(|user| user.uid == uid) *)
  Definition get_user_by_uid (db : list user) (u : N) : option user := find (fun x => uid x =? u) db.
  (* iter().find(|u| u.session.is_some() && token == ..) *)
  Definition get_user_by_token (db : list user) (t : N) : option user := find (has_token t) db.

  (* iter_mut().find(|old| old.uid == user.uid).map(|old| *old = user): replaces the FIRST entry; None = UserNotFound *)
  Fixpoint update_user (db : list user) (nu : user) : option (list user) :=
    match db with
    | [] => None
    | x :: r => if uid x =? uid nu then Some (nu :: r)
                else match update_user r nu with Some r' => Some (x :: r') | None => None end
    end.

  (* None = UserAlreadyExists *)
  Definition add_user (db : list user) (nu : user) : option (list user) :=
    match get_user_by_uid db (uid nu) with
    | Some _ => None
    | None => Some (db ++ [nu])
    end.

  (* None = UserNotFound; retain(|user| user.uid != uid) *)
  Definition remove_user (db : list user) (u : N) : option (list user) :=
    match get_user_by_uid db u with
    | None => None
    | Some _ => Some (filter (fun x => negb (uid x =? u)) db)
    end.

  (* ---- lib.rs ---- *)
  Definition with_db (s : state) (db : list user) : state := mkState db (cfg s).

  (* create_session / create_session_with_lifetime (identical bodies, the lifetime differs) *)
  Definition create_session (s : state) (u life now now2 tok : N) : state * out :=
    match get_user_by_uid (users s) u with
    | None => (s, Err EUserNotFound)
    | Some x =>
      if negb (match session x with Some se => valid now se | None => false end) then
        let se := new_session tok now2 life in
        match update_user (users s) (set_session x (Some se)) with
        | Some db' => (with_db s db', Ok (VId tok))
        | None => (s, Err EUserNotFound)           (* `?` on update_user *)
        end
      else (s, Err ESessionExists)
    end.

  (* refresh_session, repaired: the token is looked up AND filtered by validity *)
  Definition refresh (s : state) (t now now2 : N) : state * out :=
    match get_user_by_token (users s) t with
    | None => (s, Err EInvalidToken)
    | Some x =>
      match session x with
      | None => (s, Crash CUnwrapSessionInFilter)
      | Some se =>
        if valid now se then
          let se' := (fst se, sat_add now2 (c_refresh (cfg s))) in     (* session.refresh(default_refresh_lifetime) *)
          match update_user (users s) (set_session x (Some se')) with
          | Some db' => (with_db s db', Ok VUnit)
          | None => (s, Err EUserNotFound)
          end
        else (s, Err EInvalidToken)
      end
    end.

  Definition invalidate_session (s : state) (t : N) : state * out :=
    match get_user_by_token (users s) t with
    | Some x =>
      match update_user (users s) (set_session x None) with
      | Some db' => (with_db s db', Ok VUnit)
      | None => (s, Crash CUnwrapUpdate)
      end
    | None => (s, Ok VUnit)
    end.

  Definition invalidate_user_session (s : state) (u : N) : state * out :=
    match get_user_by_uid (users s) u with
    | Some x =>
      match update_user (users s) (set_session x None) with
      | Some db' => (with_db s db', Ok VUnit)
      | None => (s, Crash CUnwrapUpdate)
      end
    | None => (s, Ok VUnit)
    end.

  Definition get_uid_by_token (s : state) (t now : N) : out :=
    match get_user_by_token (users s) t with
    | None => Err EInvalidToken
    | Some x =>
      match session x with
      | None => Crash CUnwrapSessionInFilter
      | Some se => if valid now se then Ok (VId (uid x)) else Err EInvalidToken
      end
    end.

  (* app.rs: the closure of with_auth_route. Ok (VId uid) = the user's handler ran with that uid; Err 401 = forbidden() *)
  Definition auth_route (s : state) (cookie : option N) (now : N) : out :=
    match cookie with
    | None => Err EUnauthorized
    | Some t =>
      match get_uid_by_token s t now with
      | Ok v => Ok v
      | Err _ => Err EUnauthorized
      | Crash w => Crash w
      end
    end.

  Definition step (s : state) (o : op) : state * out :=
    match o with
    | CreateUser pw fu salt =>
      (* User::create: uid, salt, hash with the configured pepper; then add_user *)
      let nu := mkUser fu None (hash pw salt (secret_of (c_pepper (cfg s)))) in
      match add_user (users s) nu with
      | Some db' => (with_db s db', Ok (VId fu))
      | None => (s, Err EUserExists)
      end
    | Exists u =>
      (s, Ok (VBool (match get_user_by_uid (users s) u with Some _ => true | None => false end)))
    | Verify u pw =>
      (s, Ok (VBool (match get_user_by_uid (users s) u with
                     | Some x => verify_hash (phash x) pw (secret_of (c_pepper (cfg s)))
                     | None => false
                     end)))
    | RemoveUser u =>
      match remove_user (users s) u with
      | Some db' => (with_db s db', Ok VUnit)
      | None => (s, Err EUserNotFound)
      end
    | CreateSession u now now2 tok => create_session s u (c_life (cfg s)) now now2 tok
    | CreateSessionLt u life now now2 tok => create_session s u life now now2 tok
    | Refresh t now now2 => refresh s t now now2
    | InvalidateSession t => invalidate_session s t
    | InvalidateUser u => invalidate_user_session s u
    | GetUid t now => (s, get_uid_by_token s t now)
    | Route cookie now => (s, auth_route s cookie now)
    | SetConfig c => (mkState (users s) c, Ok VUnit)
    end.

  Fixpoint run (s : state) (ops : list op) : state * list out :=
    match ops with
    | [] => (s, [])
    | o :: r => let (s1, x) := step s o in
                let (s2, xs) := run s1 r in (s2, x :: xs)
    end.

  (* the events of a history started from the empty database: each operation with the result it returned *)
  Definition history (c : config) (ops : list op) : list (op * out) :=
    combine ops (snd (run (init c) ops)).

  (* ---- refresh_session as it was at the pinned commit (before the repair): no validity check. Kept only to
          state the refutation. ---- *)
  Definition refresh_old (s : state) (t now2 : N) : state * out :=
    match get_user_by_token (users s) t with
    | None => (s, Err EInvalidToken)
    | Some x =>
      match session x with
      | None => (s, Crash CUnwrapSession)
      | Some se =>
        let se' := (fst se, now2 + c_refresh (cfg s)) in
        match update_user (users s) (set_session x (Some se')) with
        | Some db' => (with_db s db', Ok VUnit)
        | None => (s, Err EUserNotFound)
        end
      end
    end.

  Definition step_old (s : state) (o : op) : state * out :=
    match o with
    | Refresh t _ now2 => refresh_old s t now2
    | _ => step s o
    end.

  Fixpoint run_old (s : state) (ops : list op) : state * list out :=
    match ops with
    | [] => (s, [])
    | o :: r => let (s1, x) := step_old s o in
                let (s2, xs) := run_old s1 r in (s2, x :: xs)
    end.
End Model.

Arguments uid {H} _.
Arguments session {H} _.
Arguments phash {H} _.
Arguments users {H} _.
Arguments cfg {H} _.
Arguments mkUser {H} _ _ _.
Arguments mkState {H} _ _.

(* ================================================================================================
   Reference (specification): a map  uid -> (password, pepper it was hashed with, option (token, expiry)),
   as a total function, and the allowed transitions as a relation. Nothing here mentions lists, hashes,
   search order or panics. A new map is described pointwise, so no function extensionality is needed. *)

Record rentry := mkEntry { e_pw : pwd; e_pep : list N; e_sess : option sess }.
Record rstate := mkR { r_map : N -> option rentry; r_cfg : config }.

Definition rinit (c : config) : rstate := mkR (fun _ => None) c.

Definition e_with (e : rentry) (se : option sess) : rentry := mkEntry (e_pw e) (e_pep e) se.

(* user u holds token t with expiry x *)
Definition holder (r : rstate) (t u x : N) : Prop :=
  exists e, r_map r u = Some e /\ e_sess e = Some (t, x).
(* t authenticates u at time now *)
Definition live (r : rstate) (t now u : N) : Prop := exists x, holder r t u x /\ now < x.
(* t authenticates nobody at time now: unknown, or expired *)
Definition dead (r : rstate) (t now : N) : Prop := forall u x, holder r t u x -> x <= now.

Definition same (r r' : rstate) : Prop := r_cfg r' = r_cfg r /\ forall u, r_map r' u = r_map r u.
(* r' is r with the entry of u replaced by v *)
Definition upd (r : rstate) (u : N) (v : option rentry) (r' : rstate) : Prop :=
  r_cfg r' = r_cfg r /\ forall u', r_map r' u' = if u' =? u then v else r_map r u'.

Definition has_live_session (e : rentry) (now : N) : Prop := exists t x, e_sess e = Some (t, x) /\ now < x.

Inductive rcreate (r : rstate) (u life now now2 tok : N) : rstate -> out -> Prop :=
| rc_nouser r' : r_map r u = None -> same r r' -> rcreate r u life now now2 tok r' (Err EUserNotFound)
| rc_exists r' e : r_map r u = Some e -> has_live_session e now -> same r r' ->
                   rcreate r u life now now2 tok r' (Err ESessionExists)
| rc_ok r' e : r_map r u = Some e -> ~ has_live_session e now ->
               upd r u (Some (e_with e (Some (tok, sat_add now2 life)))) r' ->
               rcreate r u life now now2 tok r' (Ok (VId tok)).

Inductive rstep (r : rstate) : op -> rstate -> out -> Prop :=
| rs_create_user_ok pw fu salt r' :
    r_map r fu = None -> upd r fu (Some (mkEntry pw (secret_of (c_pepper (r_cfg r))) None)) r' ->
    rstep r (CreateUser pw fu salt) r' (Ok (VId fu))
| rs_create_user_clash pw fu salt r' :
    r_map r fu <> None -> same r r' -> rstep r (CreateUser pw fu salt) r' (Err EUserExists)
| rs_exists u r' b :
    same r r' -> (b = true <-> r_map r u <> None) -> rstep r (Exists u) r' (Ok (VBool b))
| rs_verify u pw r' b :
    same r r' ->
    (b = true <-> exists e, r_map r u = Some e /\ e_pw e = pw /\ e_pep e = secret_of (c_pepper (r_cfg r))) ->
    rstep r (Verify u pw) r' (Ok (VBool b))
| rs_remove_ok u r' : r_map r u <> None -> upd r u None r' -> rstep r (RemoveUser u) r' (Ok VUnit)
| rs_remove_nouser u r' : r_map r u = None -> same r r' -> rstep r (RemoveUser u) r' (Err EUserNotFound)
| rs_create_session u now now2 tok r' o :
    rcreate r u (c_life (r_cfg r)) now now2 tok r' o -> rstep r (CreateSession u now now2 tok) r' o
| rs_create_session_lt u life now now2 tok r' o :
    rcreate r u life now now2 tok r' o -> rstep r (CreateSessionLt u life now now2 tok) r' o
| rs_refresh_ok t now now2 r' u e x :
    r_map r u = Some e -> e_sess e = Some (t, x) -> now < x ->
    upd r u (Some (e_with e (Some (t, sat_add now2 (c_refresh (r_cfg r)))))) r' ->
    rstep r (Refresh t now now2) r' (Ok VUnit)
| rs_refresh_dead t now now2 r' :
    dead r t now -> same r r' -> rstep r (Refresh t now now2) r' (Err EInvalidToken)
| rs_invalidate_held t r' u e x :
    r_map r u = Some e -> e_sess e = Some (t, x) -> upd r u (Some (e_with e None)) r' ->
    rstep r (InvalidateSession t) r' (Ok VUnit)
| rs_invalidate_unknown t r' :
    (forall u x, ~ holder r t u x) -> same r r' -> rstep r (InvalidateSession t) r' (Ok VUnit)
| rs_invalidate_user u r' e :
    r_map r u = Some e -> upd r u (Some (e_with e None)) r' -> rstep r (InvalidateUser u) r' (Ok VUnit)
| rs_invalidate_nouser u r' :
    r_map r u = None -> same r r' -> rstep r (InvalidateUser u) r' (Ok VUnit)
| rs_get_live t now r' u :
    live r t now u -> same r r' -> rstep r (GetUid t now) r' (Ok (VId u))
| rs_get_dead t now r' :
    dead r t now -> same r r' -> rstep r (GetUid t now) r' (Err EInvalidToken)
| rs_route_live t now r' u :
    live r t now u -> same r r' -> rstep r (Route (Some t) now) r' (Ok (VId u))
| rs_route_dead t now r' :
    dead r t now -> same r r' -> rstep r (Route (Some t) now) r' (Err EUnauthorized)
| rs_route_nocookie now r' :
    same r r' -> rstep r (Route None now) r' (Err EUnauthorized)
| rs_set_config c r' :
    r_cfg r' = c -> (forall u, r_map r' u = r_map r u) -> rstep r (SetConfig c) r' (Ok VUnit).

Inductive rrun : rstate -> list op -> list out -> rstate -> Prop :=
| rr_nil r r' : same r r' -> rrun r [] [] r'
| rr_cons r o x r1 ops xs r2 : rstep r o r1 x -> rrun r1 ops xs r2 -> rrun r (o :: ops) (x :: xs) r2.

(* ---- the simulation relation between the list-based model and the reference map ---- *)
Section Simulation.
  Variable H : Type.
  Variable hash : pwd -> N -> list N -> H.

  (* uids are unique in the stored list *)
  Definition wf (db : list (user H)) : Prop := NoDup (map uid db).

  (* a stored user and a reference entry: same session, and the stored hash is a hash of the entry's password under the
     entry's pepper (for some salt) *)
  Definition urel (x : user H) (e : rentry) : Prop :=
    e_sess e = session x /\ exists salt, phash x = hash (e_pw e) salt (e_pep e).

  Definition Rmap (db : list (user H)) (r : rstate) : Prop :=
    forall u, match get_user_by_uid H db u with
              | None => r_map r u = None
              | Some x => exists e, r_map r u = Some e /\ urel x e
              end.

  Definition R (s : state H) (r : rstate) : Prop := cfg s = r_cfg r /\ Rmap (users s) r.
End Simulation.

(* no token is held by two users *)
Definition tok_unique (r : rstate) : Prop :=
  forall t u x u' x', holder r t u x -> holder r t u' x' -> u = u'.

(* ---- what the environment supplies along a history ---- *)
Definition op_fresh_tok (o : op) : list N :=
  match o with
  | CreateSession _ _ _ tok | CreateSessionLt _ _ _ _ tok => [tok]
  | _ => []
  end.
Definition fresh_toks (ops : list op) : list N := flat_map op_fresh_tok ops.

Definition op_fresh_uid (o : op) : list N :=
  match o with CreateUser _ fu _ => [fu] | _ => [] end.
Definition fresh_uids (ops : list op) : list N := flat_map op_fresh_uid ops.

(* clock readings of an operation, in program order *)
Definition op_times (o : op) : list N :=
  match o with
  | CreateSession _ now now2 _ | CreateSessionLt _ _ now now2 _ | Refresh _ now now2 => [now; now2]
  | GetUid _ now | Route _ now => [now]
  | _ => []
  end.
Definition times (ops : list op) : list N := flat_map op_times ops.

Fixpoint nondecreasing_from (lo : N) (l : list N) : Prop :=
  match l with
  | [] => True
  | x :: r => lo <= x /\ nondecreasing_from x r
  end.

(* the clock never goes back; the RNG never repeats a token *)
Definition clock_ok (ops : list op) : Prop := nondecreasing_from 0 (times ops).
Definition rng_ok (ops : list op) : Prop := NoDup (fresh_toks ops).
Definition env_ok (ops : list op) : Prop := clock_ok ops /\ rng_ok ops.

(* ================================================================================================
   What a history says about one token / one user, read off the events alone (no state): the declarative,
   token-centred reading of the property. An event is an operation with the result it returned. *)
Definition event := (op * out)%type.

Definition drop_owner (u : N) (st : option (N * N)) : option (N * N) :=
  match st with
  | Some (u', x) => if u' =? u then None else st
  | None => None
  end.

(* acc = (configuration in force, Some (owner, expiry) if token t currently stands for a session) *)
Definition tok_event (t : N) (acc : config * option (N * N)) (ev : event) : config * option (N * N) :=
  let (c, st) := acc in
  match ev with
  | (CreateSession u _ now2 tok, Ok _) =>
      (* issued to u; any previous token of u is replaced *)
      (c, if tok =? t then Some (u, sat_add now2 (c_life c)) else drop_owner u st)
  | (CreateSessionLt u life _ now2 tok, Ok _) =>
      (c, if tok =? t then Some (u, sat_add now2 life) else drop_owner u st)
  | (Refresh t' _ now2, Ok _) =>
      (c, if t' =? t then match st with Some (u, _) => Some (u, sat_add now2 (c_refresh c)) | None => None end
          else st)
  | (InvalidateSession t', _) => (c, if t' =? t then None else st)
  | (InvalidateUser u, _) => (c, drop_owner u st)
  | (RemoveUser u, _) => (c, drop_owner u st)
  | (SetConfig c', _) => (c', st)
  | _ => acc
  end.

(* Some (owner, expiry): t was issued to owner and has since been neither invalidated, nor replaced, nor lost its
   owner; expiry as set by the issue or the last successful refresh. None: never issued, or no longer standing. *)
Definition tok_status (c : config) (h : list event) (t : N) : option (N * N) :=
  snd (fold_left (tok_event t) h (c, None)).

(* acc = (configuration in force, Some (password, Argon2 secret in force at creation) if uid u currently exists) *)
Definition cred_event (u : N) (acc : config * option (pwd * list N)) (ev : event) : config * option (pwd * list N) :=
  let (c, st) := acc in
  match ev with
  | (CreateUser pw fu _, Ok _) => (c, if fu =? u then Some (pw, secret_of (c_pepper c)) else st)
  | (RemoveUser u', Ok _) => (c, if u' =? u then None else st)
  | (SetConfig c', _) => (c', st)
  | _ => acc
  end.
Definition cred_status (c : config) (h : list event) (u : N) : option (pwd * list N) :=
  snd (fold_left (cred_event u) h (c, None)).

(* operations that present a token for authentication, with the time of the (first) clock read *)
Definition presents (o : op) : option (N * N) :=
  match o with
  | GetUid t now => Some (t, now)
  | Route (Some t) now => Some (t, now)
  | Refresh t now _ => Some (t, now)
  | _ => None
  end.
Definition accept_out (o : op) (u : N) : out :=
  match o with Refresh _ _ _ => Ok VUnit | _ => Ok (VId u) end.
Definition reject_out (o : op) : out :=
  match o with Route _ _ => Err EUnauthorized | _ => Err EInvalidToken end.
(* what the property demands as the answer to a presented token *)
Definition verdict (o : op) (st : option (N * N)) (now : N) : out :=
  match st with
  | Some (u, x) => if now <? x then accept_out o u else reject_out o
  | None => reject_out o
  end.

(* operations that can change what token t (owned by u) stands for; every other operation leaves it alone *)
Definition touches (t u : N) (o : op) : Prop :=
  match o with
  | CreateSession u' _ _ tok | CreateSessionLt u' _ _ _ tok => u' = u \/ tok = t
  | Refresh t' _ _ | InvalidateSession t' => t' = t
  | InvalidateUser u' | RemoveUser u' => u' = u
  | _ => False
  end.

(* tokens handed out by successful create_session calls, in order *)
Definition issued_by (ev : event) : list N :=
  match ev with
  | (CreateSession _ _ _ _, Ok (VId t)) | (CreateSessionLt _ _ _ _ _, Ok (VId t)) => [t]
  | _ => []
  end.
Definition issued (h : list event) : list N := flat_map issued_by h.

(* ================================================================================================
   Executable instance used by the correspondence check: the "hash" is the triple itself. *)
Definition xH : Type := (pwd * N * list N)%type.
Definition xhash (pw : pwd) (salt : N) (pep : list N) : xH := (pw, salt, pep).

Fixpoint list_eqb (a b : list N) : bool :=
  match a, b with
  | [], [] => true
  | x :: a', y :: b' => (x =? y) && list_eqb a' b'
  | _, _ => false
  end.
Definition xverify (h : xH) (pw : pwd) (pep : list N) : bool :=
  list_eqb pw (fst (fst h)) && list_eqb pep (snd h).

Definition xstate := state xH.
Definition xinit (c : config) : xstate := init xH c.
Definition xstep (s : xstate) (o : op) : xstate * out := step xH xhash xverify s o.
Definition xstep_old (s : xstate) (o : op) : xstate * out := step_old xH xhash xverify s o.
Definition xrun (s : xstate) (ops : list op) : xstate * list out := run xH xhash xverify s ops.
Definition xhistory (c : config) (ops : list op) : list (op * out) := history xH xhash xverify c ops.
Definition xrun_old (s : xstate) (ops : list op) : xstate * list out := run_old xH xhash xverify s ops.
