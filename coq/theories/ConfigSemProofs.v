(* C15, semantic layer: Config::from_tree on the tree of a description returns the configuration the description denotes
   (documented keys by name, last one wins, omitted keys at their defaults, hosts and routes in file order). *)
From Coq Require Import Lia.
From Hv Require Import Prelude Bytes TablesConfig Config ConfigProofs ConfigSpec ConfigRenderProofs.
Open Scope N_scope.

(* ================================================================================================
   A. the flattened map
   ================================================================================================ *)
Lemma map_get_app : forall key a b,
  map_get key (a ++ b) = match map_get key b with Some x => Some x | None => map_get key a end.
Proof.
  intros key. induction a as [|[k v] a IH]; intros b; cbn [app map_get].
  - destruct (map_get key b); reflexivity.
  - rewrite IH. destruct (map_get key b); [reflexivity|]. reflexivity.
Qed.

Lemma map_get_none : forall key m, Forall (fun kv => fst kv <> key) m -> map_get key m = None.
Proof.
  intros key m H. induction H as [|[k v] m Hk Hm IH]; [reflexivity|]. cbn [map_get]. rewrite IH.
  cbn [fst] in Hk. destruct (beq k key) eqn:E; [apply beq_eq in E; congruence|reflexivity].
Qed.

Lemma join_dot_snoc : forall lvl k, lvl <> [] -> join_dot (lvl ++ [k]) = join_dot lvl ++ 46 :: k.
Proof.
  induction lvl as [|x lvl IH]; intros k H; [congruence|].
  destruct lvl as [|y lvl]; [reflexivity|].
  change ((x :: y :: lvl) ++ [k]) with (x :: (y :: lvl) ++ [k]).
  change (join_dot (x :: (y :: lvl) ++ [k])) with (x ++ 46 :: join_dot ((y :: lvl) ++ [k])).
  rewrite IH by discriminate. change (join_dot (x :: y :: lvl)) with (x ++ 46 :: join_dot (y :: lvl)).
  rewrite <- app_assoc. reflexivity.
Qed.

Lemma flatten_prefix : forall n lvl, lvl <> [] ->
  Forall (fun kv => exists X, fst kv = join_dot lvl ++ 46 :: X) (flatten lvl n).
Proof.
  induction n using node_ind'; intros lvl Hl; cbn [flatten];
    try (constructor; [cbn [fst]; rewrite join_dot_snoc by exact Hl; eexists; reflexivity|constructor]); try constructor.
  destruct (beq k section_plugins); [constructor|].
  induction H as [|c cs Hc Hcs IH]; cbn [flat_map]; [constructor|]. apply Forall_app. split; [|exact IH].
  assert (Hl' : lvl ++ [k] <> []) by (destruct lvl; discriminate).
  specialize (Hc (lvl ++ [k]) Hl'). eapply Forall_impl; [|exact Hc].
  intros [key nd] [X HX]. cbn [fst] in *. rewrite HX, join_dot_snoc by exact Hl. rewrite <- app_assoc. eexists. reflexivity.
Qed.

Lemma dot_split : forall a b x y, dotfree a -> dotfree b -> a ++ 46 :: x = b ++ 46 :: y -> a = b /\ x = y.
Proof.
  induction a as [|c a IH]; intros b x y Ha Hb H.
  - destruct b as [|d b]; [cbn in H; injection H as <-; auto|].
    cbn in H. injection H as <- _. exfalso. apply Hb. left. reflexivity.
  - destruct b as [|d b].
    + cbn in H. injection H as -> _. exfalso. apply Ha. left. reflexivity.
    + cbn in H. injection H as <- H.
      destruct (IH b x y) as [-> ->]; [intros Hin; apply Ha; right; exact Hin|intros Hin; apply Hb; right; exact Hin|exact H|].
      auto.
Qed.

Lemma beq_false_ne : forall a b, a <> b -> beq a b = false.
Proof. intros a b H. destruct (beq a b) eqn:E; [apply beq_eq in E; congruence|reflexivity]. Qed.

Lemma kv_last_app : forall key a b,
  kv_last key (a ++ b) = match kv_last key b with Some v => Some v | None => kv_last key a end.
Proof.
  intros key. induction a as [|s a IH]; intros b; cbn [app kv_last].
  - destruct (kv_last key b); reflexivity.
  - rewrite IH. destruct (kv_last key b); reflexivity.
Qed.

Definition top_ok (s : sitem) : Prop :=
  match s with SKv k _ => dotfree k | SSec (KPlain n) _ => dotfree n | _ => True end.

Lemma flatten_value : forall lvl k v, flatten lvl (node_of_value k v) = [(join_dot (lvl ++ [k]), node_of_value k v)].
Proof. intros lvl k v. destruct v; reflexivity. Qed.

Definition srv (rest : bytes) : bytes := kw_server ++ 46 :: rest.

Lemma srv_inj : forall a b, srv a = srv b -> a = b.
Proof. intros a b H. unfold srv in H. apply app_inv_head in H. injection H as H. exact H. Qed.

(* one key directly in the server section *)
Lemma lookup1_item : forall key s, dotfree key -> top_ok s ->
  map_get (srv key) (flatten [kw_server] (snode s)) =
  match s with SKv k v => if beq k key then Some (node_of_value k v) else None | SSec _ _ => None end.
Proof.
  intros key s Hkey Hs. destruct s as [k v|kd body]; cbn [snode].
  - rewrite flatten_value. cbn [map_get app join_dot]. change (kw_server ++ 46 :: k) with (srv k).
    destruct (beq k key) eqn:E.
    + apply beq_eq in E. subst. rewrite beq_refl. reflexivity.
    + rewrite beq_false_ne; [reflexivity|]. intros H. apply srv_inj in H. subst. rewrite beq_refl in E. discriminate.
  - destruct kd as [n|p|n q]; cbn [sec_node flatten]; [|reflexivity|reflexivity].
    destruct (beq n section_plugins); [reflexivity|].
    apply map_get_none. cbn [top_ok] in Hs.
    assert (Hgen : forall cs, Forall (fun kv : bytes * node => fst kv <> srv key) (flat_map (flatten ([kw_server] ++ [n])) cs)).
    { induction cs as [|c cs IH]; cbn [flat_map]; [constructor|]. apply Forall_app. split; [|exact IH].
      eapply Forall_impl; [|apply (flatten_prefix c ([kw_server] ++ [n])); discriminate].
      intros [k nd] [X HX] Heq. cbn [fst] in *. rewrite HX in Heq. cbn [app join_dot] in Heq. unfold srv in Heq.
      rewrite <- app_assoc in Heq. apply app_inv_head in Heq. cbn [app] in Heq. injection Heq as Heq.
      apply Hkey. rewrite <- Heq. apply in_or_app. right. left. reflexivity. }
    apply Hgen.
Qed.

Lemma lookup1 : forall key ss, dotfree key -> Forall top_ok ss ->
  map_get (srv key) (flat_map (flatten [kw_server]) (map snode ss)) = option_map (node_of_value key) (kv_last key ss).
Proof.
  intros key ss Hkey H. induction H as [|s ss Hs Hss IH]; [reflexivity|].
  cbn [map flat_map kv_last]. rewrite map_get_app, IH. destruct (kv_last key ss); [reflexivity|]. cbn [option_map].
  rewrite (lookup1_item key s Hkey Hs). destruct s as [k v|]; [|reflexivity].
  destruct (beq k key) eqn:E; [|reflexivity]. apply beq_eq in E. subst. reflexivity.
Qed.

(* one key directly in a plain subsection of the server section *)
Lemma lookup2_body : forall sec key body, dotfree key ->
  map_get (srv (sec ++ 46 :: key)) (flat_map (flatten ([kw_server] ++ [sec])) (map snode body)) =
  option_map (node_of_value key) (kv_last key body).
Proof.
  intros sec key body Hkey. induction body as [|s body IH]; [reflexivity|].
  cbn [map flat_map kv_last]. rewrite map_get_app, IH. destruct (kv_last key body); [reflexivity|]. cbn [option_map].
  destruct s as [k v|kd b]; cbn [snode].
  - rewrite flatten_value. cbn [map_get app join_dot]. change (kw_server ++ 46 :: sec ++ 46 :: k) with (srv (sec ++ 46 :: k)).
    destruct (beq k key) eqn:E.
    + apply beq_eq in E. subst. rewrite beq_refl. reflexivity.
    + rewrite beq_false_ne; [reflexivity|]. intros H. apply srv_inj in H. apply app_inv_head in H. injection H as ->.
      rewrite beq_refl in E. discriminate.
  - destruct kd as [n|p|n q]; cbn [sec_node flatten]; [|reflexivity|reflexivity].
    destruct (beq n section_plugins); [reflexivity|].
    apply map_get_none.
    assert (Hgen : forall cs, Forall (fun kv : bytes * node => fst kv <> srv (sec ++ 46 :: key))
                                (flat_map (flatten (([kw_server] ++ [sec]) ++ [n])) cs)).
    { induction cs as [|c cs IHc]; cbn [flat_map]; [constructor|]. apply Forall_app. split; [|exact IHc].
      eapply Forall_impl; [|apply (flatten_prefix c (([kw_server] ++ [sec]) ++ [n])); discriminate].
      intros [k nd] [X HX] Heq. cbn [fst] in *. rewrite HX in Heq. cbn [app join_dot] in Heq. unfold srv in Heq.
      rewrite <- !app_assoc in Heq. apply app_inv_head in Heq. cbn [app] in Heq. injection Heq as Heq.
      rewrite <- app_assoc in Heq. apply app_inv_head in Heq. cbn [app] in Heq. injection Heq as Heq.
      apply Hkey. rewrite <- Heq. apply in_or_app. right. left. reflexivity. }
    apply Hgen.
Qed.

Lemma lookup2_item : forall sec key s, dotfree sec -> dotfree key -> sec <> section_plugins -> top_ok s ->
  map_get (srv (sec ++ 46 :: key)) (flatten [kw_server] (snode s)) =
  option_map (node_of_value key)
    (kv_last key (match s with SSec (KPlain n) body => if beq n sec then body else [] | _ => [] end)).
Proof.
  intros sec key s Hsec Hkey Hnp Hs. destruct s as [k v|kd body]; cbn [snode].
  - rewrite flatten_value. cbn [map_get app join_dot kv_last option_map]. change (kw_server ++ 46 :: k) with (srv k).
    rewrite beq_false_ne; [reflexivity|]. intros H. apply srv_inj in H. cbn [top_ok] in Hs. apply Hs. rewrite H.
    apply in_or_app. right. left. reflexivity.
  - destruct kd as [n|p|n q]; cbn [sec_node flatten]; [|reflexivity|reflexivity].
    cbn [top_ok] in Hs. destruct (beq n sec) eqn:E.
    + apply beq_eq in E. subst n. rewrite (beq_false_ne _ _ Hnp). apply lookup2_body. exact Hkey.
    + cbn [kv_last option_map]. destruct (beq n section_plugins); [reflexivity|].
      apply map_get_none.
      assert (Hgen : forall cs, Forall (fun kv : bytes * node => fst kv <> srv (sec ++ 46 :: key))
                                  (flat_map (flatten ([kw_server] ++ [n])) cs)).
      { induction cs as [|c cs IHc]; cbn [flat_map]; [constructor|]. apply Forall_app. split; [|exact IHc].
        eapply Forall_impl; [|apply (flatten_prefix c ([kw_server] ++ [n])); discriminate].
        intros [k nd] [X HX] Heq. cbn [fst] in *. rewrite HX in Heq. cbn [app join_dot] in Heq. unfold srv in Heq.
        rewrite <- app_assoc in Heq. apply app_inv_head in Heq. cbn [app] in Heq. injection Heq as Heq.
        destruct (dot_split n sec X key Hs Hsec Heq) as [-> _]. rewrite beq_refl in E. discriminate. }
      apply Hgen.
Qed.

Lemma lookup2 : forall sec key ss, dotfree sec -> dotfree key -> sec <> section_plugins -> Forall top_ok ss ->
  map_get (srv (sec ++ 46 :: key)) (flat_map (flatten [kw_server]) (map snode ss)) =
  option_map (node_of_value key) (kv_last key (sub_bodies sec ss)).
Proof.
  intros sec key ss Hsec Hkey Hnp H. induction H as [|s ss Hs Hss IH]; [reflexivity|].
  unfold sub_bodies in *. cbn [map flat_map]. rewrite map_get_app, IH, kv_last_app.
  destruct (kv_last key (flat_map _ ss)); [reflexivity|]. cbn [option_map].
  apply lookup2_item; assumption.
Qed.

(* ================================================================================================
   B. typed getters on a found entry
   ================================================================================================ *)
Section getters.
  Variable m : cmap.
  Variable K : bytes.      (* dotted key *)
  Variable k : bytes.      (* last component *)
  Variable o : option value.
  Hypothesis Hget : map_get K m = option_map (node_of_value k) o.

  Lemma get_owned_str : is_str o -> get_owned m K = str_val o.
  Proof.
    intros H. unfold get_owned. rewrite Hget. destruct o as [[s|n|b|n u]|]; cbn in *; try contradiction; reflexivity.
  Qed.

  Lemma get_optional_str : forall d, is_str o -> get_optional m K d = or_default (str_val o) d.
  Proof. intros d H. unfold get_optional. rewrite (get_owned_str H). reflexivity. Qed.

  Lemma get_parsed_int : forall max d, is_int_le max o ->
    get_optional_parsed (parse_unsigned max) m K d = Some (or_default (num_val o) d).
  Proof.
    intros max d H. unfold get_optional_parsed. rewrite Hget. destruct o as [[s|n|b|n u]|]; cbn in *; try contradiction; [|reflexivity].
    apply parse_unsigned_render. exact H.
  Qed.

  Lemma get_parsed_num : forall max d, is_num_le max o ->
    get_optional_parsed (parse_unsigned max) m K d = Some (or_default (num_val o) d).
  Proof.
    intros max d H. unfold get_optional_parsed. rewrite Hget. destruct o as [[s|n|b|n u]|]; cbn in *; try contradiction; try reflexivity.
    - apply parse_unsigned_render. exact H.
    - apply parse_unsigned_render. exact H.
  Qed.

  Lemma get_parsed_bool : forall d, is_bool o ->
    get_optional_parsed parse_bool m K d = Some (or_default (bool_val o) d).
  Proof.
    intros d H. unfold get_optional_parsed. rewrite Hget. destruct o as [[s|n|b|n u]|]; cbn in *; try contradiction; [|reflexivity].
    destruct b; reflexivity.
  Qed.

  Lemma get_parsed_level : forall d, is_str o -> (forall l, str_val o = Some l -> parse_log_level l <> None) ->
    get_optional_parsed parse_log_level m K d =
    Some (or_default (match str_val o with Some l => parse_log_level l | None => None end) d).
  Proof.
    intros d H Hl. unfold get_optional_parsed. rewrite Hget.
    destruct o as [[s|n|b|n u]|]; cbn [is_str option_map node_of_value node_text str_val or_default] in *; try contradiction; [|reflexivity].
    specialize (Hl s eq_refl). destruct (parse_log_level s); [reflexivity|congruence].
  Qed.

  Lemma map_has_iff : map_has m K = match o with Some _ => true | None => false end.
  Proof. unfold map_has. rewrite Hget. destruct o; reflexivity. Qed.
End getters.

(* ================================================================================================
   C. routes and hosts
   ================================================================================================ *)
Lemma collect_map : forall {A B} (f : A -> res B) (g : A -> B) l, (forall x, f x = ROk (g x)) -> collect f l = ROk (map g l).
Proof.
  intros A B f g l H. induction l as [|x l IH]; [reflexivity|]. cbn [collect map]. rewrite H. cbn [rbind]. rewrite IH. reflexivity.
Qed.

Lemma collect_map_in : forall {A B} (f : A -> res B) (g : A -> B) l, (forall x, In x l -> f x = ROk (g x)) -> collect f l = ROk (map g l).
Proof.
  intros A B f g l H. induction l as [|x l IH]; [reflexivity|]. cbn [collect map]. rewrite H by (left; reflexivity). cbn [rbind].
  rewrite IH; [reflexivity|]. intros y Hy. apply H. right. exact Hy.
Qed.

(* the flattened map of a route body made of entries only *)
Lemma route_map : forall key rbody, Forall (fun s => match s with SKv _ _ => True | SSec _ _ => False end) rbody ->
  map_get key (flat_map (flatten []) (map snode rbody)) = option_map (node_of_value key) (kv_last key rbody).
Proof.
  intros key rbody H. induction H as [|s rbody Hs Hr IH]; [reflexivity|].
  cbn [map flat_map kv_last]. rewrite map_get_app, IH. destruct (kv_last key rbody); [reflexivity|]. cbn [option_map].
  destruct s as [k v|]; [|contradiction]. cbn [snode]. rewrite flatten_value. cbn [app join_dot map_get].
  destruct (beq k key) eqn:E; [|reflexivity]. apply beq_eq in E. subst. reflexivity.
Qed.

Lemma route_for_denote : forall pats rbody, wf_route rbody ->
  collect (route_for (flat_map (flatten []) (map snode rbody))) (map trim (split_on COMMA pats)) = ROk (denote_route pats rbody).
Proof.
  intros pats rbody [Hkv [Hf [Hd [Hp [Hr [Hw [Hl [Hsome Hmode]]]]]]]].
  set (conf := flat_map (flatten []) (map snode rbody)).
  assert (Hget : forall key, map_get key conf = option_map (node_of_value key) (kv_last key rbody)) by (intros; apply route_map; exact Hkv).
  unfold denote_route.
  set (ws := str_val (kv_last rkey_websocket rbody)).
  assert (Hws : get_owned conf rkey_websocket = ws) by (apply (get_owned_str conf _ _ _ (Hget _)); exact Hw).
  assert (Hhas : forall key, map_has conf key = match kv_last key rbody with Some _ => true | None => false end)
    by (intros key; apply (map_has_iff conf _ _ _ (Hget key))).
  assert (Hown : forall key, is_str (kv_last key rbody) -> get_owned conf key = str_val (kv_last key rbody))
    by (intros key Hs; apply (get_owned_str conf _ _ _ (Hget key)); exact Hs).
  change k_file with [102; 105; 108; 101] in *. change k_directory with [100; 105; 114; 101; 99; 116; 111; 114; 121] in *.
  change k_redirect with [114; 101; 100; 105; 114; 101; 99; 116] in *.
  destruct (kv_last [102; 105; 108; 101] rbody) as [[p|?|?|? ?]|] eqn:Ef; cbn in Hf; try contradiction.
  { cbn [str_val]. apply collect_map. intros x. unfold route_for. rewrite Hhas, Ef, (Hown _ ltac:(rewrite Ef; exact I)), Ef, Hws. reflexivity. }
  destruct (kv_last [100; 105; 114; 101; 99; 116; 111; 114; 121] rbody) as [[p|?|?|? ?]|] eqn:Ed; cbn in Hd; try contradiction.
  { cbn [str_val]. apply collect_map. intros x. unfold route_for.
    rewrite Hhas, Ef, Hhas, Ed, (Hown _ ltac:(rewrite Ed; exact I)), Ed, Hws. reflexivity. }
  destruct (kv_last rkey_proxy rbody) as [[t|?|?|? ?]|] eqn:Ep; cbn in Hp; try contradiction.
  { cbn [str_val]. specialize (Hmode eq_refl eq_refl ltac:(discriminate)).
    assert (Hlb : get_optional conf rkey_lb_mode default_lb_mode = or_default (str_val (kv_last rkey_lb_mode rbody)) default_lb_mode)
      by (apply (get_optional_str conf _ _ _ (Hget _)); exact Hl).
    apply collect_map. intros x. unfold route_for.
    rewrite Hhas, Ef, Hhas, Ed, Hhas, Ep, (Hown _ ltac:(rewrite Ep; exact I)), Ep, Hws, Hlb. cbn [str_val].
    destruct (assoc_b (or_default (str_val (kv_last rkey_lb_mode rbody)) default_lb_mode) lb_mode_table); [reflexivity|congruence]. }
  destruct (kv_last [114; 101; 100; 105; 114; 101; 99; 116] rbody) as [[p|?|?|? ?]|] eqn:Er; cbn in Hr; try contradiction.
  { cbn [str_val]. apply collect_map. intros x. unfold route_for.
    rewrite Hhas, Ef, Hhas, Ed, Hhas, Ep, Hhas, Er, (Hown _ ltac:(rewrite Er; exact I)), Er, Hws. reflexivity. }
  cbn [str_val].
  destruct (kv_last rkey_websocket rbody) as [wv|] eqn:Ew.
  - apply collect_map. intros x. unfold route_for. rewrite Hhas, Ef, Hhas, Ed, Hhas, Ep, Hhas, Er, Hhas, Ew, Hws. reflexivity.
  - exfalso. destruct Hsome as [H|[H|[H|[H|H]]]]; congruence.
Qed.

Definition route_entries (nodes : list node) : list (bytes * cmap) :=
  flat_map (fun c => match c with NRoute w ics => [(w, flat_map (flatten []) ics)] | _ => [] end) nodes.

Lemma routes_collect : forall ss, wf_routes ss ->
  collect (fun wc => parse_route (fst wc) (snd wc)) (route_entries (map snode ss)) =
  ROk (flat_map (fun s => match s with SSec (KRoute pats) rbody => [denote_route pats rbody] | _ => [] end) ss).
Proof.
  intros ss H. induction H as [|s ss Hs Hss IH]; [reflexivity|].
  unfold route_entries in *. cbn [map flat_map].
  destruct s as [k v|[n|pats|n q] body]; cbn [snode sec_node app].
  - destruct v; exact IH.
  - exact IH.
  - cbn [collect fst snd]. unfold parse_route at 1. rewrite (route_for_denote pats body Hs). cbn [rbind]. rewrite IH. reflexivity.
  - exact IH.
Qed.

Lemma flat_map_singleton_concat : forall ss,
  concat (flat_map (fun s => match s with SSec (KRoute pats) rbody => [denote_route pats rbody] | _ => [] end) ss) = denote_routes ss.
Proof.
  induction ss as [|s ss IH]; [reflexivity|]. unfold denote_routes in *. cbn [flat_map].
  destruct s as [k v|[n|pats|n q] body]; cbn [app concat]; try exact IH. rewrite IH. reflexivity.
Qed.

Lemma parse_host_sec : forall wild nm ss, wf_routes ss ->
  parse_host wild (NSec nm (map snode ss)) = ROk {| hc_matches := wild; hc_routes := denote_routes ss |}.
Proof.
  intros wild nm ss H. unfold parse_host. cbn [routes_of]. change (flat_map _ (map snode ss)) with (route_entries (map snode ss)).
  rewrite (routes_collect ss H). cbn [rbind]. rewrite flat_map_singleton_concat. reflexivity.
Qed.

Lemma parse_host_host : forall wild nm ss, wf_routes ss ->
  parse_host wild (NHost nm (map snode ss)) = ROk {| hc_matches := wild; hc_routes := denote_routes ss |}.
Proof.
  intros wild nm ss H. unfold parse_host. cbn [routes_of]. change (flat_map _ (map snode ss)) with (route_entries (map snode ss)).
  rewrite (routes_collect ss H). cbn [rbind]. rewrite flat_map_singleton_concat. reflexivity.
Qed.

Lemma hosts_collect : forall ss, Forall (fun s => match s with SSec (KHost _ _) body => wf_routes body | _ => True end) ss ->
  collect (fun hn => parse_host (fst hn) (snd hn)) (hosts_of (NSec kw_server (map snode ss))) = ROk (denote_hosts ss).
Proof.
  intros ss H. cbn [hosts_of]. induction H as [|s ss Hs Hss IH]; [reflexivity|].
  unfold denote_hosts in *. cbn [map flat_map].
  destruct s as [k v|[n|pats|n q] body]; cbn [snode sec_node app].
  - destruct v; exact IH.
  - exact IH.
  - exact IH.
  - cbn [collect fst snd]. rewrite (parse_host_host n n body Hs). cbn [rbind]. rewrite IH. reflexivity.
Qed.

(* ================================================================================================
   D. Config::from_tree on the tree of a description
   ================================================================================================ *)
Lemma dotfree_concrete : forall k, forallb (fun b => negb (b =? 46)) k = true -> dotfree k.
Proof. intros k H Hin. rewrite forallb_forall in H. specialize (H _ Hin). discriminate. Qed.

Theorem from_tree_denote : forall ipp files bl ss, wf_conf ipp files bl ss ->
  from_tree ipp files (NSec kw_server (map snode ss)) = ROk (denote bl ss).
Proof.
  intros ipp files bl ss
    [Htop [Haddr [Hport [Hthr [Hthrmin [Htime [Hws [Hblf [Hbl [Hblm [Hblmode [Hlvl [Hlvlok [Hcons [Hlogf [Hsize [Hctime [Hroutes Hhosts]]]]]]]]]]]]]]]]]].
  unfold from_tree.
  assert (Hm : flatten [] (NSec kw_server (map snode ss)) = flat_map (flatten [kw_server]) (map snode ss)) by reflexivity.
  rewrite Hm. set (m := flat_map (flatten [kw_server]) (map snode ss)).
  assert (Htop' : Forall top_ok ss) by exact Htop.
  assert (L1 : forall k, forallb (fun b => negb (b =? 46)) k = true ->
                 map_get (srv k) m = option_map (node_of_value k) (kv_last k ss)).
  { intros k Hk. apply lookup1; [apply dotfree_concrete; exact Hk|exact Htop']. }
  assert (L2 : forall sec k, forallb (fun b => negb (b =? 46)) sec = true -> forallb (fun b => negb (b =? 46)) k = true ->
                 beq sec section_plugins = false ->
                 map_get (srv (sec ++ 46 :: k)) m = option_map (node_of_value k) (kv_last k (sub_bodies sec ss))).
  { intros sec k Hs Hk Hnp. apply lookup2; [apply dotfree_concrete; exact Hs|apply dotfree_concrete; exact Hk| |exact Htop'].
    intros ->. rewrite beq_refl in Hnp. discriminate. }
  change key_address with (srv k_address). change key_port with (srv k_port). change key_threads with (srv k_threads).
  change key_websocket with (srv k_websocket). change key_timeout with (srv k_timeout).
  change key_blacklist_file with (srv (k_blacklist ++ 46 :: k_file)). change key_blacklist_mode with (srv (k_blacklist ++ 46 :: k_mode)).
  change key_log_level with (srv (k_log ++ 46 :: k_level)). change key_log_file with (srv (k_log ++ 46 :: k_file)).
  change key_log_console with (srv (k_log ++ 46 :: k_console)). change key_cache_size with (srv (k_cache ++ 46 :: k_size)).
  change key_cache_time with (srv (k_cache ++ 46 :: k_time)).
  rewrite (get_optional_str m _ _ _ (L1 k_address eq_refl) default_address Haddr).
  unfold parse_u16, parse_usize, parse_u64.
  rewrite (get_parsed_int m _ _ _ (L1 k_port eq_refl) 65535 default_port Hport). cbn [opt_or].
  rewrite (get_parsed_int m _ _ _ (L1 k_threads eq_refl) usize_max default_threads Hthr). cbn [opt_or].
  rewrite (get_owned_str m _ _ _ (L1 k_websocket eq_refl) Hws).
  rewrite (get_parsed_int m _ _ _ (L1 k_timeout eq_refl) usize_max default_timeout Htime). cbn [opt_or].
  replace (or_default (num_val (kv_last k_threads ss)) default_threads <? min_threads) with false
    by (symmetry; apply N.ltb_ge; lia).
  rewrite (get_owned_str m _ _ _ (L2 k_blacklist k_file eq_refl eq_refl eq_refl) Hblf). rewrite Hbl. cbn [rbind].
  rewrite (get_optional_str m _ _ _ (L2 k_blacklist k_mode eq_refl eq_refl eq_refl) default_blacklist_mode Hblm).
  destruct (assoc_b (or_default (str_val (kv_last k_mode (sub_bodies k_blacklist ss))) default_blacklist_mode) blacklist_mode_table)
    as [blmode|] eqn:Ebm; [|congruence]. cbn [opt_or].
  rewrite (get_parsed_level m _ _ _ (L2 k_log k_level eq_refl eq_refl eq_refl) default_log_level Hlvl Hlvlok). cbn [opt_or].
  rewrite (get_owned_str m _ _ _ (L2 k_log k_file eq_refl eq_refl eq_refl) Hlogf).
  rewrite (get_parsed_bool m _ _ _ (L2 k_log k_console eq_refl eq_refl eq_refl) default_log_console Hcons). cbn [opt_or].
  rewrite (get_parsed_num m _ _ _ (L2 k_cache k_size eq_refl eq_refl eq_refl) usize_max default_cache_size Hsize). cbn [opt_or].
  rewrite (get_parsed_int m _ _ _ (L2 k_cache k_time eq_refl eq_refl eq_refl) usize_max default_cache_time Hctime). cbn [opt_or].
  rewrite (parse_host_sec default_host_matches kw_server ss Hroutes). cbn [rbind].
  rewrite (hosts_collect ss Hhosts). cbn [rbind].
  unfold denote. rewrite Ebm. reflexivity.
Qed.

(* every omitted key is at its default: the empty server section *)
Theorem defaults_spec : forall ipp files,
  from_tree ipp files (NSec kw_server []) =
  ROk {| cf_address := default_address; cf_port := default_port; cf_threads := default_threads; cf_websocket := None;
         cf_timeout := None; cf_bl_list := []; cf_bl_mode := 0; cf_log_level := default_log_level;
         cf_log_console := default_log_console; cf_log_file := None; cf_cache_size := default_cache_size;
         cf_cache_time := default_cache_time;
         cf_default_host := {| hc_matches := default_host_matches; hc_routes := [] |}; cf_hosts := [] |}.
Proof. intros ipp files. reflexivity. Qed.

(* ... and key by key in any description: a key that is not given has its default, whatever else is configured *)
Theorem defaults_per_key : forall bl ss,
  (kv_last k_address ss = None -> cf_address (denote bl ss) = default_address) /\
  (kv_last k_port ss = None -> cf_port (denote bl ss) = default_port) /\
  (kv_last k_threads ss = None -> cf_threads (denote bl ss) = default_threads) /\
  (kv_last k_timeout ss = None -> cf_timeout (denote bl ss) = None) /\
  (kv_last k_websocket ss = None -> cf_websocket (denote bl ss) = None) /\
  (kv_last k_mode (sub_bodies k_blacklist ss) = None -> cf_bl_mode (denote bl ss) = 0) /\
  (kv_last k_level (sub_bodies k_log ss) = None -> cf_log_level (denote bl ss) = default_log_level) /\
  (kv_last k_console (sub_bodies k_log ss) = None -> cf_log_console (denote bl ss) = default_log_console) /\
  (kv_last k_file (sub_bodies k_log ss) = None -> cf_log_file (denote bl ss) = None) /\
  (kv_last k_size (sub_bodies k_cache ss) = None -> cf_cache_size (denote bl ss) = default_cache_size) /\
  (kv_last k_time (sub_bodies k_cache ss) = None -> cf_cache_time (denote bl ss) = default_cache_time).
Proof.
  intros bl ss. unfold denote. cbn [cf_address cf_port cf_threads cf_timeout cf_websocket cf_bl_mode cf_log_level cf_log_console
    cf_log_file cf_cache_size cf_cache_time].
  repeat split; intros ->; reflexivity.
Qed.

(* ================================================================================================
   E. the whole loader on a rendered description
   ================================================================================================ *)
Lemma denote_skeleton_item : forall it, denote_item it = map snode (skeleton_item it).
Proof.
  induction it using item_ind'; cbn [denote_item skeleton_item map snode]; try reflexivity.
  - f_equal. f_equal. induction H as [|c cs Hc Hcs IH]; [reflexivity|]. cbn [flat_map]. rewrite map_app, Hc, IH. reflexivity.
  - induction H as [|c cs Hc Hcs IH]; [reflexivity|]. cbn [flat_map]. rewrite map_app, Hc, IH. reflexivity.
Qed.

Lemma denote_skeleton : forall its, denote_items its = map snode (skeleton its).
Proof.
  induction its as [|it its IH]; [reflexivity|]. unfold denote_items, skeleton in *. cbn [flat_map].
  rewrite map_app, denote_skeleton_item, IH. reflexivity.
Qed.

(* C15: a file that renders a well-formed description, under ANY layout (indentation, key/value gaps, trailing blanks,
   comments, blank and comment lines, LF or CRLF, any splitting into include files), loads into exactly the configuration
   the description denotes. *)
Theorem load_render : forall ipp files file m its bl,
  wf_main m -> wf_items its -> all_files_ok files its -> (items_depth its < conf_max_depth)%nat ->
  wf_conf ipp files bl (skeleton its) ->
  load ipp files file (render_main m its) = ROk (denote bl (skeleton its)).
Proof.
  intros ipp files file m its bl Hm Hits Hfiles Hdepth Hconf. unfold load.
  rewrite (parse_render files file m its Hm Hits Hfiles Hdepth). cbn [rbind].
  rewrite denote_skeleton. apply from_tree_denote. exact Hconf.
Qed.

(* the result does not depend on the layout: two renderings of the same description load to the same configuration *)
Corollary load_layout_independent : forall ipp files file1 file2 m1 m2 its1 its2 bl,
  wf_main m1 -> wf_main m2 -> wf_items its1 -> wf_items its2 -> all_files_ok files its1 -> all_files_ok files its2 ->
  (items_depth its1 < conf_max_depth)%nat -> (items_depth its2 < conf_max_depth)%nat ->
  skeleton its1 = skeleton its2 -> wf_conf ipp files bl (skeleton its1) ->
  load ipp files file1 (render_main m1 its1) = load ipp files file2 (render_main m2 its2).
Proof.
  intros ipp files file1 file2 m1 m2 its1 its2 bl Hm1 Hm2 H1 H2 Hf1 Hf2 Hd1 Hd2 Hs Hc.
  rewrite (load_render ipp files file1 m1 its1 bl Hm1 H1 Hf1 Hd1 Hc).
  rewrite Hs in Hc. rewrite (load_render ipp files file2 m2 its2 bl Hm2 H2 Hf2 Hd2 Hc). rewrite Hs. reflexivity.
Qed.

(* independent of what else is configured: an entry with an undocumented key, or a plain section with an undocumented
   name, anywhere among the items of the server section changes nothing *)
Lemma kv_last_insert_kv : forall key a k v b, k <> key -> kv_last key (a ++ SKv k v :: b) = kv_last key (a ++ b).
Proof.
  intros key a k v b Hk. rewrite !kv_last_app. cbn [kv_last]. rewrite (beq_false_ne _ _ Hk).
  destruct (kv_last key b); reflexivity.
Qed.

Lemma kv_last_insert_sec : forall key a kd body b, kv_last key (a ++ SSec kd body :: b) = kv_last key (a ++ b).
Proof. intros key a kd body b. rewrite !kv_last_app. cbn [kv_last]. destruct (kv_last key b); reflexivity. Qed.

Lemma sub_bodies_insert : forall sec a s b,
  (match s with SSec (KPlain n) _ => n <> sec | _ => True end) -> sub_bodies sec (a ++ s :: b) = sub_bodies sec (a ++ b).
Proof.
  intros sec a s b H. unfold sub_bodies. rewrite !flat_map_app. cbn [flat_map]. f_equal.
  destruct s as [|[n| |] body]; try reflexivity. rewrite (beq_false_ne _ _ H). reflexivity.
Qed.

Lemma denote_routes_insert : forall a s b, (match s with SSec (KRoute _) _ => False | _ => True end) ->
  denote_routes (a ++ s :: b) = denote_routes (a ++ b).
Proof.
  intros a s b H. unfold denote_routes. rewrite !flat_map_app. cbn [flat_map]. f_equal.
  destruct s as [|[n|p|n q] body]; try reflexivity. contradiction.
Qed.

Lemma denote_hosts_insert : forall a s b, (match s with SSec (KHost _ _) _ => False | _ => True end) ->
  denote_hosts (a ++ s :: b) = denote_hosts (a ++ b).
Proof.
  intros a s b H. unfold denote_hosts. rewrite !flat_map_app. cbn [flat_map]. f_equal.
  destruct s as [|[n|p|n q] body]; try reflexivity. contradiction.
Qed.

Definition documented_keys : list bytes := [k_address; k_port; k_threads; k_timeout; k_websocket].
Definition documented_sections : list bytes := [k_blacklist; k_log; k_cache].

Theorem independent_of_other_keys : forall bl a b k v, ~ In k documented_keys ->
  denote bl (a ++ SKv k v :: b) = denote bl (a ++ b).
Proof.
  intros bl a b k v Hk. unfold denote.
  assert (Hne : forall key, In key documented_keys -> k <> key) by (intros key Hin ->; apply Hk; exact Hin).
  rewrite !(kv_last_insert_kv _ a k v b) by (apply Hne; cbn; auto 10).
  rewrite !(sub_bodies_insert _ a (SKv k v) b) by exact I.
  rewrite (denote_routes_insert a (SKv k v) b) by exact I. rewrite (denote_hosts_insert a (SKv k v) b) by exact I.
  reflexivity.
Qed.

Theorem independent_of_other_sections : forall bl a b n body, ~ In n documented_sections ->
  denote bl (a ++ SSec (KPlain n) body :: b) = denote bl (a ++ b).
Proof.
  intros bl a b n body Hn. unfold denote.
  assert (Hne : forall sec, In sec documented_sections -> n <> sec) by (intros sec Hin ->; apply Hn; exact Hin).
  rewrite !(kv_last_insert_sec _ a (KPlain n) body b).
  rewrite !(sub_bodies_insert _ a (SSec (KPlain n) body) b) by (apply Hne; cbn; auto 10).
  rewrite (denote_routes_insert a (SSec (KPlain n) body) b) by exact I.
  rewrite (denote_hosts_insert a (SSec (KPlain n) body) b) by exact I.
  reflexivity.
Qed.

(* hosts and routes come out in file order: appending a host or a route appends its denotation *)
Theorem hosts_in_file_order : forall a name q body b,
  denote_hosts (a ++ SSec (KHost name q) body :: b) =
  denote_hosts a ++ {| hc_matches := name; hc_routes := denote_routes body |} :: denote_hosts b.
Proof. intros. unfold denote_hosts. rewrite flat_map_app. reflexivity. Qed.

Theorem routes_in_file_order : forall a pats rbody b,
  denote_routes (a ++ SSec (KRoute pats) rbody :: b) = denote_routes a ++ denote_route pats rbody ++ denote_routes b.
Proof. intros. unfold denote_routes. rewrite flat_map_app. reflexivity. Qed.

(* ================================================================================================
   F. comma-separated pattern lists
   ================================================================================================ *)
Lemma split_on_none : forall d a, ~ In d a -> split_on d a = [a].
Proof.
  intros d. induction a as [|x a IH]; intros H; [reflexivity|]. cbn [split_on].
  replace (x =? d) with false by (symmetry; apply N.eqb_neq; intros ->; apply H; left; reflexivity).
  rewrite IH; [reflexivity|]. intros Hin. apply H. right. exact Hin.
Qed.

Lemma split_on_first : forall d a b, ~ In d a -> split_on d (a ++ d :: b) = a :: split_on d b.
Proof.
  intros d. induction a as [|x a IH]; intros b H.
  - cbn [app split_on]. rewrite N.eqb_refl. reflexivity.
  - cbn [app split_on].
    replace (x =? d) with false by (symmetry; apply N.eqb_neq; intros ->; apply H; left; reflexivity).
    rewrite IH; [reflexivity|]. intros Hin. apply H. right. exact Hin.
Qed.

(* a route header `route p1 , p2 ,p3` denotes the patterns p1, p2, p3 *)
Theorem patterns_split : forall rest p i, blankb i = true -> wf_pattern p ->
  Forall (fun t => blankb (fst (fst t)) = true /\ blankb (snd (fst t)) = true /\ wf_pattern (snd t)) rest ->
  map trim (split_on COMMA (i ++ pats_text p rest)) = p :: map snd rest.
Proof.
  induction rest as [|[[w1 w2] q] rest IH]; intros p i Hi [Hv Hc] Hrest.
  - cbn [pats_text map]. rewrite split_on_none.
    + cbn [map]. f_equal. rewrite <- (app_nil_r p) at 1. apply trim_blank; [exact Hi|reflexivity|right; exact Hv].
    + intros Hin. apply in_app_or in Hin. destruct Hin as [Hin|Hin]; [|exact (Hc Hin)].
      revert Hin. apply blankb_no; [exact Hi|discriminate|discriminate].
  - inversion Hrest as [|? ? [Hw1 [Hw2 Hq]] Hrest']; subst. cbn [fst snd] in *.
    cbn [pats_text map]. rewrite !app_assoc. rewrite split_on_first.
    + cbn [map]. f_equal.
      * rewrite <- app_assoc. apply trim_blank; [exact Hi|exact Hw1|right; exact Hv].
      * apply IH; assumption.
    + intros Hin. apply in_app_or in Hin. destruct Hin as [Hin|Hin].
      * apply in_app_or in Hin. destruct Hin as [Hin|Hin]; [|exact (Hc Hin)].
        revert Hin. apply blankb_no; [exact Hi|discriminate|discriminate].
      * revert Hin. apply blankb_no; [exact Hw1|discriminate|discriminate].
Qed.

Corollary route_patterns : forall p rest rbody, wf_pattern p ->
  Forall (fun t => blankb (fst (fst t)) = true /\ blankb (snd (fst t)) = true /\ wf_pattern (snd t)) rest ->
  map rt_matches (denote_route (pats_text p rest) rbody) = p :: map snd rest.
Proof.
  intros p rest rbody Hp Hrest.
  assert (Hs : map trim (split_on COMMA (pats_text p rest)) = p :: map snd rest) by (apply (patterns_split rest p [] eq_refl Hp Hrest)).
  unfold denote_route. rewrite Hs.
  destruct (str_val (kv_last k_file rbody)); [rewrite map_map; cbn [rt_matches]; rewrite map_id; reflexivity|].
  destruct (str_val (kv_last k_directory rbody)); [rewrite map_map; cbn [rt_matches]; rewrite map_id; reflexivity|].
  destruct (str_val (kv_last rkey_proxy rbody)); [rewrite map_map; cbn [rt_matches]; rewrite map_id; reflexivity|].
  destruct (str_val (kv_last k_redirect rbody)); rewrite map_map; cbn [rt_matches]; rewrite map_id; reflexivity.
Qed.
