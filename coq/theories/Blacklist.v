(* Model of the server's blacklist enforcement (C19): verify_connection (server.rs), is_blacklisted / blacklist_check
   (static.rs, used by the file, directory, redirect and proxy handlers), on top of Address::from_headers (Http.v).
   Addresses are canonical text. *)
From Hv Require Import Prelude Bytes TablesHttp Http.
Open Scope N_scope.

Inductive verdict := Dropped | Forbidden | Served.

Definition mem (a : bytes) (l : list bytes) : bool := existsb (beq a) l.

(* connection condition: false = connection closed without a response *)
Definition verify_connection (block : bool) (bl : list bytes) (peer_ip : bytes) : bool :=
  negb (block && mem peer_ip bl).

Definition is_blacklisted (bl : list bytes) (a : address) : bool :=
  mem (a_origin a) bl || existsb (fun p => mem p bl) (a_proxies a).

(* what a client at `p` sending headers `hs` gets from any content route *)
Definition serve (ipp : bytes -> option bytes) (block : bool) (bl : list bytes) (p : peer) (hs : headers) : verdict :=
  if negb (verify_connection block bl (p_ip p)) then Dropped
  else if is_blacklisted bl (address_of ipp hs p) then Forbidden
  else Served.

(* the addresses named by the (first) X-Forwarded-For header that parse *)
Definition forwarded (ipp : bytes -> option bytes) (hs : headers) : list bytes :=
  match hget XFF hs with
  | Some fwd => filter_map (fun s => ipp (trim s)) (split_on 44 fwd)
  | None => []
  end.

(* the check as it was before fix F30: origin only *)
Definition serve_old (ipp : bytes -> option bytes) (block : bool) (bl : list bytes) (p : peer) (hs : headers) : verdict :=
  if negb (verify_connection block bl (p_ip p)) then Dropped
  else if mem (a_origin (address_of ipp hs p)) bl then Forbidden
  else Served.
