(* Specification side of C01: what a connection must output for a list of requests, independently of how the bytes were
   split into reads.  Definitions only. *)
From Hv Require Import Prelude Bytes StreamBuf TablesHttp Http Krauss Conn.
Open Scope N_scope.

(* the framed error responses the loop writes itself *)
Definition frame_400 (date : bytes) : bytes := serialize_response (add_default_headers date None (error_response 400)).
Definition frame_408 (date : bytes) : bytes := serialize_response (add_default_headers date None (error_response 408)).

(* every chunk of the scripted client input is non-empty (a read() of 0 bytes means EOF) *)
Definition wf_input (inp : list (option bytes)) : Prop := Forall (fun o => o <> Some []) inp.

(* total number of bytes the client sends *)
Definition in_bytes (inp : list (option bytes)) : nat :=
  fold_right (fun c a => (match c with Some b => length b | None => 0 end + a)%nat) 0%nat inp.

(* "no read delivers bytes of two requests": request i arrives as the reads cs_i, then `tail` *)
Definition aligned_input (css : list chunks) (tail : list (option bytes)) : list (option bytes) :=
  concat (map (fun cs => map Some cs) css) ++ tail.

(* the reads cs are exactly one complete request (stated through the flat parser: nothing is left over) *)
Definition one_request (ipp : bytes -> option bytes) (p : peer) (cs : chunks) (req : request) : Prop :=
  wf_chunks cs /\ parse_request_flat ipp p (concat cs) = Ok (req, []).

(* a response whose end the client can find without waiting for the connection to close *)
Definition self_delimiting (resp : response) : Prop :=
  hget (HKnown H_ContentLength) (s_headers resp) = Some (dec_render (N.of_nat (length (s_body resp))))
  \/ (s_status resp = status_index 204 /\ s_body resp = []).

(* What the connection writes for the requests reqs, and why it ends.  One response per request, in order, for the
   maximal prefix ending at the first request that is an upgrade / whose handler panics / that is not keep-alive;
   if every request is answered and kept alive, the connection goes on with whatever follows (k). *)
Fixpoint expected (rs : list croute) (date : bytes) (reqs : list request) (k : list bytes * ending)
  : list bytes * ending :=
  match reqs with
  | [] => k
  | req :: reqs' =>
    if is_upgrade req then ([], EUpgrade) else
    match respond rs date req with
    | None => ([], EPanic)
    | Some resp =>
      if keep_alive_of req
      then (serialize_response resp :: fst (expected rs date reqs' k), snd (expected rs date reqs' k))
      else ([serialize_response resp], ENoKeepAlive)
    end
  end.

(* the client closes after its last request *)
Definition expected_out (rs : list croute) (date : bytes) (reqs : list request) : list bytes :=
  fst (expected rs date reqs ([], EClosedByClient)).
Definition expected_ending (rs : list croute) (date : bytes) (reqs : list request) : ending :=
  snd (expected rs date reqs ([], EClosedByClient)).

(* a request after which the connection stays open *)
Definition stays_open (rs : list croute) (date : bytes) (req : request) : Prop :=
  is_upgrade req = false /\ respond rs date req <> None /\ keep_alive_of req = true.

(* the bytes written for one request: its serialised response, or nothing when the handler panics *)
Definition response_of (rs : list croute) (date : bytes) (req : request) : list bytes :=
  match respond rs date req with Some resp => [serialize_response resp] | None => [] end.

(* how a connection ends at a request after which it does not stay open *)
Definition stop_ending (rs : list croute) (date : bytes) (req : request) : ending :=
  if is_upgrade req then EUpgrade else match respond rs date req with None => EPanic | Some _ => ENoKeepAlive end.

(* a byte string that is exactly one complete keep-alive (non-upgrade) request *)
Definition complete_keepalive_request (ipp : bytes -> option bytes) (p : peer) (r : bytes) : bool :=
  match parse_request_flat ipp p r with
  | Ok (q, []) => keep_alive_of q && negb (is_upgrade q)
  | _ => false
  end.

(* the next thing the server sees is an idle gap longer than the timeout *)
Definition starts_with_timeout (inp : list (option bytes)) : bool :=
  match inp with None :: _ => true | _ => false end.

