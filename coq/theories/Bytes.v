(* Byte-string operations used by the HTTP / config models: the Rust &str / &[u8] methods the parsers call,
   modelled on lists of bytes (a Rust String is its UTF-8 bytes). Definitions only. *)
From Hv Require Import Prelude.
Open Scope N_scope.

Definition CR : N := 13.
Definition LF : N := 10.
Definition SP : N := 32.
Definition COLON : N := 58.

Fixpoint beq (a b : bytes) : bool :=
  match a, b with
  | [], [] => true
  | x :: a', y :: b' => (x =? y) && beq a' b'
  | _, _ => false
  end.

(* lexicographic comparison of byte strings (str::cmp on UTF-8 = bytewise) *)
Fixpoint bcmp (a b : bytes) : comparison :=
  match a, b with
  | [], [] => Eq
  | [], _ => Lt
  | _, [] => Gt
  | x :: a', y :: b' => match x ?= y with Eq => bcmp a' b' | c => c end
  end.

(* split at the first occurrence of d, delimiter excluded: Some (before, after) *)
Fixpoint split_once (d : N) (l : bytes) : option (bytes * bytes) :=
  match l with
  | [] => None
  | x :: l' =>
    if x =? d then Some ([], l')
    else match split_once d l' with
         | Some (a, b) => Some (x :: a, b)
         | None => None
         end
  end.

(* str::split(d): all fields, at least one *)
Fixpoint split_on (d : N) (l : bytes) : list bytes :=
  match l with
  | [] => [[]]
  | x :: l' =>
    if x =? d then [] :: split_on d l'
    else match split_on d l' with
         | f :: fs => (x :: f) :: fs
         | [] => [[x]]          (* unreachable: split_on never returns [] *)
         end
  end.

(* split at the first occurrence of d, delimiter included in the first part (read_until on a flat list) *)
Fixpoint split_incl (d : N) (l : bytes) : option (bytes * bytes) :=
  match l with
  | [] => None
  | x :: l' =>
    if x =? d then Some ([x], l')
    else match split_incl d l' with
         | Some (a, b) => Some (x :: a, b)
         | None => None
         end
  end.

Fixpoint ends_with_crlf (l : bytes) : bool :=
  match l with
  | [a; b] => (a =? CR) && (b =? LF)
  | _ :: l' => ends_with_crlf l'
  | [] => false
  end.

(* str::strip_suffix("\r\n") *)
Definition strip_crlf (l : bytes) : option bytes :=
  if ends_with_crlf l then Some (firstn (length l - 2) l) else None.

Definition lower_byte (b : N) : N := if (65 <=? b) && (b <=? 90) then b + 32 else b.
Definition ascii_lower (l : bytes) : bytes := map lower_byte l.

(* char::is_whitespace (Unicode White_Space) on the UTF-8 encoding: returns the number of bytes of the whitespace
   character at the head of l, or 0. *)
Definition ws_prefix_len (l : bytes) : nat :=
  match l with
  | b :: r =>
    if (b =? 32) || ((9 <=? b) && (b <=? 13)) then 1%nat
    else match b, r with
         | 194, c :: _ => if (c =? 133) || (c =? 160) then 2%nat else 0%nat            (* U+0085, U+00A0 *)
         | 225, c1 :: c2 :: _ => if (c1 =? 154) && (c2 =? 128) then 3%nat else 0%nat      (* U+1680 *)
         | 226, c1 :: c2 :: _ =>
           if (c1 =? 128) && (((128 <=? c2) && (c2 <=? 138)) || (c2 =? 168) || (c2 =? 169) || (c2 =? 175)) then 3%nat
           else if (c1 =? 129) && (c2 =? 159) then 3%nat else 0%nat                      (* U+2000-200A, 2028, 2029, 202F, 205F *)
         | 227, c1 :: c2 :: _ => if (c1 =? 128) && (c2 =? 128) then 3%nat else 0%nat      (* U+3000 *)
         | _, _ => 0%nat
         end
  | [] => 0%nat
  end.

Fixpoint trim_start_fuel (fuel : nat) (l : bytes) : bytes :=
  match fuel with
  | O => l
  | S f => match ws_prefix_len l with
           | O => l
           | n => trim_start_fuel f (skipn n l)
           end
  end.
Definition trim_start (l : bytes) : bytes := trim_start_fuel (length l) l.

(* trailing whitespace: work on the reversed list; a whitespace character reversed is its bytes reversed *)
Definition ws_suffix_len (rl : bytes) : nat :=
  match rl with
  | b :: r =>
    if (b =? 32) || ((9 <=? b) && (b <=? 13)) then 1%nat
    else match r with
         | c :: r' =>
           if (c =? 194) && ((b =? 133) || (b =? 160)) then 2%nat
           else match r' with
                | e :: _ =>
                  if (e =? 225) && (c =? 154) && (b =? 128) then 3%nat
                  else if (e =? 226) && (c =? 128) &&
                          (((128 <=? b) && (b <=? 138)) || (b =? 168) || (b =? 169) || (b =? 175)) then 3%nat
                  else if (e =? 226) && (c =? 129) && (b =? 159) then 3%nat
                  else if (e =? 227) && (c =? 128) && (b =? 128) then 3%nat
                  else 0%nat
                | [] => 0%nat
                end
         | [] => 0%nat
         end
  | [] => 0%nat
  end.
Fixpoint trim_end_rev (fuel : nat) (rl : bytes) : bytes :=
  match fuel with
  | O => rl
  | S f => match ws_suffix_len rl with
           | O => rl
           | n => trim_end_rev f (skipn n rl)
           end
  end.
Definition trim_end (l : bytes) : bytes := rev (trim_end_rev (length l) (rev l)).
Definition trim (l : bytes) : bytes := trim_end (trim_start l).

(* ---- numbers ---- *)
Definition is_digit (b : N) : bool := (48 <=? b) && (b <=? 57).

Fixpoint dec_digits (acc : N) (l : bytes) : option N :=
  match l with
  | [] => Some acc
  | b :: l' => if is_digit b then dec_digits (acc * 10 + (b - 48)) l' else None
  end.

(* <unsigned int>::from_str: optional leading '+', at least one digit, no overflow beyond max *)
Definition parse_unsigned (max : N) (l : bytes) : option N :=
  let ds := match l with 43 :: r => r | _ => l end in
  match ds with
  | [] => None
  | _ => match dec_digits 0 ds with
         | Some n => if n <=? max then Some n else None
         | None => None
         end
  end.
Definition usize_max : N := 18446744073709551615.
Definition parse_usize := parse_unsigned usize_max.
Definition parse_u16 := parse_unsigned 65535.

Definition hex_val (b : N) : option N :=
  if is_digit b then Some (b - 48)
  else if (97 <=? b) && (b <=? 102) then Some (b - 87)
  else if (65 <=? b) && (b <=? 70) then Some (b - 55)
  else None.
Fixpoint hex_digits (acc : N) (l : bytes) : option N :=
  match l with
  | [] => Some acc
  | b :: l' => match hex_val b with Some v => hex_digits (acc * 16 + v) l' | None => None end
  end.
(* usize::from_str_radix(s, 16): optional '+', at least one digit, overflow = error *)
Definition parse_usize_hex (l : bytes) : option N :=
  let ds := match l with 43 :: r => r | _ => l end in
  match ds with
  | [] => None
  | _ => match hex_digits 0 ds with
         | Some n => if n <=? usize_max then Some n else None
         | None => None
         end
  end.

(* decimal rendering (u16 / usize Display) *)
Fixpoint dec_render_fuel (fuel : nat) (n : N) (acc : bytes) : bytes :=
  match fuel with
  | O => acc
  | S f => let acc' := (48 + n mod 10) :: acc in
           if n / 10 =? 0 then acc' else dec_render_fuel f (n / 10) acc'
  end.
Definition dec_render (n : N) : bytes := dec_render_fuel (S (N.to_nat (N.log2 n))) n [].

(* ---- UTF-8 validity (str::from_utf8) ---- *)
Definition cont (b : N) : bool := (128 <=? b) && (b <=? 191).
Fixpoint utf8_valid_fuel (fuel : nat) (l : bytes) : bool :=
  match fuel with
  | O => match l with [] => true | _ => false end
  | S f =>
    match l with
    | [] => true
    | b :: r =>
      if b <? 128 then utf8_valid_fuel f r
      else if (194 <=? b) && (b <=? 223) then
        match r with c1 :: r1 => cont c1 && utf8_valid_fuel f r1 | _ => false end
      else if b =? 224 then
        match r with c1 :: c2 :: r2 => (160 <=? c1) && (c1 <=? 191) && cont c2 && utf8_valid_fuel f r2 | _ => false end
      else if ((225 <=? b) && (b <=? 236)) || (b =? 238) || (b =? 239) then
        match r with c1 :: c2 :: r2 => cont c1 && cont c2 && utf8_valid_fuel f r2 | _ => false end
      else if b =? 237 then
        match r with c1 :: c2 :: r2 => (128 <=? c1) && (c1 <=? 159) && cont c2 && utf8_valid_fuel f r2 | _ => false end
      else if b =? 240 then
        match r with c1 :: c2 :: c3 :: r3 => (144 <=? c1) && (c1 <=? 191) && cont c2 && cont c3 && utf8_valid_fuel f r3
                | _ => false end
      else if (241 <=? b) && (b <=? 243) then
        match r with c1 :: c2 :: c3 :: r3 => cont c1 && cont c2 && cont c3 && utf8_valid_fuel f r3 | _ => false end
      else if b =? 244 then
        match r with c1 :: c2 :: c3 :: r3 => (128 <=? c1) && (c1 <=? 143) && cont c2 && cont c3 && utf8_valid_fuel f r3
                | _ => false end
      else false
    end
  end.
Definition utf8_valid (l : bytes) : bool := utf8_valid_fuel (length l) l.

(* str::is_char_boundary(i) for a valid UTF-8 string: index 0, len, or a byte that is not a continuation byte *)
Definition is_char_boundary (l : bytes) (i : nat) : bool :=
  if Nat.eqb i 0 then true
  else if Nat.ltb (length l) i then false
  else if Nat.eqb i (length l) then true
  else negb (cont (nth i l 0)).
