(* Model of the HTTP client (humphrey/src/client.rs): Client::parse_url, the request builders get/post/put/delete,
   ClientRequest::with_cookie / with_redirects and ClientRequest::send with its redirect loop.
   Definitions only. The network is a Section variable `net` (one exchange: connect to the host's port 80, write the
   serialised request, parse one response - Http.serialize_request / Http.parse_response_* model the two halves), and so is
   name resolution (`resolves`); the build modelled is the one without the `tls` feature (request_tls = Err). *)
From Hv Require Import Prelude Bytes TablesHttp TablesClient Http.
Open Scope N_scope.

(* scheme prefixes, followed status variants and the relative-Location test come from the generated TablesClient.v *)
Definition S_http : bytes := CLIENT_HTTP_PREFIX.     (* "http://" *)
Definition S_https : bytes := CLIENT_HTTPS_PREFIX.   (* "https://" *)
Definition V_HTTP11 : bytes := [72;84;84;80;47;49;46;49].       (* "HTTP/1.1" *)
Definition SLASH : N := CLIENT_RELATIVE_FIRST_BYTE.   (* '/' : also the separator parse_url splits host from path at *)
Definition QMARK : N := 63.

(* str::strip_prefix *)
Fixpoint strip_pre (pre l : bytes) : option bytes :=
  match pre, l with
  | [], _ => Some l
  | a :: pre', b :: l' => if a =? b then strip_pre pre' l' else None
  | _ :: _, [] => None
  end.

(* str::split_once(d).unwrap_or((s, "")) *)
Definition split_or (d : N) (l : bytes) : bytes * bytes :=
  match split_once d l with Some ab => ab | None => (l, []) end.

(* str::starts_with('/') *)
Definition starts_with_slash (l : bytes) : bool := match l with c :: _ => c =? SLASH | [] => false end.

Record url := { u_https : bool; u_host : bytes; u_path : bytes; u_query : bytes }.

(* error classes of the client *)
Definition E_InvalidURL : N := 100.
Definition E_NoLocation : N := 101.
Definition E_TLS : N := 102.

Definition M_Get : N := 0.
Definition M_Post : N := 1.
Definition M_Put : N := 2.
Definition M_Delete : N := 3.

Definition C_301 : N := 301.
Definition C_302 : N := 302.
Definition C_307 : N := 307.

(* r.status_code == MovedPermanently || == TemporaryRedirect || == Found *)
Definition is_redirect (s : N) : bool := existsb (N.eqb s) CLIENT_FOLLOWED_STATUS.

Record cstate := {
  c_https : bool;                 (* self.protocol *)
  c_host : bytes;                 (* self.address, named by the host text it was resolved from *)
  c_req : request;                (* self.request *)
  c_follow : bool;                (* self.follow_redirects *)
  c_cookies : list (bytes * bytes) }.

(* Cookie::to_header *)
Fixpoint join_cookies (cs : list (bytes * bytes)) : bytes :=
  match cs with
  | [] => []
  | [(n, v)] => n ++ [61] ++ v
  | (n, v) :: rest => n ++ [61] ++ v ++ [59; 32] ++ join_cookies rest
  end.
Definition cookie_header (cs : list (bytes * bytes)) : option header :=
  match cs with [] => None | _ => Some (HKnown H_Cookie, join_cookies cs) end.

Definition with_headers (r : request) (hs : headers) : request :=
  {| r_method := r_method r; r_uri := r_uri r; r_query := r_query r; r_version := r_version r;
     r_headers := hs; r_content := r_content r; r_addr := r_addr r |}.

Definition with_target (r : request) (uri query : bytes) : request :=
  {| r_method := r_method r; r_uri := uri; r_query := query; r_version := r_version r;
     r_headers := r_headers r; r_content := r_content r; r_addr := r_addr r |}.

Section Client.
  (* (https?, host text) : does "<host>:80" / "<host>:443" resolve to a socket address *)
  Variable resolves : bool -> bytes -> bool.
  (* one plain-HTTP exchange with the origin named by the host text *)
  Variable net : bytes -> request -> outcome response.

  (* Client::parse_url *)
  Definition parse_url (s : bytes) : option url :=
    let finish (https : bool) (stripped : bytes) :=
      let '(host, path) := split_or SLASH stripped in
      if resolves https host then
        let '(p, q) := split_or QMARK path in
        Some {| u_https := https; u_host := host; u_path := SLASH :: p; u_query := q |}
      else None in
    match strip_pre S_http s with
    | Some stripped => finish false stripped
    | None => match strip_pre S_https s with
              | Some stripped => finish true stripped
              | None => None
              end
    end.

  Definition addr_of_host (h : bytes) : address := {| a_origin := h; a_proxies := []; a_port := 80 |}.

  (* the request the builders and the absolute-redirect branch construct for a parsed URL *)
  Definition request_for (m : N) (u : url) (content : option bytes) : request :=
    {| r_method := m; r_uri := u_path u; r_query := u_query u; r_version := V_HTTP11;
       r_headers := [(HKnown H_Host, u_host u)]; r_content := content; r_addr := addr_of_host (u_host u) |}.

  Definition state_for (u : url) (r : request) : cstate :=
    {| c_https := u_https u; c_host := u_host u; c_req := r; c_follow := false; c_cookies := [] |}.

  (* Client::get / delete: no body;  post / put: body and a Content-Length header pushed after Host *)
  Definition client_nobody (m : N) (s : bytes) : option cstate :=
    match parse_url s with
    | Some u => Some (state_for u (request_for m u None))
    | None => None
    end.
  Definition client_body (m : N) (s : bytes) (data : bytes) : option cstate :=
    match parse_url s with
    | Some u =>
      let r := request_for m u (Some data) in
      Some (state_for u (with_headers r (r_headers r ++ [(HKnown H_ContentLength, dec_render (N.of_nat (length data)))])))
    | None => None
    end.

  Definition with_cookie (st : cstate) (c : bytes * bytes) : cstate :=
    {| c_https := c_https st; c_host := c_host st; c_req := c_req st; c_follow := c_follow st;
       c_cookies := c_cookies st ++ [c] |}.
  Definition with_redirects (st : cstate) (f : bool) : cstate :=
    {| c_https := c_https st; c_host := c_host st; c_req := c_req st; c_follow := f; c_cookies := c_cookies st |}.

  (* ClientRequest::send. The recursion of the real code is unbounded (a redirect cycle never returns): fuel, and
     Crash 0 when it runs out. Returns the result and the exchanges attempted, oldest first. *)
  Fixpoint send (fuel : nat) (st : cstate) : outcome response * list (bool * bytes * request) :=
    match fuel with
    | O => (Crash 0, [])
    | S fuel' =>
      let req := match cookie_header (c_cookies st) with
                 | Some h => with_headers (c_req st) (r_headers (c_req st) ++ [h])
                 | None => c_req st
                 end in
      let resp := if c_https st then Err E_TLS else net (c_host st) req in
      let here := (c_https st, c_host st, req) in
      match resp with
      | Ok r =>
        if c_follow st && is_redirect (s_status r) then
          match hget (HKnown H_Location) (s_headers r) with
          | None => (Err E_NoLocation, [here])
          | Some l =>
            if starts_with_slash l then
              let '(p, q) := split_or QMARK l in
              let '(res, tr) := send fuel' {| c_https := c_https st; c_host := c_host st; c_req := with_target req p q;
                                             c_follow := c_follow st; c_cookies := c_cookies st |} in
              (res, here :: tr)
            else
              match parse_url l with
              | None => (Err E_InvalidURL, [here])
              | Some u =>
                let '(res, tr) := send fuel' {| c_https := u_https u; c_host := u_host u;
                                               c_req := request_for (r_method req) u (r_content req);
                                               c_follow := c_follow st; c_cookies := c_cookies st |} in
                (res, here :: tr)
              end
          end
        else (Ok r, [here])
      | other => (other, [here])
      end
    end.
End Client.
