(* Model of humphrey-ws/src/util/base64.rs (C18): Base64Encode::encode and Base64Decode::decode as they are after
   the repair of F28, plus the decoder as it was at the pinned commit (only to state the refutation).
   Bytes and symbols are N (each < 256); a Rust String/&str is the list of its UTF-8 bytes (the code only ever looks
   at `as_bytes()`). u8 arithmetic is written out (`<<` on u8 drops the bits shifted out of the byte).
   Panic sites: indexing ALPHABET (Crash 1), the slice `to_be_bytes()[1..broken]` (Crash 2), `3 - i` on usize (Crash 3).
   Definitions only. *)
From Hv Require Import Prelude.
Open Scope N_scope.

(* const ALPHABET: [u8; 64] = *b"ABCDEFGHIJKLMNOPQRSTUVWXYZabcdefghijklmnopqrstuvwxyz0123456789+/";
   (tools/props/c18_b64.py compares this list with the literal in the Rust source on every run) *)
Definition ALPHABET : list N :=
  [65;66;67;68;69;70;71;72;73;74;75;76;77;78;79;80;81;82;83;84;85;86;87;88;89;90;
   97;98;99;100;101;102;103;104;105;106;107;108;109;110;111;112;113;114;115;116;117;118;119;120;121;122;
   48;49;50;51;52;53;54;55;56;57;43;47].

Definition pad_sym : N := 61.   (* '=' *)

(* ALPHABET[i as usize] *)
Definition alpha (i : N) : outcome N :=
  match nth_error ALPHABET (N.to_nat i) with
  | Some c => Ok c
  | None => Crash 1
  end.

(* u8 operators *)
Definition shr8 (x k : N) : N := N.shiftr x k.
Definition shl8 (x k : N) : N := N.land (N.shiftl x k) 255.
Definition and8 (x y : N) : N := N.land x y.
Definition or8 (x y : N) : N := N.lor x y.

(* result.push(ALPHABET[..] as char) four times; an index out of range panics before anything is returned *)
Definition push4 (i0 i1 i2 i3 : outcome N) (rest : outcome (list N)) : outcome (list N) :=
  obind i0 (fun c0 => obind i1 (fun c1 => obind i2 (fun c2 => obind i3 (fun c3 =>
  obind rest (fun r => Ok (c0 :: c1 :: c2 :: c3 :: r)))))).

(* for group_index in 0..bytes.len() / 3 { group = &bytes[group_index*3 .. group_index*3+3]; ... }
   then `remaining = len % 3; group = &bytes[len - remaining ..]` *)
Fixpoint encode (bytes : list N) : outcome (list N) :=
  match bytes with
  | g0 :: g1 :: g2 :: rest =>
      push4 (alpha (shr8 g0 2))
            (alpha (or8 (shl8 (and8 g0 3) 4) (shr8 g1 4)))
            (alpha (or8 (shl8 (and8 g1 15) 2) (shr8 g2 6)))
            (alpha (and8 g2 63))               (* group[2] as usize & 0x3f *)
            (encode rest)
  | [g0] =>                                     (* remaining == 1 *)
      push4 (alpha (shr8 g0 2)) (alpha (shl8 (and8 g0 3) 4)) (Ok pad_sym) (Ok pad_sym) (Ok [])
  | [g0; g1] =>                                 (* remaining == 2 *)
      push4 (alpha (shr8 g0 2)) (alpha (or8 (shl8 (and8 g0 3) 4) (shr8 g1 4)))
            (alpha (shl8 (and8 g1 15) 2)) (Ok pad_sym) (Ok [])
  | [] => Ok []
  end.

(* ---------------- decode ---------------- *)

(* the arms of `match tem` *)
Inductive symclass : Type :=
| SVal (v : N)     (* 'A'..='Z' | 'a'..='z' | '0'..='9' | '+' | '/' with its 6-bit value *)
| SPad             (* '=' *)
| SBad.            (* _ => return Err(()) *)

Definition classify (c : N) : symclass :=
  if (65 <=? c) && (c <=? 90) then SVal (c - 65)
  else if (97 <=? c) && (c <=? 122) then SVal (c - 97 + 26)
  else if (48 <=? c) && (c <=? 57) then SVal (c - 48 + 52)
  else if c =? 43 then SVal 62
  else if c =? 47 then SVal 63
  else if c =? 61 then SPad
  else SBad.

(* input.as_bytes().chunks(4) *)
Fixpoint chunks4 (l : list N) : list (list N) :=
  match l with
  | a :: b :: c :: d :: r => [a; b; c; d] :: chunks4 r
  | [] => []
  | _ => [l]
  end.

(* group[i..].iter().any(|&symbol| symbol != b'=')  — `g` is already group[i..] *)
Definition any_not_pad (g : list N) : bool := existsb (fun c => negb (c =? pad_sym)) g.

(* the inner `for (i, tem) in group.iter().enumerate()`; result = (decoded, broken).
   `last` is `group_index + 1 == group_count`. *)
Fixpoint dec_group (last : bool) (i : N) (g : list N) (decoded : N) : outcome (N * N) :=
  match g with
  | [] => Ok (decoded, 4)
  | c :: r =>
    match classify c with
    | SVal v =>
        if 3 <? i then Crash 3                                   (* 3 - i underflows *)
        else dec_group last (i + 1) r (N.lor decoded (N.shiftl v (6 * (3 - i))))
    | SPad =>
        if negb last || (i <? 2) || any_not_pad g then Err 0
        else Ok (decoded, i)                                     (* broken = i; break *)
    | SBad => Err 0
    end
  end.

(* u32::to_be_bytes *)
Definition be_bytes32 (d : N) : list N :=
  [(d / 2 ^ 24) mod 256; (d / 2 ^ 16) mod 256; (d / 2 ^ 8) mod 256; d mod 256].

(* &x[a..b] *)
Definition slice (l : list N) (a b : N) : outcome (list N) :=
  if (b <? a) || (N.of_nat (length l) <? b) then Crash 2
  else Ok (firstn (N.to_nat (b - a)) (skipn (N.to_nat a) l)).

Fixpoint dec_groups (count idx : N) (gs : list (list N)) : outcome (list N) :=
  match gs with
  | [] => Ok []
  | g :: rest =>
    obind (dec_group (idx + 1 =? count) 0 g 0) (fun db =>
    obind (slice (be_bytes32 (fst db)) 1 (snd db)) (fun bs =>     (* result.extend_from_slice(..) *)
    obind (dec_groups count (idx + 1) rest) (fun r => Ok (bs ++ r))))
  end.

Definition decode (s : list N) : outcome (list N) :=
  let len := N.of_nat (length s) in
  if negb (len mod 4 =? 0) then Err 0
  else dec_groups (len / 4) 0 (chunks4 s).

(* ---------------- the decoder at the pinned commit (before fix F28) ---------------- *)
Inductive symclass_old : Type :=
| OVal (v : N)      (* letters and digits: shifted by 6 * (3 - i) *)
| OHigh (v : N)     (* '+' and '/': shifted by 6 * i *)
| OPad
| OBad.

Definition classify_old (c : N) : symclass_old :=
  if (65 <=? c) && (c <=? 90) then OVal (c - 65)
  else if (97 <=? c) && (c <=? 122) then OVal (c - 97 + 26)
  else if (48 <=? c) && (c <=? 57) then OVal (c - 48 + 52)
  else if c =? 43 then OHigh 62
  else if c =? 47 then OHigh 63
  else if c =? 61 then OPad
  else OBad.

Fixpoint dec_group_old (i : N) (g : list N) (decoded : N) : outcome (N * N) :=
  match g with
  | [] => Ok (decoded, 4)
  | c :: r =>
    match classify_old c with
    | OVal v => if 3 <? i then Crash 3
                else dec_group_old (i + 1) r (N.lor decoded (N.shiftl v (6 * (3 - i))))
    | OHigh v => dec_group_old (i + 1) r (N.lor decoded (N.shiftl v (6 * i)))
    | OPad => Ok (decoded, i)
    | OBad => Err 0
    end
  end.

Fixpoint dec_groups_old (gs : list (list N)) : outcome (list N) :=
  match gs with
  | [] => Ok []
  | g :: rest =>
    obind (dec_group_old 0 g 0) (fun db =>
    obind (slice (be_bytes32 (fst db)) 1 (snd db)) (fun bs =>
    obind (dec_groups_old rest) (fun r => Ok (bs ++ r))))
  end.

Definition decode_old (s : list N) : outcome (list N) := dec_groups_old (chunks4 s).
