(* The wording of C05 as corollaries of wildcard_match_spec: `*` matches any character sequence, everything else matches
   only itself. *)
From Coq Require Import Lia.
From Hv Require Import Prelude Krauss KraussProofs.
Open Scope N_scope.

Lemma glob_all t : Glob [star] t.
Proof. rewrite <- (app_nil_r t). constructor. constructor. Qed.

(* a pattern without `*` matches exactly itself *)
Theorem literal_matches_only_itself w t : starfree w -> (wildcard_match w t = true <-> t = w).
Proof.
  intro Hw. rewrite wildcard_match_spec. rewrite <- (app_nil_r w) at 1. rewrite (glob_lit w [] t Hw). split.
  - intros (t' & -> & H). apply glob_nil_inv in H. subst. now rewrite app_nil_r.
  - intros ->. exists []. split; [now rewrite app_nil_r|constructor].
Qed.

(* `*` alone matches every text, the empty one included *)
Theorem star_matches_everything t : wildcard_match [star] t = true.
Proof. apply wildcard_match_spec, glob_all. Qed.

(* literal prefix then `*`: exactly the texts that start with the prefix *)
Theorem prefix_pattern l t : starfree l -> (wildcard_match (l ++ [star]) t = true <-> exists s, t = l ++ s).
Proof.
  intro Hl. rewrite wildcard_match_spec, (glob_lit l [star] t Hl). split.
  - intros (s & -> & _). eauto.
  - intros (s & ->). exists s. split; [reflexivity|apply glob_all].
Qed.

(* `*` then a literal suffix: exactly the texts that end with the suffix *)
Theorem suffix_pattern l t : starfree l -> (wildcard_match (star :: l) t = true <-> exists s, t = s ++ l).
Proof.
  intro Hl. rewrite wildcard_match_spec, glob_star_inv. split.
  - intros (u & t' & -> & H). rewrite <- (app_nil_r l) in H. apply (glob_lit l [] t' Hl) in H as (t'' & -> & H).
    apply glob_nil_inv in H. subst. rewrite app_nil_r. eauto.
  - intros (s & ->). exists s, l. split; [reflexivity|].
    rewrite <- (app_nil_r l) at 1. apply (glob_lit l [] l Hl). exists []. split; [now rewrite app_nil_r|constructor].
Qed.

(* literal, `*`, literal: a prefix, anything, a suffix - and the two may not overlap *)
Theorem infix_pattern a b t : starfree a -> starfree b ->
  (wildcard_match (a ++ star :: b) t = true <-> exists m, t = a ++ m ++ b).
Proof.
  intros Ha Hb. rewrite wildcard_match_spec, (glob_lit a (star :: b) t Ha). split.
  - intros (t' & -> & H). apply wildcard_match_spec in H. apply (suffix_pattern b t' Hb) in H as (m & ->). eauto.
  - intros (m & ->). exists (m ++ b). split; [reflexivity|]. apply wildcard_match_spec, (suffix_pattern b _ Hb). eauto.
Qed.

(* adjacent wildcards are one wildcard *)
Theorem adjacent_stars p t : wildcard_match (star :: star :: p) t = wildcard_match (star :: p) t.
Proof.
  apply Bool.eq_true_iff_eq. rewrite !wildcard_match_spec. split.
  - intro H. apply glob_star_inv in H as (u & t' & -> & H). now apply glob_star_suffix.
  - intro H. now apply glob_star_nil.
Qed.

(* a `*` in the TEXT is an ordinary character *)
Theorem star_in_text_is_literal : wildcard_match [97; star; 98] [97; star; star; 98] = true /\
                                  wildcard_match [97; 98] [97; star; 98] = false.
Proof. vm_compute. split; reflexivity. Qed.

(* Compositionality: a concatenated pattern matches exactly the concatenations of texts its parts match
   (arbitrary patterns: any number and placement of `*` in either part). *)
Lemma glob_app p t q u : Glob p t -> Glob q u -> Glob (p ++ q) (t ++ u).
Proof.
  intros Hp Hq. induction Hp as [|p0 u0 t0 _ IH|c p0 t0 Hc _ IH]; cbn [app].
  - exact Hq.
  - rewrite <- app_assoc. now constructor.
  - now constructor.
Qed.

Lemma glob_split p q : forall t, Glob (p ++ q) t -> exists t1 t2, t = t1 ++ t2 /\ Glob p t1 /\ Glob q t2.
Proof.
  induction p as [|c p IH]; cbn [app]; intros t H.
  - exists [], t. repeat split; [constructor | exact H].
  - inversion H as [|p0 u0 t0 H0|c0 p0 t0 Hc H0]; subst.
    + destruct (IH _ H0) as (a & b & -> & Ha & Hb).
      exists (u0 ++ a), b. rewrite app_assoc. repeat split; [now constructor | exact Hb].
    + destruct (IH _ H0) as (a & b & -> & Ha & Hb).
      exists (c :: a), b. repeat split; [now constructor | exact Hb].
Qed.

Theorem concat_pattern p q t :
  wildcard_match (p ++ q) t = true <->
  exists t1 t2, t = t1 ++ t2 /\ wildcard_match p t1 = true /\ wildcard_match q t2 = true.
Proof.
  rewrite wildcard_match_spec. split.
  - intro H. destruct (glob_split _ _ _ H) as (a & b & -> & Ha & Hb).
    exists a, b. now rewrite !wildcard_match_spec.
  - intros (a & b & -> & Ha & Hb). rewrite wildcard_match_spec in Ha, Hb. now apply glob_app.
Qed.

(* Generalising a pattern never loses a match: replacing any one pattern character by `*` keeps every text matched. *)
Lemma glob_head_to_star c b t : Glob (c :: b) t -> Glob (star :: b) t.
Proof.
  intro H. inversion H as [|p0 u0 t0 H0|c0 p0 t0 Hc H0]; subst.
  - now constructor.
  - change (c :: t0) with ([c] ++ t0). now constructor.
Qed.

Theorem widen_to_star a c b t :
  wildcard_match (a ++ c :: b) t = true -> wildcard_match (a ++ star :: b) t = true.
Proof.
  rewrite !concat_pattern. intros (t1 & t2 & -> & H1 & H2). exists t1, t2. repeat split; [exact H1|].
  rewrite wildcard_match_spec in *. now apply glob_head_to_star with c.
Qed.

(* every non-`*` pattern character consumes one text character: a match is at least as long as the literal part *)
Definition literals (p : list N) : list N := filter (fun c => negb (N.eqb c star)) p.

Lemma glob_literals_le p t : Glob p t -> (length (literals p) <= length t)%nat.
Proof.
  intro H. induction H as [|p u t _ IH|c p t Hc _ IH]; unfold literals in *; cbn [filter length].
  - lia.
  - rewrite N.eqb_refl. cbn [negb]. rewrite app_length. lia.
  - destruct (N.eqb_spec c star) as [E|_]; [contradiction|]. cbn [negb length]. lia.
Qed.

Theorem match_at_least_literals p t :
  wildcard_match p t = true -> (length (literals p) <= length t)%nat.
Proof. rewrite wildcard_match_spec. apply glob_literals_le. Qed.
