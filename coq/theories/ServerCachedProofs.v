(* The file cache in front of the server model. A sequence of requests that the (cache-free) server model answers from
   static routes is pushed through the handler-level cache model of C16 (Cache.handle / hrun: lookup by (path, host index),
   store on a miss) with an unchanging file tree: every response served this way - hit or miss, after evictions and
   expiries, for every cache size, time limit and clock - carries exactly the body and content type the cache-free server
   gives to that very request. Composition of C16_cache_transparent with the fact that the server's answer is a function
   of the cache key (ServerCacheKeyProofs.v). *)
From Coq Require Import Lia.
From Hv Require Import Prelude Bytes BytesProofs TablesHttp TablesConfig Http Krauss Routing RoutingProofs
  Blacklist StaticFs Config Server ServerProofs ServerCacheKeyProofs Cache CacheProofs CacheTransparencyProofs.
Open Scope N_scope.

Section Cached.
  Variable ipp : bytes -> option bytes.
  Variable fs : StaticFs.node.
  Variable c : config.
  Variable enc : option bytes -> N.          (* how a Content-Type is represented in the cache entry (MimeType) *)

  (* one request as the cache sees it: only requests that reach a static handler and are answered 200 *)
  Record sreq := { sq_peer : peer; sq_req : request; sq_now : N }.

  Definition routed (s : sreq) : option choice :=
    get_handler (map subapp_of (cf_hosts c)) (subapp_of (cf_default_host c))
                (option_map scalars (hget (HKnown H_Host) (r_headers (sq_req s)))) (scalars (r_uri (sq_req s))).

  Definition cacheable (s : sreq) (ch : choice) (body : bytes) (ct : option bytes) : Prop :=
    is_upgrade (sq_req s) = false /\
    Blacklist.serve ipp (cf_bl_mode c =? BLOCK_MODE) (cf_bl_list c) (sq_peer s) (r_headers (sq_req s)) = Served /\
    routed s = Some ch /\
    server_response ipp fs c (sq_peer s) (sq_req s) = SStatic (R200 body ct).

  (* the request the handlers put to the cache: key (path, host index), the file's current contents and type *)
  Definition to_q (s : sreq) (ch : choice) (body : bytes) (ct : option bytes) : Cache.req :=
    mkReq (r_uri (sq_req s)) (N.of_nat (fst (handler_ids ch))) body (enc ct) (sq_now s).

  (* a run: requests with their (cache-free) answers *)
  Definition entry : Type := (sreq * choice * bytes * option bytes)%type.
  Definition entry_ok (e : entry) : Prop := let '(s, ch, body, ct) := e in cacheable s ch body ct.
  Definition entry_q (e : entry) : Cache.req := let '(s, ch, body, ct) := e in to_q s ch body ct.

  Definition same_key (r : list N) (h : N) (e : entry) : bool :=
    let '(s, ch, _, _) := e in beq (r_uri (sq_req s)) r && (N.of_nat (fst (handler_ids ch)) =? h).

  (* what the tree holds for a key, read off the run itself *)
  Definition F_of (es : list entry) (r : list N) (h : N) : bytes * N :=
    match find (same_key r h) es with
    | Some (_, _, body, ct) => (body, enc ct)
    | None => ([], 0)
    end.

  Lemma same_key_answer e1 e2 :
    entry_ok e1 -> entry_ok e2 ->
    same_key (q_route (entry_q e2)) (q_host (entry_q e2)) e1 = true ->
    (let '(_, _, b1, ct1) := e1 in (b1, ct1)) = (let '(_, _, b2, ct2) := e2 in (b2, ct2)).
  Proof.
    destruct e1 as [[[s1 ch1] b1] ct1], e2 as [[[s2 ch2] b2] ct2].
    intros (U1 & V1 & G1 & R1) (U2 & V2 & G2 & R2) K. cbn [entry_q to_q q_route q_host same_key] in K.
    apply andb_true_iff in K as [Ku Kh]. apply BytesProofs.beq_eq in Ku. apply N.eqb_eq in Kh. apply Nat2N.inj in Kh.
    pose proof (server_answer_function_of_cache_key ipp fs c (sq_peer s1) (sq_peer s2) (sq_req s1) (sq_req s2) ch1 ch2
                  U1 U2 V1 V2 G1 G2 Ku Kh) as E.
    rewrite R1, R2 in E. now injection E as -> ->.
  Qed.

  Lemma honest_of_run es : Forall entry_ok es -> Forall (honest (F_of es)) (map entry_q es).
  Proof.
    intro Hok. apply Forall_forall. intros q Hq. apply in_map_iff in Hq as (e2 & <- & Hin).
    assert (Ok2 : entry_ok e2) by (exact (proj1 (Forall_forall _ _) Hok e2 Hin)).
    unfold honest, F_of.
    destruct (find (same_key (q_route (entry_q e2)) (q_host (entry_q e2))) es) as [e1|] eqn:Fd.
    - apply find_some in Fd as [Hin1 K].
      assert (Ok1 : entry_ok e1) by (exact (proj1 (Forall_forall _ _) Hok e1 Hin1)).
      pose proof (same_key_answer e1 e2 Ok1 Ok2 K) as E.
      destruct e1 as [[[s1 ch1] b1] ct1], e2 as [[[s2 ch2] b2] ct2]. injection E as -> ->. reflexivity.
    - exfalso. pose proof (find_none _ _ Fd e2 Hin) as Hn. destruct e2 as [[[s2 ch2] b2] ct2].
      cbn [entry_q to_q q_route q_host same_key] in Hn. rewrite BytesProofs.beq_refl, N.eqb_refl in Hn. discriminate.
  Qed.

  Lemma glue (F : list N -> N -> bytes * N) : forall (es : list entry) ps,
    Forall entry_ok es -> Forall (honest F) (map entry_q es) ->
    Forall2 (fun q p => (p_body p, p_mime p) = F (q_route q) (q_host q)) (map entry_q es) ps ->
    Forall2 (fun (e : entry) (p : Cache.resp) =>
               let '(s, _, _, _) := e in
               exists ct, server_response ipp fs c (sq_peer s) (sq_req s) = SStatic (R200 (p_body p) ct) /\ p_mime p = enc ct)
            es ps.
  Proof.
    induction es as [|e es IH]; intros ps Hok Hh T; cbn [map] in *.
    - inversion T. constructor.
    - inversion T as [|q p qs ps' Hp T']; subst. inversion Hok as [|? ? Ok1 Ok2]; subst. inversion Hh as [|? ? Hh1 Hh2]; subst.
      constructor; [|now apply IH].
      unfold honest in Hh1. rewrite <- Hh1 in Hp.
      destruct e as [[[s ch] body] ct]. cbn [entry_q to_q q_fs q_mime] in Hp. injection Hp as Hb Hm.
      destruct Ok1 as (_ & _ & _ & R). exists ct. rewrite Hb. split; [exact R|exact Hm].
  Qed.

  (* the composition *)
  Theorem server_cache_transparent (es : list entry) lim tl ps c' :
    Forall entry_ok es ->
    hrun (empty lim tl) (map entry_q es) = (ps, Ok c') ->
    Forall2 (fun (e : entry) (p : Cache.resp) =>
               let '(s, _, _, _) := e in
               exists ct, server_response ipp fs c (sq_peer s) (sq_req s) = SStatic (R200 (p_body p) ct) /\ p_mime p = enc ct)
            es ps.
  Proof.
    intros Hok H.
    pose proof (honest_of_run es Hok) as Hh.
    pose proof (hrun_transparent_from_empty (F_of es) lim tl _ ps c' Hh H) as T.
    exact (glue (F_of es) es ps Hok Hh T).
  Qed.
End Cached.
