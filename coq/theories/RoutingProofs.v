From Coq Require Import Lia.
From Hv Require Import Prelude Krauss KraussProofs Routing.
Open Scope N_scope.

(* first index i with P (nth i), relative to an offset *)
Lemma find_index_some {A} (f : A -> bool) : forall l k i x,
  find_index f l k = Some (i, x) ->
  (k <= i)%nat /\ nth_error l (i - k) = Some x /\ f x = true /\
  forall j y, (j < i - k)%nat -> nth_error l j = Some y -> f y = false.
Proof.
  induction l as [|a l IH]; intros k i x H; cbn [find_index] in H; [discriminate|].
  destruct (f a) eqn:E.
  - injection H as <- <-. rewrite Nat.sub_diag. split; [lia|]. split; [reflexivity|]. split; [assumption|]. intros; lia.
  - apply IH in H as (Hk & Hn & Hf & Hmin). split; [lia|]. split; [|split; [assumption|]].
    + replace (i - k)%nat with (S (i - S k)) by lia. exact Hn.
    + intros j y Hj Hy. destruct j as [|j']; [cbn in Hy; now injection Hy as <-|].
      apply (Hmin j' y); [lia|exact Hy].
Qed.

Lemma find_index_none {A} (f : A -> bool) : forall l k,
  find_index f l k = None -> forall j y, nth_error l j = Some y -> f y = false.
Proof.
  induction l as [|a l IH]; intros k H j y Hy; [destruct j; discriminate|].
  cbn [find_index] in H. destruct (f a) eqn:E; [discriminate|].
  destruct j as [|j']; [cbn in Hy; now injection Hy as <-|]. eapply IH; eassumption.
Qed.

Lemma find_index_complete {A} (f : A -> bool) : forall l k,
  (forall j y, nth_error l j = Some y -> f y = false) -> find_index f l k = None.
Proof.
  induction l as [|a l IH]; intros k H; [reflexivity|]. cbn [find_index].
  rewrite (H 0%nat a eq_refl). apply IH. intros j y Hy. apply (H (S j) y Hy).
Qed.

Definition matches (pat s : list N) : Prop := Glob pat s.

Definition first_match (pats : list (list N)) (s : list N) (j : nat) : Prop :=
  (exists p, nth_error pats j = Some p /\ Glob p s) /\
  forall j' p', (j' < j)%nat -> nth_error pats j' = Some p' -> ~ Glob p' s.
Definition no_match (pats : list (list N)) (s : list N) : Prop :=
  forall j p, nth_error pats j = Some p -> ~ Glob p s.

Lemma wm_false_iff p s : wildcard_match p s = false <-> ~ Glob p s.
Proof. rewrite <- wildcard_match_spec. destruct (wildcard_match p s); split; congruence. Qed.

Lemma find_route_spec pats s :
  match find_index (fun r => wildcard_match r s) pats 0 with
  | Some (j, _) => first_match pats s j
  | None => no_match pats s
  end.
Proof.
  destruct (find_index _ pats 0) as [[j p]|] eqn:E.
  - apply find_index_some in E as (_ & Hn & Hf & Hmin). rewrite Nat.sub_0_r in *. split.
    + exists p. split; [assumption|]. now apply wildcard_match_spec.
    + intros j' p' Hj Hp. apply wm_false_iff. now apply (Hmin j' p').
  - intros j p Hp. apply wm_false_iff. eapply (find_index_none _ _ _ E); eassumption.
Qed.

Definition first_host (subapps : list subapp) (h : list N) (i : nat) (s : subapp) : Prop :=
  nth_error subapps i = Some s /\ Glob (sa_host s) h /\
  forall i' s', (i' < i)%nat -> nth_error subapps i' = Some s' -> ~ Glob (sa_host s') h.
Definition no_host (subapps : list subapp) (h : list N) : Prop :=
  forall i s, nth_error subapps i = Some s -> ~ Glob (sa_host s) h.

Lemma find_host_spec subapps h :
  match find_index (fun s => wildcard_match (sa_host s) h) subapps 0 with
  | Some (i, s) => first_host subapps h i s
  | None => no_host subapps h
  end.
Proof.
  destruct (find_index _ subapps 0) as [[i s]|] eqn:E.
  - apply find_index_some in E as (_ & Hn & Hf & Hmin). rewrite Nat.sub_0_r in *. split; [|split].
    + assumption.
    + now apply wildcard_match_spec.
    + intros i' s' Hi Hs. apply wm_false_iff. now apply (Hmin i' s').
  - intros i s Hs. apply wm_false_iff. eapply (find_index_none _ _ _ E); eassumption.
Qed.

(* The declarative routing rule *)
Inductive Routes (subapps : list subapp) (default : subapp) (host : option (list N)) (uri : list N) : option choice -> Prop :=
| R_sub : forall h i s j, host = Some h -> first_host subapps h i s -> first_match (sa_routes s) uri j ->
    Routes subapps default host uri (Some (InSub i j))
| R_default : forall j,
    (host = None \/ (exists h, host = Some h /\ no_host subapps h) \/
     (exists h i s, host = Some h /\ first_host subapps h i s /\ no_match (sa_routes s) uri)) ->
    first_match (sa_routes default) uri j ->
    Routes subapps default host uri (Some (InDefault j))
| R_404 :
    (host = None \/ (exists h, host = Some h /\ no_host subapps h) \/
     (exists h i s, host = Some h /\ first_host subapps h i s /\ no_match (sa_routes s) uri)) ->
    no_match (sa_routes default) uri ->
    Routes subapps default host uri None.

Theorem get_handler_spec subapps default host uri :
  Routes subapps default host uri (get_handler subapps default host uri).
Proof.
  unfold get_handler.
  pose proof (find_route_spec (sa_routes default) uri) as HD.
  assert (FD : forall (why : host = None \/ (exists h, host = Some h /\ no_host subapps h) \/
     (exists h i s, host = Some h /\ first_host subapps h i s /\ no_match (sa_routes s) uri)),
     Routes subapps default host uri
       match find_index (fun r => wildcard_match r uri) (sa_routes default) 0 with
       | Some (j, _) => Some (InDefault j) | None => None end).
  { intro why. destruct (find_index _ (sa_routes default) 0) as [[j p]|]; [now apply R_default|now apply R_404]. }
  destruct host as [h|]; [|apply FD; now left].
  pose proof (find_host_spec subapps h) as HH.
  destruct (find_index _ subapps 0) as [[i s]|]; [|apply FD; right; left; eauto].
  pose proof (find_route_spec (sa_routes s) uri) as HR.
  destruct (find_index _ (sa_routes s) 0) as [[j p]|].
  - eapply R_sub; eauto.
  - apply FD. right. right. exists h, i, s. auto.
Qed.

(* the rule determines the outcome uniquely: routing is a function of (host value, path, registration order) *)
Lemma first_match_unique pats s j1 j2 : first_match pats s j1 -> first_match pats s j2 -> j1 = j2.
Proof.
  intros [(p1 & H1 & G1) M1] [(p2 & H2 & G2) M2].
  destruct (Nat.lt_trichotomy j1 j2) as [L|[E|L]]; [|assumption|].
  - exfalso. apply (M2 j1 p1 L H1 G1).
  - exfalso. apply (M1 j2 p2 L H2 G2).
Qed.

Lemma first_host_unique subapps h i1 s1 i2 s2 :
  first_host subapps h i1 s1 -> first_host subapps h i2 s2 -> i1 = i2 /\ s1 = s2.
Proof.
  intros (H1 & G1 & M1) (H2 & G2 & M2).
  destruct (Nat.lt_trichotomy i1 i2) as [L|[E|L]].
  - exfalso. apply (M2 i1 s1 L H1 G1).
  - subst. split; [reflexivity|congruence].
  - exfalso. apply (M1 i2 s2 L H2 G2).
Qed.

Theorem routes_deterministic subapps default host uri c1 c2 :
  Routes subapps default host uri c1 -> Routes subapps default host uri c2 -> c1 = c2.
Proof.
  assert (X : forall h i s j,
    host = Some h -> first_host subapps h i s -> first_match (sa_routes s) uri j ->
    (host = None \/ (exists h, host = Some h /\ no_host subapps h) \/
     (exists h i s, host = Some h /\ first_host subapps h i s /\ no_match (sa_routes s) uri)) -> False).
  { intros h i s j Hh FH FM [Hn|[(h' & Hh' & NH)|(h' & i' & s' & Hh' & FH' & NM)]].
    - congruence.
    - assert (h' = h) by congruence. subst h'. destruct FH as (Hs & G & _). exact (NH i s Hs G).
    - assert (h' = h) by congruence. subst h'. destruct (first_host_unique _ _ _ _ _ _ FH FH') as [-> ->].
      destruct FM as [(p & Hp & G) _]. exact (NM j p Hp G). }
  intros H1 H2. destruct H1 as [h i s j Hh FH FM | j W FM | W NM], H2 as [h' i' s' j' Hh' FH' FM' | j' W' FM' | W' NM'].
  - assert (h' = h) by congruence. subst h'. destruct (first_host_unique _ _ _ _ _ _ FH FH') as [-> ->].
    now rewrite (first_match_unique _ _ _ _ FM FM').
  - exfalso. eapply X; eauto.
  - exfalso. eapply X; eauto.
  - exfalso. eapply X; eauto.
  - now rewrite (first_match_unique _ _ _ _ FM FM').
  - exfalso. destruct FM as [(p & Hp & G) _]. exact (NM' j p Hp G).
  - exfalso. eapply X; eauto.
  - exfalso. destruct FM' as [(p & Hp & G) _]. exact (NM j' p Hp G).
  - reflexivity.
Qed.

(* WebSocket upgrade requests are dispatched by the same rule over the WebSocket routes; ordinary requests never see
   the WebSocket routes and vice versa *)
Theorem dispatch_request_spec subapps default (upgrade : bool) host uri :
  if upgrade
  then Routes (map ws_view subapps) (ws_view default) host uri (dispatch_request subapps default true host uri)
  else Routes (map http_view subapps) (http_view default) host uri (dispatch_request subapps default false host uri).
Proof. destruct upgrade; unfold dispatch_request; apply get_handler_spec. Qed.

Theorem dispatch_request_tables_independent subapps subapps' default default' host uri :
  map ws_view subapps = map ws_view subapps' -> ws_view default = ws_view default' ->
  dispatch_request subapps default true host uri = dispatch_request subapps' default' true host uri.
Proof. intros H1 H2. unfold dispatch_request. rewrite H1, H2. reflexivity. Qed.
