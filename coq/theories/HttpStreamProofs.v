(* Segmentation independence: the code-shaped parsers over the BufReader model compute exactly what the flat parsers
   compute on the concatenation of the chunks, for every well-formed chunking (no empty read before EOF). *)
From Coq Require Import Lia Arith.
From Hv Require Import Prelude Bytes StreamBuf StreamBufProofs TablesHttp Http.
Open Scope N_scope.
Arguments N.eqb : simpl never.

Definition orel {A} (x : outcome (A * bufreader)) (y : outcome (A * bytes)) : Prop :=
  match x, y with
  | Ok (a, br), Ok (a', l) => a = a' /\ contents br = l /\ wf_chunks (inner br)
  | Err e, Err e' => e = e'
  | Crash w, Crash w' => w = w'
  | _, _ => False
  end.

Definition oval {A B} (x : outcome (A * B)) : outcome A :=
  match x with Ok (a, _) => Ok a | Err e => Err e | Crash w => Crash w end.

Lemma orel_oval {A} (x : outcome (A * bufreader)) (y : outcome (A * bytes)) : orel x y -> oval x = oval y.
Proof.
  destruct x as [[a br]|e|w], y as [[a' l]|e'|w']; cbn; try tauto.
  - now intros (-> & _).
  - now intros ->.
  - now intros ->.
Qed.

Ltac use_read_line br W :=
  let line := fresh "line" in let br1 := fresh "br1" in let Hr := fresh "Hr" in
  let Hs := fresh "Hs" in let W1 := fresh "W1" in
  destruct (read_line_spec br W) as (line & br1 & Hr & Hs & W1); rewrite Hr; rewrite <- Hs.

Lemma header_loop_refines : forall fuel br acc, wf_chunks (inner br) ->
  orel (header_loop_br fuel br acc) (header_loop_flat fuel (contents br) acc).
Proof.
  induction fuel as [|f IH]; intros br acc W; [reflexivity|].
  cbn [header_loop_br header_loop_flat]. use_read_line br W.
  destruct (negb (utf8_valid line)); [reflexivity|].
  destruct (beq line CRLF); [cbn; auto|].
  destruct (parse_header_line line); [|reflexivity]. now apply IH.
Qed.

Lemma rheader_loop_refines : forall fuel br acc, wf_chunks (inner br) ->
  orel (rheader_loop_br fuel br acc) (rheader_loop_flat fuel (contents br) acc).
Proof.
  induction fuel as [|f IH]; intros br acc W; [reflexivity|].
  cbn [rheader_loop_br rheader_loop_flat]. use_read_line br W.
  destruct (negb (utf8_valid line)); [reflexivity|].
  destruct (beq line CRLF); [cbn; auto|].
  destruct (parse_header_line line); [|reflexivity]. now apply IH.
Qed.

Lemma body_of_refines e hs br : wf_chunks (inner br) ->
  orel (body_of_br e hs br) (body_of_flat e hs (contents br)).
Proof.
  intro W. unfold body_of_br, body_of_flat.
  destruct (hget (HKnown H_ContentLength) hs); [|cbn; auto].
  destruct (parse_usize b) as [n|]; [|reflexivity].
  pose proof (read_exact_N_spec n br W) as H. unfold rx_ok in H.
  destruct (read_exact_flat_N n (contents br)) as [[d rest]|].
  - destruct H as (br' & -> & Hc & Hw). cbn. auto.
  - rewrite H. reflexivity.
Qed.

Theorem parse_request_br_refines ipp p first br : wf_chunks (inner br) ->
  orel (parse_request_br ipp p first br) (parse_request_flat ipp p (first :: contents br)).
Proof.
  intro W. unfold parse_request_br, parse_request_flat. use_read_line br W.
  destruct (parse_start_line (first :: line)) as [[[[m uri] query] version]|]; [|reflexivity].
  pose proof (header_loop_refines (S (length (contents br1))) br1 [] W1) as HL.
  destruct (header_loop_br _ br1 []) as [[hs br2]|e|w], (header_loop_flat _ (contents br1) []) as [[hs' l2]|e'|w'];
    cbn [orel] in HL; try tauto; try (subst; reflexivity).
  destruct HL as (<- & <- & W2).
  pose proof (body_of_refines E_Stream hs br2 W2) as HB.
  destruct (body_of_br _ hs br2) as [[c br3]|e|w], (body_of_flat _ hs (contents br2)) as [[c' l3]|e'|w'];
    cbn [orel] in HB; try tauto; try (subst; reflexivity).
  destruct HB as (<- & <- & W3). cbn. auto.
Qed.

Theorem parse_request_chunked_refines ipp p cs : wf_chunks cs ->
  orel (parse_request_chunked ipp p cs) (parse_request_flat ipp p (concat cs)).
Proof.
  intro W. unfold parse_request_chunked.
  destruct (read 1 cs) as [d cs'] eqn:R.
  destruct (read_wf 1 cs d cs' ltac:(lia) W R) as (W' & Hd & Hlen).
  rewrite (read_concat _ _ _ _ R).
  destruct d as [|b d0].
  - rewrite (Hd eq_refl) in R. cbn in R. injection R as <-. reflexivity.
  - destruct d0; [|cbn in Hlen; lia]. cbn [app].
    change (concat cs') with (contents (br_new cs')). now apply parse_request_br_refines.
Qed.

(* the parse result does not depend on how the bytes are split across reads *)
Corollary parse_request_segmentation_independent ipp p cs1 cs2 :
  wf_chunks cs1 -> wf_chunks cs2 -> concat cs1 = concat cs2 ->
  oval (parse_request_chunked ipp p cs1) = oval (parse_request_chunked ipp p cs2).
Proof.
  intros W1 W2 E.
  rewrite (orel_oval _ _ (parse_request_chunked_refines ipp p cs1 W1)).
  rewrite (orel_oval _ _ (parse_request_chunked_refines ipp p cs2 W2)). now rewrite E.
Qed.

(* ---- responses ---- *)
Lemma parse_chunk_refines br : wf_chunks (inner br) ->
  orel (parse_chunk_br br) (parse_chunk_flat (contents br)).
Proof.
  intro W. unfold parse_chunk_br, parse_chunk_flat. use_read_line br W.
  destruct (negb (utf8_valid line)); [reflexivity|].
  destruct (parse_usize_hex (trim_end line)) as [n|]; [|reflexivity].
  destruct (n =? 0).
  - pose proof (read_exact_spec 2 br1 W1) as H. unfold rx_ok in H.
    destruct (read_exact_flat 2 (contents br1)) as [[d rest]|].
    + destruct H as (br' & -> & Hc & Hw). cbn. auto.
    + rewrite H. reflexivity.
  - pose proof (read_exact_N_spec n br1 W1) as H. unfold rx_ok in H.
    destruct (read_exact_flat_N n (contents br1)) as [[d rest]|].
    + destruct H as (br2 & -> & <- & W2). cbn [app].
      pose proof (read_exact_spec 2 br2 W2) as H2. unfold rx_ok in H2.
      destruct (read_exact_flat 2 (contents br2)) as [[d2 rest2]|].
      * destruct H2 as (br3 & -> & Hc & Hw). cbn. auto.
      * rewrite H2. reflexivity.
    + rewrite H. reflexivity.
Qed.

Lemma chunk_loop_refines : forall fuel br acc, wf_chunks (inner br) ->
  orel (chunk_loop_br fuel br acc) (chunk_loop_flat fuel (contents br) acc).
Proof.
  induction fuel as [|f IH]; intros br acc W; [reflexivity|].
  cbn [chunk_loop_br chunk_loop_flat].
  pose proof (parse_chunk_refines br W) as H.
  destruct (parse_chunk_br br) as [[c br1]|e|w], (parse_chunk_flat (contents br)) as [[c' l1]|e'|w'];
    cbn [orel] in H; try tauto; try (subst; reflexivity).
  destruct H as (<- & <- & W1). destruct c as [d|]; [now apply IH|]. cbn. auto.
Qed.

Theorem parse_response_br_refines br : wf_chunks (inner br) ->
  orel (parse_response_br br) (parse_response_flat (contents br)).
Proof.
  intro W. unfold parse_response_br, parse_response_flat. use_read_line br W.
  destruct (parse_status_line line) as [[version status]|]; [|reflexivity].
  pose proof (rheader_loop_refines (S (length (contents br1))) br1 [] W1) as HL.
  destruct (rheader_loop_br _ br1 []) as [[hs br2]|e|w], (rheader_loop_flat _ (contents br1) []) as [[hs' l2]|e'|w'];
    cbn [orel] in HL; try tauto; try (subst; reflexivity).
  destruct HL as (<- & <- & W2).
  destruct (match hget (HKnown H_TransferEncoding) hs with Some te => beq te TE_chunked | None => false end).
  - pose proof (chunk_loop_refines (S (length (contents br2))) br2 [] W2) as HC.
    destruct (chunk_loop_br _ br2 []) as [[body br3]|e|w], (chunk_loop_flat _ (contents br2) []) as [[body' l3]|e'|w'];
      cbn [orel] in HC; try tauto; try (subst; reflexivity).
    destruct HC as (<- & <- & W3). cbn. auto.
  - destruct (hget (HKnown H_ContentLength) hs) as [cl|]; [|cbn; auto].
    destruct (parse_usize cl) as [n|]; [|reflexivity].
    pose proof (read_exact_N_spec n br2 W2) as H. unfold rx_ok in H.
    destruct (read_exact_flat_N n (contents br2)) as [[d rest]|].
    + destruct H as (br3 & -> & Hc & Hw). cbn. auto.
    + rewrite H. reflexivity.
Qed.

Theorem parse_response_chunked_refines cs : wf_chunks cs ->
  orel (parse_response_chunked cs) (parse_response_flat (concat cs)).
Proof. intro W. unfold parse_response_chunked. now apply parse_response_br_refines. Qed.

Corollary parse_response_segmentation_independent cs1 cs2 :
  wf_chunks cs1 -> wf_chunks cs2 -> concat cs1 = concat cs2 ->
  oval (parse_response_chunked cs1) = oval (parse_response_chunked cs2).
Proof.
  intros W1 W2 E.
  rewrite (orel_oval _ _ (parse_response_chunked_refines cs1 W1)).
  rewrite (orel_oval _ _ (parse_response_chunked_refines cs2 W2)). now rewrite E.
Qed.

(* ---- the flat parsers never run out of fuel and never crash; what they return is bounded by what was supplied ---- *)
Definition no_fuel_err {A} (x : outcome A) : Prop := x <> Err 99.

Lemma read_until_flat_length d l :
  (length (fst (read_until_flat d l)) + length (snd (read_until_flat d l)) = length l)%nat.
Proof.
  unfold read_until_flat. destruct (split_incl d l) as [[a b]|] eqn:E; cbn [fst snd].
  - apply split_incl_app in E. subst. now rewrite app_length.
  - cbn. lia.
Qed.

Lemma read_until_flat_progress d l : l <> [] -> (length (snd (read_until_flat d l)) < length l)%nat.
Proof.
  intro H. pose proof (read_until_flat_length d l) as E.
  assert (fst (read_until_flat d l) <> []).
  { unfold read_until_flat. destruct l as [|x l']; [congruence|]. cbn [split_incl].
    destruct (x =? d); [cbn; discriminate|]. destruct (split_incl d l') as [[a b]|]; cbn; discriminate. }
  destruct (fst (read_until_flat d l)); [congruence|]. cbn [length] in E. lia.
Qed.

Lemma read_until_flat_nil d : read_until_flat d [] = ([], []).
Proof. reflexivity. Qed.

Lemma header_loop_flat_fuel : forall fuel l acc, (length l < fuel)%nat -> no_fuel_err (header_loop_flat fuel l acc).
Proof.
  induction fuel as [|f IH]; intros l acc Hf; [lia|]. cbn [header_loop_flat].
  destruct (read_until_flat LF l) as [line rest] eqn:E.
  destruct (negb (utf8_valid line)); [discriminate|].
  destruct (beq line CRLF); [discriminate|].
  destruct (parse_header_line line) eqn:P; [|discriminate].
  apply IH. destruct l as [|x l'].
  - (* EOF: the empty line is not a header line *) exfalso. rewrite read_until_flat_nil in E. injection E as <- <-.
    cbn in P. discriminate.
  - pose proof (read_until_flat_progress LF (x :: l') ltac:(discriminate)) as Hp. rewrite E in Hp. cbn [snd] in Hp. lia.
Qed.

Lemma rheader_loop_flat_fuel : forall fuel l acc, (length l < fuel)%nat -> no_fuel_err (rheader_loop_flat fuel l acc).
Proof.
  induction fuel as [|f IH]; intros l acc Hf; [lia|]. cbn [rheader_loop_flat].
  destruct (read_until_flat LF l) as [line rest] eqn:E.
  destruct (negb (utf8_valid line)); [discriminate|].
  destruct (beq line CRLF); [discriminate|].
  destruct (parse_header_line line) eqn:P; [|discriminate].
  apply IH. destruct l as [|x l'].
  - exfalso. rewrite read_until_flat_nil in E. injection E as <- <-. cbn in P. discriminate.
  - pose proof (read_until_flat_progress LF (x :: l') ltac:(discriminate)) as Hp. rewrite E in Hp. cbn [snd] in Hp. lia.
Qed.

Lemma header_loop_flat_nocrash : forall fuel l acc, is_crash (header_loop_flat fuel l acc) = false.
Proof.
  induction fuel as [|f IH]; intros l acc; [reflexivity|]. cbn [header_loop_flat].
  destruct (read_until_flat LF l) as [ln rest]. destruct (negb (utf8_valid ln)); [reflexivity|].
  destruct (beq ln CRLF); [reflexivity|]. destruct (parse_header_line ln); [apply IH|reflexivity].
Qed.

Theorem parse_request_flat_total ipp p l : no_fuel_err (parse_request_flat ipp p l) /\ is_crash (parse_request_flat ipp p l) = false.
Proof.
  unfold parse_request_flat, no_fuel_err. destruct l as [|first l0]; [split; [discriminate|reflexivity]|].
  destruct (read_until_flat LF l0) as [line l1].
  destruct (parse_start_line (first :: line)) as [[[[m uri] query] version]|]; [|split; [discriminate|reflexivity]].
  pose proof (header_loop_flat_fuel (S (length l1)) l1 [] ltac:(lia)) as HF. unfold no_fuel_err in HF.
  pose proof (header_loop_flat_nocrash (S (length l1)) l1 []) as HC.
  destruct (header_loop_flat (S (length l1)) l1 []) as [[hs l2]|e|w]; [| split; [congruence|reflexivity] | discriminate].
  unfold body_of_flat. destruct (hget (HKnown H_ContentLength) hs); [|split; [discriminate|reflexivity]].
  destruct (parse_usize b); [|split; [discriminate|reflexivity]].
  destruct (read_exact_flat_N n l2) as [[d rest]|]; split; try discriminate; reflexivity.
Qed.

(* ---- allocation: a parsed body is made of bytes that were actually supplied ---- *)
Lemma read_exact_flat_N_length n l d rest : read_exact_flat_N n l = Some (d, rest) ->
  (length d + length rest = length l)%nat /\ N.of_nat (length d) = n.
Proof.
  unfold read_exact_flat_N, read_exact_flat. destruct (N.of_nat (length l) <? n) eqn:E; [discriminate|].
  apply N.ltb_ge in E. destruct (N.to_nat n <=? length l)%nat eqn:E2; [|discriminate].
  apply Nat.leb_le in E2. intros [= <- <-]. rewrite firstn_length, skipn_length. split; lia.
Qed.

Lemma read_exact_flat_length n l d rest : read_exact_flat n l = Some (d, rest) ->
  (length d + length rest = length l)%nat /\ length d = n.
Proof.
  unfold read_exact_flat. destruct (n <=? length l)%nat eqn:E2; [|discriminate].
  apply Nat.leb_le in E2. intros [= <- <-]. rewrite firstn_length, skipn_length. split; lia.
Qed.

Lemma header_loop_flat_rest : forall fuel l acc hs rest,
  header_loop_flat fuel l acc = Ok (hs, rest) -> (length rest <= length l)%nat.
Proof.
  induction fuel as [|f IH]; intros l acc hs rest H; [discriminate|]. cbn [header_loop_flat] in H.
  pose proof (read_until_flat_length LF l) as HL.
  destruct (read_until_flat LF l) as [line r1]. cbn [fst snd] in HL.
  destruct (negb (utf8_valid line)); [discriminate|].
  destruct (beq line CRLF); [injection H as <- <-; lia|].
  destruct (parse_header_line line); [|discriminate]. apply IH in H. lia.
Qed.

Lemma rheader_loop_flat_rest : forall fuel l acc hs rest,
  rheader_loop_flat fuel l acc = Ok (hs, rest) -> (length rest <= length l)%nat.
Proof.
  induction fuel as [|f IH]; intros l acc hs rest H; [discriminate|]. cbn [rheader_loop_flat] in H.
  pose proof (read_until_flat_length LF l) as HL.
  destruct (read_until_flat LF l) as [line r1]. cbn [fst snd] in HL.
  destruct (negb (utf8_valid line)); [discriminate|].
  destruct (beq line CRLF); [injection H as <- <-; lia|].
  destruct (parse_header_line line); [|discriminate]. apply IH in H. lia.
Qed.

(* a request body is never longer than the input: allocation follows the bytes supplied, not the claimed length *)
Theorem parse_request_flat_alloc ipp p l r rest : parse_request_flat ipp p l = Ok (r, rest) ->
  (length (match r_content r with Some d => d | None => [] end) + length rest <= length l)%nat.
Proof.
  unfold parse_request_flat. destruct l as [|first l0]; [discriminate|].
  pose proof (read_until_flat_length LF l0) as HL.
  destruct (read_until_flat LF l0) as [line l1]. cbn [fst snd] in HL.
  destruct (parse_start_line (first :: line)) as [[[[m uri] query] version]|]; [|discriminate].
  destruct (header_loop_flat (S (length l1)) l1 []) as [[hs l2]|e|w] eqn:EH; try discriminate.
  apply header_loop_flat_rest in EH.
  unfold body_of_flat. destruct (hget (HKnown H_ContentLength) hs).
  - destruct (parse_usize b); [|discriminate].
    destruct (read_exact_flat_N n l2) as [[d r3]|] eqn:ER; [|discriminate].
    apply read_exact_flat_N_length in ER. intros [= <- <-]. cbn [r_content length] in *. lia.
  - intros [= <- <-]. cbn [r_content length] in *. lia.
Qed.

(* ---- responses: totality ---- *)
Lemma parse_chunk_flat_progress l c l1 : parse_chunk_flat l = Ok (c, l1) ->
  (length l1 < length l)%nat /\ (length (match c with Some d => d | None => [] end) + length l1 <= length l)%nat.
Proof.
  unfold parse_chunk_flat. destruct l as [|x l'].
  - rewrite read_until_flat_nil. cbn. discriminate.
  - pose proof (read_until_flat_progress LF (x :: l') ltac:(discriminate)) as HP.
    destruct (read_until_flat LF (x :: l')) as [line r1]. cbn [snd] in HP.
    destruct (negb (utf8_valid line)); [discriminate|].
    destruct (parse_usize_hex (trim_end line)) as [n|]; [|discriminate].
    destruct (n =? 0).
    + destruct (read_exact_flat 2 r1) as [[d r2]|] eqn:E; [|discriminate].
      apply read_exact_flat_length in E. intros [= <- <-]. cbn [length] in *. lia.
    + destruct (read_exact_flat_N n r1) as [[d r2]|] eqn:E; [|discriminate].
      apply read_exact_flat_N_length in E.
      destruct (read_exact_flat 2 r2) as [[d2 r3]|] eqn:E2; [|discriminate].
      apply read_exact_flat_length in E2. intros [= <- <-]. cbn [length] in *. lia.
Qed.

Lemma chunk_loop_flat_fuel : forall fuel l acc, (length l < fuel)%nat ->
  no_fuel_err (chunk_loop_flat fuel l acc) /\ is_crash (chunk_loop_flat fuel l acc) = false.
Proof.
  induction fuel as [|f IH]; intros l acc Hf; [lia|]. cbn [chunk_loop_flat].
  destruct (parse_chunk_flat l) as [[c l1]|e|w] eqn:E.
  - apply parse_chunk_flat_progress in E. destruct c as [d|].
    + apply IH. lia.
    + split; [discriminate|reflexivity].
  - unfold parse_chunk_flat in E. destruct (read_until_flat LF l) as [line r1].
    destruct (negb (utf8_valid line)); [injection E as <-; split; [discriminate|reflexivity]|].
    destruct (parse_usize_hex (trim_end line)) as [n|]; [|injection E as <-; split; [discriminate|reflexivity]].
    destruct (n =? 0).
    + destruct (read_exact_flat 2 r1) as [[d r2]|]; [discriminate|]. injection E as <-. split; [discriminate|reflexivity].
    + destruct (read_exact_flat_N n r1) as [[d r2]|]; [|injection E as <-; split; [discriminate|reflexivity]].
      destruct (read_exact_flat 2 r2) as [[d2 r3]|]; [discriminate|]. injection E as <-. split; [discriminate|reflexivity].
  - exfalso. unfold parse_chunk_flat in E. destruct (read_until_flat LF l) as [line r1].
    destruct (negb (utf8_valid line)); [discriminate|].
    destruct (parse_usize_hex (trim_end line)) as [n|]; [|discriminate].
    destruct (n =? 0).
    + destruct (read_exact_flat 2 r1) as [[d r2]|]; discriminate.
    + destruct (read_exact_flat_N n r1) as [[d r2]|]; [|discriminate].
      destruct (read_exact_flat 2 r2) as [[d2 r3]|]; discriminate.
Qed.

Lemma rheader_loop_flat_nocrash : forall fuel l acc, is_crash (rheader_loop_flat fuel l acc) = false.
Proof.
  induction fuel as [|f IH]; intros l acc; [reflexivity|]. cbn [rheader_loop_flat].
  destruct (read_until_flat LF l) as [ln rest]. destruct (negb (utf8_valid ln)); [reflexivity|].
  destruct (beq ln CRLF); [reflexivity|]. destruct (parse_header_line ln); [apply IH|reflexivity].
Qed.

Theorem parse_response_flat_total l : no_fuel_err (parse_response_flat l) /\ is_crash (parse_response_flat l) = false.
Proof.
  unfold parse_response_flat, no_fuel_err.
  destruct (read_until_flat LF l) as [line l1].
  destruct (parse_status_line line) as [[version status]|]; [|split; [discriminate|reflexivity]].
  pose proof (rheader_loop_flat_fuel (S (length l1)) l1 [] ltac:(lia)) as HF. unfold no_fuel_err in HF.
  pose proof (rheader_loop_flat_nocrash (S (length l1)) l1 []) as HC.
  destruct (rheader_loop_flat (S (length l1)) l1 []) as [[hs l2]|e|w]; [| split; [congruence|reflexivity] | discriminate].
  destruct (match hget (HKnown H_TransferEncoding) hs with Some te => beq te TE_chunked | None => false end).
  - destruct (chunk_loop_flat_fuel (S (length l2)) l2 [] ltac:(lia)) as [H1 H2]. unfold no_fuel_err in H1.
    destruct (chunk_loop_flat (S (length l2)) l2 []) as [[body l3]|e|w]; [split; [discriminate|reflexivity] | | discriminate].
    split; [congruence|reflexivity].
  - destruct (hget (HKnown H_ContentLength) hs); [|split; [discriminate|reflexivity]].
    destruct (parse_usize b); [|split; [discriminate|reflexivity]].
    destruct (read_exact_flat_N n l2) as [[d rest]|]; split; try discriminate; reflexivity.
Qed.

(* transfer totality/safety to the code-shaped parsers through the refinement *)
Theorem parse_request_chunked_safe ipp p cs : wf_chunks cs ->
  no_fuel_err (parse_request_chunked ipp p cs) /\ is_crash (parse_request_chunked ipp p cs) = false.
Proof.
  intro W. pose proof (parse_request_chunked_refines ipp p cs W) as R.
  destruct (parse_request_flat_total ipp p (concat cs)) as [H1 H2]. unfold no_fuel_err in *.
  destruct (parse_request_chunked ipp p cs) as [[r br]|e|w], (parse_request_flat ipp p (concat cs)) as [[r' l]|e'|w'];
    cbn [orel] in R; try tauto; split; try discriminate; try reflexivity; congruence.
Qed.

Theorem parse_response_chunked_safe cs : wf_chunks cs ->
  no_fuel_err (parse_response_chunked cs) /\ is_crash (parse_response_chunked cs) = false.
Proof.
  intro W. pose proof (parse_response_chunked_refines cs W) as R.
  destruct (parse_response_flat_total (concat cs)) as [H1 H2]. unfold no_fuel_err in *.
  destruct (parse_response_chunked cs) as [[r br]|e|w], (parse_response_flat (concat cs)) as [[r' l]|e'|w'];
    cbn [orel] in R; try tauto; split; try discriminate; try reflexivity; congruence.
Qed.

(* a response body (Content-Length or chunked) is never longer than the input: allocation follows the bytes supplied, not
   the claimed Content-Length or chunk size *)
Lemma chunk_loop_flat_alloc : forall fuel l acc body rest,
  chunk_loop_flat fuel l acc = Ok (body, rest) -> (length body + length rest <= length acc + length l)%nat.
Proof.
  induction fuel as [|f IH]; intros l acc body rest H; [discriminate|]. cbn [chunk_loop_flat] in H.
  destruct (parse_chunk_flat l) as [[c l1]|e|w] eqn:E; try discriminate.
  apply parse_chunk_flat_progress in E as [_ E]. destruct c as [d|].
  - apply IH in H. rewrite app_length in H. cbn [length] in E. lia.
  - injection H as <- <-. cbn [length] in E. lia.
Qed.

Theorem parse_response_flat_alloc l r rest : parse_response_flat l = Ok (r, rest) ->
  (length (s_body r) + length rest <= length l)%nat.
Proof.
  unfold parse_response_flat.
  pose proof (read_until_flat_length LF l) as HL.
  destruct (read_until_flat LF l) as [line l1]. cbn [fst snd] in HL.
  destruct (parse_status_line line) as [[version status]|]; [|discriminate].
  destruct (rheader_loop_flat (S (length l1)) l1 []) as [[hs l2]|e|w] eqn:EH; try discriminate.
  apply rheader_loop_flat_rest in EH.
  destruct (match hget (HKnown H_TransferEncoding) hs with Some te => beq te TE_chunked | None => false end).
  - destruct (chunk_loop_flat (S (length l2)) l2 []) as [[body l3]|e|w] eqn:EC; try discriminate.
    apply chunk_loop_flat_alloc in EC. intros [= <- <-]. cbn [s_body length] in *. lia.
  - destruct (hget (HKnown H_ContentLength) hs).
    + destruct (parse_usize b); [|discriminate].
      destruct (read_exact_flat_N n l2) as [[d r3]|] eqn:ER; [|discriminate].
      apply read_exact_flat_N_length in ER. intros [= <- <-]. cbn [s_body length] in *. lia.
    + intros [= <- <-]. cbn [s_body length] in *. lia.
Qed.
