(* Model of AsyncWebsocketApp::run (humphrey-ws/src/async_app.rs), the single-threaded poll loop of the asynchronous
   WebSocket app (C12). One call of [poll] = one iteration of the `loop`, phases in source order:

     1. shutdown receiver polled                                   -> Exit
     2. keys snapshot; will_ping; for each key: drain recv_nonblocking until None-yet / error, dispatching each message;
        on error dispatch disconnect + remove; otherwise heartbeat timeout -> dispatch disconnect + remove; otherwise ping
     3. take in the streams waiting in the connect channel: a stream still in the table under the same address is stale
        -> dispatch its disconnect and remove it; dispatch connect, insert
     4. drain the outgoing channel: unicast to the addressee if present, broadcast to every stream present
     5. sleep (not modelled)

   Everything the loop reads from outside is an explicit input of the iteration: the shutdown flag, the order in which the
   HashMap yields its keys, the results of the recv_nonblocking calls per address, the clock values, the new streams, the
   drained outgoing messages (a broadcast carries the order in which values_mut() visits the streams). Outputs: the handler
   invocations handed to the thread pool, in order, and the frames written, in order. Definitions only. *)
From Hv Require Import Prelude.

Definition addr := N.
Definition msg := N.

(* result of one recv_nonblocking call; RBlock = the call does not return (after the first frame of a message the
   remaining frames are read with blocking reads) *)
Inductive rres := RMsg (m : msg) | RNone | RErr (e : N) | RBlock.

Inductive dispatch := Connect (a : addr) | Message (a : addr) (m : msg) | Disconnect (a : addr).
Inductive write := WMsg (a : addr) (m : msg) | WPing (a : addr).
Inductive out := OUnicast (a : addr) (m : msg) | OBroadcast (m : msg) (order : list addr).

Record config := {
  hb : option (N * N);             (* heartbeat: (interval, timeout) *)
  has_connect : bool;              (* on_connect / on_message / on_disconnect handler installed *)
  has_message : bool;
  has_disconnect : bool }.

(* the stream table: association list keyed by peer address; value = last_pong *)
Definition smap := list (addr * N).

Record app_state := { streams : smap; last_ping : N }.

Definition init (t0 : N) : app_state := {| streams := []; last_ping := t0 |}.

Record per_addr := {
  pa_recv : list rres;             (* results of the successive recv_nonblocking calls on this stream in this iteration *)
  pa_pong : option N;              (* Some t: a Pong was processed during those calls, last_pong := t *)
  pa_clock : N }.                  (* clock read by last_pong.elapsed() *)

Record inputs := {
  i_shutdown : bool;
  i_order : list addr;             (* streams.keys() *)
  i_ping_clock : N;                (* clock read by last_ping.elapsed() *)
  i_ping_set : N;                  (* Instant::now() stored in last_ping when a ping is due *)
  i_per : list (addr * per_addr);
  i_new : list (option addr * N);  (* incoming_streams.try_iter(): peer_addr() (None = error, stream skipped), last_pong *)
  i_out : list out }.              (* outgoing_messages.try_iter() *)

Definition mem (a : addr) (l : list addr) : bool := existsb (N.eqb a) l.

Fixpoint lookup (a : addr) (m : smap) : option N :=
  match m with [] => None | (b, v) :: r => if N.eqb a b then Some v else lookup a r end.

Definition remove (a : addr) (m : smap) : smap := filter (fun p => negb (N.eqb a (fst p))) m.

Fixpoint insert (a : addr) (v : N) (m : smap) : smap :=
  match m with
  | [] => [(a, v)]
  | (b, w) :: r => if N.eqb a b then (a, v) :: r else (b, w) :: insert a v r
  end.

Definition keys (m : smap) : list addr := map fst m.

Definition no_input : per_addr := {| pa_recv := []; pa_pong := None; pa_clock := 0 |}.

Fixpoint per_of (l : list (addr * per_addr)) (a : addr) : per_addr :=
  match l with [] => no_input | (b, p) :: r => if N.eqb a b then p else per_of r a end.

(* the inner loop: recv_nonblocking until it says "nothing yet" or fails *)
Inductive dstatus := SNone | SErr | SBlock.

Fixpoint drain (a : addr) (rs : list rres) : list dispatch * dstatus :=
  match rs with
  | [] => ([], SNone)                                   (* no further result supplied: treated as "nothing yet" *)
  | RMsg m :: rs' => let '(ds, s) := drain a rs' in (Message a m :: ds, s)
  | RNone :: _ => ([], SNone)
  | RErr _ :: _ => ([Disconnect a], SErr)
  | RBlock :: _ => ([], SBlock)
  end.

Inductive vres :=
| VGo (m : smap) (ds : list dispatch) (ws : list write)
| VStuck (ds : list dispatch)
| VCrash.

(* one pass of `for addr in keys` *)
Definition visit (cfg : config) (will_ping : bool) (per : list (addr * per_addr)) (m : smap) (a : addr) : vres :=
  match lookup a m with
  | None => VCrash                                      (* self.streams.get_mut(&addr).unwrap() *)
  | Some lp =>
    let p := per_of per a in
    let '(ds, s) := drain a (pa_recv p) in
    match s with
    | SBlock => VStuck ds
    | SErr => VGo (remove a m) ds []
    | SNone =>
      let lp' := match pa_pong p with Some t => t | None => lp end in
      let alive := VGo (insert a lp' m) ds (if will_ping then [WPing a] else []) in
      match hb cfg with
      | Some (_, timeout) =>
        if N.leb timeout (pa_clock p - lp')             (* last_pong.elapsed() >= ping.timeout *)
        then VGo (remove a m) (ds ++ [Disconnect a]) []
        else alive
      | None => alive
      end
    end
  end.

Inductive p2res :=
| P2Go (m : smap) (ds : list dispatch) (ws : list write)
| P2Stuck (m : smap) (ds : list dispatch)
| P2Crash.

Fixpoint phase2 (cfg : config) (will_ping : bool) (per : list (addr * per_addr)) (order : list addr) (m : smap) : p2res :=
  match order with
  | [] => P2Go m [] []
  | a :: rest =>
    match visit cfg will_ping per m a with
    | VCrash => P2Crash
    | VStuck ds => P2Stuck m ds
    | VGo m' ds ws =>
      match phase2 cfg will_ping per rest m' with
      | P2Crash => P2Crash
      | P2Stuck m'' ds2 => P2Stuck m'' (ds ++ ds2)
      | P2Go m'' ds2 ws2 => P2Go m'' (ds ++ ds2) (ws ++ ws2)
      end
    end
  end.

(* admission of the streams waiting in the channel; an address that is still in the table belongs to a connection whose end
   went unnoticed: that stream is disconnected first (repair c80fbf4) *)
Fixpoint admission (news : list (option addr * N)) (m : smap) : smap * list dispatch :=
  match news with
  | [] => (m, [])
  | (None, _) :: r => admission r m
  | (Some a, lp) :: r =>
    let stale := if mem a (keys m) then [Disconnect a] else [] in
    let '(m', ds) := admission r (insert a lp (remove a m)) in (m', stale ++ Connect a :: ds)
  end.

(* before the repair: HashMap::insert replaced the stale stream silently *)
Fixpoint admission_old (news : list (option addr * N)) (m : smap) : smap * list dispatch :=
  match news with
  | [] => (m, [])
  | (None, _) :: r => admission_old r m
  | (Some a, lp) :: r => let '(m', ds) := admission_old r (insert a lp m) in (m', Connect a :: ds)
  end.

Definition out_writes (ks : list addr) (o : out) : list write :=
  match o with
  | OUnicast a m => if mem a ks then [WMsg a m] else []
  | OBroadcast m order => map (fun a => WMsg a m) (filter (fun a => mem a ks) order)
  end.

Definition flush (ks : list addr) (outs : list out) : list write := flat_map (out_writes ks) outs.

Definition will_ping (cfg : config) (st : app_state) (inp : inputs) : bool :=
  match hb cfg with
  | Some (interval, _) => N.leb interval (i_ping_clock inp - last_ping st)   (* last_ping.elapsed() >= config.interval *)
  | None => false
  end.

Inductive result :=
| Exit
| Next (st' : app_state) (ds : list dispatch) (ws : list write)
| Blocked (st' : app_state) (ds : list dispatch)
| Crash.

Definition poll (cfg : config) (st : app_state) (inp : inputs) : result :=
  if i_shutdown inp then Exit else
  let wp := will_ping cfg st inp in
  let lping := if wp then i_ping_set inp else last_ping st in
  match phase2 cfg wp (i_per inp) (i_order inp) (streams st) with
  | P2Crash => Crash
  | P2Stuck m ds => Blocked {| streams := m; last_ping := lping |} ds
  | P2Go m ds ws =>
    let '(m', cs) := admission (i_new inp) m in
    Next {| streams := m'; last_ping := lping |} (ds ++ cs) (ws ++ flush (keys m') (i_out inp))
  end.

Definition poll_old (cfg : config) (st : app_state) (inp : inputs) : result :=
  if i_shutdown inp then Exit else
  let wp := will_ping cfg st inp in
  let lping := if wp then i_ping_set inp else last_ping st in
  match phase2 cfg wp (i_per inp) (i_order inp) (streams st) with
  | P2Crash => Crash
  | P2Stuck m ds => Blocked {| streams := m; last_ping := lping |} ds
  | P2Go m ds ws =>
    let '(m', cs) := admission_old (i_new inp) m in
    Next {| streams := m'; last_ping := lping |} (ds ++ cs) (ws ++ flush (keys m') (i_out inp))
  end.

(* handlers are optional: an event whose handler is not installed is not handed to the pool *)
Definition visible (cfg : config) (d : dispatch) : bool :=
  match d with Connect _ => has_connect cfg | Message _ _ => has_message cfg | Disconnect _ => has_disconnect cfg end.
Definition dispatched (cfg : config) (ds : list dispatch) : list dispatch := filter (visible cfg) ds.

(* the loop over a history of inputs *)
Inductive status := Running | Exited | Stuck | Crashed.

Record trace := { t_state : app_state; t_status : status; t_disp : list dispatch; t_writes : list write }.

Fixpoint run (cfg : config) (st : app_state) (hist : list inputs) : trace :=
  match hist with
  | [] => {| t_state := st; t_status := Running; t_disp := []; t_writes := [] |}
  | inp :: rest =>
    match poll cfg st inp with
    | Exit => {| t_state := st; t_status := Exited; t_disp := []; t_writes := [] |}
    | Crash => {| t_state := st; t_status := Crashed; t_disp := []; t_writes := [] |}
    | Blocked st' ds => {| t_state := st'; t_status := Stuck; t_disp := ds; t_writes := [] |}
    | Next st' ds ws =>
      let t := run cfg st' rest in
      {| t_state := t_state t; t_status := t_status t; t_disp := ds ++ t_disp t; t_writes := ws ++ t_writes t |}
    end
  end.

Fixpoint run_old (cfg : config) (st : app_state) (hist : list inputs) : trace :=
  match hist with
  | [] => {| t_state := st; t_status := Running; t_disp := []; t_writes := [] |}
  | inp :: rest =>
    match poll_old cfg st inp with
    | Exit => {| t_state := st; t_status := Exited; t_disp := []; t_writes := [] |}
    | Crash => {| t_state := st; t_status := Crashed; t_disp := []; t_writes := [] |}
    | Blocked st' ds => {| t_state := st'; t_status := Stuck; t_disp := ds; t_writes := [] |}
    | Next st' ds ws =>
      let t := run_old cfg st' rest in
      {| t_state := t_state t; t_status := t_status t; t_disp := ds ++ t_disp t; t_writes := ws ++ t_writes t |}
    end
  end.

(* ---- vocabulary of the property statements ---- *)

(* the subsequence of dispatches that concern address a *)
Inductive ev := EC | EM (m : msg) | ED.

Definition ev_of (a : addr) (d : dispatch) : list ev :=
  match d with
  | Connect b => if N.eqb a b then [EC] else []
  | Message b m => if N.eqb a b then [EM m] else []
  | Disconnect b => if N.eqb a b then [ED] else []
  end.
Definition proj (a : addr) (ds : list dispatch) : list ev := flat_map (ev_of a) ds.

(* session discipline (Connect Message* Disconnect)* (Connect Message* )?, run from "closed"/"open"; result = final state *)
Fixpoint sessions (open : bool) (es : list ev) : option bool :=
  match es with
  | [] => Some open
  | EC :: r => if open then None else sessions true r
  | EM _ :: r => if open then sessions true r else None
  | ED :: r => if open then sessions false r else None
  end.

Definition is_msg (e : ev) : bool := match e with EM _ => true | _ => false end.
Definition msgs_of (es : list ev) : list msg := flat_map (fun e => match e with EM m => [m] | _ => [] end) es.

Definition ev_eqb (x y : ev) : bool :=
  match x, y with EC, EC => true | ED, ED => true | EM m, EM n => N.eqb m n | _, _ => false end.
Definition count (e : ev) (es : list ev) : nat := length (filter (ev_eqb e) es).

(* what recv_nonblocking delivered: the messages before the first result that is not a message *)
Fixpoint msg_prefix (rs : list rres) : list msg :=
  match rs with RMsg m :: r => m :: msg_prefix r | _ => [] end.
Definition delivered (a : addr) (inp : inputs) : list msg :=
  if mem a (i_order inp) then msg_prefix (pa_recv (per_of (i_per inp) a)) else [].
Definition admitted (inp : inputs) : list addr :=
  flat_map (fun n => match fst n with Some a => [a] | None => [] end) (i_new inp).

(* the iterations that were carried out completely *)
Fixpoint executed (cfg : config) (st : app_state) (hist : list inputs) : list inputs :=
  match hist with
  | [] => []
  | inp :: rest => match poll cfg st inp with Next st' _ _ => inp :: executed cfg st' rest | _ => [] end
  end.

Definition is_ping (w : write) : bool := match w with WPing _ => true | _ => false end.
Definition write_eqb (x y : write) : bool :=
  match x, y with
  | WMsg a m, WMsg b n => N.eqb a b && N.eqb m n
  | WPing a, WPing b => N.eqb a b
  | _, _ => false
  end.
Definition wcount (w : write) (ws : list write) : nat := length (filter (write_eqb w) ws).

(* ---- well-formed inputs: what the environment guarantees ---- *)

Fixpoint nodupb (l : list addr) : bool :=
  match l with [] => true | a :: r => negb (mem a r) && nodupb r end.
(* l1 is a permutation of the duplicate-free l2 *)
Definition permb (l1 l2 : list addr) : bool :=
  Nat.eqb (length l1) (length l2) && nodupb l1 && forallb (fun a => mem a l2) l1.

Definition out_okb (ks : list addr) (o : out) : bool :=
  match o with OUnicast _ _ => true | OBroadcast _ order => permb order ks end.

Fixpoint no_block (rs : list rres) : bool :=
  match rs with [] => true | RBlock :: _ => false | RMsg _ :: r => no_block r | _ :: _ => true end.

(* (1) the key order is a permutation of the table's keys; (2) each broadcast visits exactly the streams in the table.
   Nothing is assumed about the addresses of the new streams. *)
Definition wf_inputsb (cfg : config) (st : app_state) (inp : inputs) : bool :=
  permb (i_order inp) (keys (streams st)) &&
  match phase2 cfg (will_ping cfg st inp) (i_per inp) (i_order inp) (streams st) with
  | P2Go m _ _ => forallb (out_okb (keys (fst (admission (i_new inp) m)))) (i_out inp)
  | _ => true
  end.

(* the additional assumption the code needed before the repair: admitted addresses distinct and not in the table *)
Definition fresh_inputsb (cfg : config) (st : app_state) (inp : inputs) : bool :=
  match phase2 cfg (will_ping cfg st inp) (i_per inp) (i_order inp) (streams st) with
  | P2Go m _ _ => nodupb (admitted inp) && forallb (fun a => negb (mem a (keys m))) (admitted inp)
  | _ => true
  end.

Fixpoint wf_histb (cfg : config) (st : app_state) (hist : list inputs) : bool :=
  match hist with
  | [] => true
  | inp :: rest =>
    if i_shutdown inp then true else
    wf_inputsb cfg st inp && match poll cfg st inp with Next st' _ _ => wf_histb cfg st' rest | _ => true end
  end.

Fixpoint no_block_hist (hist : list inputs) : bool :=
  match hist with
  | [] => true
  | inp :: rest => forallb (fun p => no_block (pa_recv (snd p))) (i_per inp) && no_block_hist rest
  end.
