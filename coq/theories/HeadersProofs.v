(* Laws of the header collection (headers.rs Headers: get / get_all / remove / add, matched on the parsed header name):
   what the C02 header-lookup probe exercises on the implementation, proved for every collection. *)
From Hv Require Import Prelude Bytes TablesHttp Http HttpReqProofs.
Open Scope N_scope.

Lemma hget_is_first_of_all n hs : hget n hs = hd_error (hget_all n hs).
Proof.
  unfold hget_all. induction hs as [|[n' v] hs IH]; [reflexivity|]. cbn [hget filter fst].
  destruct (hname_eqb n n'); [reflexivity|exact IH].
Qed.

Lemma hget_all_app n a b : hget_all n (a ++ b) = hget_all n a ++ hget_all n b.
Proof. unfold hget_all. rewrite filter_app, map_app. reflexivity. Qed.

(* Headers::add / push append: a new header never hides or reorders the earlier ones of its name *)
Lemma hget_all_add n hs n' v :
  hget_all n (hs ++ [(n', v)]) = hget_all n hs ++ (if hname_eqb n n' then [v] else []).
Proof. rewrite hget_all_app. unfold hget_all at 2. cbn [filter fst]. destruct (hname_eqb n n'); reflexivity. Qed.

Lemma hname_eqb_sym a b : hname_eqb a b = hname_eqb b a.
Proof.
  destruct (hname_eqb a b) eqn:E.
  - apply hname_eqb_eq in E. subst. symmetry. apply hname_eqb_refl.
  - destruct (hname_eqb b a) eqn:E'; [|reflexivity]. apply hname_eqb_eq in E'. subst. rewrite hname_eqb_refl in E. discriminate.
Qed.

(* Headers::remove takes out every header of that name and nothing else, keeping the order of the rest *)
Lemma hremove_removes_all n hs : hget_all n (hremove n hs) = [] /\ hget n (hremove n hs) = None.
Proof.
  assert (H : hget_all n (hremove n hs) = []).
  { unfold hget_all, hremove. induction hs as [|[n' v] hs IH]; [reflexivity|]. cbn [filter fst].
    destruct (hname_eqb n n') eqn:E; cbn [negb]; [exact IH|]. cbn [filter fst]. rewrite E. exact IH. }
  split; [exact H|]. rewrite hget_is_first_of_all, H. reflexivity.
Qed.

Lemma hremove_keeps_others n m hs : hname_eqb m n = false -> hget_all m (hremove n hs) = hget_all m hs.
Proof.
  intro Hne. unfold hget_all, hremove. induction hs as [|[n' v] hs IH]; [reflexivity|]. cbn [filter fst].
  destruct (hname_eqb n n') eqn:E; cbn [negb].
  - apply hname_eqb_eq in E. subst n'. rewrite Hne. exact IH.
  - cbn [filter fst]. destruct (hname_eqb m n'); cbn [map snd]; [f_equal|]; exact IH.
Qed.

(* names are matched on the parsed name, i.e. case-insensitively for every spelling *)
Lemma hget_all_case_insensitive name1 name2 hs :
  ascii_lower name1 = ascii_lower name2 -> hget_all (hname_of name1) hs = hget_all (hname_of name2) hs.
Proof. intro H. unfold hname_of. rewrite H. reflexivity. Qed.
