(* Proofs about the client model (Client.v): with redirect following enabled, send ends at the final non-redirect
   response of the chain the origins define, for chains of every length; without it, at the first response. *)
From Hv Require Import Prelude Bytes BytesProofs TablesHttp TablesClient Http HttpRespSpec HttpRespProofs Client.
From Coq Require Import Lia.
Open Scope N_scope.

(* What an origin's answer may depend on: scheme, authority, path and query of the request target. *)
Record target := { t_https : bool; t_host : bytes; t_path : bytes; t_query : bytes }.

Section Spec.
  Variable resolves : bool -> bytes -> bool.
  Variable site : target -> outcome response.

  (* the network: any exchange function in which every origin answers by target alone *)
  Variable net_of_site : bytes -> request -> outcome response.
  Hypothesis net_by_target : forall h r,
    net_of_site h r = site {| t_https := false; t_host := h; t_path := r_uri r; t_query := r_query r |}.

  Definition target_of_url (u : url) : target :=
    {| t_https := u_https u; t_host := u_host u; t_path := u_path u; t_query := u_query u |}.

  (* Reference resolution (RFC 3986 section 5.2) for the two forms of Location the property quantifies over:
     an absolute-path reference keeps scheme and authority and takes path and query from the reference (the query of
     the base is NOT inherited); an absolute URI replaces everything. *)
  Definition resolve_ref (cur : target) (l : bytes) : option target :=
    if starts_with_slash l then
      let '(p, q) := split_or QMARK l in
      Some {| t_https := t_https cur; t_host := t_host cur; t_path := p; t_query := q |}
    else match parse_url resolves l with Some u => Some (target_of_url u) | None => None end.

  (* ends_at t ts r: starting at target t, the origins redirect through the targets ts (t first) and the last one
     answers r, which is not a redirect the client follows *)
  Inductive ends_at : target -> list target -> response -> Prop :=
  | ends_here : forall t r,
      t_https t = false -> site t = Ok r -> is_redirect (s_status r) = false -> ends_at t [t] r
  | ends_hop : forall t r l t' ts r',
      t_https t = false -> site t = Ok r -> is_redirect (s_status r) = true ->
      hget (HKnown H_Location) (s_headers r) = Some l -> resolve_ref t l = Some t' ->
      ends_at t' ts r' -> ends_at t (t :: ts) r'.

  Definition matches (st : cstate) (t : target) : Prop :=
    c_https st = t_https t /\ c_host st = t_host t /\ r_uri (c_req st) = t_path t /\ r_query (c_req st) = t_query t.

  Definition target_of_exchange (e : bool * bytes * request) : target :=
    let '(https, h, r) := e in {| t_https := https; t_host := h; t_path := r_uri r; t_query := r_query r |}.

  Local Notation sendS := (send resolves net_of_site).

  Lemma with_headers_target r hs : r_uri (with_headers r hs) = r_uri r /\ r_query (with_headers r hs) = r_query r.
  Proof. split; reflexivity. Qed.

  (* the request actually sent (after the Cookie header is pushed) has the state's target *)
  Lemma sent_request_target st :
    let req := match cookie_header (c_cookies st) with
               | Some h => with_headers (c_req st) (r_headers (c_req st) ++ [h])
               | None => c_req st end in
    r_uri req = r_uri (c_req st) /\ r_query req = r_query (c_req st).
  Proof. cbv zeta. destruct (cookie_header (c_cookies st)); split; reflexivity. Qed.

  Theorem send_follows_chain :
    forall t ts r', ends_at t ts r' ->
    forall st fuel, matches st t -> c_follow st = true -> (length ts <= fuel)%nat ->
      fst (sendS fuel st) = Ok r' /\ map target_of_exchange (snd (sendS fuel st)) = ts.
  Proof.
    intros t ts r' Hends.
    induction Hends as [t r Hh Hsite Hnr | t r l t' ts r' Hh Hsite Hr Hloc Hres Hends IH];
      intros st fuel (Mh & Mhost & Muri & Mq) Hf Hfuel.
    - destruct fuel as [|fuel]; [cbn in Hfuel; lia|].
      cbn [send].
      destruct (sent_request_target st) as [Eu Eq].
      set (req := match cookie_header (c_cookies st) with
                  | Some h => with_headers (c_req st) (r_headers (c_req st) ++ [h])
                  | None => c_req st end) in *.
      rewrite Mh, Hh.
      assert (Hnet : net_of_site (c_host st) req = Ok r).
      { rewrite net_by_target. rewrite Eu, Eq, Mhost, Muri, Mq. rewrite <- Hsite. f_equal. destruct t; cbn in *; subst; reflexivity. }
      rewrite Hnet, Hf, Hnr. cbn.
      split; [reflexivity|].
      rewrite Eu, Eq, Mhost, Muri, Mq. destruct t; cbn in *; subst; reflexivity.
    - destruct fuel as [|fuel]; [cbn in Hfuel; lia|].
      cbn [send].
      destruct (sent_request_target st) as [Eu Eq].
      set (req := match cookie_header (c_cookies st) with
                  | Some h => with_headers (c_req st) (r_headers (c_req st) ++ [h])
                  | None => c_req st end) in *.
      rewrite Mh, Hh.
      assert (Hnet : net_of_site (c_host st) req = Ok r).
      { rewrite net_by_target. rewrite Eu, Eq, Mhost, Muri, Mq. rewrite <- Hsite. f_equal. destruct t; cbn in *; subst; reflexivity. }
      rewrite Hnet, Hf, Hr. cbn [andb]. rewrite Hloc.
      assert (Hhere : target_of_exchange (false, c_host st, req) = t).
      { cbn. rewrite Eu, Eq, Mhost, Muri, Mq. destruct t; cbn in *; subst; reflexivity. }
      cbn [length] in Hfuel.
      unfold resolve_ref in Hres.
      destruct (starts_with_slash l) eqn:Hsl.
      + destruct (split_or QMARK l) as [p q] eqn:Hsp.
        injection Hres as <-.
        match goal with |- context[send resolves net_of_site fuel ?s] => set (st' := s) end.
        assert (M' : matches st' {| t_https := t_https t; t_host := t_host t; t_path := p; t_query := q |}).
        { unfold st', matches. cbn. repeat split; auto. }
        destruct (IH st' fuel M' ltac:(reflexivity) ltac:(lia)) as [R1 R2].
        destruct (sendS fuel st') as [res tr]. cbn [fst snd] in R1, R2 |- *. subst res.
        split; [reflexivity|]. cbn [map]. rewrite Hhere, R2. reflexivity.
      + destruct (parse_url resolves l) as [u|] eqn:Hu; [|discriminate].
        injection Hres as <-.
        match goal with |- context[send resolves net_of_site fuel ?s] => set (st' := s) end.
        assert (M' : matches st' (target_of_url u)) by (repeat split; reflexivity).
        destruct (IH st' fuel M' ltac:(reflexivity) ltac:(lia)) as [R1 R2].
        destruct (sendS fuel st') as [res tr]. cbn [fst snd] in R1, R2 |- *. subst res.
        split; [reflexivity|]. cbn [map]. rewrite Hhere, R2. reflexivity.
  Qed.

  (* without redirect following: exactly one exchange, its answer returned whatever it is *)
  Theorem send_no_follow :
    forall st fuel, c_follow st = false -> c_https st = false ->
      exists req, r_uri req = r_uri (c_req st) /\ r_query req = r_query (c_req st) /\
        sendS (S fuel) st = (net_of_site (c_host st) req, [(false, c_host st, req)]).
  Proof.
    intros st fuel Hf Hh. cbn [send]. destruct (sent_request_target st) as [Eu Eq].
    set (req := match cookie_header (c_cookies st) with
                | Some h => with_headers (c_req st) (r_headers (c_req st) ++ [h])
                | None => c_req st end) in *.
    exists req. repeat split; auto. rewrite Hh, Hf. cbn [andb].
    destruct (net_of_site (c_host st) req); reflexivity.
  Qed.

  (* the state the GET builder makes for a URL is at that URL's target *)
  Lemma client_nobody_matches m s st :
    client_nobody resolves m s = Some st ->
    exists u, parse_url resolves s = Some u /\ matches st (target_of_url u) /\ c_follow st = false /\ c_cookies st = [].
  Proof.
    unfold client_nobody. destruct (parse_url resolves s) as [u|]; [|discriminate].
    intros H. injection H as <-. exists u. repeat split; reflexivity.
  Qed.

  Lemma client_body_matches m s d st :
    client_body resolves m s d = Some st ->
    exists u, parse_url resolves s = Some u /\ matches st (target_of_url u) /\ c_follow st = false /\ c_cookies st = [].
  Proof.
    unfold client_body. destruct (parse_url resolves s) as [u|]; [|discriminate].
    intros H. injection H as <-. exists u. repeat split; reflexivity.
  Qed.

  Lemma matches_with_redirects st t f : matches st t -> matches (with_redirects st f) t.
  Proof. intros H; exact H. Qed.
  Lemma matches_with_cookie st t c : matches st t -> matches (with_cookie st c) t.
  Proof. intros H; exact H. Qed.

  (* end to end for the public API: Client::get(url).with_redirects(true).send() *)
  Theorem get_follows_chain :
    forall s st ts r' fuel,
      client_nobody resolves M_Get s = Some st ->
      (forall u, parse_url resolves s = Some u -> ends_at (target_of_url u) ts r') ->
      (length ts <= fuel)%nat ->
      fst (sendS fuel (with_redirects st true)) = Ok r' /\
      map target_of_exchange (snd (sendS fuel (with_redirects st true))) = ts.
  Proof.
    intros s st ts r' fuel Hc Hch Hfuel.
    destruct (client_nobody_matches _ _ _ Hc) as (u & Hu & M & _ & _).
    apply (send_follows_chain _ _ _ (Hch u Hu)); auto.
  Qed.
End Spec.

(* One exchange on the wire: the origin's reply bytes go through the response parser (Http.parse_response_flat, the
   model Response::from_stream is checked against), the request through the serialiser. *)
Definition wire_net (origin : bytes -> bytes -> bytes) (h : bytes) (r : request) : outcome response :=
  match parse_response_flat (origin h (serialize_request r)) with
  | Ok (resp, _) => Ok resp
  | Err e => Err e
  | Crash w => Crash w
  end.

(* a conforming origin's Content-Length-framed reply is returned exactly *)
Lemma wire_net_cl origin h r hd body :
  origin h (serialize_request r) = render_head hd ++ body -> head_ok hd -> cl_framed hd body ->
  wire_net origin h r =
  Ok {| s_version := sh_version hd; s_status := sh_status hd; s_headers := head_headers hd; s_body := body |}.
Proof.
  intros Ho Hok Hcl. unfold wire_net. rewrite Ho.
  rewrite <- (app_nil_r body) at 1.
  rewrite (parse_cl_lemma hd body [] Hok Hcl). reflexivity.
Qed.

(* and so is a chunked reply, as a plain body with its length *)
Lemma wire_net_chunked origin h r hd up sizes body :
  origin h (serialize_request r) = render_head hd ++ chunked_encode up sizes body ->
  head_ok hd -> is_chunked (head_headers hd) -> sizes_ok sizes body ->
  wire_net origin h r =
  Ok {| s_version := sh_version hd; s_status := sh_status hd;
        s_headers := dechunked_headers (head_headers hd) body; s_body := body |}.
Proof.
  intros Ho Hok Hch Hs. unfold wire_net. rewrite Ho.
  rewrite <- (app_nil_r (chunked_encode up sizes body)).
  rewrite (parse_chunked_lemma hd up sizes body [] Hok Hch Hs). reflexivity.
Qed.

(* the generated client constants are the ones the property names (finite sweep over the status variants) *)
Lemma client_tables :
  map status_code CLIENT_FOLLOWED_STATUS = [301; 302; 307] /\
  (forall s, s < status_count -> is_redirect s = true <-> In (status_code s) [301; 302; 307]) /\
  CLIENT_RELATIVE_FIRST_BYTE = 47 /\
  CLIENT_HTTP_PREFIX = [104;116;116;112;58;47;47] /\ CLIENT_HTTPS_PREFIX = [104;116;116;112;115;58;47;47] /\
  CLIENT_HTTP_PORT = 80 /\ CLIENT_HTTPS_PORT = 443 /\ CLIENT_LOCATION_HEADER_IS_LOCATION = true.
Proof.
  split; [vm_compute; reflexivity|]. split; [|repeat split; vm_compute; reflexivity].
  intros s Hs.
  pose (P := fun s => Bool.eqb (is_redirect s) (existsb (N.eqb (status_code s)) [301; 302; 307])).
  assert (Hb : P s = true) by (apply (status_sweep P); [vm_compute; reflexivity|exact Hs]).
  unfold P in Hb. apply Bool.eqb_prop in Hb. rewrite Hb. rewrite existsb_exists. split.
  - intros (x & Hin & Hx). apply N.eqb_eq in Hx. subst x. exact Hin.
  - intros Hin. exists (status_code s). split; [exact Hin|apply N.eqb_refl].
Qed.

(* ---- Client::parse_url and the request builders ---- *)
Lemma strip_pre_app p r : strip_pre p (p ++ r) = Some r.
Proof. induction p as [|a p IH]; [reflexivity|]. cbn [app strip_pre]. rewrite N.eqb_refl. exact IH. Qed.

Lemma split_or_at d a b : nob d a = true -> split_or d (a ++ d :: b) = (a, b).
Proof. intro H. unfold split_or. rewrite (split_once_app d a b H). reflexivity. Qed.
Lemma split_or_none d l : nob d l = true -> split_or d l = (l, []).
Proof. intro H. unfold split_or. rewrite (split_once_none d l H). reflexivity. Qed.

Section Urls.
  Variable resolves : bool -> bytes -> bool.

  (* http://host/path?query decomposes into exactly these parts (host without '/', path without '?'); the query and the
     path may be empty or absent *)
  Theorem parse_url_http host path query :
    nob SLASH host = true -> nob QMARK path = true -> resolves false host = true ->
    parse_url resolves (S_http ++ host ++ [SLASH] ++ path ++ [QMARK] ++ query) =
      Some {| u_https := false; u_host := host; u_path := SLASH :: path; u_query := query |} /\
    parse_url resolves (S_http ++ host ++ [SLASH] ++ path) =
      Some {| u_https := false; u_host := host; u_path := SLASH :: path; u_query := [] |} /\
    parse_url resolves (S_http ++ host) =
      Some {| u_https := false; u_host := host; u_path := [SLASH]; u_query := [] |}.
  Proof.
    intros Hh Hp Hr. unfold parse_url. rewrite !strip_pre_app.
    repeat split.
    - cbn [app]. rewrite (split_or_at SLASH host (path ++ QMARK :: query) Hh), Hr.
      rewrite (split_or_at QMARK path query Hp). reflexivity.
    - cbn [app]. rewrite (split_or_at SLASH host path Hh), Hr. rewrite (split_or_none QMARK path Hp). reflexivity.
    - rewrite (split_or_none SLASH host Hh), Hr. reflexivity.
  Qed.

  (* anything that is not http:// or https:// is refused, and so is a host that does not resolve *)
  Theorem parse_url_rejects s :
    strip_pre S_http s = None -> strip_pre S_https s = None -> parse_url resolves s = None.
  Proof. intros H1 H2. unfold parse_url. rewrite H1, H2. reflexivity. Qed.

  (* the builders: GET / DELETE carry no body; POST / PUT carry the data and its length; all of them name the host *)
  Theorem builders_spec s u m data :
    parse_url resolves s = Some u ->
    (exists st, client_nobody resolves m s = Some st /\
       c_https st = u_https u /\ c_host st = u_host u /\ c_follow st = false /\ c_cookies st = [] /\
       r_method (c_req st) = m /\ r_uri (c_req st) = u_path u /\ r_query (c_req st) = u_query u /\
       r_version (c_req st) = V_HTTP11 /\ r_headers (c_req st) = [(HKnown H_Host, u_host u)] /\ r_content (c_req st) = None) /\
    (exists st, client_body resolves m s data = Some st /\
       c_https st = u_https u /\ c_host st = u_host u /\ c_follow st = false /\
       r_method (c_req st) = m /\ r_uri (c_req st) = u_path u /\ r_query (c_req st) = u_query u /\
       r_headers (c_req st) = [(HKnown H_Host, u_host u); (HKnown H_ContentLength, dec_render (N.of_nat (length data)))] /\
       r_content (c_req st) = Some data).
  Proof.
    intro H. unfold client_nobody, client_body. rewrite H. split; eexists; (split; [reflexivity|]); cbn; repeat split.
  Qed.
End Urls.
