(* Lemmas about the byte-string and number primitives of Bytes.v / StreamBuf.v that the response-side proofs
   (HttpRespProofs.v) need: beq, split_incl / read_until_flat, split_once, strip_crlf, utf8_valid, trim_start /
   trim_end, dec_render / parse_unsigned, hex rendering / parse_usize_hex, read_exact_flat.  No definitions of the
   model are changed here; the only new definitions are the hex renderer and small predicates used in statements. *)
From Hv Require Import Prelude Bytes StreamBuf TablesHttp Http.
From Coq Require Import Arith Lia.
Open Scope N_scope.
Arguments N.eqb : simpl never.
Arguments N.leb : simpl never.
Arguments N.ltb : simpl never.
Arguments N.add : simpl never.
Arguments N.mul : simpl never.
Arguments N.div : simpl never.
Arguments N.modulo : simpl never.
Arguments N.sub : simpl never.
(* N.div / N.modulo are zified to Z.quot / Z.rem in Coq 8.16: this hook covers both div/mod and quot/rem *)
Ltac Zify.zify_post_hook ::= Z.to_euclidean_division_equations.

(* decide every N comparison in the goal by case analysis + lia *)
Ltac ncase :=
  repeat match goal with
         | |- context [N.eqb ?a ?b] => destruct (N.eqb_spec a b)
         | |- context [N.leb ?a ?b] => destruct (N.leb_spec a b)
         | |- context [N.ltb ?a ?b] => destruct (N.ltb_spec a b)
         end.
Ltac nsolve := ncase; cbn [andb orb negb]; try reflexivity; try discriminate; try lia.

(* ---- beq ---- *)
Lemma beq_refl (a : bytes) : beq a a = true.
Proof. induction a as [|x a IH]; cbn [beq]; [reflexivity|]. rewrite N.eqb_refl, IH. reflexivity. Qed.

Lemma beq_eq (a b : bytes) : beq a b = true <-> a = b.
Proof.
  split.
  - revert b. induction a as [|x a IH]; intros [|y b] H; cbn [beq] in H; try discriminate; [reflexivity|].
    apply andb_true_iff in H. destruct H as [Hx Hr]. apply N.eqb_eq in Hx. subst y. f_equal. apply IH, Hr.
  - intros ->. apply beq_refl.
Qed.

Lemma beq_neq (a b : bytes) : a <> b -> beq a b = false.
Proof. intros H. destruct (beq a b) eqn:E; [|reflexivity]. apply beq_eq in E. contradiction. Qed.

(* ---- split_incl / read_until_flat ---- *)
Lemma split_incl_app (d : N) (a rest : bytes) :
  ~ In d a -> split_incl d (a ++ d :: rest) = Some (a ++ [d], rest).
Proof.
  induction a as [|x a IH]; intros Hn; cbn [app split_incl].
  - rewrite N.eqb_refl. reflexivity.
  - destruct (N.eqb_spec x d) as [E|E]; [exfalso; apply Hn; left; exact E|].
    rewrite IH; [reflexivity|]. intros Hin. apply Hn. right. exact Hin.
Qed.

Lemma split_incl_none (d : N) (l : bytes) : ~ In d l -> split_incl d l = None.
Proof.
  induction l as [|x l IH]; intros Hn; cbn [split_incl]; [reflexivity|].
  destruct (N.eqb_spec x d) as [E|E]; [exfalso; apply Hn; left; exact E|].
  rewrite IH; [reflexivity|]. intros Hin. apply Hn. right. exact Hin.
Qed.

Lemma read_until_flat_line (a rest : bytes) :
  ~ In LF a -> read_until_flat LF (a ++ LF :: rest) = (a ++ [LF], rest).
Proof. intros H. unfold read_until_flat. rewrite split_incl_app by exact H. reflexivity. Qed.

Lemma read_until_flat_none (l : bytes) : ~ In LF l -> read_until_flat LF l = (l, []).
Proof. intros H. unfold read_until_flat. rewrite split_incl_none by exact H. reflexivity. Qed.

(* ---- split_once ---- *)
Lemma split_once_app (d : N) (a rest : bytes) :
  ~ In d a -> split_once d (a ++ d :: rest) = Some (a, rest).
Proof.
  induction a as [|x a IH]; intros Hn; cbn [app split_once].
  - rewrite N.eqb_refl. reflexivity.
  - destruct (N.eqb_spec x d) as [E|E]; [exfalso; apply Hn; left; exact E|].
    rewrite IH; [reflexivity|]. intros Hin. apply Hn. right. exact Hin.
Qed.

Lemma split_once_none (d : N) (l : bytes) : ~ In d l -> split_once d l = None.
Proof.
  induction l as [|x l IH]; intros Hn; cbn [split_once]; [reflexivity|].
  destruct (N.eqb_spec x d) as [E|E]; [exfalso; apply Hn; left; exact E|].
  rewrite IH; [reflexivity|]. intros Hin. apply Hn. right. exact Hin.
Qed.

(* ---- strip_crlf ---- *)
Lemma ends_with_crlf_app (l : bytes) : ends_with_crlf (l ++ CRLF) = true.
Proof.
  induction l as [|x l IH]; [reflexivity|].
  cbn [app]. unfold CRLF in *. destruct l as [|y l]; [reflexivity|].
  destruct l as [|z l]; [reflexivity|]. exact IH.
Qed.

Lemma strip_crlf_app (l : bytes) : strip_crlf (l ++ CRLF) = Some l.
Proof.
  unfold strip_crlf. rewrite ends_with_crlf_app. f_equal.
  rewrite app_length. unfold CRLF. cbn [length].
  replace (length l + 2 - 2)%nat with (length l + 0)%nat by lia.
  rewrite firstn_app_2. cbn [firstn]. apply app_nil_r.
Qed.

Lemma ends_with_crlf_last (l : bytes) : ends_with_crlf l = true -> exists l', l = l' ++ CRLF.
Proof.
  induction l as [|x l IH]; intros H; [discriminate|].
  destruct l as [|y l]; [discriminate|].
  destruct l as [|z l].
  - cbn [ends_with_crlf] in H. apply andb_true_iff in H. destruct H as [Hx Hy].
    apply N.eqb_eq in Hx. apply N.eqb_eq in Hy. subst. exists []. reflexivity.
  - destruct IH as [l' E]; [exact H|]. exists (x :: l'). rewrite E. reflexivity.
Qed.

Lemma strip_crlf_some (l l0 : bytes) : strip_crlf l = Some l0 -> l = l0 ++ CRLF.
Proof.
  unfold strip_crlf. destruct (ends_with_crlf l) eqn:E; [|discriminate].
  destruct (ends_with_crlf_last l E) as [l' ->]. intros H.
  pose proof (strip_crlf_app l') as H'. unfold strip_crlf in H'. rewrite ends_with_crlf_app in H'.
  rewrite H' in H. injection H as <-. reflexivity.
Qed.

Lemma strip_crlf_nolf (l : bytes) : ~ In LF l -> strip_crlf l = None.
Proof.
  intros Hn. destruct (strip_crlf l) as [l0|] eqn:E; [|reflexivity].
  apply strip_crlf_some in E. subst l. exfalso. apply Hn. apply in_or_app. right. right. left. reflexivity.
Qed.

(* ---- ASCII / UTF-8 ---- *)
Definition ascii (l : bytes) : Prop := Forall (fun b => b < 128) l.

Lemma utf8_valid_fuel_ascii (l : bytes) (f : nat) : ascii l -> (length l <= f)%nat -> utf8_valid_fuel f l = true.
Proof.
  revert f. induction l as [|b l IH]; intros f Ha Hf.
  - destruct f; reflexivity.
  - destruct f as [|f]; [cbn [length] in Hf; lia|].
    inversion Ha as [|? ? Hb Hl]; subst. cbn [utf8_valid_fuel].
    destruct (N.ltb_spec b 128); [|lia]. apply IH; [exact Hl|]. cbn [length] in Hf. lia.
Qed.

Lemma utf8_valid_ascii (l : bytes) : ascii l -> utf8_valid l = true.
Proof. intros H. apply utf8_valid_fuel_ascii; [exact H|lia]. Qed.

(* more fuel never hurts *)
Lemma utf8_valid_fuel_mono (f : nat) : forall (l : bytes) (k : nat),
  utf8_valid_fuel f l = true -> utf8_valid_fuel (f + k) l = true.
Proof.
  induction f as [|f IH]; intros l k H.
  - destruct l; [|discriminate]. destruct (0 + k)%nat; reflexivity.
  - cbn [Nat.add]. cbn [utf8_valid_fuel] in H |- *.
    destruct l as [|b r]; [reflexivity|].
    repeat match goal with
           | H : (if ?c then _ else _) = true |- (if ?c then _ else _) = true => destruct c
           end; try discriminate;
    repeat match goal with
           | H : match ?r with [] => _ | _ :: _ => _ end = true |- _ => destruct r; try discriminate
           end;
    repeat match goal with
           | H : (_ && _)%bool = true |- _ => apply andb_true_iff in H; destruct H
           end;
    repeat match goal with |- (_ && _)%bool = true => apply andb_true_iff; split end; try assumption; apply IH; assumption.
Qed.

Lemma utf8_valid_fuel_app (f : nat) : forall (a b : bytes),
  utf8_valid_fuel f a = true -> utf8_valid b = true -> utf8_valid_fuel (f + length b) (a ++ b) = true.
Proof.
  induction f as [|f IH]; intros a b Ha Hb.
  - destruct a; [|discriminate]. exact Hb.
  - destruct a as [|x r].
    + cbn [app]. unfold utf8_valid in Hb. rewrite Nat.add_comm. apply utf8_valid_fuel_mono. exact Hb.
    + cbn [Nat.add app]. cbn [utf8_valid_fuel] in Ha |- *.
      repeat match goal with
             | H : (if ?c then _ else _) = true |- (if ?c then _ else _) = true => destruct c
             end; try discriminate;
      repeat match goal with
             | H : match ?r with [] => _ | _ :: _ => _ end = true |- _ => destruct r; try discriminate
             end; cbn [app];
      repeat match goal with
             | H : (_ && _)%bool = true |- _ => apply andb_true_iff in H; destruct H
             end;
      repeat match goal with |- (_ && _)%bool = true => apply andb_true_iff; split end; try assumption; apply IH; assumption.
Qed.

Lemma utf8_valid_fuel_enough (f : nat) (l : bytes) :
  utf8_valid l = true -> (length l <= f)%nat -> utf8_valid_fuel f l = true.
Proof.
  intros H Hf. replace f with (length l + (f - length l))%nat by lia. apply utf8_valid_fuel_mono. exact H.
Qed.

Lemma utf8_valid_app (a b : bytes) : utf8_valid a = true -> utf8_valid b = true -> utf8_valid (a ++ b) = true.
Proof.
  intros Ha Hb. unfold utf8_valid. rewrite app_length. apply utf8_valid_fuel_app; assumption.
Qed.

Lemma ascii_app (a b : bytes) : ascii a -> ascii b -> ascii (a ++ b).
Proof. intros Ha Hb. apply Forall_app. split; assumption. Qed.

(* ---- small enumeration helper: b < n gives a finite case split ---- *)
Lemma N_lt_cases (n : nat) (b : N) : b < N.of_nat n -> In b (map N.of_nat (seq 0 n)).
Proof.
  intros H. replace b with (N.of_nat (N.to_nat b)) by apply N2Nat.id.
  apply in_map. apply in_seq. lia.
Qed.

(* ---- whitespace, trim_start, trim_end ---- *)
(* single-byte whitespace (SP, HT, LF, VT, FF, CR) *)
Definition sws (b : N) : Prop := b = 32 \/ (9 <= b /\ b <= 13).
(* an ASCII byte that is not whitespace *)
Definition nonws_ascii (b : N) : Prop := b < 128 /\ b <> 32 /\ ~ (9 <= b /\ b <= 13).

Lemma ws_prefix_len_sws (b : N) (r : bytes) : sws b -> ws_prefix_len (b :: r) = 1%nat.
Proof.
  intros H. unfold ws_prefix_len, sws in *.
  destruct (N.eqb_spec b 32); [reflexivity|].
  destruct (N.leb_spec 9 b); destruct (N.leb_spec b 13); cbn [andb orb]; try reflexivity; exfalso; lia.
Qed.

Lemma ws_prefix_len_nonws (b : N) (r : bytes) : nonws_ascii b -> ws_prefix_len (b :: r) = 0%nat.
Proof.
  intros (Hlt & H32 & Hws).
  pose proof (N_lt_cases 128 b Hlt) as Hin. cbn in Hin.
  repeat (destruct Hin as [<-|Hin]; [first [reflexivity | exfalso; lia]|]). contradiction.
Qed.

Lemma trim_start_fuel_ows (ows v : bytes) (f : nat) :
  Forall sws ows -> ws_prefix_len v = 0%nat -> (length ows <= f)%nat -> trim_start_fuel f (ows ++ v) = v.
Proof.
  revert f. induction ows as [|b ows IH]; intros f Hows Hv Hf.
  - cbn [app]. destruct f; cbn [trim_start_fuel]; [reflexivity|]. rewrite Hv. reflexivity.
  - destruct f as [|f]; [cbn [length] in Hf; lia|].
    inversion Hows as [|? ? Hb Hr]; subst. cbn [app trim_start_fuel].
    rewrite ws_prefix_len_sws by exact Hb. cbn [skipn]. apply IH; [exact Hr|exact Hv|]. cbn [length] in Hf. lia.
Qed.

Lemma trim_start_ows (ows v : bytes) :
  Forall sws ows -> ws_prefix_len v = 0%nat -> trim_start (ows ++ v) = v.
Proof.
  intros Ho Hv. unfold trim_start. apply trim_start_fuel_ows; [exact Ho|exact Hv|]. rewrite app_length. lia.
Qed.

Lemma ws_suffix_len_sws (b : N) (r : bytes) : sws b -> ws_suffix_len (b :: r) = 1%nat.
Proof.
  intros H. unfold ws_suffix_len, sws in *.
  destruct (N.eqb_spec b 32); [reflexivity|].
  destruct (N.leb_spec 9 b); destruct (N.leb_spec b 13); cbn [andb orb]; try reflexivity; exfalso; lia.
Qed.

Lemma ws_suffix_len_nonws (b : N) (r : bytes) : nonws_ascii b -> ws_suffix_len (b :: r) = 0%nat.
Proof.
  intros (Hlt & H32 & Hws). unfold ws_suffix_len.
  repeat match goal with
         | |- context [N.eqb b ?k] =>
           replace (N.eqb b k) with false by (symmetry; apply N.eqb_neq; lia)
         end.
  replace (128 <=? b) with false by (symmetry; apply N.leb_gt; lia).
  replace ((9 <=? b) && (b <=? 13))%bool with false
    by (destruct (N.leb_spec 9 b); destruct (N.leb_spec b 13); cbn [andb]; try reflexivity; exfalso; lia).
  cbn [andb orb].
  destruct r as [|c r]; [reflexivity|]. rewrite andb_false_r.
  destruct r as [|e r]; [reflexivity|]. rewrite !andb_false_r. reflexivity.
Qed.

Lemma trim_end_rev_ws (ws rest : bytes) (f : nat) :
  Forall sws ws -> ws_suffix_len rest = 0%nat -> (length ws <= f)%nat -> trim_end_rev f (ws ++ rest) = rest.
Proof.
  revert f. induction ws as [|b ws IH]; intros f Hws Hr Hf.
  - cbn [app]. destruct f; cbn [trim_end_rev]; [reflexivity|]. rewrite Hr. reflexivity.
  - destruct f as [|f]; [cbn [length] in Hf; lia|].
    inversion Hws as [|? ? Hb Hw]; subst. cbn [app trim_end_rev].
    rewrite ws_suffix_len_sws by exact Hb. cbn [skipn]. apply IH; [exact Hw|exact Hr|]. cbn [length] in Hf. lia.
Qed.

(* trailing single-byte whitespace after a string that is empty or ends in a non-whitespace ASCII byte is removed *)
Lemma trim_end_ws (pre ws : bytes) :
  Forall sws ws -> ws_suffix_len (rev pre) = 0%nat -> trim_end (pre ++ ws) = pre.
Proof.
  intros Hws Hp. unfold trim_end. rewrite rev_app_distr.
  rewrite trim_end_rev_ws.
  - apply rev_involutive.
  - apply Forall_rev. exact Hws.
  - exact Hp.
  - rewrite app_length, !rev_length. lia.
Qed.

Lemma ws_suffix_len_rev_last (l : bytes) (b : N) : nonws_ascii b -> ws_suffix_len (rev (l ++ [b])) = 0%nat.
Proof. intros H. rewrite rev_app_distr. cbn [rev app]. apply ws_suffix_len_nonws. exact H. Qed.

(* ---- decimal ---- *)
Definition digit (b : N) : Prop := 48 <= b /\ b <= 57.

Lemma is_digit_iff (b : N) : is_digit b = true <-> digit b.
Proof.
  unfold is_digit, digit. rewrite andb_true_iff, !N.leb_le. reflexivity.
Qed.

Lemma digit_nonws (b : N) : digit b -> nonws_ascii b.
Proof. unfold digit, nonws_ascii. lia. Qed.

(* the value a digit string denotes, continuing from acc *)
Lemma dec_digits_app (a b : bytes) (acc : N) :
  dec_digits acc (a ++ b) = match dec_digits acc a with Some n => dec_digits n b | None => None end.
Proof.
  revert acc. induction a as [|x a IH]; intros acc; cbn [app dec_digits]; [reflexivity|].
  destruct (is_digit x); [apply IH|reflexivity].
Qed.

Lemma dec_render_fuel_S (f : nat) (n : N) (acc : bytes) :
  dec_render_fuel (S f) n acc =
  if n / 10 =? 0 then (48 + n mod 10) :: acc else dec_render_fuel f (n / 10) ((48 + n mod 10) :: acc).
Proof. reflexivity. Qed.

(* key characterisation: with enough fuel, reading the rendered digits of n from accumulator a continues from a*k+n *)
Lemma dec_render_fuel_spec (f : nat) : forall (n : N) (acc : bytes), n < 2 ^ N.of_nat (S f) ->
  exists ds : bytes, dec_render_fuel (S f) n acc = ds ++ acc /\ ds <> [] /\ Forall digit ds /\
    exists k : N, n < k /\ forall a rest, dec_digits a (ds ++ rest) = dec_digits (a * k + n) rest.
Proof.
  induction f as [|f IH]; intros n acc Hn; rewrite dec_render_fuel_S;
    assert (Hd : digit (48 + n mod 10)) by (unfold digit; lia);
    (destruct (N.eqb_spec (n / 10) 0) as [E|E];
     [ exists [48 + n mod 10]; split; [reflexivity|]; split; [discriminate|];
       split; [constructor; [exact Hd|constructor]|];
       exists 10; split; [lia|]; intros a rest; cbn [app dec_digits];
       replace (is_digit (48 + n mod 10)) with true by (symmetry; apply is_digit_iff; exact Hd);
       f_equal; lia | ]).
  - exfalso. change (2 ^ N.of_nat 1) with 2 in Hn. lia.
  - assert (Hlt : n / 10 < 2 ^ N.of_nat (S f)).
    { rewrite (Nat2N.inj_succ (S f)), N.pow_succ_r' in Hn. lia. }
    destruct (IH (n / 10) ((48 + n mod 10) :: acc) Hlt) as (ds & Eds & Hne & Hdig & k & Hk & Hval).
    exists (ds ++ [48 + n mod 10]). split; [rewrite Eds, <- app_assoc; reflexivity|].
    split; [destruct ds; discriminate|].
    split; [apply Forall_app; split; [exact Hdig|constructor; [exact Hd|constructor]]|].
    exists (k * 10). split; [lia|]. intros a rest. rewrite <- app_assoc. rewrite Hval. cbn [app dec_digits].
    replace (is_digit (48 + n mod 10)) with true by (symmetry; apply is_digit_iff; exact Hd).
    f_equal. lia.
Qed.

Lemma dec_render_spec (n : N) :
  dec_render n <> [] /\ Forall digit (dec_render n) /\ dec_digits 0 (dec_render n) = Some n.
Proof.
  unfold dec_render.
  assert (Hn : n < 2 ^ N.of_nat (S (N.to_nat (N.log2 n)))).
  { rewrite Nat2N.inj_succ, N2Nat.id. destruct (N.eq_dec n 0) as [->|Hz]; [reflexivity|].
    apply N.log2_spec. lia. }
  destruct (dec_render_fuel_spec (N.to_nat (N.log2 n)) n [] Hn) as (ds & Eds & Hne & Hdig & k & Hk & Hval).
  rewrite Eds, app_nil_r. split; [exact Hne|]. split; [exact Hdig|].
  specialize (Hval 0 []). rewrite app_nil_r in Hval. rewrite Hval. cbn [dec_digits]. replace (0 * k + n) with n by lia. reflexivity.
Qed.

Lemma dec_render_digits (n : N) : Forall digit (dec_render n).
Proof. apply dec_render_spec. Qed.
Lemma dec_render_nonempty (n : N) : dec_render n <> [].
Proof. apply dec_render_spec. Qed.
Lemma dec_digits_render (n : N) : dec_digits 0 (dec_render n) = Some n.
Proof. apply dec_render_spec. Qed.

(* any non-empty digit string: parse_unsigned reads its value (Rust's FromStr accepts leading zeros) *)
Lemma parse_unsigned_digits (max : N) (s : bytes) (n : N) :
  s <> [] -> Forall digit s -> dec_digits 0 s = Some n -> n <= max -> parse_unsigned max s = Some n.
Proof.
  intros Hne Hd Hv Hmax. unfold parse_unsigned.
  destruct s as [|b s]; [contradiction|].
  inversion Hd as [|? ? Hb Hs]; subst.
  assert (b <> 43) by (unfold digit in Hb; lia).
  assert (E : forall (A : Type) (x y : A), match b with 43 => x | _ => y end = y).
  { intros A x y. destruct b as [|p]; [reflexivity|].
    repeat (destruct p as [p|p|]; try reflexivity). exfalso. apply H. reflexivity. }
  cbn beta iota. rewrite !E.
  rewrite Hv. destruct (N.leb_spec n max); [reflexivity|lia].
Qed.

Lemma parse_unsigned_render (max n : N) : n <= max -> parse_unsigned max (dec_render n) = Some n.
Proof.
  intros H. apply parse_unsigned_digits; [apply dec_render_nonempty|apply dec_render_digits|apply dec_digits_render|exact H].
Qed.

Lemma parse_usize_render (n : N) : n <= usize_max -> parse_usize (dec_render n) = Some n.
Proof. apply parse_unsigned_render. Qed.
Lemma parse_u16_render (c : N) : c <= 65535 -> parse_u16 (dec_render c) = Some c.
Proof. apply parse_unsigned_render. Qed.

Lemma dec_render_inj (a b : N) : dec_render a = dec_render b -> a = b.
Proof.
  intros H. pose proof (dec_digits_render a) as Ha. rewrite H, dec_digits_render in Ha. injection Ha as ->. reflexivity.
Qed.

Lemma digits_ascii (s : bytes) : Forall digit s -> ascii s.
Proof. apply Forall_impl. unfold digit. intros; lia. Qed.

Lemma digits_notin (s : bytes) (c : N) : Forall digit s -> (c < 48 \/ 57 < c) -> ~ In c s.
Proof.
  intros Hd Hc Hin. rewrite Forall_forall in Hd. specialize (Hd c Hin). unfold digit in Hd. lia.
Qed.

Lemma digits_ws_prefix (s : bytes) : Forall digit s -> ws_prefix_len s = 0%nat.
Proof.
  intros Hd. destruct s as [|b s]; [reflexivity|]. inversion Hd; subst.
  apply ws_prefix_len_nonws, digit_nonws. assumption.
Qed.

(* ---- hexadecimal ---- *)
Definition is_hex (b : N) : Prop := digit b \/ (97 <= b /\ b <= 102) \/ (65 <= b /\ b <= 70).

(* the renderer a conforming peer uses for chunk sizes: lower case (up = false) or upper case (up = true) *)
Definition hex_digit (up : bool) (d : N) : N := if d <? 10 then 48 + d else (if up then 55 else 87) + d.
Fixpoint hex_render_fuel (up : bool) (fuel : nat) (n : N) (acc : bytes) : bytes :=
  match fuel with
  | O => acc
  | S f => let acc' := hex_digit up (n mod 16) :: acc in
           if n / 16 =? 0 then acc' else hex_render_fuel up f (n / 16) acc'
  end.
Definition hex_render (up : bool) (n : N) : bytes := hex_render_fuel up (S (N.to_nat (N.log2 n))) n [].

(* s is a non-empty string of hex digits (either case, leading zeros allowed) denoting n *)
Definition hex_str (s : bytes) (n : N) : Prop := s <> [] /\ Forall is_hex s /\ hex_digits 0 s = Some n.

Lemma hex_val_digit (up : bool) (d : N) : d < 16 -> hex_val (hex_digit up d) = Some d /\ is_hex (hex_digit up d).
Proof.
  intros Hd. unfold hex_val, hex_digit, is_hex, is_digit, digit.
  destruct (N.ltb_spec d 10).
  - destruct (N.leb_spec 48 (48 + d)); [|lia]. destruct (N.leb_spec (48 + d) 57); [|lia]. cbn [andb].
    split; [f_equal; lia|left; lia].
  - destruct up.
    + destruct (N.leb_spec 48 (55 + d)); [|lia]. destruct (N.leb_spec (55 + d) 57); [lia|]. cbn [andb].
      destruct (N.leb_spec 97 (55 + d)); [lia|]. cbn [andb].
      destruct (N.leb_spec 65 (55 + d)); [|lia]. destruct (N.leb_spec (55 + d) 70); [|lia]. cbn [andb].
      split; [f_equal; lia|right; right; lia].
    + destruct (N.leb_spec 48 (87 + d)); [|lia]. destruct (N.leb_spec (87 + d) 57); [lia|]. cbn [andb].
      destruct (N.leb_spec 97 (87 + d)); [|lia]. destruct (N.leb_spec (87 + d) 102); [|lia]. cbn [andb].
      split; [f_equal; lia|right; left; lia].
Qed.

Lemma hex_render_fuel_S (up : bool) (f : nat) (n : N) (acc : bytes) :
  hex_render_fuel up (S f) n acc =
  if n / 16 =? 0 then hex_digit up (n mod 16) :: acc
  else hex_render_fuel up f (n / 16) (hex_digit up (n mod 16) :: acc).
Proof. reflexivity. Qed.

Lemma hex_render_fuel_spec (up : bool) (f : nat) : forall (n : N) (acc : bytes), n < 2 ^ N.of_nat (S f) ->
  exists ds : bytes, hex_render_fuel up (S f) n acc = ds ++ acc /\ ds <> [] /\ Forall is_hex ds /\
    exists k : N, n < k /\ forall a rest, hex_digits a (ds ++ rest) = hex_digits (a * k + n) rest.
Proof.
  induction f as [|f IH]; intros n acc Hn; rewrite hex_render_fuel_S;
    assert (Hm : n mod 16 < 16) by lia;
    destruct (hex_val_digit up (n mod 16) Hm) as [Hv Hh];
    (destruct (N.eqb_spec (n / 16) 0) as [E|E];
     [ exists [hex_digit up (n mod 16)]; split; [reflexivity|]; split; [discriminate|];
       split; [constructor; [exact Hh|constructor]|];
       exists 16; split; [lia|]; intros a rest; cbn [app hex_digits]; rewrite Hv; f_equal; lia | ]).
  - exfalso. change (2 ^ N.of_nat 1) with 2 in Hn. lia.
  - assert (Hlt : n / 16 < 2 ^ N.of_nat (S f)).
    { rewrite (Nat2N.inj_succ (S f)), N.pow_succ_r' in Hn. lia. }
    destruct (IH (n / 16) (hex_digit up (n mod 16) :: acc) Hlt) as (ds & Eds & Hne & Hdig & k & Hk & Hval).
    exists (ds ++ [hex_digit up (n mod 16)]). split; [rewrite Eds, <- app_assoc; reflexivity|].
    split; [destruct ds; discriminate|].
    split; [apply Forall_app; split; [exact Hdig|constructor; [exact Hh|constructor]]|].
    exists (k * 16). split; [lia|]. intros a rest. rewrite <- app_assoc. rewrite Hval. cbn [app hex_digits].
    rewrite Hv. f_equal. lia.
Qed.

Lemma hex_render_str (up : bool) (n : N) : hex_str (hex_render up n) n.
Proof.
  unfold hex_render, hex_str.
  assert (Hn : n < 2 ^ N.of_nat (S (N.to_nat (N.log2 n)))).
  { rewrite Nat2N.inj_succ, N2Nat.id. destruct (N.eq_dec n 0) as [->|Hz]; [reflexivity|].
    apply N.log2_spec. lia. }
  destruct (hex_render_fuel_spec up (N.to_nat (N.log2 n)) n [] Hn) as (ds & Eds & Hne & Hdig & k & Hk & Hval).
  rewrite Eds, app_nil_r. split; [exact Hne|]. split; [exact Hdig|].
  specialize (Hval 0 []). rewrite app_nil_r in Hval. rewrite Hval. cbn [hex_digits].
  replace (0 * k + n) with n by lia. reflexivity.
Qed.

Lemma is_hex_nonws (b : N) : is_hex b -> nonws_ascii b.
Proof. unfold is_hex, digit, nonws_ascii. lia. Qed.

Lemma parse_usize_hex_str (s : bytes) (n : N) : hex_str s n -> n <= usize_max -> parse_usize_hex s = Some n.
Proof.
  intros (Hne & Hd & Hv) Hmax. unfold parse_usize_hex.
  destruct s as [|b s]; [contradiction|].
  inversion Hd as [|? ? Hb Hs]; subst.
  assert (H : b <> 43) by (unfold is_hex, digit in Hb; lia).
  assert (E : forall (A : Type) (x y : A), match b with 43 => x | _ => y end = y).
  { intros A x y. destruct b as [|p]; [reflexivity|].
    repeat (destruct p as [p|p|]; try reflexivity). exfalso. apply H. reflexivity. }
  cbn beta iota. rewrite !E.
  rewrite Hv. destruct (N.leb_spec n usize_max); [reflexivity|lia].
Qed.

(* the chunk-size line as the parser sees it: hex digits then CRLF; trim_end removes exactly the CRLF *)
Lemma trim_end_hex_crlf (s : bytes) (n : N) : hex_str s n -> trim_end (s ++ CRLF) = s.
Proof.
  intros (Hne & Hd & _).
  destruct (exists_last Hne) as (l & b & ->).
  apply trim_end_ws.
  - unfold CRLF, CR, LF, sws. repeat constructor; lia.
  - apply ws_suffix_len_rev_last. apply is_hex_nonws.
    rewrite Forall_forall in Hd. apply Hd. apply in_or_app. right. left. reflexivity.
Qed.

Lemma parse_usize_hex_line (s : bytes) (n : N) :
  hex_str s n -> n <= usize_max -> parse_usize_hex (trim_end (s ++ CRLF)) = Some n.
Proof. intros Hs Hn. rewrite (trim_end_hex_crlf s n Hs). apply parse_usize_hex_str; assumption. Qed.

Lemma parse_usize_hex_render (up : bool) (n : N) :
  n <= usize_max -> parse_usize_hex (trim_end (hex_render up n ++ CRLF)) = Some n.
Proof. apply parse_usize_hex_line, hex_render_str. Qed.

Lemma hex_ascii (s : bytes) : Forall is_hex s -> ascii s.
Proof. apply Forall_impl. unfold is_hex, digit. intros; lia. Qed.

Lemma hex_notin (s : bytes) (c : N) : Forall is_hex s -> c < 48 -> ~ In c s.
Proof.
  intros Hd Hc Hin. rewrite Forall_forall in Hd. specialize (Hd c Hin). unfold is_hex, digit in Hd. lia.
Qed.

(* ---- read_exact_flat ---- *)
Lemma read_exact_flat_app (d rest : bytes) : read_exact_flat (length d) (d ++ rest) = Some (d, rest).
Proof.
  unfold read_exact_flat. rewrite app_length.
  destruct (Nat.leb_spec (length d) (length d + length rest)); [|lia].
  replace (length d) with (length d + 0)%nat at 1 by lia.
  rewrite firstn_app_2, skipn_app. cbn [firstn]. rewrite app_nil_r.
  rewrite skipn_all, Nat.sub_diag. reflexivity.
Qed.

Lemma read_exact_flat_N_app (d rest : bytes) :
  read_exact_flat_N (N.of_nat (length d)) (d ++ rest) = Some (d, rest).
Proof.
  unfold read_exact_flat_N. rewrite app_length.
  destruct (N.ltb_spec (N.of_nat (length d + length rest)) (N.of_nat (length d))); [lia|].
  rewrite Nat2N.id. apply read_exact_flat_app.
Qed.

Lemma read_exact_flat_short (n : nat) (l : bytes) : (length l < n)%nat -> read_exact_flat n l = None.
Proof. intros H. unfold read_exact_flat. destruct (Nat.leb_spec n (length l)); [lia|reflexivity]. Qed.

Lemma read_exact_flat_N_short (n : N) (l : bytes) : N.of_nat (length l) < n -> read_exact_flat_N n l = None.
Proof. intros H. unfold read_exact_flat_N. destruct (N.ltb_spec (N.of_nat (length l)) n); [reflexivity|lia]. Qed.

Lemma read_exact_flat_2 (a b : N) (rest : bytes) : read_exact_flat 2 (a :: b :: rest) = Some ([a; b], rest).
Proof. reflexivity. Qed.
