(* Model of the static file handlers (C06): humphrey/src/route.rs try_find_path, humphrey/src/handlers.rs serve_dir and
   serve_as_file_path (same text in tokio/handlers.rs), humphrey-server/src/server/static.rs directory_handler, over an
   abstract file tree with POSIX path resolution (no symlinks). Paths are UTF-8 byte strings. Definitions only. *)
From Hv Require Import Prelude Bytes TablesHttp Http Percent.
Open Scope N_scope.

Definition SLASH : N := 47.
Definition DOT : N := 46.

(* ---- abstract file system ---- *)
Inductive node : Type :=
| File (content : bytes)
| Dir (entries : list (bytes * node)).

Fixpoint assoc_name (n : bytes) (es : list (bytes * node)) : option node :=
  match es with
  | [] => None
  | (k, v) :: es' => if beq n k then Some v else assoc_name n es'
  end.

(* node at a location (list of names from the file-system root) *)
Fixpoint node_at (fs : node) (loc : list bytes) : option node :=
  match loc with
  | [] => Some fs
  | n :: loc' => match fs with
                 | Dir es => match assoc_name n es with Some c => node_at c loc' | None => None end
                 | File _ => None
                 end
  end.

Definition is_dir (n : node) : bool := match n with Dir _ => true | File _ => false end.

(* POSIX resolution of a '/'-separated path string starting from location `cur` (a stack, innermost last).
   Every intermediate component must exist and be a directory; "" and "." are skipped; ".." goes to the parent
   (the root is its own parent). A NUL byte anywhere makes the call fail before any lookup (Rust: InvalidInput). *)
Fixpoint walk (fs : node) (cur : list bytes) (comps : list bytes) : option (list bytes) :=
  match comps with
  | [] => Some cur
  | c :: comps' =>
    match node_at fs cur with
    | Some (Dir _) =>
      if beq c [] || beq c [DOT] then walk fs cur comps'
      else if beq c [DOT; DOT] then walk fs (removelast cur) comps'
      else match node_at fs (cur ++ [c]) with
           | Some _ => walk fs (cur ++ [c]) comps'
           | None => None
           end
    | _ => None          (* ENOTDIR / ENOENT *)
    end
  end.

Definition has_nul (p : bytes) : bool := existsb (fun b => b =? 0) p.

(* resolve an absolute-from-model-root path string; a trailing slash requires the result to be a directory *)
Definition resolve (fs : node) (p : bytes) : option (list bytes) :=
  if has_nul p then None else
  match walk fs [] (split_on SLASH p) with
  | Some loc =>
    match node_at fs loc with
    | Some (File _) => if match rev p with 47 :: _ => true | _ => false end then None else Some loc
    | Some (Dir _) => Some loc
    | None => None
    end
  | None => None
  end.

(* ---- string helpers of the handlers ---- *)
Fixpoint contains_sub (sub l : bytes) : bool :=
  match l with
  | [] => match sub with [] => true | _ => false end
  | _ :: l' => (beq (firstn (length sub) l) sub) || contains_sub sub l'
  end.

Fixpoint trim_start_slashes (l : bytes) : bytes :=
  match l with 47 :: l' => trim_start_slashes l' | _ => l end.
Definition trim_end_slashes (l : bytes) : bytes := rev (trim_start_slashes (rev l)).

Definition ends_with_slash (l : bytes) : bool := match rev l with 47 :: _ => true | _ => false end.

Fixpoint strip_prefix (pre l : bytes) : option bytes :=
  match pre, l with
  | [], _ => Some l
  | a :: pre', b :: l' => if a =? b then strip_prefix pre' l' else None
  | _ :: _, [] => None
  end.

(* percent-decoding: the model of percent.rs proved in PercentProofs.v (C18) *)
Definition pct_decode (l : bytes) : option bytes := Percent.percent_decode l.

(* Path::extension of the last component: text after the last '.', unless the name has no '.' or only a leading one *)
Fixpoint last_dot_split (l : bytes) (acc_before : bytes) (cur : bytes) (seen : bool) : option (bytes * bytes) :=
  match l with
  | [] => if seen then Some (acc_before, cur) else None
  | c :: l' => if c =? DOT then last_dot_split l' (if seen then acc_before ++ [DOT] ++ cur else cur) [] true
               else last_dot_split l' acc_before (cur ++ [c]) seen
  end.
Definition extension (name : bytes) : option bytes :=
  match last_dot_split name [] [] false with
  | Some (before, ext) => match before with [] => None | _ => Some ext end
  | None => None
  end.

Definition mime_of_ext (e : bytes) : bytes :=
  match assoc_bytes e mime_table with Some m => m | None => mime_default end.

(* ---- handler results ---- *)
Inductive resp : Type :=
| R200 (body : bytes) (content_type : option bytes)
| R301 (location : bytes)
| R404
| R500
| RPanic.

Inductive located : Type := LDir | LFile (loc : list bytes).

Definition INDEX_FILES : list bytes := [[105;110;100;101;120;46;104;116;109;108]; [105;110;100;101;120;46;104;116;109]].

Fixpoint first_index (fs : node) (base : bytes) (files : list bytes) : option located :=
  match files with
  | [] => None
  | f :: files' =>
    match resolve fs (base ++ f) with
    | Some loc => match node_at fs loc with
                  | Some (File _) => Some (LFile loc)
                  | _ => first_index fs base files'
                  end
    | None => first_index fs base files'
    end
  end.

(* route.rs try_find_path; `directory` is the configured directory string (absolute in the model) *)
Definition try_find_path (fs : node) (directory request_path : bytes) : option located :=
  match pct_decode request_path with
  | None => None
  | Some dec =>
    if negb (utf8_valid dec) then None
    else if contains_sub [DOT; DOT] dec || contains_sub [58] dec then None
    else
      let rp := trim_start_slashes dec in
      let dir := trim_end_slashes directory in
      if ends_with_slash rp || match rp with [] => true | _ => false end then
        first_index fs (dir ++ [SLASH] ++ rp) INDEX_FILES
      else
        match resolve fs (dir ++ [SLASH] ++ rp) with
        | Some loc => match node_at fs loc with
                      | Some (File _) => Some (LFile loc)
                      | Some (Dir _) => Some LDir
                      | None => None
                      end
        | None => None
        end
  end.

Definition serve_loc (fs : node) (loc : list bytes) (always_ct : bool) : resp :=
  match node_at fs loc with
  | Some (File c) =>
    match extension (last loc []) with
    | Some e => R200 c (Some (mime_of_ext e))
    | None => R200 c (if always_ct then Some (mime_of_ext []) else None)
    end
  | _ => R500
  end.

(* handlers.rs serve_dir (path-aware route `route`) *)
Definition serve_dir (fs : node) (directory route uri : bytes) : resp :=
  let rw := match rev route with 42 :: r => rev r | _ => route end in
  let rest := match strip_prefix rw uri with Some r => r | None => uri end in
  match try_find_path fs directory rest with
  | Some LDir => R301 (uri ++ [SLASH])
  | Some (LFile loc) => serve_loc fs loc false
  | None => R404
  end.

(* static.rs directory_handler: strips as many characters as the route pattern has before its first '*' *)
Fixpoint literal_prefix_len (pat : bytes) : nat :=
  match pat with
  | [] => O
  | 42 :: _ => O
  | b :: pat' => if cont b then literal_prefix_len pat' else S (literal_prefix_len pat')   (* counts characters *)
  end.
Fixpoint skip_cont (l : bytes) : bytes :=
  match l with b :: r => if cont b then skip_cont r else l | [] => [] end.
(* String::remove(0) n times: None = the string ran out (the Rust call would panic) *)
Fixpoint drop_chars (n : nat) (l : bytes) : option bytes :=
  match n with
  | O => Some l
  | S n' => match l with
            | [] => None
            | _ :: l' => drop_chars n' (skip_cont l')
            end
  end.

Definition directory_handler (fs : node) (directory matches uri : bytes) : resp :=
  match drop_chars (literal_prefix_len matches) uri with
  | None => RPanic
  | Some rest =>
    match try_find_path fs directory rest with
    | Some LDir => R301 (uri ++ [SLASH])
    | Some (LFile loc) => serve_loc fs loc true
    | None => R404
    end
  end.

(* handlers.rs serve_as_file_path (after fix F14: a request path containing ".." or ':' is refused) *)
Definition serve_as_file_path (fs : node) (directory uri : bytes) : resp :=
  let dir := match rev directory with 47 :: r => rev r | _ => directory end in
  let fp := match uri with 47 :: r => r | _ => uri end in
  if contains_sub [DOT; DOT] fp || contains_sub [58] fp then R404 else
  let path := dir ++ [SLASH] ++ fp in
  match resolve fs path with
  | Some loc =>
    match node_at fs loc with
    | Some (File c) =>
      match extension (last (split_on SLASH path) []) with
      | Some e => R200 c (Some (mime_of_ext e))
      | None => R200 c None
      end
    | _ => R404
    end
  | None => R404
  end.

(* the same handler before the fix (F14) *)
Definition serve_as_file_path_old (fs : node) (directory uri : bytes) : resp :=
  let dir := match rev directory with 47 :: r => rev r | _ => directory end in
  let fp := match uri with 47 :: r => r | _ => uri end in
  let path := dir ++ [SLASH] ++ fp in
  match resolve fs path with
  | Some loc => match node_at fs loc with Some (File c) => R200 c None | _ => R404 end
  | None => R404
  end.
