(* C04 in use: consequences of the routing rule that a person configuring routes relies on. *)
From Coq Require Import Lia.
From Hv Require Import Prelude Krauss KraussProofs Routing RoutingProofs.
Open Scope N_scope.

Lemma find_index_app_hit {A} (f : A -> bool) l1 l2 k i x :
  find_index f l1 k = Some (i, x) -> find_index f (l1 ++ l2) k = Some (i, x).
Proof.
  revert k. induction l1 as [|a l IH]; intros k H; cbn [find_index app] in *; [discriminate|].
  destruct (f a); [exact H|now apply IH].
Qed.

Lemma find_index_none_app {A} (f : A -> bool) l1 l2 k :
  find_index f l1 k = None -> find_index f (l1 ++ l2) k = find_index f l2 (k + length l1).
Proof.
  revert k. induction l1 as [|a l IH]; intros k H; cbn [find_index app length] in *.
  - now rewrite Nat.add_0_r.
  - destruct (f a); [discriminate|]. rewrite (IH _ H). f_equal. lia.
Qed.

(* without a Host header only the default application's routes are looked at *)
Theorem no_host_header_uses_default subapps default uri :
  get_handler subapps default None uri =
  match find_index (fun r => wildcard_match r uri) (sa_routes default) 0 with
  | Some (j, _) => Some (InDefault j) | None => None end.
Proof. reflexivity. Qed.

(* routes registered later never take a request away from a route registered earlier (default application) *)
Theorem later_default_route_does_not_shadow subapps h routes more uri j :
  get_handler subapps {| sa_host := h; sa_routes := routes |} None uri = Some (InDefault j) ->
  get_handler subapps {| sa_host := h; sa_routes := routes ++ more |} None uri = Some (InDefault j).
Proof.
  rewrite !no_host_header_uses_default. cbn [sa_routes].
  destruct (find_index _ routes 0) as [[j0 p]|] eqn:F; [|discriminate].
  intro H. injection H as <-. now rewrite (find_index_app_hit _ routes more 0 j0 p F).
Qed.

(* host sub-applications registered later never take a request away from one registered earlier *)
Theorem later_host_does_not_shadow subapps more default h uri i j :
  get_handler subapps default (Some h) uri = Some (InSub i j) ->
  get_handler (subapps ++ more) default (Some h) uri = Some (InSub i j).
Proof.
  unfold get_handler.
  destruct (find_index (fun s => wildcard_match (sa_host s) h) subapps 0) as [[i0 s]|] eqn:FH.
  - rewrite (find_index_app_hit _ subapps more 0 i0 s FH).
    destruct (find_index _ (sa_routes s) 0) as [[j0 p]|]; [now intro H|].
    destruct (find_index _ (sa_routes default) 0) as [[j1 p1]|]; discriminate.
  - destruct (find_index _ (sa_routes default) 0) as [[j1 p1]|]; discriminate.
Qed.

(* a matching host whose routes do not match falls through to the default application, never to another host *)
Theorem host_without_route_falls_to_default subapps default h uri i s :
  find_index (fun s => wildcard_match (sa_host s) h) subapps 0 = Some (i, s) ->
  find_index (fun r => wildcard_match r uri) (sa_routes s) 0 = None ->
  get_handler subapps default (Some h) uri = get_handler subapps default None uri.
Proof. intros FH FR. unfold get_handler. now rewrite FH, FR. Qed.

(* the query string and everything else about the request play no part: the choice is a function of the Host value and
   the path alone - stated as: equal Host value and path, equal choice (whatever else differs) *)
Theorem choice_function_of_host_and_path subapps default h1 h2 u1 u2 :
  h1 = h2 -> u1 = u2 -> get_handler subapps default h1 u1 = get_handler subapps default h2 u2.
Proof. now intros -> ->. Qed.
