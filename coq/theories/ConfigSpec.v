(* Specification side of C15: the documented configuration syntax as a decorated item tree (what is written + how it is laid
   out), its rendering to file texts, and the abstract configuration a file describes. Definitions only.

   Layers:
     value / skind / sitem   what is said: typed values, section kinds, the layout-free item tree
     deco / item             how it is laid out: indentation, key/value gap, trailing blanks, comments, blank and comment
                             lines, splitting of any run of items into an include file (recursively), LF or CRLF per file
     render_*                items -> lines -> file text, and the file system the include directives need
     entry / conf / denote   the abstract configuration: an ordered list of typed settings (order is free), hosts and routes *)
From Hv Require Import Prelude Bytes TablesConfig Config.
Open Scope N_scope.

(* ---------------------------------------------------------------------------------------------- values *)
Inductive value : Type :=
| VStr (s : bytes)            (* "s" *)
| VInt (n : N)                (* decimal integer *)
| VBool (b : bool)            (* true / false *)
| VSize (n : N) (u : N).      (* <n><unit letter> *)

Definition render_value (v : value) : bytes :=
  match v with
  | VStr s => QUOTE :: s ++ [QUOTE]
  | VInt n => dec_render n
  | VBool true => kw_true
  | VBool false => kw_false
  | VSize n u => dec_render n ++ [u]
  end.

Definition unit_mult (u : N) : option Z := assoc_n (upper_byte u) size_units.

(* the number a size literal denotes *)
Definition size_value (n u : N) : N :=
  match unit_mult u with Some m => n * Z.to_N m | None => n end.

Definition node_of_value (key : bytes) (v : value) : node :=
  match v with
  | VStr s => NStr key s
  | VInt n => NNum key (dec_render n)
  | VBool b => NBool key (render_value (VBool b))
  | VSize n u => NNum key (dec_render (size_value n u))
  end.

(* ---------------------------------------------------------------------------------------------- sections *)
Inductive skind : Type :=
| KPlain (name : bytes)                  (* name { *)
| KRoute (pats : bytes)                  (* route <comma-separated patterns> { *)
| KHost (name : bytes) (quoted : bool).  (* host "name" {   or   host name { *)

Definition sec_name (k : skind) : bytes :=
  match k with KPlain n => n | KRoute p => p | KHost n _ => n end.

Definition sec_node (k : skind) (cs : list node) : node :=
  match k with
  | KPlain n => NSec n cs
  | KRoute p => NRoute p cs
  | KHost n _ => NHost n cs
  end.

(* w = blanks between the keyword's space and the name *)
Definition header_text (k : skind) (w : bytes) : bytes :=
  match k with
  | KPlain name => name
  | KRoute pats => kw_route_sp ++ w ++ pats
  | KHost name true => kw_host_sp ++ w ++ QUOTE :: name ++ [QUOTE]
  | KHost name false => kw_host_sp ++ w ++ name
  end.

(* ---------------------------------------------------------------------------------------------- layout *)
Record deco := { d_indent : bytes; d_trail : bytes; d_comment : option bytes }.

Definition line_of (d : deco) (text : bytes) : bytes :=
  d_indent d ++ text ++ d_trail d ++ match d_comment d with Some c => HASH :: c | None => [] end.

Inductive item : Type :=
| IKv (d : deco) (key : bytes) (g1 g2 : bytes) (v : value)
    (* key, tabs g1, one space, blanks g2, value *)
| ISec (d : deco) (k : skind) (w1 w2 : bytes) (body : list item) (dclose : deco)
    (* header (w1 after the keyword, w2 before the brace), body, closing brace line *)
| IInc (d : deco) (g1 g2 : bytes) (path : bytes) (body : list item) (crlf : bool)
    (* include "path"; the file `path` holds `body` with the given line ending *)
| IBlank (d : deco)
    (* blank or comment-only line *)
| IRaw (line : bytes).
    (* an arbitrary line: only used to state the single-fault theorems *)

Definition kv_text (key g1 g2 vtext : bytes) : bytes := key ++ g1 ++ SP :: g2 ++ vtext.

Fixpoint render_item (it : item) : list bytes :=
  match it with
  | IKv d key g1 g2 v => [line_of d (kv_text key g1 g2 (render_value v))]
  | ISec d k w1 w2 body dc =>
    line_of d (header_text k w1 ++ w2 ++ [LBRACE]) :: flat_map render_item body ++ [line_of dc [RBRACE]]
  | IInc d g1 g2 path _ _ => [line_of d (kv_text kw_include g1 g2 (QUOTE :: path ++ [QUOTE]))]
  | IBlank d => [line_of d []]
  | IRaw l => [l]
  end.
Definition render_items (its : list item) : list bytes := flat_map render_item its.

Definition eol (crlf : bool) : bytes := if crlf then [CR; LF] else [LF].
Definition file_text (crlf : bool) (ls : list bytes) : bytes := flat_map (fun l => l ++ eol crlf) ls.

(* the syntax tree a list of items describes (include boundaries, decoration and blank lines vanish) *)
Fixpoint denote_item (it : item) : list node :=
  match it with
  | IKv _ key _ _ v => [node_of_value key v]
  | ISec _ k _ _ body _ => [sec_node k (flat_map denote_item body)]
  | IInc _ _ _ _ body _ => flat_map denote_item body
  | IBlank _ => []
  | IRaw _ => []
  end.
Definition denote_items (its : list item) : list node := flat_map denote_item its.

(* the main file: optional blank/comment lines, `server {`, the items, `}`, optional blank/comment lines *)
Record main_layout := {
  m_before : list deco;
  m_open : deco; m_open_w : bytes;     (* blanks between "server" and the brace: exactly one space is required *)
  m_close : deco;
  m_after : list deco;
  m_crlf : bool }.

Definition server_line (m : main_layout) : bytes := line_of (m_open m) kw_server_open.

Definition main_lines (m : main_layout) (its : list item) : list bytes :=
  map (fun d => line_of d []) (m_before m) ++ server_line m :: render_items its ++
  line_of (m_close m) [RBRACE] :: map (fun d => line_of d []) (m_after m).

Definition render_main (m : main_layout) (its : list item) : bytes := file_text (m_crlf m) (main_lines m its).

(* the files behind the include directives: each holds the rendering of its items and is UTF-8 (read_to_string) *)
Fixpoint files_ok (files : bytes -> fentry) (it : item) : Prop :=
  match it with
  | ISec _ _ _ _ body _ => fold_right (fun i P => files_ok files i /\ P) True body
  | IInc _ _ _ path body crlf =>
    files path = FData (file_text crlf (render_items body)) /\ utf8_valid (file_text crlf (render_items body)) = true /\
    fold_right (fun i P => files_ok files i /\ P) True body
  | _ => True
  end.
Definition all_files_ok (files : bytes -> fentry) (its : list item) : Prop :=
  fold_right (fun i P => files_ok files i /\ P) True its.

(* nesting used by an item: sections and include files count alike *)
Fixpoint item_depth (it : item) : nat :=
  match it with
  | ISec _ _ _ _ body _ | IInc _ _ _ _ body _ => S (fold_right (fun i m => Nat.max (item_depth i) m) 0%nat body)
  | _ => 0%nat
  end.
Definition items_depth (its : list item) : nat := fold_right (fun i m => Nat.max (item_depth i) m) 0%nat its.

(* ---------------------------------------------------------------------------------------------- well-formedness *)
Definition blankb (w : bytes) : bool := forallb (fun b => (b =? 32) || (b =? 9)) w.
Definition tabsb (w : bytes) : bool := forallb (fun b => b =? 9) w.
(* may appear in any text of a line: no comment character, no line break *)
Definition plainb (s : bytes) : bool := forallb (fun b => negb (b =? 35) && negb (b =? 10) && negb (b =? 13)) s.
(* key / section-name characters: visible ASCII except '#' *)
Definition keycharb (b : N) : bool := (33 <=? b) && (b <=? 126) && negb (b =? 35).
Definition keyb (k : bytes) : bool := match k with [] => false | _ => forallb keycharb k end.
(* begins and ends with a visible ASCII character (so str::trim leaves it alone); anything may stand in between *)
Definition visb (b : N) : bool := (33 <=? b) && (b <=? 126).
Definition vis_ends (s : bytes) : Prop := s <> [] /\ visb (hd 0 s) = true /\ visb (last s 0) = true.

Definition wf_deco (d : deco) : Prop :=
  blankb (d_indent d) = true /\ blankb (d_trail d) = true /\
  match d_comment d with Some c => forallb (fun b => negb (b =? 10) && negb (b =? 13)) c = true | None => True end.

(* quoted strings: UTF-8 text without the comment character, the double quote and line breaks (DESIGN scope note) *)
Definition wf_str (s : bytes) : Prop :=
  utf8_valid s = true /\ plainb s = true /\ forallb (fun b => negb (b =? 34)) s = true.

Definition wf_value (v : value) : Prop :=
  match v with
  | VStr s => wf_str s
  | VInt n => (Z.of_N n <= i64_max)%Z
  | VBool _ => True
  | VSize n u => exists m, unit_mult u = Some m /\ (Z.of_N n * m <= i64_max)%Z
  end.

Definition wf_kind (k : skind) : Prop :=
  match k with
  | KPlain name => keyb name = true
  | KRoute pats => vis_ends pats /\ plainb pats = true /\ pats <> [LBRACE]
  | KHost name true => plainb name = true
  | KHost name false => vis_ends name /\ plainb name = true /\ name <> [LBRACE] /\ hd 0 name <> QUOTE
  end.

Fixpoint wf_item (it : item) : Prop :=
  match it with
  | IKv d key g1 g2 v =>
    wf_deco d /\ keyb key = true /\ key <> kw_include /\ tabsb g1 = true /\ blankb g2 = true /\ wf_value v
  | ISec d k w1 w2 body dc =>
    wf_deco d /\ wf_deco dc /\ wf_kind k /\ blankb w1 = true /\ blankb w2 = true /\
    fold_right (fun i P => wf_item i /\ P) True body
  | IInc d g1 g2 path body _ =>
    wf_deco d /\ tabsb g1 = true /\ blankb g2 = true /\ wf_str path /\
    fold_right (fun i P => wf_item i /\ P) True body
  | IBlank d => wf_deco d
  | IRaw _ => False
  end.
Definition wf_items (its : list item) : Prop := fold_right (fun i P => wf_item i /\ P) True its.

Definition wf_main (m : main_layout) : Prop :=
  Forall wf_deco (m_before m) /\ wf_deco (m_open m) /\ wf_deco (m_close m) /\ Forall wf_deco (m_after m).

(* ---------------------------------------------------------------------------------------------- single-fault files *)
(* what makes a line a syntax error on its own (whatever surrounds it): no trailing brace, not a closing brace, not blank,
   and no space (E_Syntax) / an untypable value (E_Value) / an unquoted include argument (E_IncValue) *)
Definition bad_line (raw : bytes) : option N :=
  let line := clean_up raw in
  match strip_suffix_byte LBRACE line with
  | Some _ => None
  | None =>
    if beq line [RBRACE] then None
    else match line with
         | [] => None
         | _ =>
           match split_once SP line with
           | None => Some E_Syntax
           | Some (a, b) =>
             if negb (beq (trim a) kw_include) then
               match type_value (trim a) (trim b) with Err c => Some c | _ => None end
             else if is_quoted (trim b) then None else Some E_IncValue
           end
         end
  end.

(* items in which raw lines are allowed, provided each is bad on its own *)
Fixpoint wf_item_bad (it : item) : Prop :=
  match it with
  | IKv d key g1 g2 v =>
    wf_deco d /\ keyb key = true /\ key <> kw_include /\ tabsb g1 = true /\ blankb g2 = true /\ wf_value v
  | ISec d k w1 w2 body dc =>
    wf_deco d /\ wf_deco dc /\ wf_kind k /\ blankb w1 = true /\ blankb w2 = true /\
    fold_right (fun i P => wf_item_bad i /\ P) True body
  | IInc d g1 g2 path body _ =>
    wf_deco d /\ tabsb g1 = true /\ blankb g2 = true /\ wf_str path /\
    fold_right (fun i P => wf_item_bad i /\ P) True body
  | IBlank d => wf_deco d
  | IRaw l => bad_line l <> None /\ forallb (fun b => negb (b =? 10) && negb (b =? 13)) l = true
  end.
Definition wf_items_bad (its : list item) : Prop := fold_right (fun i P => wf_item_bad i /\ P) True its.

(* where the first bad line is: inl = no bad line, current_line afterwards; inr = the error the loader must report.
   file = the file being read; lines of an included file are counted from 0 in that file *)
Fixpoint scan_item (file : bytes) (it : item) (ln : N) : N + cerr :=
  match it with
  | IRaw l => match bad_line l with Some c => inr (mkerr c file (ln + 1)) | None => inl (ln + 1) end
  | ISec _ _ _ _ body _ =>
    match (fix go (its : list item) (ln : N) : N + cerr :=
             match its with
             | [] => inl ln
             | i :: r => match scan_item file i ln with inl ln' => go r ln' | inr e => inr e end
             end) body (ln + 1) with
    | inl ln' => inl (ln' + 1)
    | inr e => inr e
    end
  | IInc _ _ _ path body _ =>
    match (fix go (its : list item) (ln : N) : N + cerr :=
             match its with
             | [] => inl ln
             | i :: r => match scan_item path i ln with inl ln' => go r ln' | inr e => inr e end
             end) body 0 with
    | inl _ => inl (ln + 1)
    | inr e => inr e
    end
  | _ => inl (ln + 1)
  end.
Fixpoint scan_items (file : bytes) (its : list item) (ln : N) : N + cerr :=
  match its with
  | [] => inl ln
  | i :: r => match scan_item file i ln with inl ln' => scan_items file r ln' | inr e => inr e end
  end.

(* ---------------------------------------------------------------------------------------------- what a file says *)
(* the layout-free content of an item tree: decoration, blank lines and include boundaries removed *)
Inductive sitem : Type :=
| SKv (key : bytes) (v : value)
| SSec (k : skind) (body : list sitem).

Fixpoint skeleton_item (it : item) : list sitem :=
  match it with
  | IKv _ key _ _ v => [SKv key v]
  | ISec _ k _ _ body _ => [SSec k (flat_map skeleton_item body)]
  | IInc _ _ _ _ body _ => flat_map skeleton_item body
  | IBlank _ => []
  | IRaw _ => []
  end.
Definition skeleton (its : list item) : list sitem := flat_map skeleton_item its.

Fixpoint snode (s : sitem) : node :=
  match s with
  | SKv k v => node_of_value k v
  | SSec k body => sec_node k (map snode body)
  end.

(* the value given to `key` directly in a section body; if it is given several times the last one counts *)
Fixpoint kv_last (key : bytes) (ss : list sitem) : option value :=
  match ss with
  | [] => None
  | s :: r =>
    match kv_last key r with
    | Some v => Some v
    | None => match s with SKv k v => if beq k key then Some v else None | SSec _ _ => None end
    end
  end.

(* the bodies of all plain sections called `name`, in file order *)
Definition sub_bodies (name : bytes) (ss : list sitem) : list sitem :=
  flat_map (fun s => match s with SSec (KPlain n) body => if beq n name then body else [] | _ => [] end) ss.

Definition str_val (o : option value) : option bytes := match o with Some (VStr s) => Some s | _ => None end.
Definition num_val (o : option value) : option N :=
  match o with Some (VInt n) => Some n | Some (VSize n u) => Some (size_value n u) | _ => None end.
Definition bool_val (o : option value) : option bool := match o with Some (VBool b) => Some b | _ => None end.
Definition or_default {A} (o : option A) (d : A) : A := match o with Some a => a | None => d end.

Definition k_file : bytes := [102; 105; 108; 101].
Definition k_directory : bytes := [100; 105; 114; 101; 99; 116; 111; 114; 121].
Definition k_redirect : bytes := [114; 101; 100; 105; 114; 101; 99; 116].

(* the routes a `route` section describes: one per comma-separated pattern, all with the same target.
   The target is the file, directory, proxy (target list, load balancer mode) or redirect entry; a route with only a
   websocket entry proxies WebSocket connections. *)
Definition denote_route (pats : bytes) (rbody : list sitem) : list route_cfg :=
  let ws := str_val (kv_last rkey_websocket rbody) in
  let mk (ty : N) (path : option bytes) (lb : option (list bytes * N)) : list route_cfg :=
    map (fun p => {| rt_type := ty; rt_matches := p; rt_path := path; rt_lb := lb; rt_ws := ws |})
        (map trim (split_on COMMA pats)) in
  match str_val (kv_last k_file rbody), str_val (kv_last k_directory rbody), str_val (kv_last rkey_proxy rbody),
        str_val (kv_last k_redirect rbody) with
  | Some p, _, _, _ => mk RT_File (Some p) None
  | None, Some p, _, _ => mk RT_Directory (Some p) None
  | None, None, Some t, _ =>
    mk RT_Proxy None
       (Some (split_on COMMA t,
              or_default (assoc_b (or_default (str_val (kv_last rkey_lb_mode rbody)) default_lb_mode) lb_mode_table) 0))
  | None, None, None, Some p => mk RT_Redirect (Some p) None
  | None, None, None, None => mk RT_ExclusiveWebSocket None None
  end.

Definition denote_routes (ss : list sitem) : list route_cfg :=
  flat_map (fun s => match s with SSec (KRoute pats) rbody => denote_route pats rbody | _ => [] end) ss.

Definition denote_hosts (ss : list sitem) : list host_cfg :=
  flat_map (fun s => match s with
                     | SSec (KHost name _) body => [{| hc_matches := name; hc_routes := denote_routes body |}]
                     | _ => []
                     end) ss.

Definition k_address : bytes := [97; 100; 100; 114; 101; 115; 115].
Definition k_port : bytes := [112; 111; 114; 116].
Definition k_threads : bytes := [116; 104; 114; 101; 97; 100; 115].
Definition k_timeout : bytes := [116; 105; 109; 101; 111; 117; 116].
Definition k_websocket : bytes := [119; 101; 98; 115; 111; 99; 107; 101; 116].
Definition k_blacklist : bytes := [98; 108; 97; 99; 107; 108; 105; 115; 116].
Definition k_mode : bytes := [109; 111; 100; 101].
Definition k_log : bytes := [108; 111; 103].
Definition k_level : bytes := [108; 101; 118; 101; 108].
Definition k_console : bytes := [99; 111; 110; 115; 111; 108; 101].
Definition k_cache : bytes := [99; 97; 99; 104; 101].
Definition k_size : bytes := [115; 105; 122; 101].
Definition k_time : bytes := [116; 105; 109; 101].

(* The configuration the body `ss` of the server section describes. bl = the addresses in the blacklist file (loading
   that file is left to the model's load_blacklist; see wf_conf). Every omitted key is at its default (TablesConfig). *)
Definition denote (bl : list bytes) (ss : list sitem) : config :=
  let timeout := or_default (num_val (kv_last k_timeout ss)) default_timeout in
  {| cf_address := or_default (str_val (kv_last k_address ss)) default_address;
     cf_port := or_default (num_val (kv_last k_port ss)) default_port;
     cf_threads := or_default (num_val (kv_last k_threads ss)) default_threads;
     cf_websocket := str_val (kv_last k_websocket ss);
     cf_timeout := if 0 <? timeout then Some timeout else None;
     cf_bl_list := bl;
     cf_bl_mode := or_default (assoc_b (or_default (str_val (kv_last k_mode (sub_bodies k_blacklist ss))) default_blacklist_mode)
                                       blacklist_mode_table) 0;
     cf_log_level := or_default (match str_val (kv_last k_level (sub_bodies k_log ss)) with
                                 | Some l => parse_log_level l | None => None end) default_log_level;
     cf_log_console := or_default (bool_val (kv_last k_console (sub_bodies k_log ss))) default_log_console;
     cf_log_file := str_val (kv_last k_file (sub_bodies k_log ss));
     cf_cache_size := or_default (num_val (kv_last k_size (sub_bodies k_cache ss))) default_cache_size;
     cf_cache_time := or_default (num_val (kv_last k_time (sub_bodies k_cache ss))) default_cache_time;
     cf_default_host := {| hc_matches := default_host_matches; hc_routes := denote_routes ss |};
     cf_hosts := denote_hosts ss |}.

(* ---- validity of what is said (the validation rules of Config::from_tree, as conditions on the description) ---- *)
Definition dotfree (k : bytes) : Prop := ~ In 46 k.
Definition is_str (o : option value) : Prop := match o with Some (VStr _) | None => True | _ => False end.
Definition is_num_le (max : N) (o : option value) : Prop :=
  match o with Some (VInt n) => n <= max | Some (VSize n u) => size_value n u <= max | None => True | _ => False end.
Definition is_int_le (max : N) (o : option value) : Prop := match o with Some (VInt n) => n <= max | None => True | _ => False end.
Definition is_bool (o : option value) : Prop := match o with Some (VBool _) | None => True | _ => False end.

Fixpoint wf_sitem (s : sitem) : Prop :=
  match s with
  | SKv k v => wf_value v
  | SSec _ body => fold_right (fun i P => wf_sitem i /\ P) True body
  end.

(* a route section: entries only, string-valued targets, exactly the documented combinations *)
Definition wf_route (rbody : list sitem) : Prop :=
  Forall (fun s => match s with SKv _ _ => True | SSec _ _ => False end) rbody /\
  is_str (kv_last k_file rbody) /\ is_str (kv_last k_directory rbody) /\ is_str (kv_last rkey_proxy rbody) /\
  is_str (kv_last k_redirect rbody) /\ is_str (kv_last rkey_websocket rbody) /\ is_str (kv_last rkey_lb_mode rbody) /\
  (* a target or a websocket entry *)
  (kv_last k_file rbody <> None \/ kv_last k_directory rbody <> None \/ kv_last rkey_proxy rbody <> None \/
   kv_last k_redirect rbody <> None \/ kv_last rkey_websocket rbody <> None) /\
  (* a valid load balancer mode wherever the route is a proxy route *)
  (kv_last k_file rbody = None -> kv_last k_directory rbody = None -> kv_last rkey_proxy rbody <> None ->
   assoc_b (or_default (str_val (kv_last rkey_lb_mode rbody)) default_lb_mode) lb_mode_table <> None).

Definition wf_routes (ss : list sitem) : Prop :=
  Forall (fun s => match s with SSec (KRoute _) rbody => wf_route rbody | _ => True end) ss.

Definition wf_conf (ipp : bytes -> option bytes) (files : bytes -> fentry) (bl : list bytes) (ss : list sitem) : Prop :=
  (* keys and section names at the top level contain no dot (documented names have none) *)
  Forall (fun s => match s with SKv k _ => dotfree k | SSec (KPlain n) _ => dotfree n | _ => True end) ss /\
  is_str (kv_last k_address ss) /\ is_int_le 65535 (kv_last k_port ss) /\
  is_int_le usize_max (kv_last k_threads ss) /\ or_default (num_val (kv_last k_threads ss)) default_threads >= min_threads /\
  is_int_le usize_max (kv_last k_timeout ss) /\ is_str (kv_last k_websocket ss) /\
  is_str (kv_last k_file (sub_bodies k_blacklist ss)) /\
  load_blacklist ipp files (str_val (kv_last k_file (sub_bodies k_blacklist ss))) = ROk bl /\
  is_str (kv_last k_mode (sub_bodies k_blacklist ss)) /\
  assoc_b (or_default (str_val (kv_last k_mode (sub_bodies k_blacklist ss))) default_blacklist_mode) blacklist_mode_table <> None /\
  is_str (kv_last k_level (sub_bodies k_log ss)) /\
  (forall l, str_val (kv_last k_level (sub_bodies k_log ss)) = Some l -> parse_log_level l <> None) /\
  is_bool (kv_last k_console (sub_bodies k_log ss)) /\ is_str (kv_last k_file (sub_bodies k_log ss)) /\
  is_num_le usize_max (kv_last k_size (sub_bodies k_cache ss)) /\ is_int_le usize_max (kv_last k_time (sub_bodies k_cache ss)) /\
  wf_routes ss /\
  Forall (fun s => match s with SSec (KHost _ _) body => wf_routes body | _ => True end) ss.

(* ---------------------------------------------------------------------------------------------- pattern lists *)
(* the text of a comma-separated pattern list: first pattern, then (blanks, comma, blanks, pattern) for each further one *)
Fixpoint pats_text (p : bytes) (rest : list (bytes * bytes * bytes)) : bytes :=
  match rest with
  | [] => p
  | (w1, w2, q) :: rest' => p ++ w1 ++ COMMA :: w2 ++ pats_text q rest'
  end.
Definition wf_pattern (p : bytes) : Prop := vis_ends p /\ ~ In COMMA p.
