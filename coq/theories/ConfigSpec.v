(* Specification side of C15: the documented configuration syntax as a decorated item tree (what is written + how it is laid
   out), its rendering to file texts, and the abstract configuration a file describes. Definitions only.

   Layers:
     value / skind / sitem   what is said: typed values, section kinds, the layout-free item tree
     deco / item             how it is laid out: indentation, key/value gap, trailing blanks, comments, blank and comment
                             lines, splitting of any run of items into an include file (recursively), LF or CRLF per file
     render_*                items -> lines -> file text, and the file system the include directives need
     entry / conf / denote   the abstract configuration: an ordered list of typed settings (order is free), hosts and routes *)
From Hv Require Import Prelude Bytes TablesConfig Config.
Open Scope N_scope.

(* ---------------------------------------------------------------------------------------------- values *)
Inductive value : Type :=
| VStr (s : bytes)            (* "s" *)
| VInt (n : N)                (* decimal integer *)
| VBool (b : bool)            (* true / false *)
| VSize (n : N) (u : N).      (* <n><unit letter> *)

Definition render_value (v : value) : bytes :=
  match v with
  | VStr s => QUOTE :: s ++ [QUOTE]
  | VInt n => dec_render n
  | VBool true => kw_true
  | VBool false => kw_false
  | VSize n u => dec_render n ++ [u]
  end.

Definition unit_mult (u : N) : option Z := assoc_n (upper_byte u) size_units.

(* the number a size literal denotes *)
Definition size_value (n u : N) : N :=
  match unit_mult u with Some m => n * Z.to_N m | None => n end.

Definition node_of_value (key : bytes) (v : value) : node :=
  match v with
  | VStr s => NStr key s
  | VInt n => NNum key (dec_render n)
  | VBool b => NBool key (render_value (VBool b))
  | VSize n u => NNum key (dec_render (size_value n u))
  end.

(* ---------------------------------------------------------------------------------------------- sections *)
Inductive skind : Type :=
| KPlain (name : bytes)                  (* name { *)
| KRoute (pats : bytes)                  (* route <comma-separated patterns> { *)
| KHost (name : bytes) (quoted : bool).  (* host "name" {   or   host name { *)

Definition sec_name (k : skind) : bytes :=
  match k with KPlain n => n | KRoute p => p | KHost n _ => n end.

Definition sec_node (k : skind) (cs : list node) : node :=
  match k with
  | KPlain n => NSec n cs
  | KRoute p => NRoute p cs
  | KHost n _ => NHost n cs
  end.

(* w = blanks between the keyword's space and the name *)
Definition header_text (k : skind) (w : bytes) : bytes :=
  match k with
  | KPlain name => name
  | KRoute pats => kw_route_sp ++ w ++ pats
  | KHost name true => kw_host_sp ++ w ++ QUOTE :: name ++ [QUOTE]
  | KHost name false => kw_host_sp ++ w ++ name
  end.

(* ---------------------------------------------------------------------------------------------- layout *)
Record deco := { d_indent : bytes; d_trail : bytes; d_comment : option bytes }.

Definition line_of (d : deco) (text : bytes) : bytes :=
  d_indent d ++ text ++ d_trail d ++ match d_comment d with Some c => HASH :: c | None => [] end.

Inductive item : Type :=
| IKv (d : deco) (key : bytes) (g1 g2 : bytes) (v : value)
    (* key, tabs g1, one space, blanks g2, value *)
| ISec (d : deco) (k : skind) (w1 w2 : bytes) (body : list item) (dclose : deco)
    (* header (w1 after the keyword, w2 before the brace), body, closing brace line *)
| IInc (d : deco) (g1 g2 : bytes) (path : bytes) (body : list item) (crlf : bool)
    (* include "path"; the file `path` holds `body` with the given line ending *)
| IBlank (d : deco)
    (* blank or comment-only line *)
| IRaw (line : bytes).
    (* an arbitrary line: only used to state the single-fault theorems *)

Definition kv_text (key g1 g2 vtext : bytes) : bytes := key ++ g1 ++ SP :: g2 ++ vtext.

Fixpoint render_item (it : item) : list bytes :=
  match it with
  | IKv d key g1 g2 v => [line_of d (kv_text key g1 g2 (render_value v))]
  | ISec d k w1 w2 body dc =>
    line_of d (header_text k w1 ++ w2 ++ [LBRACE]) :: flat_map render_item body ++ [line_of dc [RBRACE]]
  | IInc d g1 g2 path _ _ => [line_of d (kv_text kw_include g1 g2 (QUOTE :: path ++ [QUOTE]))]
  | IBlank d => [line_of d []]
  | IRaw l => [l]
  end.
Definition render_items (its : list item) : list bytes := flat_map render_item its.

Definition eol (crlf : bool) : bytes := if crlf then [CR; LF] else [LF].
Definition file_text (crlf : bool) (ls : list bytes) : bytes := flat_map (fun l => l ++ eol crlf) ls.

(* the syntax tree a list of items describes (include boundaries, decoration and blank lines vanish) *)
Fixpoint denote_item (it : item) : list node :=
  match it with
  | IKv _ key _ _ v => [node_of_value key v]
  | ISec _ k _ _ body _ => [sec_node k (flat_map denote_item body)]
  | IInc _ _ _ _ body _ => flat_map denote_item body
  | IBlank _ => []
  | IRaw _ => []
  end.
Definition denote_items (its : list item) : list node := flat_map denote_item its.

(* the main file: optional blank/comment lines, `server {`, the items, `}`, optional blank/comment lines *)
Record main_layout := {
  m_before : list deco;
  m_open : deco; m_open_w : bytes;     (* blanks between "server" and the brace: exactly one space is required *)
  m_close : deco;
  m_after : list deco;
  m_crlf : bool }.

Definition server_line (m : main_layout) : bytes := line_of (m_open m) kw_server_open.

Definition main_lines (m : main_layout) (its : list item) : list bytes :=
  map (fun d => line_of d []) (m_before m) ++ server_line m :: render_items its ++
  line_of (m_close m) [RBRACE] :: map (fun d => line_of d []) (m_after m).

Definition render_main (m : main_layout) (its : list item) : bytes := file_text (m_crlf m) (main_lines m its).

(* the files behind the include directives: each holds the rendering of its items and is UTF-8 (read_to_string) *)
Fixpoint files_ok (files : bytes -> fentry) (it : item) : Prop :=
  match it with
  | ISec _ _ _ _ body _ => fold_right (fun i P => files_ok files i /\ P) True body
  | IInc _ _ _ path body crlf =>
    files path = FData (file_text crlf (render_items body)) /\ utf8_valid (file_text crlf (render_items body)) = true /\
    fold_right (fun i P => files_ok files i /\ P) True body
  | _ => True
  end.
Definition all_files_ok (files : bytes -> fentry) (its : list item) : Prop :=
  fold_right (fun i P => files_ok files i /\ P) True its.

(* nesting used by an item: sections and include files count alike *)
Fixpoint item_depth (it : item) : nat :=
  match it with
  | ISec _ _ _ _ body _ | IInc _ _ _ _ body _ => S (fold_right (fun i m => Nat.max (item_depth i) m) 0%nat body)
  | _ => 0%nat
  end.
Definition items_depth (its : list item) : nat := fold_right (fun i m => Nat.max (item_depth i) m) 0%nat its.

(* ---------------------------------------------------------------------------------------------- well-formedness *)
Definition blankb (w : bytes) : bool := forallb (fun b => (b =? 32) || (b =? 9)) w.
Definition tabsb (w : bytes) : bool := forallb (fun b => b =? 9) w.
(* may appear in any text of a line: no comment character, no line break *)
Definition plainb (s : bytes) : bool := forallb (fun b => negb (b =? 35) && negb (b =? 10) && negb (b =? 13)) s.
(* key / section-name characters: visible ASCII except '#' *)
Definition keycharb (b : N) : bool := (33 <=? b) && (b <=? 126) && negb (b =? 35).
Definition keyb (k : bytes) : bool := match k with [] => false | _ => forallb keycharb k end.
(* begins and ends with a visible ASCII character (so str::trim leaves it alone); anything may stand in between *)
Definition visb (b : N) : bool := (33 <=? b) && (b <=? 126).
Definition vis_ends (s : bytes) : Prop := s <> [] /\ visb (hd 0 s) = true /\ visb (last s 0) = true.

Definition wf_deco (d : deco) : Prop :=
  blankb (d_indent d) = true /\ blankb (d_trail d) = true /\
  match d_comment d with Some c => forallb (fun b => negb (b =? 10) && negb (b =? 13)) c = true | None => True end.

(* quoted strings: UTF-8 text without the comment character, the double quote and line breaks (DESIGN scope note) *)
Definition wf_str (s : bytes) : Prop :=
  utf8_valid s = true /\ plainb s = true /\ forallb (fun b => negb (b =? 34)) s = true.

Definition wf_value (v : value) : Prop :=
  match v with
  | VStr s => wf_str s
  | VInt n => (Z.of_N n <= i64_max)%Z
  | VBool _ => True
  | VSize n u => exists m, unit_mult u = Some m /\ (Z.of_N n * m <= i64_max)%Z
  end.

Definition wf_kind (k : skind) : Prop :=
  match k with
  | KPlain name => keyb name = true
  | KRoute pats => vis_ends pats /\ plainb pats = true /\ pats <> [LBRACE]
  | KHost name true => plainb name = true
  | KHost name false => vis_ends name /\ plainb name = true /\ name <> [LBRACE] /\ hd 0 name <> QUOTE
  end.

Fixpoint wf_item (it : item) : Prop :=
  match it with
  | IKv d key g1 g2 v =>
    wf_deco d /\ keyb key = true /\ key <> kw_include /\ tabsb g1 = true /\ blankb g2 = true /\ wf_value v
  | ISec d k w1 w2 body dc =>
    wf_deco d /\ wf_deco dc /\ wf_kind k /\ blankb w1 = true /\ blankb w2 = true /\
    fold_right (fun i P => wf_item i /\ P) True body
  | IInc d g1 g2 path body _ =>
    wf_deco d /\ tabsb g1 = true /\ blankb g2 = true /\ wf_str path /\
    fold_right (fun i P => wf_item i /\ P) True body
  | IBlank d => wf_deco d
  | IRaw _ => False
  end.
Definition wf_items (its : list item) : Prop := fold_right (fun i P => wf_item i /\ P) True its.

Definition wf_main (m : main_layout) : Prop :=
  Forall wf_deco (m_before m) /\ wf_deco (m_open m) /\ wf_deco (m_close m) /\ Forall wf_deco (m_after m).

(* ---------------------------------------------------------------------------------------------- single-fault files *)
(* what makes a line a syntax error on its own (whatever surrounds it): no trailing brace, not a closing brace, not blank,
   and no space (E_Syntax) / an untypable value (E_Value) / an unquoted include argument (E_IncValue) *)
Definition bad_line (raw : bytes) : option N :=
  let line := clean_up raw in
  match strip_suffix_byte LBRACE line with
  | Some _ => None
  | None =>
    if beq line [RBRACE] then None
    else match line with
         | [] => None
         | _ =>
           match split_once SP line with
           | None => Some E_Syntax
           | Some (a, b) =>
             if negb (beq (trim a) kw_include) then
               match type_value (trim a) (trim b) with Err c => Some c | _ => None end
             else if is_quoted (trim b) then None else Some E_IncValue
           end
         end
  end.

(* items in which raw lines are allowed, provided each is bad on its own *)
Fixpoint wf_item_bad (it : item) : Prop :=
  match it with
  | IKv d key g1 g2 v =>
    wf_deco d /\ keyb key = true /\ key <> kw_include /\ tabsb g1 = true /\ blankb g2 = true /\ wf_value v
  | ISec d k w1 w2 body dc =>
    wf_deco d /\ wf_deco dc /\ wf_kind k /\ blankb w1 = true /\ blankb w2 = true /\
    fold_right (fun i P => wf_item_bad i /\ P) True body
  | IInc d g1 g2 path body _ =>
    wf_deco d /\ tabsb g1 = true /\ blankb g2 = true /\ wf_str path /\
    fold_right (fun i P => wf_item_bad i /\ P) True body
  | IBlank d => wf_deco d
  | IRaw l => bad_line l <> None /\ forallb (fun b => negb (b =? 10) && negb (b =? 13)) l = true
  end.
Definition wf_items_bad (its : list item) : Prop := fold_right (fun i P => wf_item_bad i /\ P) True its.

(* where the first bad line is: inl = no bad line, current_line afterwards; inr = the error the loader must report.
   file = the file being read; lines of an included file are counted from 0 in that file *)
Fixpoint scan_item (file : bytes) (it : item) (ln : N) : N + cerr :=
  match it with
  | IRaw l => match bad_line l with Some c => inr (mkerr c file (ln + 1)) | None => inl (ln + 1) end
  | ISec _ _ _ _ body _ =>
    match (fix go (its : list item) (ln : N) : N + cerr :=
             match its with
             | [] => inl ln
             | i :: r => match scan_item file i ln with inl ln' => go r ln' | inr e => inr e end
             end) body (ln + 1) with
    | inl ln' => inl (ln' + 1)
    | inr e => inr e
    end
  | IInc _ _ _ path body _ =>
    match (fix go (its : list item) (ln : N) : N + cerr :=
             match its with
             | [] => inl ln
             | i :: r => match scan_item path i ln with inl ln' => go r ln' | inr e => inr e end
             end) body 0 with
    | inl _ => inl (ln + 1)
    | inr e => inr e
    end
  | _ => inl (ln + 1)
  end.
Fixpoint scan_items (file : bytes) (its : list item) (ln : N) : N + cerr :=
  match its with
  | [] => inl ln
  | i :: r => match scan_item file i ln with inl ln' => scan_items file r ln' | inr e => inr e end
  end.
