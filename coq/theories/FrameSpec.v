(* RFC 6455 section 5.2 "Base Framing Protocol" as a relation between a frame and its bytes, written with
   arithmetic only (no shifts, no bitwise and/or), plus a flat reference parser used to classify every header.
   Deliberately independent of the code-shaped functions of Frame.v: it has its own opcode table, its own
   big-endian value and its own masking transform; it shares only the data types (frame, key4, opcode). *)
From Hv Require Import Prelude Stream Frame.
Open Scope N_scope.

Definition byte (b : N) : Prop := b < 256.

Definition key_ok (k : key4) : Prop := byte (k0 k) /\ byte (k1 k) /\ byte (k2 k) /\ byte (k3 k).

(* A frame value as the Rust type can hold it and as the property quantifies over it: the length field is the
   payload length (RFC: most significant bit of the 64-bit form MUST be 0), payload and key are bytes. *)
Definition wf (f : frame) : Prop :=
  flen f = blen (payload f) /\ flen f < 2 ^ 63 /\ Forall byte (payload f) /\ key_ok (mkey f).

(* %x0 continuation, %x1 text, %x2 binary, %x8 close, %x9 ping, %xA pong; %x3-7 and %xB-F reserved *)
Definition rfc_opcode (o : opcode) : N :=
  match o with Continuation => 0 | Text => 1 | Binary => 2 | Close => 8 | Ping => 9 | Pong => 10 end.
Definition all_opcodes : list opcode := [Continuation; Text; Binary; Close; Ping; Pong].
Definition opcode_of_value (v : N) : option opcode := find (fun o => rfc_opcode o =? v) all_opcodes.
Definition reserved_opcodes : list N := [3; 4; 5; 6; 7; 11; 12; 13; 14; 15].

(* unsigned integer in network byte order *)
Fixpoint unsigned_be (l : bytes) : N :=
  match l with [] => 0 | b :: t => b * 256 ^ blen t + unsigned_be t end.

(* "Payload length: 7 bits, 7+16 bits, or 7+64 bits ... the minimal number of bytes MUST be used" *)
Definition LenForm (n len7 : N) (ext : bytes) : Prop :=
  (n < 126 /\ len7 = n /\ ext = []) \/
  (126 <= n < 65536 /\ len7 = 126 /\ length ext = 2%nat /\ Forall byte ext /\ unsigned_be ext = n) \/
  (65536 <= n < 2 ^ 64 /\ len7 = 127 /\ length ext = 8%nat /\ Forall byte ext /\ unsigned_be ext = n).

(* the same without minimality: what a receiver has to understand *)
Definition LenAny (n len7 : N) (ext : bytes) : Prop :=
  (len7 < 126 /\ n = len7 /\ ext = []) \/
  (len7 = 126 /\ length ext = 2%nat /\ Forall byte ext /\ unsigned_be ext = n) \/
  (len7 = 127 /\ length ext = 8%nat /\ Forall byte ext /\ unsigned_be ext = n).

(* section 5.3: transformed-octet-i = original-octet-i XOR masking-key-octet-(i MOD 4) *)
Definition Masked (k : key4) (p wire : bytes) : Prop :=
  length wire = length p /\
  forall i : nat, (i < length p)%nat ->
    nth i wire 0 = N.lxor (nth i p 0) (nth (i mod 4) (key_bytes k) 0).

Definition Layout (LF : N -> N -> bytes -> Prop) (f : frame) (bs : bytes) : Prop :=
  exists len7 ext wire,
    bs = [128 * b2n (fin f) + 64 * b2n (rsv1 f) + 32 * b2n (rsv2 f) + 16 * b2n (rsv3 f) + rfc_opcode (fopcode f);
          128 * b2n (mask f) + len7]
         ++ ext ++ (if mask f then key_bytes (mkey f) else []) ++ wire /\
    LF (flen f) len7 ext /\
    (if mask f then Masked (mkey f) (payload f) wire else wire = payload f).

(* the bytes of a frame, shortest length form *)
Definition FrameBytes : frame -> bytes -> Prop := Layout LenForm.
(* the bytes of a frame in any length form *)
Definition FrameBytesAny : frame -> bytes -> Prop := Layout LenAny.

(* A decoded frame has an all-zero key field when the MASK bit is clear (the key is not on the wire). *)
Definition norm (f : frame) : frame :=
  if mask f then f
  else mkFrame (fin f) (rsv1 f) (rsv2 f) (rsv3 f) (fopcode f) false (flen f) zero_key (payload f).

(* ---- flat reference parser: classifies every two-byte header and what follows it ---- *)
Definition unmask (k : key4) (wire : bytes) : bytes :=
  map (fun ix : nat * N => N.lxor (snd ix) (nth (fst ix mod 4) (key_bytes k) 0))
      (combine (seq 0 (length wire)) wire).

Definition parse_spec (bs : bytes) : outcome (frame * bytes) :=
  match bs with
  | h0 :: h1 :: r0 =>
    match opcode_of_value (h0 mod 16) with
    | None => Err InvalidOpcode
    | Some op =>
      let len7 := h1 mod 128 in
      let m := 128 <=? h1 in
      let extn := if len7 =? 126 then 2 else if len7 =? 127 then 8 else 0 in
      match take_exact extn r0 with
      | None => Err ReadError
      | Some (ext, r1) =>
        let n := if extn =? 0 then len7 else unsigned_be ext in
        match take_exact (if m then 4 else 0) r1 with
        | None => Err ReadError
        | Some (kb, r2) =>
          let key := if m then key_of_list kb else zero_key in
          match take_exact n r2 with
          | None => Err ReadError
          | Some (wire, r3) =>
            Ok (mkFrame (128 <=? h0) (64 <=? h0 mod 128) (32 <=? h0 mod 64) (16 <=? h0 mod 32)
                        op m n key (unmask key wire), r3)
          end
        end
      end
    end
  | _ => Err ReadError
  end.

(* the chunked decoder's answer against the flat one *)
Definition refines (a : outcome (frame * chunks)) (b : outcome (frame * bytes)) : Prop :=
  match a, b with
  | Ok (f, cs'), Ok (g, r) => f = g /\ concat cs' = r /\ wf_chunks cs'
  | Err e, Err e' => e = e'
  | _, _ => False
  end.

Definition strict_prefix (b l : bytes) : Prop := exists t, t <> [] /\ l = b ++ t.
