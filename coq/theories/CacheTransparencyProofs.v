(* Cache transparency: when the answer of the static handlers is a function of the cache key (the request path and the
   host index - true for a file tree that does not change, since routing is a function of host and path), serving through
   the cache (static.rs cache_check + inner_file_handler, Cache.handle / Cache.hrun) gives every request exactly the answer
   it would get without the cache - on a hit, on a miss, after evictions and expiries, for every history and every clock. *)
From Coq Require Import Lia.
From Hv Require Import Prelude Cache CacheProofs.
Open Scope N_scope.

Section Transparency.
  (* what the handlers compute for a key when they read the file system: body and MIME type *)
  Variable F : list N -> N -> bytes * N.

  Definition faithful_item (it : item) : Prop := (i_data it, i_mime it) = F (i_route it) (i_host it).
  Definition faithful (c : cache) : Prop := Forall faithful_item (c_data c).

  Lemma faithful_empty lim tl : faithful (empty lim tl).
  Proof. constructor. Qed.

  Lemma forall_suffix {A} (P : A -> Prop) pre d : Forall P (pre ++ d) -> Forall P d.
  Proof. intro H. apply Forall_app in H. tauto. Qed.

  Lemma forall_remove_first (P : item -> Prop) f d : Forall P d -> Forall P (remove_first f d).
  Proof.
    induction d as [|x d IH]; intro H; [constructor|]. cbn [remove_first].
    inversion H; subst. destruct (f x); [assumption|constructor; auto].
  Qed.

  (* a store of the handler's own answer keeps the cache faithful *)
  Lemma set_faithful c r h v m now c' :
    inv c -> faithful c -> (v, m) = F r h -> set c r h v m now = Ok c' -> faithful c'.
  Proof.
    intros Hinv Hf Hv Hs.
    destruct (set_ok_shape _ _ _ _ _ _ _ Hinv Hs) as (pre & d1 & E1 & E2 & _).
    unfold faithful in *. rewrite E2. apply Forall_app. split.
    - apply forall_remove_first. rewrite E1 in Hf. eapply forall_suffix. exact Hf.
    - constructor; [|constructor]. unfold faithful_item. cbn. exact Hv.
  Qed.

  (* a hit returns the handler's own answer for the key that was asked *)
  Lemma get_faithful c r h now it :
    faithful c -> get c r h now = Ok (Some it) -> (i_data it, i_mime it) = F r h.
  Proof.
    intros Hf Hg. pose proof (get_same_key _ _ _ _ _ Hg) as [Er Eh].
    apply get_some in Hg as (Hin & _). unfold faithful in Hf. rewrite Forall_forall in Hf.
    specialize (Hf it Hin). unfold faithful_item in Hf. rewrite Er, Eh in Hf. exact Hf.
  Qed.

  Definition honest (q : req) : Prop := (q_fs q, q_mime q) = F (q_route q) (q_host q).

  (* one request: whatever the cache holds, the client gets F of its key, and the cache stays faithful *)
  Lemma handle_transparent c q c' p :
    inv c -> faithful c -> honest q -> handle c q = Ok (c', p) ->
    (p_body p, p_mime p) = F (q_route q) (q_host q) /\ inv c' /\ faithful c'.
  Proof.
    intros Hinv Hf Hq H. unfold handle in H.
    destruct (lookup c (q_route q) (q_host q) (q_now q)) as [[it|]|e|w] eqn:L; try discriminate.
    - injection H as <- <-. cbn [p_body p_mime]. split; [|split; assumption].
      unfold lookup in L. destruct (0 <? c_limit c); [|discriminate]. eapply get_faithful; eassumption.
    - destruct (store c (q_route q) (q_host q) (q_fs q) (q_mime q) (q_now q)) as [c1|e|w] eqn:S; try discriminate.
      injection H as <- <-. cbn [p_body p_mime]. split; [exact Hq|].
      unfold store in S. destruct (blen (q_fs q) <=? c_limit c).
      + split.
        * destruct (set_ok_shape _ _ _ _ _ _ _ Hinv S) as (_ & _ & _ & _ & _ & _ & _ & _ & Hi). exact Hi.
        * eapply set_faithful; eassumption.
      + injection S as <-. split; assumption.
  Qed.

  (* every history: each response is F of its own key *)
  Theorem hrun_transparent : forall qs c ps c',
    inv c -> faithful c -> Forall honest qs -> hrun c qs = (ps, Ok c') ->
    Forall2 (fun q p => (p_body p, p_mime p) = F (q_route q) (q_host q)) qs ps /\ inv c' /\ faithful c'.
  Proof.
    induction qs as [|q qs IH]; intros c ps c' Hinv Hf Hq H; cbn [hrun] in H.
    - injection H as <- <-. split; [constructor|split; assumption].
    - inversion Hq as [|? ? Hq1 Hq2]; subst.
      destruct (handle c q) as [[c1 p]|e|w] eqn:E; try (injection H as _ H; discriminate).
      destruct (handle_transparent _ _ _ _ Hinv Hf Hq1 E) as (Hp & Hinv1 & Hf1).
      destruct (hrun c1 qs) as [ps1 fin] eqn:R. injection H as <- ->.
      destruct (IH _ _ _ Hinv1 Hf1 Hq2 R) as (H2 & Hi2 & Hf2).
      split; [constructor; assumption|split; assumption].
  Qed.

  Corollary hrun_transparent_from_empty lim tl qs ps c' :
    Forall honest qs -> hrun (empty lim tl) qs = (ps, Ok c') ->
    Forall2 (fun q p => (p_body p, p_mime p) = F (q_route q) (q_host q)) qs ps.
  Proof.
    intros Hq H. eapply hrun_transparent; [apply inv_empty|apply faithful_empty|exact Hq|exact H].
  Qed.
End Transparency.
