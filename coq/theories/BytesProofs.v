(* Lemmas about the byte-string operations of Bytes.v (used by the C02 proofs in HttpReqProofs.v).
   Part 1: equality, absence of a delimiter, split_once / split_on / split_incl / strip_crlf, ascii_lower.
   Part 2: trim_start and the white-space prefix.  Part 3: UTF-8 validity, fuel-free.  Part 4: decimal numbers. *)
From Coq Require Import Lia Arith.
From Hv Require Import Prelude Bytes.
Open Scope N_scope.
Arguments N.eqb : simpl never.
Arguments N.leb : simpl never.
Arguments N.ltb : simpl never.

(* ------------------------------------------------------------------------------------------------ *)
(* Part 1                                                                                           *)
(* ------------------------------------------------------------------------------------------------ *)

Lemma beq_refl a : beq a a = true.
Proof. induction a as [|x a IH]; cbn [beq]; [reflexivity|]. now rewrite N.eqb_refl, IH. Qed.

Lemma beq_eq a b : beq a b = true -> a = b.
Proof.
  revert b. induction a as [|x a IH]; intros [|y b] H; cbn [beq] in H; try discriminate; [reflexivity|].
  apply andb_true_iff in H as [H1 H2]. apply N.eqb_eq in H1. subst. f_equal. now apply IH.
Qed.

Lemma beq_true_iff a b : beq a b = true <-> a = b.
Proof. split; [apply beq_eq | intros ->; apply beq_refl]. Qed.

Lemma beq_false_iff a b : beq a b = false <-> a <> b.
Proof.
  split.
  - intros H E. subst. now rewrite beq_refl in H.
  - intro H. destruct (beq a b) eqn:E; [|reflexivity]. apply beq_eq in E. contradiction.
Qed.

(* nob d l: the byte d does not occur in l *)
Definition nob (d : N) (l : bytes) : bool := forallb (fun x => negb (x =? d)) l.

Lemma nob_nil d : nob d [] = true.
Proof. reflexivity. Qed.

Lemma nob_cons d x l : nob d (x :: l) = negb (x =? d) && nob d l.
Proof. reflexivity. Qed.

Lemma nob_app d a b : nob d (a ++ b) = nob d a && nob d b.
Proof. unfold nob. apply forallb_app. Qed.

Lemma nob_In d l : nob d l = true <-> ~ In d l.
Proof.
  induction l as [|x l IH]; cbn [nob forallb In].
  - split; [intros _ []| reflexivity].
  - fold (nob d l). rewrite andb_true_iff, negb_true_iff, N.eqb_neq, IH. split.
    + intros [H1 H2] [H|H]; [now apply H1 | now apply H2].
    + intro H. split; intro H'; apply H; [left | right]; assumption.
Qed.

Lemma nob_skipn d n l : nob d l = true -> nob d (skipn n l) = true.
Proof.
  revert l. induction n as [|n IH]; intros [|x l] H; cbn [skipn]; try assumption.
  rewrite nob_cons in H. apply andb_true_iff in H as [_ H]. now apply IH.
Qed.

Lemma nob_firstn d n l : nob d l = true -> nob d (firstn n l) = true.
Proof.
  revert l. induction n as [|n IH]; intros [|x l] H; cbn [firstn]; try reflexivity.
  rewrite nob_cons in *. apply andb_true_iff in H as [H1 H]. rewrite H1. cbn [andb]. now apply IH.
Qed.

Lemma nob_head d x l : nob d (x :: l) = true -> x <> d.
Proof. rewrite nob_cons. intro H. apply andb_true_iff in H as [H _]. now apply N.eqb_neq, negb_true_iff. Qed.

(* ---- split_once ---- *)
Lemma split_once_app d a b : nob d a = true -> split_once d (a ++ d :: b) = Some (a, b).
Proof.
  induction a as [|x a IH]; intro H; cbn [app split_once].
  - now rewrite N.eqb_refl.
  - rewrite nob_cons in H. apply andb_true_iff in H as [H1 H2]. apply negb_true_iff in H1. rewrite H1.
    now rewrite IH.
Qed.

Lemma split_once_none d l : nob d l = true -> split_once d l = None.
Proof.
  induction l as [|x l IH]; intro H; cbn [split_once]; [reflexivity|].
  rewrite nob_cons in H. apply andb_true_iff in H as [H1 H2]. apply negb_true_iff in H1. rewrite H1.
  now rewrite IH.
Qed.

Lemma split_once_some d l a b : split_once d l = Some (a, b) -> l = a ++ d :: b /\ nob d a = true.
Proof.
  revert a. induction l as [|x l IH]; intros a H; cbn [split_once] in H; [discriminate|].
  destruct (x =? d) eqn:E.
  - injection H as <- <-. apply N.eqb_eq in E. subst. now split.
  - destruct (split_once d l) as [[a' b']|] eqn:E'; [|discriminate]. injection H as <- <-.
    destruct (IH a' eq_refl) as [-> Hn]. split; [reflexivity|]. rewrite nob_cons, E, Hn. reflexivity.
Qed.

Lemma split_once_none_inv d l : split_once d l = None -> nob d l = true.
Proof.
  induction l as [|x l IH]; intro H; cbn [split_once] in H; [reflexivity|].
  destruct (x =? d) eqn:E; [discriminate|].
  destruct (split_once d l) as [[a' b']|]; [discriminate|]. rewrite nob_cons, E. now rewrite IH.
Qed.

(* ---- split_on ---- *)
Lemma split_on_not_nil d l : split_on d l <> [].
Proof.
  destruct l as [|x l]; cbn [split_on]; [discriminate|].
  destruct (x =? d); [discriminate|]. destruct (split_on d l); discriminate.
Qed.

Lemma split_on_nob d a : nob d a = true -> split_on d a = [a].
Proof.
  induction a as [|x a IH]; intro H; cbn [split_on]; [reflexivity|].
  rewrite nob_cons in H. apply andb_true_iff in H as [H1 H2]. apply negb_true_iff in H1. rewrite H1.
  now rewrite IH.
Qed.

Lemma split_on_app d a b : nob d a = true -> split_on d (a ++ d :: b) = a :: split_on d b.
Proof.
  induction a as [|x a IH]; intro H; cbn [app split_on].
  - now rewrite N.eqb_refl.
  - rewrite nob_cons in H. apply andb_true_iff in H as [H1 H2]. apply negb_true_iff in H1. rewrite H1.
    now rewrite IH.
Qed.

(* the first field and what follows it *)
Lemma split_on_inv d l f fs :
  split_on d l = f :: fs ->
  nob d f = true /\ ((fs = [] /\ l = f) \/ exists l', l = f ++ d :: l' /\ split_on d l' = fs).
Proof.
  revert f fs. induction l as [|x l IH]; intros f fs H; cbn [split_on] in H.
  - injection H as <- <-. split; [reflexivity|]. now left.
  - destruct (x =? d) eqn:E.
    + injection H as <- <-. apply N.eqb_eq in E. subst. split; [reflexivity|]. right. now exists l.
    + destruct (split_on d l) as [|f' fs'] eqn:E'; [now apply split_on_not_nil in E'|].
      injection H as <- <-. destruct (IH f' fs' eq_refl) as [Hn [[-> ->]|(l' & -> & Hl')]].
      * split; [now rewrite nob_cons, E, Hn|]. now left.
      * split; [now rewrite nob_cons, E, Hn|]. right. now exists l'.
Qed.

(* ---- split_incl ---- *)
Lemma split_incl_app d a b : nob d a = true -> split_incl d (a ++ d :: b) = Some (a ++ [d], b).
Proof.
  induction a as [|x a IH]; intro H; cbn [app split_incl].
  - now rewrite N.eqb_refl.
  - rewrite nob_cons in H. apply andb_true_iff in H as [H1 H2]. apply negb_true_iff in H1. rewrite H1.
    now rewrite IH.
Qed.

Lemma split_incl_none d l : nob d l = true -> split_incl d l = None.
Proof.
  induction l as [|x l IH]; intro H; cbn [split_incl]; [reflexivity|].
  rewrite nob_cons in H. apply andb_true_iff in H as [H1 H2]. apply negb_true_iff in H1. rewrite H1.
  now rewrite IH.
Qed.

Lemma split_incl_some d l a b :
  split_incl d l = Some (a, b) -> exists a', a = a' ++ [d] /\ nob d a' = true /\ l = a' ++ d :: b.
Proof.
  revert a. induction l as [|x l IH]; intros a H; cbn [split_incl] in H; [discriminate|].
  destruct (x =? d) eqn:E.
  - injection H as <- <-. apply N.eqb_eq in E. subst. exists []. now repeat split.
  - destruct (split_incl d l) as [[a1 b1]|] eqn:E'; [|discriminate]. injection H as <- <-.
    destruct (IH a1 eq_refl) as (a' & -> & Hn & ->). exists (x :: a'). repeat split.
    now rewrite nob_cons, E, Hn.
Qed.

Lemma split_incl_none_inv d l : split_incl d l = None -> nob d l = true.
Proof.
  induction l as [|x l IH]; intro H; cbn [split_incl] in H; [reflexivity|].
  destruct (x =? d) eqn:E; [discriminate|].
  destruct (split_incl d l) as [[a' b']|]; [discriminate|]. rewrite nob_cons, E. now rewrite IH.
Qed.

(* ---- strip_crlf ---- *)
Lemma ends_with_crlf_3 x y z l : ends_with_crlf (x :: y :: z :: l) = ends_with_crlf (y :: z :: l).
Proof. reflexivity. Qed.

Lemma ends_with_crlf_cons x l : (2 <= length l)%nat -> ends_with_crlf (x :: l) = ends_with_crlf l.
Proof. destruct l as [|y [|z l]]; cbn [length]; intro H; try lia. reflexivity. Qed.

Lemma ends_with_crlf_app l : ends_with_crlf (l ++ [CR; LF]) = true.
Proof.
  induction l as [|x l IH]; [reflexivity|].
  cbn [app]. rewrite ends_with_crlf_cons; [exact IH|]. rewrite app_length. cbn [length]. lia.
Qed.

Lemma ends_with_crlf_inv l : ends_with_crlf l = true -> exists x, l = x ++ [CR; LF].
Proof.
  induction l as [|a l IH]; intro H; [discriminate|].
  destruct l as [|b l]; [discriminate|]. destruct l as [|c l].
  - cbn [ends_with_crlf] in H. apply andb_true_iff in H as [H1 H2].
    apply N.eqb_eq in H1, H2. subst. now exists [].
  - rewrite ends_with_crlf_3 in H. destruct (IH H) as (x & E). exists (a :: x). cbn [app]. now rewrite <- E.
Qed.

Lemma firstn_app_exact {A} (a b : list A) : firstn (length a) (a ++ b) = a.
Proof. induction a as [|x a IH]; cbn [length firstn app]; [now destruct b | now rewrite IH]. Qed.

Lemma skipn_app_exact {A} (a b : list A) : skipn (length a) (a ++ b) = b.
Proof. induction a as [|x a IH]; cbn [length skipn app]; [reflexivity | exact IH]. Qed.

Lemma strip_crlf_app l : strip_crlf (l ++ [CR; LF]) = Some l.
Proof.
  unfold strip_crlf. rewrite ends_with_crlf_app. f_equal.
  replace (length (l ++ [CR; LF]) - 2)%nat with (length l) by (rewrite app_length; cbn [length]; lia).
  apply firstn_app_exact.
Qed.

Lemma strip_crlf_some l x : strip_crlf l = Some x -> l = x ++ [CR; LF].
Proof.
  unfold strip_crlf. destruct (ends_with_crlf l) eqn:E; [|discriminate]. intro H. injection H as <-.
  apply ends_with_crlf_inv in E as (y & ->).
  replace (length (y ++ [CR; LF]) - 2)%nat with (length y) by (rewrite app_length; cbn [length]; lia).
  now rewrite firstn_app_exact.
Qed.

(* ---- ascii_lower ---- *)
Lemma lower_byte_idem b : lower_byte (lower_byte b) = lower_byte b.
Proof.
  unfold lower_byte. destruct ((65 <=? b) && (b <=? 90)) eqn:E; [|now rewrite E].
  apply andb_true_iff in E as [E1 E2]. apply N.leb_le in E1, E2.
  replace ((65 <=? b + 32) && (b + 32 <=? 90)) with false; [reflexivity|].
  symmetry. apply andb_false_iff. right. apply N.leb_gt. lia.
Qed.

Lemma ascii_lower_idem l : ascii_lower (ascii_lower l) = ascii_lower l.
Proof. unfold ascii_lower. rewrite map_map. apply map_ext. intro b. apply lower_byte_idem. Qed.

Lemma ascii_lower_app a b : ascii_lower (a ++ b) = ascii_lower a ++ ascii_lower b.
Proof. apply map_app. Qed.

Lemma ascii_lower_length l : length (ascii_lower l) = length l.
Proof. apply map_length. Qed.

(* a byte outside A-Z / a-z is neither produced nor consumed by lower-casing *)
Definition not_alpha (d : N) : bool := negb (((65 <=? d) && (d <=? 90)) || ((97 <=? d) && (d <=? 122))).

Lemma lower_byte_eqb d b : not_alpha d = true -> (lower_byte b =? d) = (b =? d).
Proof.
  unfold not_alpha, lower_byte. intro H. apply negb_true_iff, orb_false_iff in H as [H1 H2].
  destruct ((65 <=? b) && (b <=? 90)) eqn:E; [|reflexivity].
  apply andb_true_iff in E as [E1 E2]. apply N.leb_le in E1, E2.
  transitivity false; [|symmetry].
  - apply N.eqb_neq. intros <-. apply andb_false_iff in H2 as [H2|H2]; apply N.leb_gt in H2; lia.
  - apply N.eqb_neq. intros <-. apply andb_false_iff in H1 as [H1|H1]; apply N.leb_gt in H1; lia.
Qed.

Lemma nob_ascii_lower d l : not_alpha d = true -> nob d (ascii_lower l) = nob d l.
Proof.
  intro H. induction l as [|x l IH]; [reflexivity|].
  cbn [ascii_lower map]. fold (ascii_lower l). rewrite !nob_cons, IH, lower_byte_eqb by assumption. reflexivity.
Qed.

(* ------------------------------------------------------------------------------------------------ *)
(* Part 2a: the white-space prefix, written with comparisons instead of a match on literals           *)
(* ------------------------------------------------------------------------------------------------ *)

Definition ws1 (b : N) : bool := (b =? 32) || ((9 <=? b) && (b <=? 13)).
Definition ws_prefix_len' (l : bytes) : nat :=
  match l with
  | b :: r =>
    if ws1 b then 1%nat
    else if b =? 194 then match r with c :: _ => if (c =? 133) || (c =? 160) then 2%nat else 0%nat | [] => 0%nat end
    else if b =? 225 then match r with c1 :: c2 :: _ => if (c1 =? 154) && (c2 =? 128) then 3%nat else 0%nat | _ => 0%nat end
    else if b =? 226 then
      match r with
      | c1 :: c2 :: _ =>
        if (c1 =? 128) && (((128 <=? c2) && (c2 <=? 138)) || (c2 =? 168) || (c2 =? 169) || (c2 =? 175)) then 3%nat
        else if (c1 =? 129) && (c2 =? 159) then 3%nat else 0%nat
      | _ => 0%nat end
    else if b =? 227 then match r with c1 :: c2 :: _ => if (c1 =? 128) && (c2 =? 128) then 3%nat else 0%nat | _ => 0%nat end
    else 0%nat
  | [] => 0%nat
  end.

Lemma ws_prefix_len_eq l : ws_prefix_len l = ws_prefix_len' l.
Proof.
  destruct l as [|b r]; [reflexivity|].
  unfold ws_prefix_len, ws_prefix_len', ws1.
  destruct ((b =? 32) || ((9 <=? b) && (b <=? 13))); [reflexivity|].
  destruct (N.eqb_spec b 194) as [->|N1]; [destruct r as [|? [|? ?]]; reflexivity|].
  destruct (N.eqb_spec b 225) as [->|N2]; [destruct r as [|? [|? ?]]; reflexivity|].
  destruct (N.eqb_spec b 226) as [->|N3]; [destruct r as [|? [|? ?]]; reflexivity|].
  destruct (N.eqb_spec b 227) as [->|N4]; [destruct r as [|? [|? ?]]; reflexivity|].
  destruct b as [|p]; [reflexivity|].
  do 8 (try (destruct p as [p|p|]; try reflexivity; try (destruct r as [|? [|? ?]]; reflexivity); try congruence)).
Qed.

(* ------------------------------------------------------------------------------------------------ *)
(* Part 3: UTF-8 validity                                                                           *)
(* ------------------------------------------------------------------------------------------------ *)

Definition utf8_char_len (l : bytes) : nat :=
  match l with
  | [] => 0%nat
  | b :: r =>
    if b <? 128 then 1%nat
    else if (194 <=? b) && (b <=? 223) then
      match r with c1 :: _ => if cont c1 then 2%nat else 0%nat | _ => 0%nat end
    else if b =? 224 then
      match r with c1 :: c2 :: _ => if (160 <=? c1) && (c1 <=? 191) && cont c2 then 3%nat else 0%nat | _ => 0%nat end
    else if ((225 <=? b) && (b <=? 236)) || (b =? 238) || (b =? 239) then
      match r with c1 :: c2 :: _ => if cont c1 && cont c2 then 3%nat else 0%nat | _ => 0%nat end
    else if b =? 237 then
      match r with c1 :: c2 :: _ => if (128 <=? c1) && (c1 <=? 159) && cont c2 then 3%nat else 0%nat | _ => 0%nat end
    else if b =? 240 then
      match r with c1 :: c2 :: c3 :: _ => if (144 <=? c1) && (c1 <=? 191) && cont c2 && cont c3 then 4%nat else 0%nat
              | _ => 0%nat end
    else if (241 <=? b) && (b <=? 243) then
      match r with c1 :: c2 :: c3 :: _ => if cont c1 && cont c2 && cont c3 then 4%nat else 0%nat | _ => 0%nat end
    else if b =? 244 then
      match r with c1 :: c2 :: c3 :: _ => if (128 <=? c1) && (c1 <=? 143) && cont c2 && cont c3 then 4%nat else 0%nat
              | _ => 0%nat end
    else 0%nat
  end.

Ltac case_if := match goal with |- context [if ?c then _ else _] => destruct c eqn:? end.

Lemma utf8_valid_fuel_S f l :
  utf8_valid_fuel (S f) l =
  match l with
  | [] => true
  | _ => match utf8_char_len l with O => false | S n => utf8_valid_fuel f (skipn (S n) l) end
  end.
Proof.
  destruct l as [|b r]; [reflexivity|].
  cbn [utf8_valid_fuel utf8_char_len].
  repeat (case_if; [ try reflexivity;
    destruct r as [|c1 [|c2 [|c3 r]]]; try reflexivity; cbn [skipn];
    repeat (match goal with |- context [cont ?c] => destruct (cont c) end;
            rewrite ?andb_true_r, ?andb_false_r; cbn [andb]); try reflexivity;
    repeat case_if; reflexivity | ]).
  reflexivity.
Qed.

Lemma utf8_char_len_le l : (utf8_char_len l <= length l)%nat.
Proof.
  destruct l as [|b r]; [reflexivity|]. cbn [utf8_char_len length].
  repeat (case_if; [ destruct r as [|c1 [|c2 [|c3 r]]]; cbn [length]; repeat case_if; lia | ]). lia.
Qed.

Lemma utf8_char_len_ascii b r : b < 128 -> utf8_char_len (b :: r) = 1%nat.
Proof. intro H. cbn [utf8_char_len]. apply N.ltb_lt in H. now rewrite H. Qed.

(* the length of the first character depends only on that character *)
Lemma utf8_char_len_app l x n : utf8_char_len l = S n -> utf8_char_len (l ++ x) = S n.
Proof.
  destruct l as [|b r]; [discriminate|]. cbn [utf8_char_len app].
  repeat (case_if; [ destruct r as [|c1 [|c2 [|c3 r]]]; cbn [app]; try discriminate; try (intro; assumption) | ]).
  discriminate.
Qed.

Lemma cont_ascii c : c < 128 -> cont c = false.
Proof. intro H. unfold cont. apply andb_false_iff. left. apply N.leb_gt. lia. Qed.

Lemma range_ascii lo hi c : c < 128 -> 128 <= lo -> (lo <=? c) && (c <=? hi) = false.
Proof. intros H1 H2. apply andb_false_iff. left. apply N.leb_gt. lia. Qed.

(* an ASCII byte cannot complete a multi-byte character *)
Lemma utf8_char_len_app_ascii a c x : a <> [] -> c < 128 -> utf8_char_len (a ++ c :: x) = utf8_char_len a.
Proof.
  intros Ha Hc. destruct a as [|b r]; [contradiction|]. cbn [utf8_char_len app].
  pose proof (cont_ascii c Hc) as Hcc.
  assert (R1 : (160 <=? c) && (c <=? 191) = false) by (apply range_ascii; [assumption|lia]).
  assert (R2 : (128 <=? c) && (c <=? 159) = false) by (apply range_ascii; [assumption|lia]).
  assert (R3 : (144 <=? c) && (c <=? 191) = false) by (apply range_ascii; [assumption|lia]).
  assert (R4 : (128 <=? c) && (c <=? 143) = false) by (apply range_ascii; [assumption|lia]).
  repeat (case_if; [ destruct r as [|c1 [|c2 [|c3 r]]]; cbn [app]; try reflexivity;
                     destruct x as [|x1 [|x2 x]];
                     rewrite ?Hcc, ?R1, ?R2, ?R3, ?R4, ?andb_false_r; cbn [andb]; try reflexivity;
                     repeat case_if; reflexivity | ]).
  reflexivity.
Qed.

(* fuel-free characterisation *)
Inductive utf8 : bytes -> Prop :=
| utf8_nil : utf8 []
| utf8_char l n : utf8_char_len l = S n -> utf8 (skipn (S n) l) -> utf8 l.

Lemma skipn_length_lt {A} n (l : list A) : l <> [] -> (length (skipn (S n) l) < length l)%nat.
Proof. destruct l as [|x l]; [contradiction|]. intros _. cbn [skipn length]. rewrite skipn_length. lia. Qed.

Lemma utf8_valid_fuel_utf8 f l : utf8_valid_fuel f l = true -> utf8 l.
Proof.
  revert l. induction f as [|f IH]; intros l H.
  - destruct l; [constructor | discriminate].
  - rewrite utf8_valid_fuel_S in H. destruct l as [|b r]; [constructor|].
    destruct (utf8_char_len (b :: r)) as [|n] eqn:E; [discriminate|].
    apply (utf8_char _ n E). now apply IH.
Qed.

Lemma utf8_utf8_valid_fuel l : utf8 l -> forall f, (length l <= f)%nat -> utf8_valid_fuel f l = true.
Proof.
  induction 1 as [|l n E H IH]; intros f Hf.
  - destruct f; reflexivity.
  - destruct l as [|b r]; [discriminate|]. destruct f as [|f]; [cbn [length] in Hf; lia|].
    rewrite utf8_valid_fuel_S, E. apply IH.
    assert (length (skipn (S n) (b :: r)) < length (b :: r))%nat by (apply skipn_length_lt; discriminate). lia.
Qed.

Lemma utf8_valid_iff l : utf8_valid l = true <-> utf8 l.
Proof.
  split; [apply utf8_valid_fuel_utf8|]. intro H. now apply utf8_utf8_valid_fuel.
Qed.

Lemma utf8_app a b : utf8 a -> utf8 b -> utf8 (a ++ b).
Proof.
  induction 1 as [|l n E H IH]; intro Hb; [exact Hb|].
  apply (utf8_char _ n); [now apply utf8_char_len_app|].
  pose proof (utf8_char_len_le l) as Hle. rewrite E in Hle.
  rewrite skipn_app. replace (S n - length l)%nat with O by lia. cbn [skipn]. now apply IH.
Qed.

Lemma utf8_ascii_cons c l : c < 128 -> utf8 l -> utf8 (c :: l).
Proof. intros Hc Hl. apply (utf8_char _ 0); [now apply utf8_char_len_ascii | exact Hl]. Qed.

Lemma utf8_ascii_cons_inv c l : c < 128 -> utf8 (c :: l) -> utf8 l.
Proof.
  intros Hc H. inversion H as [|l' n E H']; subst. rewrite utf8_char_len_ascii in E by assumption.
  injection E as <-. exact H'.
Qed.

(* an ASCII delimiter separates two valid strings *)
Lemma utf8_split_ascii a c b : c < 128 -> utf8 (a ++ c :: b) -> utf8 a /\ utf8 b.
Proof.
  intro Hc. remember (length a) as k eqn:Hk. revert a Hk.
  induction k as [k IH] using lt_wf_ind. intros a Hk H.
  destruct a as [|x a'].
  - split; [constructor|]. now apply utf8_ascii_cons_inv in H.
  - inversion H as [E0|l' n E H']; subst l'.
    rewrite utf8_char_len_app_ascii in E by (assumption || discriminate).
    pose proof (utf8_char_len_le (x :: a')) as Hle. rewrite E in Hle.
    rewrite skipn_app in H'. replace (S n - length (x :: a'))%nat with O in H' by lia. cbn [skipn] in H'.
    fold (skipn (S n) (x :: a')) in H'.
    assert (Hlt : (length (skipn (S n) (x :: a')) < k)%nat) by (subst k; apply skipn_length_lt; discriminate).
    destruct (IH _ Hlt _ eq_refl H') as [Ha Hb]. split; [|exact Hb]. now apply (utf8_char _ n).
Qed.

Lemma utf8_join_ascii a c b : c < 128 -> utf8 a -> utf8 b -> utf8 (a ++ c :: b).
Proof. intros Hc Ha Hb. apply utf8_app; [exact Ha|]. now apply utf8_ascii_cons. Qed.

Lemma utf8_ascii l : Forall (fun c => c < 128) l -> utf8 l.
Proof. induction 1; [constructor|]. now apply utf8_ascii_cons. Qed.

(* ------------------------------------------------------------------------------------------------ *)
(* Part 2b: trim_start                                                                              *)
(* ------------------------------------------------------------------------------------------------ *)

(* ---- trim_start ---- *)
Lemma ws_prefix_len_nil : ws_prefix_len [] = 0%nat.
Proof. reflexivity. Qed.

Lemma ws_prefix_len_ws1 b r : ws1 b = true -> ws_prefix_len (b :: r) = 1%nat.
Proof. intro H. rewrite ws_prefix_len_eq. cbn [ws_prefix_len']. now rewrite H. Qed.

Lemma trim_start_fuel_fixed f l : ws_prefix_len l = 0%nat -> trim_start_fuel f l = l.
Proof. intro H. destruct f; cbn [trim_start_fuel]; [reflexivity|]. now rewrite H. Qed.

Lemma trim_start_fuel_ws0 f l : (length l <= f)%nat -> ws_prefix_len (trim_start_fuel f l) = 0%nat.
Proof.
  revert l. induction f as [|f IH]; intros l H; cbn [trim_start_fuel].
  - destruct l; [reflexivity | cbn [length] in H; lia].
  - destruct (ws_prefix_len l) as [|n] eqn:E; [exact E|]. apply IH.
    destruct l as [|x l]; [discriminate|].
    assert (length (skipn (S n) (x :: l)) < length (x :: l))%nat by (apply skipn_length_lt; discriminate). lia.
Qed.

Lemma trim_start_ws0 l : ws_prefix_len (trim_start l) = 0%nat.
Proof. apply trim_start_fuel_ws0. reflexivity. Qed.

Lemma trim_start_fixed l : ws_prefix_len l = 0%nat -> trim_start l = l.
Proof. apply trim_start_fuel_fixed. Qed.

Lemma trim_start_fixed_iff l : trim_start l = l <-> ws_prefix_len l = 0%nat.
Proof. split; [intros <-; apply trim_start_ws0 | apply trim_start_fixed]. Qed.

Lemma trim_start_idem l : trim_start (trim_start l) = trim_start l.
Proof. apply trim_start_fixed, trim_start_ws0. Qed.

(* the result is a suffix *)
Lemma trim_start_fuel_suffix f l : exists p, l = p ++ trim_start_fuel f l.
Proof.
  revert l. induction f as [|f IH]; intro l; cbn [trim_start_fuel]; [now exists []|].
  destruct (ws_prefix_len l) as [|n]; [now exists []|].
  destruct (IH (skipn (S n) l)) as (p & E). exists (firstn (S n) l ++ p).
  rewrite <- app_assoc, <- E. symmetry. apply firstn_skipn.
Qed.

Lemma trim_start_suffix l : exists p, l = p ++ trim_start l.
Proof. apply trim_start_fuel_suffix. Qed.

Lemma nob_trim_start d l : nob d l = true -> nob d (trim_start l) = true.
Proof.
  intro H. destruct (trim_start_suffix l) as (p & E). rewrite E, nob_app in H.
  now apply andb_true_iff in H as [_ H].
Qed.

(* a run of single-byte white space in front of a string that does not start with white space *)
Lemma trim_start_fuel_sep sep v f :
  forallb ws1 sep = true -> ws_prefix_len v = 0%nat -> (length sep <= f)%nat -> trim_start_fuel f (sep ++ v) = v.
Proof.
  revert f. induction sep as [|x sep IH]; intros f Hs Hv Hf; cbn [app].
  - now apply trim_start_fuel_fixed.
  - cbn [forallb] in Hs. apply andb_true_iff in Hs as [Hx Hs].
    destruct f as [|f]; [cbn [length] in Hf; lia|]. cbn [trim_start_fuel].
    rewrite (ws_prefix_len_ws1 _ _ Hx). cbn [skipn]. apply IH; try assumption. cbn [length] in Hf. lia.
Qed.

Lemma trim_start_sep sep v : forallb ws1 sep = true -> ws_prefix_len v = 0%nat -> trim_start (sep ++ v) = v.
Proof. intros Hs Hv. apply trim_start_fuel_sep; try assumption. rewrite app_length. lia. Qed.

(* ---- white space characters are whole UTF-8 characters ---- *)
Lemma utf8_char_len_2 b r : 194 <= b <= 223 -> utf8_char_len (b :: r) = 2%nat \/ utf8_char_len (b :: r) = 0%nat.
Proof.
  intros [H1 H2]. cbn [utf8_char_len].
  replace (b <? 128) with false by (symmetry; apply N.ltb_ge; lia).
  replace ((194 <=? b) && (b <=? 223)) with true by (symmetry; apply andb_true_iff; split; apply N.leb_le; lia).
  destruct r as [|c1 r]; [now right|]. destruct (cont c1); [now left | now right].
Qed.

Lemma utf8_char_len_3 b r : 225 <= b <= 236 -> utf8_char_len (b :: r) = 3%nat \/ utf8_char_len (b :: r) = 0%nat.
Proof.
  intros [H1 H2]. cbn [utf8_char_len].
  replace (b <? 128) with false by (symmetry; apply N.ltb_ge; lia).
  replace ((194 <=? b) && (b <=? 223)) with false by (symmetry; apply andb_false_iff; right; apply N.leb_gt; lia).
  replace (b =? 224) with false by (symmetry; apply N.eqb_neq; lia).
  replace ((225 <=? b) && (b <=? 236)) with true by (symmetry; apply andb_true_iff; split; apply N.leb_le; lia).
  cbn [orb]. destruct r as [|c1 [|c2 r]]; try (now right). destruct (cont c1 && cont c2); [now left | now right].
Qed.

Lemma ws1_ascii b : ws1 b = true -> b < 128.
Proof.
  unfold ws1. intro H. apply orb_true_iff in H as [H|H].
  - apply N.eqb_eq in H. lia.
  - apply andb_true_iff in H as [_ H]. apply N.leb_le in H. lia.
Qed.

Lemma ws_utf8_len l n m : ws_prefix_len l = S n -> utf8_char_len l = S m -> n = m.
Proof.
  rewrite ws_prefix_len_eq. destruct l as [|b r]; [discriminate|]. cbn [ws_prefix_len'].
  destruct (ws1 b) eqn:W.
  - intros H1 H2. rewrite utf8_char_len_ascii in H2 by now apply ws1_ascii. congruence.
  - destruct (N.eqb_spec b 194) as [->|N1].
    { intros H1 H2. destruct (utf8_char_len_2 194 r) as [E|E]; [lia| |]; rewrite E in H2; [|discriminate].
      destruct r as [|c r]; [discriminate|]. destruct ((c =? 133) || (c =? 160)); [congruence|discriminate]. }
    destruct (N.eqb_spec b 225) as [->|N2].
    { intros H1 H2. destruct (utf8_char_len_3 225 r) as [E|E]; [lia| |]; rewrite E in H2; [|discriminate].
      destruct r as [|c1 [|c2 r]]; try discriminate. destruct ((c1 =? 154) && (c2 =? 128)); [congruence|discriminate]. }
    destruct (N.eqb_spec b 226) as [->|N3].
    { intros H1 H2. destruct (utf8_char_len_3 226 r) as [E|E]; [lia| |]; rewrite E in H2; [|discriminate].
      destruct r as [|c1 [|c2 r]]; try discriminate. repeat match type of H1 with context [if ?c then _ else _] => destruct c end; congruence. }
    destruct (N.eqb_spec b 227) as [->|N4]; [|discriminate].
    { intros H1 H2. destruct (utf8_char_len_3 227 r) as [E|E]; [lia| |]; rewrite E in H2; [|discriminate].
      destruct r as [|c1 [|c2 r]]; try discriminate. destruct ((c1 =? 128) && (c2 =? 128)); [congruence|discriminate]. }
Qed.

Lemma utf8_trim_start_fuel f l : utf8 l -> utf8 (trim_start_fuel f l).
Proof.
  revert l. induction f as [|f IH]; intros l H; cbn [trim_start_fuel]; [exact H|].
  destruct (ws_prefix_len l) as [|n] eqn:E; [exact H|]. apply IH.
  inversion H as [E0|l' m Em H']; subst.
  - discriminate.
  - now rewrite (ws_utf8_len _ _ _ E Em).
Qed.

Lemma utf8_trim_start l : utf8 l -> utf8 (trim_start l).
Proof. apply utf8_trim_start_fuel. Qed.

(* ---- lower-casing keeps UTF-8 validity ---- *)
Lemma lower_byte_hi c : 91 <= c -> lower_byte c = c.
Proof.
  intro H. unfold lower_byte. replace ((65 <=? c) && (c <=? 90)) with false; [reflexivity|].
  symmetry. apply andb_false_iff. right. apply N.leb_gt. lia.
Qed.

Lemma lower_byte_lo c : c < 128 -> lower_byte c < 128.
Proof.
  intro H. unfold lower_byte. destruct ((65 <=? c) && (c <=? 90)) eqn:E; [|exact H].
  apply andb_true_iff in E as [_ E]. apply N.leb_le in E. lia.
Qed.

Lemma range_lower lo hi c : 128 <= lo -> (lo <=? lower_byte c) && (lower_byte c <=? hi) = (lo <=? c) && (c <=? hi).
Proof.
  intro H. destruct (N.lt_ge_cases c 128) as [Hc|Hc].
  - rewrite !range_ascii; try assumption; [reflexivity | now apply lower_byte_lo].
  - rewrite lower_byte_hi by lia. reflexivity.
Qed.

Lemma cont_lower c : cont (lower_byte c) = cont c.
Proof. unfold cont. apply range_lower. lia. Qed.

Lemma utf8_char_len_lower l : utf8_char_len (ascii_lower l) = utf8_char_len l.
Proof.
  destruct l as [|b r]; [reflexivity|]. cbn [ascii_lower map]. fold (ascii_lower r).
  destruct (N.lt_ge_cases b 128) as [Hb|Hb].
  - rewrite !utf8_char_len_ascii; [reflexivity | assumption | now apply lower_byte_lo].
  - rewrite lower_byte_hi by lia. cbn [utf8_char_len].
    repeat (case_if; [ destruct r as [|c1 [|c2 [|c3 r]]]; cbn [ascii_lower map]; try reflexivity;
                       rewrite ?cont_lower, ?range_lower by lia; reflexivity | ]).
    reflexivity.
Qed.

Lemma utf8_ascii_lower l : utf8 l -> utf8 (ascii_lower l).
Proof.
  induction 1 as [|l n E H IH]; [constructor|].
  apply (utf8_char _ n); [now rewrite utf8_char_len_lower|].
  unfold ascii_lower in *. now rewrite skipn_map.
Qed.

(* ------------------------------------------------------------------------------------------------ *)
(* Part 1b: lists of fields joined by a delimiter                                                   *)
(* ------------------------------------------------------------------------------------------------ *)
Fixpoint join_byte (d : N) (l : list bytes) : bytes :=
  match l with
  | [] => []
  | [x] => x
  | x :: l' => x ++ d :: join_byte d l'
  end.

Lemma join_byte_cons d x l : l <> [] -> join_byte d (x :: l) = x ++ d :: join_byte d l.
Proof. destruct l; [contradiction | reflexivity]. Qed.

Lemma split_on_join d l : l <> [] -> Forall (fun x => nob d x = true) l -> split_on d (join_byte d l) = l.
Proof.
  induction l as [|x l IH]; intros Hne Hl; [contradiction|].
  inversion Hl as [|? ? Hx Hl']; subst. destruct l as [|y l].
  - cbn [join_byte]. now apply split_on_nob.
  - rewrite join_byte_cons by discriminate. rewrite split_on_app by assumption. f_equal. apply IH; [discriminate | assumption].
Qed.

(* ---- trim: one more single-byte white space in front changes nothing ---- *)
Lemma trim_start_ws1_cons b l : ws1 b = true -> trim_start (b :: l) = trim_start l.
Proof.
  intro H. unfold trim_start. cbn [length trim_start_fuel]. now rewrite (ws_prefix_len_ws1 _ _ H).
Qed.

Lemma trim_ws1_cons b l : ws1 b = true -> trim (b :: l) = trim l.
Proof. intro H. unfold trim. now rewrite trim_start_ws1_cons. Qed.

Lemma trim_ws1_app pad l : forallb ws1 pad = true -> trim (pad ++ l) = trim l.
Proof.
  induction pad as [|b pad IH]; intro H; [reflexivity|]. cbn [forallb] in H. apply andb_true_iff in H as [Hb H].
  cbn [app]. rewrite trim_ws1_cons by assumption. now apply IH.
Qed.

(* ---- trim of a padded text ---- *)
Ltac b2p :=
  repeat match goal with
  | H : (_ && _) = true |- _ => apply andb_true_iff in H; destruct H
  | H : (_ || _) = true |- _ => apply orb_true_iff in H; destruct H
  | H : (_ =? _) = true |- _ => apply N.eqb_eq in H
  | H : (_ <=? _) = true |- _ => apply N.leb_le in H
  | H : (_ <? _) = true |- _ => apply N.ltb_lt in H
  end.

Lemma ws1_small c : ws1 c = true -> c <= 32.
Proof. unfold ws1. intro H. b2p; lia. Qed.

(* trailing single-byte white space never completes a multi-byte white-space character *)
Lemma ws_prefix_len_app_ws1 e pad : e <> [] -> ws_prefix_len e = 0%nat -> forallb ws1 pad = true ->
  ws_prefix_len (e ++ pad) = 0%nat.
Proof.
  intros Hne He Hp. rewrite ws_prefix_len_eq in *. destruct e as [|b r]; [contradiction|].
  cbn [app ws_prefix_len'] in *.
  assert (P1 : match pad with c :: _ => c <= 32 | [] => True end).
  { destruct pad as [|c pad]; [exact I|]. cbn [forallb] in Hp. apply andb_true_iff in Hp as [Hc _]. now apply ws1_small. }
  assert (P2 : match pad with _ :: c :: _ => c <= 32 | _ => True end).
  { destruct pad as [|c0 [|c pad]]; try exact I. cbn [forallb] in Hp. apply andb_true_iff in Hp as [_ Hp].
    apply andb_true_iff in Hp as [Hc _]. now apply ws1_small. }
  destruct (ws1 b); [discriminate|].
  repeat (case_if; [ destruct r as [|c1 [|c2 r]]; cbn [app]; try exact He;
                     destruct pad as [|p1 [|p2 pad]]; try reflexivity;
                     repeat case_if; try reflexivity; exfalso; b2p; lia | ]).
  reflexivity.
Qed.

Lemma ws_suffix_len_ws1 b r : ws1 b = true -> ws_suffix_len (b :: r) = 1%nat.
Proof. unfold ws1. intro H. cbn [ws_suffix_len]. now rewrite H. Qed.

Lemma trim_end_rev_ws1 rp re f : forallb ws1 rp = true -> (length rp <= f)%nat ->
  trim_end_rev f (rp ++ re) = trim_end_rev (f - length rp) re.
Proof.
  revert f. induction rp as [|b rp IH]; intros f Hp Hf; cbn [app length].
  - now rewrite Nat.sub_0_r.
  - cbn [forallb] in Hp. apply andb_true_iff in Hp as [Hb Hp]. destruct f as [|f]; [cbn [length] in Hf; lia|].
    cbn [trim_end_rev]. rewrite (ws_suffix_len_ws1 _ _ Hb). cbn [skipn]. rewrite IH; [|assumption|cbn [length] in Hf; lia].
    reflexivity.
Qed.

Lemma forallb_rev {A} (f : A -> bool) l : forallb f (rev l) = forallb f l.
Proof.
  induction l as [|x l IH]; [reflexivity|]. cbn [rev forallb]. rewrite forallb_app, IH. cbn [forallb].
  rewrite andb_true_r. apply andb_comm.
Qed.

Lemma trim_end_app_ws1 e pad : forallb ws1 pad = true -> trim_end e = e -> trim_end (e ++ pad) = e.
Proof.
  intros Hp He. unfold trim_end in *. rewrite rev_app_distr, trim_end_rev_ws1.
  - rewrite app_length, rev_length. replace (length e + length pad - length pad)%nat with (length e) by lia. exact He.
  - now rewrite forallb_rev.
  - rewrite app_length, rev_length. lia.
Qed.

(* optional single-byte white space (SP, HTAB, ...) around a text that has none at either end *)
Lemma trim_pad pad e pad' :
  forallb ws1 pad = true -> forallb ws1 pad' = true -> trim_start e = e -> trim_end e = e ->
  trim (pad ++ e ++ pad') = e.
Proof.
  intros Hp Hp' Hs He. rewrite trim_ws1_app by assumption. destruct e as [|b r].
  - cbn [app]. rewrite <- (app_nil_r pad'), trim_ws1_app by assumption. reflexivity.
  - unfold trim. rewrite trim_start_fixed.
    + now apply trim_end_app_ws1.
    + apply ws_prefix_len_app_ws1; [discriminate | now apply trim_start_fixed_iff | assumption].
Qed.

(* ------------------------------------------------------------------------------------------------ *)
(* Part 4: decimal numbers                                                                          *)
(* ------------------------------------------------------------------------------------------------ *)
Lemma digit_is_digit x : x < 10 -> is_digit (48 + x) = true.
Proof. intro H. unfold is_digit. apply andb_true_iff. split; apply N.leb_le; lia. Qed.

Lemma dec_render_fuel_digits f : forall n acc,
  n < 2 ^ N.of_nat f -> (0 < f)%nat ->
  exists k, forall a, dec_digits a (dec_render_fuel f n acc) = dec_digits (a * 10 ^ k + n) acc.
Proof.
  induction f as [|f IH]; intros n acc Hn Hf; [lia|]. cbn [dec_render_fuel].
  assert (Hm : n mod 10 < 10) by (apply N.mod_lt; lia).
  destruct (N.eqb_spec (n / 10) 0) as [E|E].
  - exists 1. intro a'. cbn [dec_digits]. rewrite digit_is_digit by assumption.
    assert (X : forall x, 48 + x - 48 = x) by (intro x; lia). rewrite X, N.pow_1_r.
    assert (D : n = 10 * (n / 10) + n mod 10) by (apply N.div_mod; lia).
    rewrite E, N.mul_0_r, N.add_0_l in D. now rewrite <- D.
  - assert (Hq : n / 10 < 2 ^ N.of_nat f).
    { apply N.div_lt_upper_bound; [lia|]. rewrite Nat2N.inj_succ, N.pow_succ_r' in Hn. lia. }
    assert (Hf' : (0 < f)%nat).
    { destruct f; [|lia]. change (2 ^ N.of_nat 0) with 1 in Hq. revert Hq E. generalize (n / 10). intros q Hq E. lia. }
    destruct (IH (n / 10) ((48 + n mod 10) :: acc) Hq Hf') as (k & Hk).
    exists (k + 1). intro a'. rewrite Hk. cbn [dec_digits]. rewrite digit_is_digit by assumption. f_equal.
    rewrite N.pow_add_r, N.pow_1_r. assert (X : forall x, 48 + x - 48 = x) by (intro x; lia). rewrite X.
    assert (D : n = 10 * (n / 10) + n mod 10) by (apply N.div_mod; lia).
    revert D. generalize (n / 10) (n mod 10). intros q r D. rewrite D. ring.
Qed.

Lemma dec_render_fuel_all_digits f : forall n acc,
  forallb is_digit acc = true -> forallb is_digit (dec_render_fuel f n acc) = true.
Proof.
  induction f as [|f IH]; intros n acc Ha; cbn [dec_render_fuel]; [exact Ha|].
  assert (Hd : forallb is_digit ((48 + n mod 10) :: acc) = true).
  { cbn [forallb]. rewrite Ha, digit_is_digit; [reflexivity|]. apply N.mod_lt. lia. }
  destruct (n / 10 =? 0); [exact Hd | now apply IH].
Qed.

Lemma dec_render_fuel_length f : forall n acc, (length acc <= length (dec_render_fuel f n acc))%nat.
Proof.
  induction f as [|f IH]; intros n acc; cbn [dec_render_fuel]; [lia|].
  destruct (n / 10 =? 0); [cbn [length]; lia|]. specialize (IH (n / 10) ((48 + n mod 10) :: acc)). cbn [length] in IH. lia.
Qed.

Lemma dec_render_not_nil n : dec_render n <> [].
Proof.
  unfold dec_render. cbn [dec_render_fuel]. destruct (n / 10 =? 0); [discriminate|].
  intro E. pose proof (dec_render_fuel_length (N.to_nat (N.log2 n)) (n / 10) [48 + n mod 10]) as H.
  rewrite E in H. cbn [length] in H. lia.
Qed.

Lemma dec_render_all_digits n : forallb is_digit (dec_render n) = true.
Proof. apply dec_render_fuel_all_digits. reflexivity. Qed.

Lemma dec_digits_dec_render n : dec_digits 0 (dec_render n) = Some n.
Proof.
  unfold dec_render.
  assert (Hn : n < 2 ^ N.of_nat (S (N.to_nat (N.log2 n)))).
  { rewrite Nat2N.inj_succ, N2Nat.id. destruct n as [|p]; [reflexivity|]. apply N.log2_spec. lia. }
  destruct (dec_render_fuel_digits (S (N.to_nat (N.log2 n))) n [] Hn) as (k & Hk); [lia|].
  rewrite Hk. cbn [dec_digits]. f_equal.
Qed.

Lemma strip_plus_digit d r : is_digit d = true -> match d :: r with 43 :: r' => r' | _ => d :: r end = d :: r.
Proof.
  intro H. destruct d as [|p]; [reflexivity|].
  do 7 (try (destruct p as [p|p|]; try reflexivity)). all: vm_compute in H; discriminate.
Qed.

(* what usize's Display writes, usize's FromStr reads back *)
Lemma parse_unsigned_dec_render max n : n <= max -> parse_unsigned max (dec_render n) = Some n.
Proof.
  intro H. unfold parse_unsigned. pose proof (dec_render_not_nil n) as Hne. pose proof (dec_render_all_digits n) as Hd.
  pose proof (dec_digits_dec_render n) as Hv.
  destruct (dec_render n) as [|d r]; [contradiction|]. cbn [forallb] in Hd. apply andb_true_iff in Hd as [Hd _].
  rewrite strip_plus_digit by assumption. rewrite Hv. apply N.leb_le in H. now rewrite H.
Qed.

Lemma parse_usize_dec_render n : n <= usize_max -> parse_usize (dec_render n) = Some n.
Proof. apply parse_unsigned_dec_render. Qed.
