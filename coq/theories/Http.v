(* Model of humphrey/src/http/{request,response,headers,address,cookie,method,status}.rs (C02, C07, C03, C01, C09).
   Strings are UTF-8 byte lists. Every function mirrors the Rust text branch by branch; the stream parsers exist in a
   code-shaped version over the BufReader model (`*_br`, `*_chunked`) and a flat version over a plain byte list
   (`*_flat`). Definitions only. *)
From Hv Require Import Prelude Bytes StreamBuf TablesHttp.
From Coq Require Import Arith.
Open Scope N_scope.

(* ---- headers ---- *)
Inductive hname : Type := HKnown (i : N) | HCustom (lower : bytes).

Definition hname_eqb (a b : hname) : bool :=
  match a, b with
  | HKnown i, HKnown j => i =? j
  | HCustom x, HCustom y => beq x y
  | _, _ => false
  end.

Fixpoint assoc_bytes {A} (k : bytes) (t : list (bytes * A)) : option A :=
  match t with
  | [] => None
  | (k', v) :: t' => if beq k k' then Some v else assoc_bytes k t'
  end.
Fixpoint assoc_N {A} (k : N) (t : list (N * A)) : option A :=
  match t with
  | [] => None
  | (k', v) :: t' => if k =? k' then Some v else assoc_N k t'
  end.

(* HeaderType::from(&str) *)
Definition hname_of (name : bytes) : hname :=
  let l := ascii_lower name in
  match assoc_bytes l header_parse_table with
  | Some i => HKnown i
  | None => HCustom l
  end.

(* HeaderType::to_string *)
Definition hname_str (h : hname) : bytes :=
  match h with
  | HCustom l => l
  | HKnown i => match assoc_N i header_name_table with Some s => s | None => [] end
  end.

Definition hname_cat (h : hname) : N :=
  match h with
  | HCustom _ => header_custom_category
  | HKnown i => match assoc_N i header_category_table with Some c => c | None => header_custom_category end
  end.

Definition header : Type := (hname * bytes)%type.
Definition headers : Type := list header.

(* Headers::get: first header with that name *)
Fixpoint hget (n : hname) (hs : headers) : option bytes :=
  match hs with
  | [] => None
  | (n', v) :: hs' => if hname_eqb n n' then Some v else hget n hs'
  end.
Definition hget_all (n : hname) (hs : headers) : list bytes :=
  map snd (filter (fun h => hname_eqb n (fst h)) hs).
Definition hremove (n : hname) (hs : headers) : headers :=
  filter (fun h => negb (hname_eqb n (fst h))) hs.

(* Ord for HeaderType: category, then name string *)
Definition hname_le (a b : hname) : bool :=
  if hname_cat a =? hname_cat b then
    match bcmp (hname_str a) (hname_str b) with Gt => false | _ => true end
  else hname_cat a <? hname_cat b.

(* Headers::iter: stable sort by name (insertion sort = the unique stable sort) *)
Fixpoint hinsert (h : header) (l : headers) : headers :=
  match l with
  | [] => [h]
  | x :: l' => if hname_le (fst h) (fst x) then h :: l else x :: hinsert h l'
  end.
(* h is placed before the first element that is not smaller, so equal keys keep arrival order when folding from the right *)
Definition hsort (l : headers) : headers := fold_right hinsert [] l.

(* ---- addresses ---- *)
Record address := { a_origin : bytes; a_proxies : list bytes; a_port : N }.
Record peer := { p_ip : bytes; p_port : N }.

Fixpoint filter_map {A B} (f : A -> option B) (l : list A) : list B :=
  match l with
  | [] => []
  | x :: l' => match f x with Some y => y :: filter_map f l' | None => filter_map f l' end
  end.

Definition XFF : hname := HCustom [120;45;102;111;114;119;97;114;100;101;100;45;102;111;114]. (* x-forwarded-for *)

(* Address::from_headers. ipp models IpAddr::from_str and returns the canonical text of the address. *)
Definition address_of (ipp : bytes -> option bytes) (hs : headers) (p : peer) : address :=
  match hget XFF hs with
  | Some fwd =>
    let ps := filter_map (fun s => ipp (trim s)) (split_on 44 fwd) in
    match rev ps with
    | [] => {| a_origin := p_ip p; a_proxies := []; a_port := p_port p |}
    | last :: rest_rev => {| a_origin := last; a_proxies := rev rest_rev ++ [p_ip p]; a_port := p_port p |}
    end
  | None => {| a_origin := p_ip p; a_proxies := []; a_port := p_port p |}
  end.

(* strict dotted-quad IPv4 (what Ipv4Addr::from_str accepts): 4 decimal octets 0..255, 1-3 digits, no leading zero *)
Definition octet (l : bytes) : bool :=
  match l with
  | [a] => is_digit a
  | [a; b] => is_digit a && is_digit b && negb (a =? 48)
  | [a; b; c] => is_digit a && is_digit b && is_digit c && negb (a =? 48) &&
                 ((a - 48) * 100 + (b - 48) * 10 + (c - 48) <=? 255)
  | _ => false
  end.
Definition ipv4_parse (l : bytes) : option bytes :=
  match split_on 46 l with
  | [a; b; c; d] => if octet a && octet b && octet c && octet d then Some l else None
  | _ => None
  end.

(* ---- requests ---- *)
Record request := {
  r_method : N; r_uri : bytes; r_query : bytes; r_version : bytes;
  r_headers : headers; r_content : option bytes; r_addr : address }.

(* error classes *)
Definition E_Request : N := 0.
Definition E_Stream : N := 1.
Definition E_Disconnected : N := 2.
Definition E_Timeout : N := 3.

Definition CRLF : bytes := [CR; LF].

(* one header line (already known not to be the blank line) -> header, or None = RequestError::Request *)
Definition parse_header_line (line : bytes) : option header :=
  match strip_crlf line with
  | None => None
  | Some l => match split_once COLON l with
              | None => None
              | Some (n, v) => Some (hname_of n, trim_start v)
              end
  end.

(* start line: method, uri, query, version *)
Definition parse_start_line (l : bytes) : option (N * bytes * bytes * bytes) :=
  if negb (utf8_valid l) then None else
  match split_on SP l with
  | m :: target :: v :: _ =>
    match assoc_bytes m method_parse_table with
    | None => None
    | Some mi =>
      let '(uri, query) := match split_once 63 target with Some (u, q) => (u, q) | None => (target, []) end in
      let version := match strip_crlf v with Some x => x | None => [] end in
      match version with
      | [] => None
      | _ => Some (mi, uri, query, version)
      end
    end
  | _ => None
  end.

(* header loop over the BufReader; fuel = number of lines that can possibly be read *)
Fixpoint header_loop_br (fuel : nat) (br : bufreader) (acc : headers) : outcome (headers * bufreader) :=
  match fuel with
  | O => Err 99
  | S f =>
    match read_line br with
    | None => Err 99
    | Some (line, br1) =>
      if negb (utf8_valid line) then Err E_Request
      else if beq line CRLF then Ok (rev acc, br1)
      else match parse_header_line line with
           | None => Err E_Request
           | Some h => header_loop_br f br1 (h :: acc)
           end
    end
  end.

Definition body_of_br (err_class : N) (hs : headers) (br : bufreader) : outcome (option bytes * bufreader) :=
  match hget (HKnown H_ContentLength) hs with
  | None => Ok (None, br)
  | Some cl =>
    match parse_usize cl with
    | None => Err E_Request
    | Some n =>
      match read_exact_N n br with
      | ROk d br' => Ok (Some d, br')
      | REof => Err err_class
      | RFuel => Err 99
      end
    end
  end.

(* Request::from_stream_inner *)
Definition parse_request_br (ipp : bytes -> option bytes) (p : peer) (first : N) (br : bufreader)
  : outcome (request * bufreader) :=
  match read_line br with
  | None => Err 99
  | Some (line, br1) =>
    match parse_start_line (first :: line) with
    | None => Err E_Request
    | Some (m, uri, query, version) =>
      match header_loop_br (S (length (contents br1))) br1 [] with
      | Ok (hs, br2) =>
        let addr := address_of ipp hs p in
        match body_of_br E_Stream hs br2 with
        | Ok (content, br3) =>
          Ok ({| r_method := m; r_uri := uri; r_query := query; r_version := version;
                 r_headers := hs; r_content := content; r_addr := addr |}, br3)
        | Err e => Err e
        | Crash w => Crash w
        end
      | Err e => Err e
      | Crash w => Crash w
      end
    end
  end.

(* Request::from_stream over a scripted source: one raw read for the first byte, then a fresh BufReader *)
Definition parse_request_chunked (ipp : bytes -> option bytes) (p : peer) (cs : chunks)
  : outcome (request * bufreader) :=
  match read 1 cs with
  | ([], _) => Err E_Disconnected
  | (b :: _, cs') => parse_request_br ipp p b (br_new cs')
  end.

(* ---- flat versions ---- *)
Fixpoint header_loop_flat (fuel : nat) (l : bytes) (acc : headers) : outcome (headers * bytes) :=
  match fuel with
  | O => Err 99
  | S f =>
    let '(line, rest) := read_until_flat LF l in
    if negb (utf8_valid line) then Err E_Request
    else if beq line CRLF then Ok (rev acc, rest)
    else match parse_header_line line with
         | None => Err E_Request
         | Some h => header_loop_flat f rest (h :: acc)
         end
  end.

Definition body_of_flat (err_class : N) (hs : headers) (l : bytes) : outcome (option bytes * bytes) :=
  match hget (HKnown H_ContentLength) hs with
  | None => Ok (None, l)
  | Some cl =>
    match parse_usize cl with
    | None => Err E_Request
    | Some n =>
      match read_exact_flat_N n l with
      | Some (d, rest) => Ok (Some d, rest)
      | None => Err err_class
      end
    end
  end.

Definition parse_request_flat (ipp : bytes -> option bytes) (p : peer) (l : bytes) : outcome (request * bytes) :=
  match l with
  | [] => Err E_Disconnected
  | first :: l0 =>
    let '(line, l1) := read_until_flat LF l0 in
    match parse_start_line (first :: line) with
    | None => Err E_Request
    | Some (m, uri, query, version) =>
      match header_loop_flat (S (length l1)) l1 [] with
      | Ok (hs, l2) =>
        let addr := address_of ipp hs p in
        match body_of_flat E_Stream hs l2 with
        | Ok (content, l3) =>
          Ok ({| r_method := m; r_uri := uri; r_query := query; r_version := version;
                 r_headers := hs; r_content := content; r_addr := addr |}, l3)
        | Err e => Err e
        | Crash w => Crash w
        end
      | Err e => Err e
      | Crash w => Crash w
      end
    end
  end.

(* From<Request> for Vec<u8> *)
Definition method_str (m : N) : bytes := match assoc_N m method_name_table with Some s => s | None => [] end.

Fixpoint join_crlf (ls : list bytes) : bytes :=
  match ls with
  | [] => []
  | [x] => x
  | x :: ls' => x ++ CRLF ++ join_crlf ls'
  end.

Definition render_header (h : header) : bytes := hname_str (fst h) ++ [COLON; SP] ++ snd h.

Definition serialize_request (r : request) : bytes :=
  let start := match r_query r with
               | [] => method_str (r_method r) ++ [SP] ++ r_uri r ++ [SP] ++ r_version r
               | q => method_str (r_method r) ++ [SP] ++ r_uri r ++ [63] ++ q ++ [SP] ++ r_version r
               end in
  start ++ CRLF ++ join_crlf (map render_header (hsort (r_headers r))) ++ CRLF ++ CRLF ++
  match r_content r with Some c => c | None => [] end.

(* Request::get_cookies *)
Definition cookies_of (hs : headers) : list (bytes * bytes) :=
  match hget (HKnown H_Cookie) hs with
  | None => []
  | Some v => filter_map (fun c => match split_once 61 c with
                                   | Some (k, x) => Some (trim k, trim x)
                                   | None => None
                                   end) (split_on 59 v)
  end.

(* ---- responses ---- *)
Record response := { s_version : bytes; s_status : N (* variant index *); s_headers : headers; s_body : bytes }.

Definition status_code (s : N) : N := match assoc_N s code_of_status_table with Some c => c | None => 0 end.
Definition status_phrase (s : N) : bytes := match assoc_N s phrase_of_status_table with Some p => p | None => [] end.
Definition status_of_code (c : N) : option N := assoc_N c status_of_code_table.

(* From<Response> for Vec<u8> *)
Definition serialize_response (r : response) : bytes :=
  s_version r ++ [SP] ++ dec_render (status_code (s_status r)) ++ [SP] ++ status_phrase (s_status r) ++
  concat (map (fun h => CRLF ++ render_header h) (hsort (s_headers r))) ++ CRLF ++ CRLF ++
  match s_body r with [] => [] | b => b ++ CRLF end.

Definition E_Response : N := 0.

(* str::splitn(3, ' ') must yield exactly 3 parts *)
Definition splitn3_sp (l : bytes) : option (bytes * bytes * bytes) :=
  match split_once SP l with
  | None => None
  | Some (a, r) => match split_once SP r with
                   | None => None
                   | Some (b, c) => Some (a, b, c)
                   end
  end.

Definition parse_status_line (l : bytes) : option (bytes * N) :=
  if negb (utf8_valid l) then None else
  match splitn3_sp l with
  | None => None
  | Some (v, code, _) =>
    match parse_u16 code with
    | None => None
    | Some c => match status_of_code c with Some s => Some (v, s) | None => None end
    end
  end.

Definition TE_chunked : bytes := [99;104;117;110;107;101;100].

(* parse_chunk: Ok None = terminating chunk, Ok (Some data) *)
Definition parse_chunk_br (br : bufreader) : outcome (option bytes * bufreader) :=
  match read_line br with
  | None => Err 99
  | Some (line, br1) =>
    if negb (utf8_valid line) then Err E_Response else
    match parse_usize_hex (trim_end line) with
    | None => Err E_Response
    | Some n =>
      if n =? 0 then
        match read_exact 2 br1 with
        | ROk _ br2 => Ok (None, br2)
        | REof => Err E_Stream
        | RFuel => Err 99
        end
      else
        match read_exact_N n br1 with
        | ROk d br2 =>
          match read_exact 2 br2 with
          | ROk _ br3 => Ok (Some d, br3)
          | REof => Err E_Stream
          | RFuel => Err 99
          end
        | REof => Err E_Stream
        | RFuel => Err 99
        end
    end
  end.

Fixpoint chunk_loop_br (fuel : nat) (br : bufreader) (acc : bytes) : outcome (bytes * bufreader) :=
  match fuel with
  | O => Err 99
  | S f =>
    match parse_chunk_br br with
    | Ok (None, br1) => Ok (acc, br1)
    | Ok (Some d, br1) => chunk_loop_br f br1 (acc ++ d)
    | Err e => Err e
    | Crash w => Crash w
    end
  end.

(* response header lines: like request ones *)
Fixpoint rheader_loop_br (fuel : nat) (br : bufreader) (acc : headers) : outcome (headers * bufreader) :=
  match fuel with
  | O => Err 99
  | S f =>
    match read_line br with
    | None => Err 99
    | Some (line, br1) =>
      if negb (utf8_valid line) then Err E_Response
      else if beq line CRLF then Ok (rev acc, br1)
      else match parse_header_line line with
           | None => Err E_Response
           | Some h => rheader_loop_br f br1 (h :: acc)
           end
    end
  end.

(* Response::from_stream *)
Definition parse_response_br (br : bufreader) : outcome (response * bufreader) :=
  match read_line br with
  | None => Err 99
  | Some (line, br1) =>
    match parse_status_line line with
    | None => Err E_Response
    | Some (version, status) =>
      match rheader_loop_br (S (length (contents br1))) br1 [] with
      | Ok (hs, br2) =>
        let chunked := match hget (HKnown H_TransferEncoding) hs with Some te => beq te TE_chunked | None => false end in
        if chunked then
          match chunk_loop_br (S (length (contents br2))) br2 [] with
          | Ok (body, br3) =>
            let hs' := hremove (HKnown H_TransferEncoding) hs ++ [(HKnown H_ContentLength, dec_render (N.of_nat (length body)))] in
            Ok ({| s_version := version; s_status := status; s_headers := hs'; s_body := body |}, br3)
          | Err e => Err e
          | Crash w => Crash w
          end
        else
          match hget (HKnown H_ContentLength) hs with
          | Some cl =>
            match parse_usize cl with
            | None => Err E_Response
            | Some n =>
              match read_exact_N n br2 with
              | ROk d br3 => Ok ({| s_version := version; s_status := status; s_headers := hs; s_body := d |}, br3)
              | REof => Err E_Stream
              | RFuel => Err 99
              end
            end
          | None => Ok ({| s_version := version; s_status := status; s_headers := hs; s_body := [] |}, br2)
          end
      | Err e => Err e
      | Crash w => Crash w
      end
    end
  end.

Definition parse_response_chunked (cs : chunks) : outcome (response * bufreader) := parse_response_br (br_new cs).

(* flat versions *)
Definition parse_chunk_flat (l : bytes) : outcome (option bytes * bytes) :=
  let '(line, l1) := read_until_flat LF l in
  if negb (utf8_valid line) then Err E_Response else
  match parse_usize_hex (trim_end line) with
  | None => Err E_Response
  | Some n =>
    if n =? 0 then
      match read_exact_flat 2 l1 with
      | Some (_, l2) => Ok (None, l2)
      | None => Err E_Stream
      end
    else
      match read_exact_flat_N n l1 with
      | Some (d, l2) =>
        match read_exact_flat 2 l2 with
        | Some (_, l3) => Ok (Some d, l3)
        | None => Err E_Stream
        end
      | None => Err E_Stream
      end
  end.

Fixpoint chunk_loop_flat (fuel : nat) (l : bytes) (acc : bytes) : outcome (bytes * bytes) :=
  match fuel with
  | O => Err 99
  | S f =>
    match parse_chunk_flat l with
    | Ok (None, l1) => Ok (acc, l1)
    | Ok (Some d, l1) => chunk_loop_flat f l1 (acc ++ d)
    | Err e => Err e
    | Crash w => Crash w
    end
  end.

Fixpoint rheader_loop_flat (fuel : nat) (l : bytes) (acc : headers) : outcome (headers * bytes) :=
  match fuel with
  | O => Err 99
  | S f =>
    let '(line, rest) := read_until_flat LF l in
    if negb (utf8_valid line) then Err E_Response
    else if beq line CRLF then Ok (rev acc, rest)
    else match parse_header_line line with
         | None => Err E_Response
         | Some h => rheader_loop_flat f rest (h :: acc)
         end
  end.

Definition parse_response_flat (l : bytes) : outcome (response * bytes) :=
  let '(line, l1) := read_until_flat LF l in
  match parse_status_line line with
  | None => Err E_Response
  | Some (version, status) =>
    match rheader_loop_flat (S (length l1)) l1 [] with
    | Ok (hs, l2) =>
      let chunked := match hget (HKnown H_TransferEncoding) hs with Some te => beq te TE_chunked | None => false end in
      if chunked then
        match chunk_loop_flat (S (length l2)) l2 [] with
        | Ok (body, l3) =>
          let hs' := hremove (HKnown H_TransferEncoding) hs ++ [(HKnown H_ContentLength, dec_render (N.of_nat (length body)))] in
          Ok ({| s_version := version; s_status := status; s_headers := hs'; s_body := body |}, l3)
        | Err e => Err e
        | Crash w => Crash w
        end
      else
        match hget (HKnown H_ContentLength) hs with
        | Some cl =>
          match parse_usize cl with
          | None => Err E_Response
          | Some n =>
            match read_exact_flat_N n l2 with
            | Some (d, l3) => Ok ({| s_version := version; s_status := status; s_headers := hs; s_body := d |}, l3)
            | None => Err E_Stream
            end
          end
        | None => Ok ({| s_version := version; s_status := status; s_headers := hs; s_body := [] |}, l2)
        end
    | Err e => Err e
    | Crash w => Crash w
    end
  end.

(* From<SetCookie> for Header *)
Record set_cookie := {
  sc_name : bytes; sc_value : bytes; sc_expires : option bytes; sc_max_age : option N;
  sc_domain : option bytes; sc_path : option bytes; sc_secure : bool; sc_http_only : bool;
  sc_same_site : option N (* 0 Strict, 1 Lax, 2 None *) }.

Definition str_Expires : bytes := [59;32;69;120;112;105;114;101;115;61].       (* "; Expires=" *)
Definition str_MaxAge : bytes := [59;32;77;97;120;45;65;103;101;61].           (* "; Max-Age=" *)
Definition str_Domain : bytes := [59;32;68;111;109;97;105;110;61].             (* "; Domain=" *)
Definition str_Path : bytes := [59;32;80;97;116;104;61].                       (* "; Path=" *)
Definition str_SameSite : bytes := [59;32;83;97;109;101;83;105;116;101;61].    (* "; SameSite=" *)
Definition str_Secure : bytes := [59;32;83;101;99;117;114;101].                (* "; Secure" *)
Definition str_HttpOnly : bytes := [59;32;72;116;116;112;79;110;108;121].      (* "; HttpOnly" *)
Definition same_site_str (s : N) : bytes :=
  if s =? 0 then [83;116;114;105;99;116] else if s =? 1 then [76;97;120] else [78;111;110;101].

Definition set_cookie_header (c : set_cookie) : header :=
  (HKnown H_SetCookie,
   sc_name c ++ [61] ++ sc_value c ++
   (match sc_expires c with Some e => str_Expires ++ e | None => [] end) ++
   (match sc_max_age c with Some a => str_MaxAge ++ dec_render a | None => [] end) ++
   (match sc_domain c with Some d => str_Domain ++ d | None => [] end) ++
   (match sc_path c with Some p => str_Path ++ p | None => [] end) ++
   (match sc_same_site c with Some s => str_SameSite ++ same_site_str s | None => [] end) ++
   (if sc_secure c then str_Secure else []) ++
   (if sc_http_only c then str_HttpOnly else [])).
