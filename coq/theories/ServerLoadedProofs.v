(* A server started from a configuration file that Config::load accepted never reaches the `unwrap` of a missing route
   target (route.path / route.load_balancer / route.websocket_proxy in server.rs request_handler), nor an index out of
   range: validation (C15) and wiring (C04) together exclude SPanic for every request. *)
From Coq Require Import Lia.
From Hv Require Import Prelude Bytes BytesProofs TablesHttp TablesConfig Http Krauss KraussProofs Routing RoutingProofs
  Blacklist StaticFs Config ConfigValidProofs Proxy Server ServerProofs.
Open Scope N_scope.

Definition well_targeted (rt : route_cfg) : Prop :=
  (rt_type rt = RT_File /\ rt_path rt <> None) \/ (rt_type rt = RT_Directory /\ rt_path rt <> None) \/
  (rt_type rt = RT_Redirect /\ rt_path rt <> None) \/
  (rt_type rt = RT_Proxy /\ rt_lb rt <> None) \/
  rt_type rt = RT_ExclusiveWebSocket.

Lemma collect_ok_in {A B} (f : A -> res B) : forall l ys, collect f l = ROk ys ->
  forall y, In y ys -> exists x, In x l /\ f x = ROk y.
Proof.
  induction l as [|x l IH]; intros ys H y Hy; cbn [collect] in H.
  - injection H as <-. contradiction.
  - apply rbind_ok in H as (y0 & Ey & H). apply rbind_ok in H as (ys' & Eys & H). injection H as <-.
    destruct Hy as [<-|Hy]; [exists x; split; [now left|exact Ey]|].
    destruct (IH _ Eys _ Hy) as (x' & Hx & E). exists x'. split; [now right|exact E].
Qed.

Lemma parse_host_well_targeted wild n hc : parse_host wild n = ROk hc -> Forall well_targeted (hc_routes hc).
Proof.
  unfold parse_host. intro H. apply rbind_ok in H as (rss & E & H). injection H as <-. cbn [hc_routes].
  apply Forall_forall. intros rt Hin. apply in_concat in Hin as (rs & Hrs & Hrt).
  destruct (collect_ok_in _ _ _ E _ Hrs) as ([w conf] & _ & Ep). cbn [fst snd] in Ep. unfold parse_route in Ep.
  destruct (collect_ok_in _ _ _ Ep _ Hrt) as (w' & _ & Er).
  destruct (route_for_accepts_only_with_target _ _ _ Er) as (_ & [T|[T|[T|[T|T]]]]); unfold well_targeted.
  - now left.
  - right. now left.
  - right. right. now left.
  - right. right. right. left. destruct T as (T & ts & m & L & _). split; [exact T|]. rewrite L. discriminate.
  - right. right. right. right. exact (proj1 T).
Qed.

Definition config_well_targeted (c : config) : Prop :=
  Forall well_targeted (hc_routes (cf_default_host c)) /\
  Forall (fun hc => Forall well_targeted (hc_routes hc)) (cf_hosts c).

Theorem loaded_config_well_targeted ipp files file conf c :
  load ipp files file conf = ROk c -> config_well_targeted c.
Proof.
  unfold load. intro H. apply rbind_ok in H as (tree & _ & H).
  destruct (from_tree_accepts_only_valid _ _ _ _ H) as (_ & _ & _ & _ & _ & _ & _ & _ & _ & _ & Hd & Hh).
  split; [exact (parse_host_well_targeted _ _ _ Hd)|].
  apply Forall_forall. intros hc Hin. destruct (collect_ok_in _ _ _ Hh _ Hin) as ([w n] & _ & E).
  exact (parse_host_well_targeted _ _ _ E).
Qed.

Lemma get_route_in c h j rt : get_route c h j = Some rt ->
  In rt (hc_routes (cf_default_host c)) \/ exists hc, In hc (cf_hosts c) /\ In rt (hc_routes hc).
Proof.
  unfold get_route. destruct h as [|h].
  - intro H. left. eapply nth_error_In; exact H.
  - destruct (nth_error (cf_hosts c) h) as [hc|] eqn:E; [|discriminate]. intro H. right. exists hc.
    split; eapply nth_error_In; eassumption.
Qed.

Lemma get_route_well_targeted c h j rt : config_well_targeted c -> get_route c h j = Some rt -> well_targeted rt.
Proof.
  intros [Wd Wh] H. apply get_route_in in H as [H|(hc & Hhc & H)].
  - exact (proj1 (Forall_forall _ _) Wd _ H).
  - exact (proj1 (Forall_forall _ _) (proj1 (Forall_forall _ _) Wh _ Hhc) _ H).
Qed.

Section Loaded.
  Variable ipp : bytes -> option bytes.
  Variable fs : StaticFs.node.

  Lemma dispatch_never_spanic c rt v req : well_targeted rt -> dispatch fs c rt v req <> SPanic.
  Proof.
    unfold dispatch. intros [[T P]|[[T P]|[[T P]|[[T P]|T]]]]; rewrite T.
    - change (RT_File =? RT_ExclusiveWebSocket) with false. cbv iota. destruct v; try discriminate.
      all: rewrite N.eqb_refl; destruct (rt_path rt); [discriminate|contradiction].
    - change (RT_Directory =? RT_ExclusiveWebSocket) with false. change (RT_Directory =? RT_File) with false. cbv iota.
      destruct v; try discriminate.
      all: rewrite N.eqb_refl; destruct (rt_path rt); [discriminate|contradiction].
    - change (RT_Redirect =? RT_ExclusiveWebSocket) with false. change (RT_Redirect =? RT_File) with false.
      change (RT_Redirect =? RT_Directory) with false. cbv iota.
      destruct v; try discriminate.
      all: rewrite N.eqb_refl; destruct (rt_path rt); [discriminate|contradiction].
    - change (RT_Proxy =? RT_ExclusiveWebSocket) with false. change (RT_Proxy =? RT_File) with false.
      change (RT_Proxy =? RT_Directory) with false. change (RT_Proxy =? RT_Redirect) with false. cbv iota.
      destruct v; try discriminate.
      all: rewrite N.eqb_refl; destruct (rt_lb rt) as [[ts m]|]; [discriminate|contradiction].
    - rewrite N.eqb_refl. discriminate.
  Qed.

  Lemma ws_response_never_spanic c v req : ws_response c v req <> SPanic.
  Proof.
    unfold ws_response. destruct (get_handler _ _ _ _) as [ch|] eqn:G; [|discriminate].
    destruct (ws_wiring_total _ _ _ _ G) as (h & j & rt & t & E1 & E2 & E3 & _). rewrite E1.
    destruct v; try discriminate; rewrite E2, E3; discriminate.
  Qed.

  (* whatever the request: a server whose configuration is well targeted never hits a missing target or a bad index *)
  Theorem server_never_spanic c p req : config_well_targeted c -> server_response ipp fs c p req <> SPanic.
  Proof.
    intro W. unfold server_response.
    destruct (Blacklist.serve ipp _ _ p _); [discriminate| |].
    all: destruct (is_upgrade req); [apply ws_response_never_spanic|].
    all: destruct (get_handler _ _ _ _) as [ch|] eqn:G; [|discriminate].
    all: destruct (wiring_total _ _ _ _ G) as (rt & E & _).
    all: destruct (handler_ids ch) as [h j]; cbn [fst snd] in E; rewrite E.
    all: apply dispatch_never_spanic; eapply get_route_well_targeted; eassumption.
  Qed.

  Theorem loaded_server_never_spanic files file conf p req :
    serve_text ipp fs files file conf p req <> Some SPanic.
  Proof.
    unfold serve_text. destruct (load ipp files file conf) as [c| |] eqn:L; try discriminate.
    intro H. injection H as H. exact (server_never_spanic c p req (loaded_config_well_targeted _ _ _ _ _ L) H).
  Qed.
End Loaded.
