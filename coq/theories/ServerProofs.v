(* Proofs about the composed server model (Server.v): the per-property theorems (C04 routing rule, C19 blacklist, C06
   confinement, C15 layout independence) lifted through the wiring of server.rs. *)
From Coq Require Import Lia.
From Hv Require Import Prelude Bytes TablesHttp TablesConfig Http Krauss KraussProofs Routing RoutingProofs
  Blacklist BlacklistProofs StaticFs StaticFsProofs Config Proxy HttpReqSpec HttpReqProofs ProxyReqProofs Server.
Open Scope N_scope.

Section ServerProofs.
  Variable ipp : bytes -> option bytes.
  Variable fs : StaticFs.node.

  Local Notation response := (server_response ipp fs).

  (* ---- the wiring: the (host, route) pair registered with the App finds the route the App matched ---- *)
  Lemma nth_error_map_some {A B} (f : A -> B) l j y :
    nth_error (map f l) j = Some y -> exists x, nth_error l j = Some x /\ y = f x.
  Proof.
    revert j. induction l as [|a l IH]; intros [|j] H; cbn in H; try discriminate.
    - injection H as <-. exists a. split; reflexivity.
    - apply IH in H. exact H.
  Qed.

  Theorem wiring_total (c : config) host uri ch :
    get_handler (map subapp_of (cf_hosts c)) (subapp_of (cf_default_host c)) host uri = Some ch ->
    exists rt, get_route c (fst (handler_ids ch)) (snd (handler_ids ch)) = Some rt /\
      wildcard_match (scalars (rt_matches rt)) uri = true /\
      match ch with
      | InDefault j => nth_error (hc_routes (cf_default_host c)) j = Some rt
      | InSub i j => exists hc, nth_error (cf_hosts c) i = Some hc /\ nth_error (hc_routes hc) j = Some rt /\
                                 forall h, host = Some h -> wildcard_match (scalars (hc_matches hc)) h = true
      end.
  Proof.
    unfold get_handler. intro H.
    assert (D : forall ch',
      match find_index (fun r => wildcard_match r uri) (sa_routes (subapp_of (cf_default_host c))) 0 with
      | Some (j, _) => Some (InDefault j) | None => None end = Some ch' ->
      exists rt, get_route c (fst (handler_ids ch')) (snd (handler_ids ch')) = Some rt /\
        wildcard_match (scalars (rt_matches rt)) uri = true /\
        match ch' with
        | InDefault j => nth_error (hc_routes (cf_default_host c)) j = Some rt
        | InSub i j => exists hc, nth_error (cf_hosts c) i = Some hc /\ nth_error (hc_routes hc) j = Some rt /\
                                   forall h, host = Some h -> wildcard_match (scalars (hc_matches hc)) h = true
        end).
    { intros ch' E. destruct (find_index _ _ 0) as [[j p]|] eqn:F; [|discriminate]. injection E as <-.
      apply find_index_some in F as (_ & Hn & Hf & _). rewrite Nat.sub_0_r in Hn.
      cbn [subapp_of sa_routes] in Hn. apply nth_error_map_some in Hn as (rt & Hrt & ->).
      exists rt. cbn [handler_ids fst snd get_route]. auto. }
    destruct host as [h|]; [|apply D; exact H].
    destruct (find_index (fun s => wildcard_match (sa_host s) h) (map subapp_of (cf_hosts c)) 0) as [[i s]|] eqn:FH;
      [|apply D; exact H].
    destruct (find_index (fun r => wildcard_match r uri) (sa_routes s) 0) as [[j p]|] eqn:FR; [|apply D; exact H].
    injection H as <-.
    apply find_index_some in FH as (_ & Hn & Hf & _). rewrite Nat.sub_0_r in Hn.
    apply nth_error_map_some in Hn as (hc & Hhc & ->).
    apply find_index_some in FR as (_ & Hr & Hfr & _). rewrite Nat.sub_0_r in Hr.
    cbn [subapp_of sa_routes] in Hr. apply nth_error_map_some in Hr as (rt & Hrt & ->).
    exists rt. cbn [handler_ids fst snd get_route]. rewrite Hhc. split; [exact Hrt|]. split; [exact Hfr|].
    exists hc. split; [reflexivity|]. split; [exact Hrt|]. intros h' E. injection E as <-. exact Hf.
  Qed.

  (* the handler never panics for lack of a route: get_route always finds what get_handler chose *)
  Corollary wiring_never_misses (c : config) (req : request) ch :
    get_handler (map subapp_of (cf_hosts c)) (subapp_of (cf_default_host c))
      (option_map scalars (hget (HKnown H_Host) (r_headers req))) (scalars (r_uri req)) = Some ch ->
    get_route c (fst (handler_ids ch)) (snd (handler_ids ch)) <> None.
  Proof. intro H. destruct (wiring_total _ _ _ _ H) as (rt & E & _). rewrite E. discriminate. Qed.

  (* ---- C04 through the server: the answering route is the one the routing rule names ---- *)
  Theorem server_routes_by_rule (c : config) p req :
    Blacklist.serve ipp (cf_bl_mode c =? BLOCK_MODE) (cf_bl_list c) p (r_headers req) <> Dropped ->
    is_upgrade req = false ->
    let host := option_map scalars (hget (HKnown H_Host) (r_headers req)) in
    let uri := scalars (r_uri req) in
    exists choice, Routes (map subapp_of (cf_hosts c)) (subapp_of (cf_default_host c)) host uri choice /\
      match choice with
      | None => response c p req = SNotFound
      | Some ch => exists rt, get_route c (fst (handler_ids ch)) (snd (handler_ids ch)) = Some rt /\
          response c p req =
          dispatch fs c rt (Blacklist.serve ipp (cf_bl_mode c =? BLOCK_MODE) (cf_bl_list c) p (r_headers req)) req
      end.
  Proof.
    intros Hnd Hup host uri.
    exists (get_handler (map subapp_of (cf_hosts c)) (subapp_of (cf_default_host c)) host uri).
    split; [apply get_handler_spec|].
    unfold server_response. rewrite Hup. fold host uri.
    destruct (Blacklist.serve ipp _ _ p _) eqn:V; [contradiction| |].
    all: destruct (get_handler _ _ host uri) as [ch|] eqn:G; [|reflexivity].
    all: destruct (wiring_total _ _ _ _ G) as (rt & E & _); exists rt; split; [exact E|].
    all: destruct (handler_ids ch) as [h j]; cbn [fst snd] in E; rewrite E; reflexivity.
  Qed.

  (* ---- C19 through the server ---- *)
  Definition gives_content (r : sresp) : Prop :=
    match r with SRedirect _ | SStatic _ | SProxy _ _ _ | SWsProxy _ => True | _ => False end.

  Lemma dispatch_forbidden c rt req : ~ gives_content (dispatch fs c rt Forbidden req).
  Proof. unfold dispatch. destruct (rt_type rt =? RT_ExclusiveWebSocket); cbn; tauto. Qed.

  (* ---- the WebSocket routes: indices of the routes that have a target ---- *)
  Lemma ws_indexed_from_spec rs : forall k j i r,
    nth_error (ws_indexed_from k rs) j = Some (i, r) ->
    (k <= i)%nat /\ nth_error rs (i - k) = Some r /\ rt_ws r <> None.
  Proof.
    induction rs as [|a rs IH]; intros k j i r H; cbn [ws_indexed_from] in H; [destruct j; discriminate|].
    destruct (rt_ws a) eqn:W.
    - destruct j as [|j'].
      + cbn in H. injection H as <- <-. rewrite Nat.sub_diag. split; [lia|]. split; [reflexivity|]. rewrite W. discriminate.
      + cbn in H. apply IH in H as (Hk & Hn & Hw). split; [lia|]. split; [|exact Hw].
        replace (i - k)%nat with (S (i - S k)) by lia. exact Hn.
    - apply IH in H as (Hk & Hn & Hw). split; [lia|]. split; [|exact Hw].
      replace (i - k)%nat with (S (i - S k)) by lia. exact Hn.
  Qed.

  Theorem ws_wiring_total (c : config) host uri ch :
    get_handler (map ws_subapp_of (cf_hosts c)) (ws_subapp_of (cf_default_host c)) host uri = Some ch ->
    exists h j rt t, ws_handler_ids c ch = Some (h, j) /\ get_route c h j = Some rt /\ rt_ws rt = Some t /\
      wildcard_match (scalars (rt_matches rt)) uri = true.
  Proof.
    unfold get_handler. intro H.
    assert (D : forall ch',
      match find_index (fun r => wildcard_match r uri) (sa_routes (ws_subapp_of (cf_default_host c))) 0 with
      | Some (j, _) => Some (InDefault j) | None => None end = Some ch' ->
      exists h j rt t, ws_handler_ids c ch' = Some (h, j) /\ get_route c h j = Some rt /\ rt_ws rt = Some t /\
        wildcard_match (scalars (rt_matches rt)) uri = true).
    { intros ch' E. destruct (find_index _ _ 0) as [[j p]|] eqn:F; [|discriminate]. injection E as <-.
      apply find_index_some in F as (_ & Hn & Hf & _). rewrite Nat.sub_0_r in Hn.
      cbn [ws_subapp_of sa_routes] in Hn. apply nth_error_map_some in Hn as ([i rt] & Hrt & ->).
      pose proof (ws_indexed_from_spec _ _ _ _ _ Hrt) as (_ & Hnth & Hw). rewrite Nat.sub_0_r in Hnth.
      destruct (rt_ws rt) as [t|] eqn:W; [|contradiction].
      exists O, i, rt, t. cbn [ws_handler_ids]. unfold ws_indexed in Hrt |- *. rewrite Hrt. cbn [option_map fst get_route].
      auto. }
    destruct host as [h|]; [|apply D; exact H].
    destruct (find_index (fun s => wildcard_match (sa_host s) h) (map ws_subapp_of (cf_hosts c)) 0) as [[i s]|] eqn:FH;
      [|apply D; exact H].
    destruct (find_index (fun r => wildcard_match r uri) (sa_routes s) 0) as [[j p]|] eqn:FR; [|apply D; exact H].
    injection H as <-.
    apply find_index_some in FH as (_ & Hn & _ & _). rewrite Nat.sub_0_r in Hn.
    apply nth_error_map_some in Hn as (hc & Hhc & ->).
    apply find_index_some in FR as (_ & Hr & Hfr & _). rewrite Nat.sub_0_r in Hr.
    cbn [ws_subapp_of sa_routes] in Hr. apply nth_error_map_some in Hr as ([k rt] & Hrt & ->).
    pose proof (ws_indexed_from_spec _ _ _ _ _ Hrt) as (_ & Hnth & Hw). rewrite Nat.sub_0_r in Hnth.
    destruct (rt_ws rt) as [t|] eqn:W; [|contradiction].
    exists (S i), k, rt, t. cbn [ws_handler_ids]. rewrite Hhc. unfold ws_indexed in Hrt |- *. rewrite Hrt.
    cbn [option_map fst get_route]. rewrite Hhc. auto.
  Qed.

  Lemma ws_forbidden c req :
    ws_response c Forbidden req = SClosed \/ ws_response c Forbidden req = SForbidden.
  Proof.
    unfold ws_response. destruct (get_handler _ _ _ _) as [ch|] eqn:G; [|left; reflexivity].
    destruct (ws_wiring_total _ _ _ _ G) as (h & j & rt & t & E & _). rewrite E. right; reflexivity.
  Qed.

  (* a client at a listed address never receives content from any route type, whatever it sends *)
  Theorem server_listed_never_content (c : config) p req :
    mem (p_ip p) (cf_bl_list c) = true -> ~ gives_content (response c p req).
  Proof.
    intro Hl. unfold server_response.
    pose proof (listed_never_served ipp (cf_bl_mode c =? BLOCK_MODE) (cf_bl_list c) p (r_headers req) Hl) as NS.
    destruct (Blacklist.serve ipp _ _ p _) eqn:V; [cbn; tauto| |contradiction].
    destruct (is_upgrade req).
    { destruct (ws_forbidden c req) as [E|E]; rewrite E; cbn; tauto. }
    destruct (get_handler _ _ _ _) as [ch|]; [|cbn; tauto].
    destruct (handler_ids ch) as [h j]. destruct (get_route c h j) as [rt|]; [|cbn; tauto].
    apply dispatch_forbidden.
  Qed.

  (* block mode: its connection is closed without a response; forbidden mode: 403 on every configured route *)
  Theorem server_listed_block_dropped (c : config) p req :
    mem (p_ip p) (cf_bl_list c) = true -> cf_bl_mode c = BLOCK_MODE -> response c p req = SDropped.
  Proof.
    intros Hl Hm. unfold server_response. rewrite Hm, N.eqb_refl.
    destruct (listed_block_dropped_forbidden_403 ipp (cf_bl_list c) p (r_headers req) Hl) as [E _]. rewrite E. reflexivity.
  Qed.

  Theorem server_listed_forbidden_mode (c : config) p req :
    mem (p_ip p) (cf_bl_list c) = true -> cf_bl_mode c <> BLOCK_MODE ->
    response c p req = SNotFound \/ response c p req = SWsOnly \/ response c p req = SForbidden \/ response c p req = SClosed.
  Proof.
    intros Hl Hm. unfold server_response. apply N.eqb_neq in Hm. rewrite Hm.
    destruct (listed_block_dropped_forbidden_403 ipp (cf_bl_list c) p (r_headers req) Hl) as [_ E]. rewrite E.
    destruct (is_upgrade req).
    { destruct (ws_forbidden c req) as [E'|E']; rewrite E'; tauto. }
    destruct (get_handler _ _ _ _) as [ch|] eqn:G; [|left; reflexivity].
    destruct (wiring_total _ _ _ _ G) as (rt & E' & _).
    destruct (handler_ids ch) as [h j]; cbn [fst snd] in E'; rewrite E'.
    unfold dispatch. destruct (rt_type rt =? RT_ExclusiveWebSocket); [right; left|right; right; left]; reflexivity.
  Qed.

  (* a request forwarded by an unlisted peer on behalf of a listed address: 403 on every routed path *)
  Theorem server_forwarded_listed (c : config) p req a :
    mem (p_ip p) (cf_bl_list c) = false -> In a (forwarded ipp (r_headers req)) -> mem a (cf_bl_list c) = true ->
    response c p req = SNotFound \/ response c p req = SWsOnly \/ response c p req = SForbidden \/ response c p req = SClosed.
  Proof.
    intros Hp Hin Ha. unfold server_response.
    rewrite (forwarded_listed_403 ipp _ (cf_bl_list c) p (r_headers req) a Hp Hin Ha).
    destruct (is_upgrade req).
    { destruct (ws_forbidden c req) as [E'|E']; rewrite E'; tauto. }
    destruct (get_handler _ _ _ _) as [ch|] eqn:G; [|left; reflexivity].
    destruct (wiring_total _ _ _ _ G) as (rt & E' & _).
    destruct (handler_ids ch) as [h j]; cbn [fst snd] in E'; rewrite E'.
    unfold dispatch. destruct (rt_type rt =? RT_ExclusiveWebSocket); [right; left|right; right; left]; reflexivity.
  Qed.

  (* clients whose own and forwarded addresses are all unlisted are served normally: the route's handler answers *)
  Theorem server_unlisted_served (c : config) p req :
    mem (p_ip p) (cf_bl_list c) = false ->
    (forall a, In a (forwarded ipp (r_headers req)) -> mem a (cf_bl_list c) = false) ->
    response c p req =
    if is_upgrade req then ws_response c Served req else
    match get_handler (map subapp_of (cf_hosts c)) (subapp_of (cf_default_host c))
                      (option_map scalars (hget (HKnown H_Host) (r_headers req))) (scalars (r_uri req)) with
    | None => SNotFound
    | Some ch => match get_route c (fst (handler_ids ch)) (snd (handler_ids ch)) with
                 | Some rt => dispatch fs c rt Served req
                 | None => SPanic
                 end
    end.
  Proof.
    intros Hp Hall. unfold server_response.
    rewrite (unlisted_served ipp _ (cf_bl_list c) p (r_headers req) Hp Hall).
    destruct (is_upgrade req); [reflexivity|].
    destruct (get_handler _ _ _ _) as [ch|]; [|reflexivity].
    destruct (handler_ids ch) as [h j]. reflexivity.
  Qed.

  (* an unlisted client's upgrade request: tunnelled to the target of the first matching WebSocket route, else closed *)
  Theorem server_unlisted_upgrade (c : config) req :
    ws_response c Served req = SClosed \/
    exists h j rt t, get_route c h j = Some rt /\ rt_ws rt = Some t /\
      wildcard_match (scalars (rt_matches rt)) (scalars (r_uri req)) = true /\ ws_response c Served req = SWsProxy t.
  Proof.
    unfold ws_response. destruct (get_handler _ _ _ _) as [ch|] eqn:G; [|left; reflexivity].
    destruct (ws_wiring_total _ _ _ _ G) as (h & j & rt & t & E & GR & W & M). right.
    exists h, j, rt, t. rewrite E, GR, W. auto.
  Qed.

  (* ---- C06 through the server: what a directory route returns is a file under its directory ---- *)
  Lemma ws_not_static c v req r : ws_response c v req <> SStatic r.
  Proof.
    unfold ws_response. destruct (get_handler _ _ _ _); [|discriminate].
    destruct (ws_handler_ids c _) as [[h j]|]; [|discriminate].
    destruct v; try discriminate; destruct (get_route c h j) as [rt|]; try discriminate; destruct (rt_ws rt); discriminate.
  Qed.

  Theorem server_directory_confined (c : config) p req body ct :
    response c p req = SStatic (R200 body ct) ->
    exists ch rt,
      get_handler (map subapp_of (cf_hosts c)) (subapp_of (cf_default_host c))
                  (option_map scalars (hget (HKnown H_Host) (r_headers req))) (scalars (r_uri req)) = Some ch /\
      get_route c (fst (handler_ids ch)) (snd (handler_ids ch)) = Some rt /\
      (rt_type rt = RT_Directory ->
       forall d root, rt_path rt = Some d -> walk fs [] (split_on SLASH (trim_end_slashes d)) = Some root ->
       exists loc, under root loc /\ node_at fs loc = Some (File body)).
  Proof.
    unfold server_response. intro H.
    destruct (Blacklist.serve ipp _ _ p _) eqn:V; [discriminate| |].
    all: destruct (is_upgrade req); [exfalso; eapply ws_not_static; exact H|].
    all: destruct (get_handler _ _ _ _) as [ch|] eqn:G; [|discriminate].
    all: destruct (handler_ids ch) as [h j] eqn:Hid; destruct (get_route c h j) as [rt|] eqn:GR; [|discriminate].
    all: exists ch, rt; rewrite Hid; cbn [fst snd]; split; [reflexivity|]; split; [exact GR|].
    all: intros Hty d root Hd Hw; unfold dispatch in H; rewrite Hty in H.
    all: change (RT_Directory =? RT_ExclusiveWebSocket) with false in H; cbv iota in H.
    - discriminate.
    - change (RT_Directory =? RT_File) with false in H. rewrite N.eqb_refl in H. cbv iota in H. rewrite Hd in H.
      injection H as H. eapply directory_handler_confined; eassumption.
  Qed.

  (* ---- C09 through the server: a proxied request is one the routing rule gave to a proxy route, and what that route's
     target receives is the request itself, prefix stripped, plus the origin address ---- *)
  Lemma ws_not_proxy c v req ts m mt : ws_response c v req <> SProxy ts m mt.
  Proof.
    unfold ws_response. destruct (get_handler _ _ _ _); [|discriminate].
    destruct (ws_handler_ids c _) as [[h j]|]; [|discriminate].
    destruct v; try discriminate; destruct (get_route c h j) as [rt|]; try discriminate; destruct (rt_ws rt); discriminate.
  Qed.

  Theorem server_proxied_by_rule (c : config) p req ts m mt :
    response c p req = SProxy ts m mt ->
    exists ch rt,
      Routes (map subapp_of (cf_hosts c)) (subapp_of (cf_default_host c))
             (option_map scalars (hget (HKnown H_Host) (r_headers req))) (scalars (r_uri req)) (Some ch) /\
      get_route c (fst (handler_ids ch)) (snd (handler_ids ch)) = Some rt /\
      rt_type rt = RT_Proxy /\ rt_matches rt = mt /\ rt_lb rt = Some (ts, m) /\
      Blacklist.serve ipp (cf_bl_mode c =? BLOCK_MODE) (cf_bl_list c) p (r_headers req) = Served.
  Proof.
    unfold server_response. intro H.
    destruct (Blacklist.serve ipp _ _ p _) eqn:V; [discriminate| |].
    all: destruct (is_upgrade req); [exfalso; eapply ws_not_proxy; exact H|].
    all: destruct (get_handler _ _ _ _) as [ch|] eqn:G; [|discriminate].
    all: destruct (handler_ids ch) as [h j] eqn:Hid; destruct (get_route c h j) as [rt|] eqn:GR; [|discriminate].
    all: unfold dispatch in H; destruct (rt_type rt =? RT_ExclusiveWebSocket); [discriminate|]; try discriminate.
    exists ch, rt. rewrite Hid. cbn [fst snd].
    split; [rewrite <- G; apply get_handler_spec|]. split; [exact GR|].
    destruct (rt_type rt =? RT_File); [destruct (rt_path rt); discriminate|].
    destruct (rt_type rt =? RT_Directory); [destruct (rt_path rt); discriminate|].
    destruct (rt_type rt =? RT_Redirect); [destruct (rt_path rt); discriminate|].
    destruct (rt_type rt =? RT_Proxy) eqn:T; [|discriminate].
    destruct (rt_lb rt) as [[ts' m']|]; [|discriminate]. injection H as <- <- <-.
    apply N.eqb_eq in T. repeat split; try reflexivity; exact T.
  Qed.

  Theorem server_upstream_sees (c : config) p p' req ts m mt uri' :
    parsed_ok ipp p req -> response c p req = SProxy ts m mt ->
    rewrite_uri mt (r_uri req) = Some uri' -> ip_text_ok (a_origin (r_addr req)) ->
    exists b r', forwarded_bytes ipp fs c p req = Some b /\
      parse_request_flat ipp p' b = Ok (r', []) /\
      r_method r' = r_method req /\ r_uri r' = uri' /\ r_query r' = r_query req /\ r_version r' = r_version req /\
      r_content r' = r_content req /\
      (forall n, hget_all n (r_headers r') = hget_all n (r_headers req ++ [(XFF, a_origin (r_addr req))])).
  Proof.
    intros P H R I. destruct (upstream_sees_fields ipp p p' req mt uri' P R I) as (r' & E & F).
    exists (upstream_bytes req uri'), r'. split; [|split; [exact E|exact F]].
    unfold forwarded_bytes. rewrite H, R. reflexivity.
  Qed.

  (* ---- the WebSocket pass-through: the target is handed the upgrade request itself ---- *)
  Lemma dispatch_not_wsproxy c rt v req t : dispatch fs c rt v req <> SWsProxy t.
  Proof.
    unfold dispatch. destruct (rt_type rt =? RT_ExclusiveWebSocket); [discriminate|]. destruct v; try discriminate.
    all: destruct (rt_type rt =? RT_File); [destruct (rt_path rt); discriminate|].
    all: destruct (rt_type rt =? RT_Directory); [destruct (rt_path rt); discriminate|].
    all: destruct (rt_type rt =? RT_Redirect); [destruct (rt_path rt); discriminate|].
    all: destruct (rt_type rt =? RT_Proxy); [destruct (rt_lb rt) as [[? ?]|]; discriminate|discriminate].
  Qed.

  Lemma wsproxy_is_upgrade c p req t : response c p req = SWsProxy t -> is_upgrade req = true.
  Proof.
    unfold server_response. destruct (Blacklist.serve ipp _ _ p _); [discriminate| |].
    all: destruct (is_upgrade req); [reflexivity|].
    all: destruct (get_handler _ _ _ _) as [ch|]; [|discriminate].
    all: destruct (handler_ids ch) as [h j]; destruct (get_route c h j) as [rt|]; [|discriminate].
    all: intro H; exfalso; eapply dispatch_not_wsproxy; exact H.
  Qed.

  Theorem server_ws_tunnel_sees (c : config) p b0 rest req t :
    parse_request_flat ipp p b0 = Ok (req, rest) -> response c p req = SWsProxy t ->
    exists b r', ws_forwarded_bytes ipp fs c p req = Some b /\
      parse_request_flat ipp p b = Ok (r', []) /\ req_equiv r' req.
  Proof.
    intros P H. pose proof (wsproxy_is_upgrade _ _ _ _ H) as U.
    assert (NE : r_headers req <> []).
    { unfold is_upgrade in U. destruct (r_headers req); [discriminate U|discriminate]. }
    destruct (roundtrip_exact ipp p b0 req rest [] P NE) as (r' & E & Q). rewrite app_nil_r in E.
    exists (serialize_request req), r'. split; [|split; assumption].
    unfold ws_forwarded_bytes. rewrite H. reflexivity.
  Qed.

  (* nothing is forwarded for a request that is not answered by a proxy route: in particular nothing for a blacklisted
     client, whatever the route *)
  Theorem server_forwards_only_proxied (c : config) p req b :
    forwarded_bytes ipp fs c p req = Some b -> exists ts m mt, response c p req = SProxy ts m mt.
  Proof.
    unfold forwarded_bytes. destruct (response c p req) eqn:E; try discriminate. intros _. eauto.
  Qed.
End ServerProofs.

(* ---- C15 through the server: the answers depend on what the file describes, not on its layout ---- *)
Theorem serve_text_load ipp fs files file conf c p req :
  load ipp files file conf = ROk c -> serve_text ipp fs files file conf p req = Some (server_response ipp fs c p req).
Proof. intro H. unfold serve_text. rewrite H. reflexivity. Qed.

Theorem serve_text_same_config ipp fs files file1 conf1 file2 conf2 p req :
  load ipp files file1 conf1 = load ipp files file2 conf2 ->
  serve_text ipp fs files file1 conf1 p req = serve_text ipp fs files file2 conf2 p req.
Proof. intro H. unfold serve_text. rewrite H. reflexivity. Qed.
