(* Model of the typed JSON mapping of humphrey-json (C14):
     humphrey-json/src/traits.rs                     IntoJson / FromJson for bool, String, the numeric types, Option<T>, Vec<T>
     humphrey-json-derive/src/named_struct.rs        #[derive(FromJson, IntoJson)] on a struct with named fields (+ #[rename])
     humphrey-json-derive/src/tuple_struct.rs        ... on a tuple struct
     humphrey-json-derive/src/enum_type.rs           ... on an enum with unit variants (+ #[rename])
     humphrey-json/src/macros.rs  json_map!          the same mapping written as  field => "key"  pairs
     humphrey-json/src/indexing.rs                   Value::get(&str) / Value::get(usize)
   Definitions only.

   Types are a universe `ty` (what the macros can be applied to, closed under the generic impls of traits.rs); Rust values
   are an untyped syntax tree `rval` with the typing judgement `has_type v t`.  `to_json` and `from_json` are defined by
   recursion on the type: each case is the body of the impl the trait resolution selects for that type.

   Numbers.  JSON numbers are f64.  As in Json.v the type of doubles is abstract (F); single precision floats are a second
   abstract type F32.  The casts of traits.rs enter as Section variables:
     of_int : Z -> F        `n as f64` for an integer n of any width (rounds to nearest, ties to even, beyond 2^53)
     f2z    : F -> Z        the integer part of a double (toward zero); NaN |-> 0; an infinity |-> beyond every integer type
     widen  : F32 -> F      `x as f64` for x : f32 (exact)
     narrow : F -> F32      `x as f32`
   `n as iN/uN` on a double saturates (Rust >= 1.45): cast_int clamps f2z to the range of the target type.  What the theorems
   need from these functions is stated where it is needed (JsonTypedProofs.v); the extracted model is run with IEEE doubles
   supplied by the OCaml driver.  *)
From Hv Require Import Prelude Json.
Open Scope N_scope.

(* ---- the universe of types ---- *)

(* JSON name of a field or variant: the #[rename = ".."] string if there is one, else the identifier
   (named_struct.rs / enum_type.rs: `names`; json_map!: the string on the right of `=>`, recorded as a rename) *)
Definition name_of (ident : str) (rename : option str) : str :=
  match rename with Some r => r | None => ident end.

Inductive ty : Type :=
| TBool
| TInt (bits : N) (signed : bool)            (* u8 .. u128, usize (64), i8 .. i128, isize *)
| TF64
| TF32
| TString
| TOption (t : ty)
| TVec (t : ty)
| TStruct (fs : list (str * option str * ty))   (* named struct: field identifier, rename, field type; declaration order *)
| TTuple (ts : list ty)                         (* tuple struct *)
| TEnum (vs : list (str * option str)).         (* enum of unit variants: variant identifier, rename *)

Definition field_key (f : str * option str * ty) : str := name_of (fst (fst f)) (snd (fst f)).
Definition field_ty (f : str * option str * ty) : ty := snd f.
Definition variant_name (v : str * option str) : str := name_of (fst v) (snd v).

(* well-formed: the JSON names of the fields of a struct are pairwise distinct, so are the names of the variants of an enum *)
Fixpoint wf_ty (t : ty) : Prop :=
  match t with
  | TOption t' => wf_ty t'
  | TVec t' => wf_ty t'
  | TStruct fs =>
    NoDup (map field_key fs) /\
    (fix go (l : list (str * option str * ty)) : Prop :=
       match l with [] => True | (_, t') :: r => wf_ty t' /\ go r end) fs
  | TTuple ts => (fix go (l : list ty) : Prop := match l with [] => True | t' :: r => wf_ty t' /\ go r end) ts
  | TEnum vs => NoDup (map variant_name vs)
  | _ => True
  end.

(* no Option directly inside an Option, anywhere in the type *)
Fixpoint no_nested_option (t : ty) : Prop :=
  match t with
  | TOption t' => match t' with TOption _ => False | _ => no_nested_option t' end
  | TVec t' => no_nested_option t'
  | TStruct fs =>
    (fix go (l : list (str * option str * ty)) : Prop :=
       match l with [] => True | (_, t') :: r => no_nested_option t' /\ go r end) fs
  | TTuple ts => (fix go (l : list ty) : Prop := match l with [] => True | t' :: r => no_nested_option t' /\ go r end) ts
  | _ => True
  end.

(* every integer type of the declaration has a positive width *)
Fixpoint ints_ok (t : ty) : Prop :=
  match t with
  | TInt bits _ => 0 < bits
  | TOption t' => ints_ok t'
  | TVec t' => ints_ok t'
  | TStruct fs =>
    (fix go (l : list (str * option str * ty)) : Prop :=
       match l with [] => True | (_, t') :: r => ints_ok t' /\ go r end) fs
  | TTuple ts => (fix go (l : list ty) : Prop := match l with [] => True | t' :: r => ints_ok t' /\ go r end) ts
  | _ => True
  end.

(* integer ranges *)
Definition int_lo (bits : N) (signed : bool) : Z :=
  if signed then (- 2 ^ (Z.of_N bits - 1))%Z else 0%Z.
Definition int_hi (bits : N) (signed : bool) : Z :=
  if signed then (2 ^ (Z.of_N bits - 1) - 1)%Z else (2 ^ Z.of_N bits - 1)%Z.
Definition clamp (lo hi z : Z) : Z := if (z <? lo)%Z then lo else if (hi <? z)%Z then hi else z.

Definition E_TYPE : N := 10.   (* ParseError::TypeError *)

Section Typed.
  Variable F : Type.      (* f64 *)
  Variable F32 : Type.    (* f32 *)

  (* ---- Rust values ---- *)
  Inductive rval : Type :=
  | RBool (b : bool)
  | RInt (z : Z)
  | RF64 (x : F)
  | RF32 (x : F32)
  | RStr (s : str)
  | RNone
  | RSome (v : rval)
  | RVec (l : list rval)
  | RStruct (l : list rval)     (* field values in declaration order *)
  | RTuple (l : list rval)
  | REnum (i : nat).            (* index of the variant *)

  (* v is a value of type t *)
  Fixpoint has_type (v : rval) (t : ty) {struct t} : Prop :=
    match t with
    | TBool => match v with RBool _ => True | _ => False end
    | TInt bits sg => match v with RInt z => (int_lo bits sg <= z <= int_hi bits sg)%Z | _ => False end
    | TF64 => match v with RF64 _ => True | _ => False end
    | TF32 => match v with RF32 _ => True | _ => False end
    | TString => match v with RStr _ => True | _ => False end
    | TOption t' => match v with RNone => True | RSome v' => has_type v' t' | _ => False end
    | TVec t' => match v with RVec l => Forall (fun x => has_type x t') l | _ => False end
    | TStruct fs =>
      match v with
      | RStruct vs =>
        (fix go (l : list (str * option str * ty)) (vs : list rval) {struct l} : Prop :=
           match l, vs with
           | [], [] => True
           | (_, t') :: r, x :: xs => has_type x t' /\ go r xs
           | _, _ => False
           end) fs vs
      | _ => False
      end
    | TTuple ts =>
      match v with
      | RTuple vs =>
        (fix go (l : list ty) (vs : list rval) {struct l} : Prop :=
           match l, vs with
           | [], [] => True
           | t' :: r, x :: xs => has_type x t' /\ go r xs
           | _, _ => False
           end) ts vs
      | _ => False
      end
    | TEnum names => match v with REnum i => (i < length names)%nat | _ => False end
    end.

  (* a predicate on (type, value) holds at every position of a value *)
  Section Forall.
    Variable P : ty -> rval -> Prop.
    Fixpoint val_forall (t : ty) (v : rval) {struct t} : Prop :=
      P t v /\
      match t with
      | TOption t' => match v with RSome v' => val_forall t' v' | _ => True end
      | TVec t' => match v with RVec l => Forall (val_forall t') l | _ => True end
      | TStruct fs =>
        match v with
        | RStruct vs =>
          (fix go (l : list (str * option str * ty)) (vs : list rval) {struct l} : Prop :=
             match l, vs with
             | (_, t') :: r, x :: xs => val_forall t' x /\ go r xs
             | _, _ => True
             end) fs vs
        | _ => True
        end
      | TTuple ts =>
        match v with
        | RTuple vs =>
          (fix go (l : list ty) (vs : list rval) {struct l} : Prop :=
             match l, vs with
             | t' :: r, x :: xs => val_forall t' x /\ go r xs
             | _, _ => True
             end) ts vs
        | _ => True
        end
      | _ => True
      end.
  End Forall.

  (* every integer of the value has magnitude at most 2^53 *)
  Definition int_in_range (t : ty) (v : rval) : Prop :=
    match t, v with
    | TInt _ _, RInt z => (Z.abs z <= 2 ^ 53)%Z
    | _, _ => True
    end.
  Definition in_range (t : ty) (v : rval) : Prop := val_forall int_in_range t v.

  (* no Some(None) anywhere (only typable at Option<Option<_>>) *)
  Definition not_some_none (t : ty) (v : rval) : Prop :=
    match v with RSome RNone => False | _ => True end.
  Definition no_some_none (t : ty) (v : rval) : Prop := val_forall not_some_none t v.

  (* ---- the numeric casts ---- *)
  Variable of_int : Z -> F.
  Variable f2z : F -> Z.
  Variable widen : F32 -> F.
  Variable narrow : F -> F32.

  (* `x as uN` / `x as iN` for x : f64 *)
  Definition cast_int (bits : N) (signed : bool) (x : F) : Z := clamp (int_lo bits signed) (int_hi bits signed) (f2z x).

  (* the integer survives `as f64` followed by `as <its type>` *)
  Definition int_exact (t : ty) (v : rval) : Prop :=
    match t, v with
    | TInt bits sg, RInt z => cast_int bits sg (of_int z) = z
    | _, _ => True
    end.
  (* exactly the values that survive the encoding (JsonTypedProofs.typed_roundtrip_iff) *)
  Definition lossless (t : ty) (v : rval) : Prop := val_forall (fun t v => int_exact t v /\ not_some_none t v) t v.

  (* ---- IntoJson::to_json ----
     bool: Value::Bool; String: Value::String; numbers: Value::Number( *self as f64 ); Option: Some(v) => v.to_json(), None => Null;
     Vec: Value::Array(map to_json); named struct (derive: json!({ "name": (to_json(&self.field)), .. }), json_map!:
     json!({ "key": (&self.field), .. }); that these literals evaluate to the object below is JsonMacroProofs.struct_template):
     Value::Object of (name, value) in declaration order; tuple struct: Value::Array(vec![to_json(&self.0), ..]); enum:
     json!("name") = Value::String(name) of the variant.  A value that is not of the type maps to Null (not reachable from Rust). *)
  Fixpoint to_json (t : ty) (v : rval) {struct t} : value F :=
    match t with
    | TBool => match v with RBool b => VBool b | _ => VNull end
    | TInt _ _ => match v with RInt z => VNum (of_int z) | _ => VNull end
    | TF64 => match v with RF64 x => VNum x | _ => VNull end
    | TF32 => match v with RF32 x => VNum (widen x) | _ => VNull end
    | TString => match v with RStr s => VStr s | _ => VNull end
    | TOption t' => match v with RSome v' => to_json t' v' | _ => VNull end
    | TVec t' => match v with RVec l => VArr (map (to_json t') l) | _ => VNull end
    | TStruct fs =>
      match v with
      | RStruct vs =>
        VObj ((fix go (l : list (str * option str * ty)) (vs : list rval) {struct l} : list (str * value F) :=
                 match l, vs with
                 | (idr, t') :: r, x :: xs => (name_of (fst idr) (snd idr), to_json t' x) :: go r xs
                 | _, _ => []
                 end) fs vs)
      | _ => VNull
      end
    | TTuple ts =>
      match v with
      | RTuple vs =>
        VArr ((fix go (l : list ty) (vs : list rval) {struct l} : list (value F) :=
                 match l, vs with
                 | t' :: r, x :: xs => to_json t' x :: go r xs
                 | _, _ => []
                 end) ts vs)
      | _ => VNull
      end
    | TEnum names =>
      match v with
      | REnum i => match nth_error names i with Some vr => VStr (variant_name vr) | None => VNull end
      | _ => VNull
      end
    end.

  (* ---- indexing.rs ---- *)
  (* <&str as Index>::json_index: the FIRST member with that key *)
  Fixpoint assoc_first (k : str) (m : list (str * value F)) : option (value F) :=
    match m with
    | [] => None
    | (k', x) :: r => if str_eqb k' k then Some x else assoc_first k r
    end.
  Definition get_key (k : str) (j : value F) : option (value F) :=
    match j with VObj m => assoc_first k m | _ => None end.
  (* <usize as Index>::json_index *)
  Definition get_idx (i : nat) (j : value F) : option (value F) :=
    match j with VArr l => nth_error l i | _ => None end.
  (* .unwrap_or(&Value::Null) *)
  Definition or_null (o : option (value F)) : value F := match o with Some x => x | None => VNull end.

  (* the `match string { "name" => Ok(Self::Variant), .. , _ => Err(TypeError) }` of enum_type.rs: first arm that matches *)
  Fixpoint variant_index (s : str) (names : list (str * option str)) (i : nat) : option nat :=
    match names with
    | [] => None
    | vr :: r => if str_eqb (variant_name vr) s then Some i else variant_index s r (S i)
    end.

  (* ---- FromJson::from_json ----
     bool / String / numbers: the matching Value variant, else TypeError; numbers: `*n as Self`;
     Option: Null => None, otherwise T::from_json(value).map(Some);
     Vec: Array(v) => v.iter().map(T::from_json).collect() (the first error is returned), else TypeError;
     named struct (derive and json_map!): Ok(Self { field: from_json(value.get("name").unwrap_or(&Null))?, .. }) in declaration order
       (a missing key, and any value that is not an object, is read as Null);
     tuple struct: value.as_array().map(len).unwrap_or(0) != field_count => TypeError, then
       Ok(Self(from_json(value.get(0).unwrap_or(&Null))?, ..));
     enum: value.as_str() matched against the names, else TypeError.
     There is no panic site in this code (`as` saturates, indexing goes through get): the outcome is Ok or Err E_TYPE. *)
  Fixpoint from_json (t : ty) (j : value F) {struct t} : outcome rval :=
    match t with
    | TBool => match j with VBool b => Ok (RBool b) | _ => Err E_TYPE end
    | TInt bits sg => match j with VNum x => Ok (RInt (cast_int bits sg x)) | _ => Err E_TYPE end
    | TF64 => match j with VNum x => Ok (RF64 x) | _ => Err E_TYPE end
    | TF32 => match j with VNum x => Ok (RF32 (narrow x)) | _ => Err E_TYPE end
    | TString => match j with VStr s => Ok (RStr s) | _ => Err E_TYPE end
    | TOption t' =>
      match j with
      | VNull => Ok RNone
      | _ => match from_json t' j with Ok v => Ok (RSome v) | Err e => Err e | Crash w => Crash w end
      end
    | TVec t' =>
      match j with
      | VArr l =>
        match (fix go (l : list (value F)) : outcome (list rval) :=
                 match l with
                 | [] => Ok []
                 | x :: r =>
                   match from_json t' x with
                   | Ok v => match go r with Ok vs => Ok (v :: vs) | Err e => Err e | Crash w => Crash w end
                   | Err e => Err e
                   | Crash w => Crash w
                   end
                 end) l with
        | Ok vs => Ok (RVec vs)
        | Err e => Err e
        | Crash w => Crash w
        end
      | _ => Err E_TYPE
      end
    | TStruct fs =>
      match (fix go (l : list (str * option str * ty)) : outcome (list rval) :=
               match l with
               | [] => Ok []
               | (idr, t') :: r =>
                 match from_json t' (or_null (get_key (name_of (fst idr) (snd idr)) j)) with
                 | Ok v => match go r with Ok vs => Ok (v :: vs) | Err e => Err e | Crash w => Crash w end
                 | Err e => Err e
                 | Crash w => Crash w
                 end
               end) fs with
      | Ok vs => Ok (RStruct vs)
      | Err e => Err e
      | Crash w => Crash w
      end
    | TTuple ts =>
      if negb (Nat.eqb (match j with VArr l => length l | _ => O end) (length ts)) then Err E_TYPE
      else
        match (fix go (l : list ty) (i : nat) : outcome (list rval) :=
                 match l with
                 | [] => Ok []
                 | t' :: r =>
                   match from_json t' (or_null (get_idx i j)) with
                   | Ok v => match go r (S i) with Ok vs => Ok (v :: vs) | Err e => Err e | Crash w => Crash w end
                   | Err e => Err e
                   | Crash w => Crash w
                   end
                 end) ts O with
        | Ok vs => Ok (RTuple vs)
        | Err e => Err e
        | Crash w => Crash w
        end
    | TEnum names =>
      match j with
      | VStr s => match variant_index s names O with Some i => Ok (REnum i) | None => Err E_TYPE end
      | _ => Err E_TYPE
      end
    end.

  (* T::from_json(&v.to_json()) *)
  Definition roundtrip (t : ty) (v : rval) : outcome rval := from_json t (to_json t v).

  (* ---- boolean checks used by the extracted runner to validate its inputs ---- *)
  Fixpoint has_typeb (v : rval) (t : ty) {struct t} : bool :=
    match t with
    | TBool => match v with RBool _ => true | _ => false end
    | TInt bits sg => match v with RInt z => (int_lo bits sg <=? z)%Z && (z <=? int_hi bits sg)%Z | _ => false end
    | TF64 => match v with RF64 _ => true | _ => false end
    | TF32 => match v with RF32 _ => true | _ => false end
    | TString => match v with RStr _ => true | _ => false end
    | TOption t' => match v with RNone => true | RSome v' => has_typeb v' t' | _ => false end
    | TVec t' => match v with RVec l => forallb (fun x => has_typeb x t') l | _ => false end
    | TStruct fs =>
      match v with
      | RStruct vs =>
        (fix go (l : list (str * option str * ty)) (vs : list rval) {struct l} : bool :=
           match l, vs with
           | [], [] => true
           | (_, t') :: r, x :: xs => has_typeb x t' && go r xs
           | _, _ => false
           end) fs vs
      | _ => false
      end
    | TTuple ts =>
      match v with
      | RTuple vs =>
        (fix go (l : list ty) (vs : list rval) {struct l} : bool :=
           match l, vs with
           | [], [] => true
           | t' :: r, x :: xs => has_typeb x t' && go r xs
           | _, _ => false
           end) ts vs
      | _ => false
      end
    | TEnum names => match v with REnum i => Nat.ltb i (length names) | _ => false end
    end.
End Typed.

Arguments RBool {F F32} b.
Arguments RInt {F F32} z.
Arguments RF64 {F F32} x.
Arguments RF32 {F F32} x.
Arguments RStr {F F32} s.
Arguments RNone {F F32}.
Arguments RSome {F F32} v.
Arguments RVec {F F32} l.
Arguments RStruct {F F32} l.
Arguments RTuple {F F32} l.
Arguments REnum {F F32} i.

(* nesting depth of the JSON values of a type (Option adds none) *)
Fixpoint ty_depth (t : ty) : N :=
  match t with
  | TOption t' => ty_depth t'
  | TVec t' => 1 + ty_depth t'
  | TStruct fs =>
    1 + (fix go (l : list (str * option str * ty)) : N :=
           match l with [] => 0 | (_, t') :: r => N.max (ty_depth t') (go r) end) fs
  | TTuple ts => 1 + (fix go (l : list ty) : N := match l with [] => 0 | t' :: r => N.max (ty_depth t') (go r) end) ts
  | _ => 0
  end.

(* a predicate on strings holds of every JSON name (field key, variant name) of the type *)
Fixpoint names_all (P : str -> Prop) (t : ty) : Prop :=
  match t with
  | TOption t' => names_all P t'
  | TVec t' => names_all P t'
  | TStruct fs =>
    (fix go (l : list (str * option str * ty)) : Prop :=
       match l with [] => True | (idr, t') :: r => P (name_of (fst idr) (snd idr)) /\ names_all P t' /\ go r end) fs
  | TTuple ts => (fix go (l : list ty) : Prop := match l with [] => True | t' :: r => names_all P t' /\ go r end) ts
  | TEnum vs => Forall (fun vr => P (variant_name vr)) vs
  | _ => True
  end.

(* ---- lib.rs :: to_string / from_str: the typed mapping composed with the serialiser and the parser of C13 ---- *)
Section TypedText.
  Variable F : Type.
  Variable F32 : Type.
  Variable of_int : Z -> F.
  Variable f2z : F -> Z.
  Variable widen : F32 -> F.
  Variable narrow : F -> F32.
  Variable fparse : str -> option F.
  Variable fdisplay : F -> str.
  Variable ffinite : F -> Prop.      (* f64::is_finite *)

  (* every number the value turns into is finite, every string is made of code points (what C13's serialiser theorems need) *)
  Definition text_ok_at (t : ty) (v : rval F F32) : Prop :=
    match t, v with
    | TInt _ _, RInt z => ffinite (of_int z)
    | TF64, RF64 x => ffinite x
    | TF32, RF32 x => ffinite (widen x)
    | TString, RStr s => Forall (fun c => c <= 0x10ffff) s
    | _, _ => True
    end.
  Definition text_ok (t : ty) (v : rval F F32) : Prop := val_forall F F32 text_ok_at t v.

  (* humphrey_json::to_string(&v) = v.to_json().serialize() *)
  Definition to_string (t : ty) (v : rval F F32) : str := serialize F fdisplay (to_json F F32 of_int widen t v).
  (* humphrey_json::from_str::<T>(s) = Value::parse(s).and_then(T::from_json) *)
  Definition from_str (t : ty) (s : str) : outcome (rval F F32) :=
    match parse fparse s with
    | Ok j => from_json F F32 f2z narrow t j
    | Err e => Err e
    | Crash w => Crash w
    end.
End TypedText.

(* distinct names, decidable form (used by the runner and by the examples) *)
Fixpoint str_mem (k : str) (l : list str) : bool :=
  match l with [] => false | x :: r => str_eqb x k || str_mem k r end.
Fixpoint str_nodupb (l : list str) : bool :=
  match l with [] => true | x :: r => negb (str_mem x r) && str_nodupb r end.
Fixpoint wf_tyb (t : ty) : bool :=
  match t with
  | TOption t' => wf_tyb t'
  | TVec t' => wf_tyb t'
  | TStruct fs =>
    str_nodupb (map field_key fs) &&
    (fix go (l : list (str * option str * ty)) : bool :=
       match l with [] => true | (_, t') :: r => wf_tyb t' && go r end) fs
  | TTuple ts => (fix go (l : list ty) : bool := match l with [] => true | t' :: r => wf_tyb t' && go r end) ts
  | TEnum vs => str_nodupb (map variant_name vs)
  | _ => true
  end.

(* ---- a concrete, integer-only instance of the casts, used for the refutation witnesses and the examples:
        doubles that hold integers are the integers whose magnitude needs at most 53 significant bits; `as f64` rounds to
        nearest, ties to even.  F := Z, F32 := Z. ---- *)
Definition round53 (z : Z) : Z :=
  let a := Z.abs z in
  let e := (Z.log2 a - 52)%Z in
  if (e <=? 0)%Z then z
  else
    let q := (a / 2 ^ e)%Z in
    let r := (a mod 2 ^ e)%Z in
    let half := (2 ^ (e - 1))%Z in
    let q' := if (r <? half)%Z then q
              else if (half <? r)%Z then (q + 1)%Z
              else if Z.even q then q else (q + 1)%Z in
    (Z.sgn z * (q' * 2 ^ e))%Z.

Definition zto_json : ty -> rval Z Z -> value Z := to_json Z Z round53 (fun x => x).
Definition zfrom_json : ty -> value Z -> outcome (rval Z Z) := from_json Z Z (fun x => x) (fun x => x).
Definition zroundtrip (t : ty) (v : rval Z Z) : outcome (rval Z Z) := zfrom_json t (zto_json t v).
