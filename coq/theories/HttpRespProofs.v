(* Proofs for C07 (response direction, flat parser) and the C09 truncation lemma.
   Sections: 1 status tables, 2 header names and the stable sort, 3 parsing a rendered head, 4 Content-Length and
   chunked payloads, 5 truncation, 6 serialisation is a valid message, 7 round trip, 8 Set-Cookie. *)
From Hv Require Import Prelude Bytes StreamBuf TablesHttp Http BytesNumProofs HttpRespSpec.
From Coq Require Import Arith Lia Permutation.
Open Scope N_scope.
Arguments N.eqb : simpl never.
Arguments N.leb : simpl never.
Arguments N.ltb : simpl never.
Arguments N.add : simpl never.
Arguments N.mul : simpl never.
Arguments N.div : simpl never.
Arguments N.modulo : simpl never.
Arguments N.sub : simpl never.
Ltac Zify.zify_post_hook ::= Z.to_euclidean_division_equations.

(* ================= 1. status tables ================= *)
(* every variant index, enumerated from the generated status_count *)
Definition status_idx : list N := map N.of_nat (seq 0 (N.to_nat status_count)).

Lemma status_idx_in (s : N) : s < status_count -> In s status_idx.
Proof.
  intros H. unfold status_idx. replace s with (N.of_nat (N.to_nat s)) by apply N2Nat.id.
  apply in_map. apply in_seq. lia.
Qed.

(* lift a boolean sweep over the finite table to a statement about every index *)
Lemma status_sweep (P : N -> bool) : forallb P status_idx = true -> forall s, s < status_count -> P s = true.
Proof. intros H s Hs. rewrite forallb_forall in H. apply H. apply status_idx_in. exact Hs. Qed.

Definition in_table (c : N) (ph : bytes) (t : list (N * bytes)) : bool :=
  existsb (fun e => (fst e =? c) && beq (snd e) ph) t.
Lemma in_table_In (c : N) (ph : bytes) (t : list (N * bytes)) : in_table c ph t = true -> In (c, ph) t.
Proof.
  unfold in_table. rewrite existsb_exists. intros ((c', ph') & Hin & H).
  cbn [fst snd] in H. apply andb_true_iff in H. destruct H as [Hc Hp].
  apply N.eqb_eq in Hc. apply beq_eq in Hp. subst. exact Hin.
Qed.
Definition memN (c : N) (l : list N) : bool := existsb (N.eqb c) l.
Lemma memN_In (c : N) (l : list N) : memN c l = true <-> In c l.
Proof.
  unfold memN. rewrite existsb_exists. split.
  - intros (x & Hin & E). apply N.eqb_eq in E. subst. exact Hin.
  - intros H. exists c. split; [exact H|apply N.eqb_refl].
Qed.

(* u16 <-> variant: decoding the code of a variant gives the variant back *)
Lemma status_of_code_code (s : N) : s < status_count -> status_of_code (status_code s) = Some s.
Proof.
  intros Hs.
  pose proof (status_sweep (fun s => match status_of_code (status_code s) with Some s' => s' =? s | None => false end)
                eq_refl s Hs) as H.
  cbv beta in H. destruct (status_of_code (status_code s)) as [s'|]; [|discriminate].
  apply N.eqb_eq in H. subst. reflexivity.
Qed.

Lemma status_code_inj (s1 s2 : N) :
  s1 < status_count -> s2 < status_count -> status_code s1 = status_code s2 -> s1 = s2.
Proof.
  intros H1 H2 E. pose proof (status_of_code_code s1 H1) as A. rewrite E, (status_of_code_code s2 H2) in A.
  injection A as ->. reflexivity.
Qed.

(* every entry of the TryFrom<u16> table names a variant whose code is that number *)
Lemma status_of_code_sound (c s : N) : status_of_code c = Some s -> s < status_count /\ status_code s = c.
Proof.
  assert (Hall : forallb (fun e => (snd e <? status_count) && (status_code (snd e) =? fst e)) status_of_code_table = true)
    by (vm_compute; reflexivity).
  assert (Hin : forall t, assoc_N c t = Some s -> In (c, s) t).
  { induction t as [|[k v] t IH]; cbn [assoc_N]; [discriminate|].
    destruct (N.eqb_spec c k) as [->|Hne]; [intros [= ->]; left; reflexivity|intros H; right; apply IH, H]. }
  intros H. apply Hin in H. rewrite forallb_forall in Hall. specialize (Hall _ H). cbn [fst snd] in Hall.
  apply andb_true_iff in Hall. destruct Hall as [A B]. apply N.ltb_lt in A. apply N.eqb_eq in B. split; assumption.
Qed.

(* codes are three-digit numbers, hence fit u16 *)
Lemma status_code_range (s : N) : s < status_count -> 100 <= status_code s /\ status_code s <= 599.
Proof.
  intros Hs.
  pose proof (status_sweep (fun s => (100 <=? status_code s) && (status_code s <=? 599)) eq_refl s Hs) as H.
  cbv beta in H. apply andb_true_iff in H. destruct H as [A B]. apply N.leb_le in A. apply N.leb_le in B. lia.
Qed.

Lemma status_code_3digits (s : N) : s < status_count ->
  exists d1 d2 d3, dec_render (status_code s) = [d1; d2; d3] /\ digit d1 /\ digit d2 /\ digit d3 /\
                   status_code s = (d1 - 48) * 100 + (d2 - 48) * 10 + (d3 - 48).
Proof.
  intros Hs.
  pose proof (status_sweep (fun s => match dec_render (status_code s) with
                                     | [a; b; c] => is_digit a && is_digit b && is_digit c &&
                                                    (status_code s =? (a - 48) * 100 + (b - 48) * 10 + (c - 48))
                                     | _ => false end) eq_refl s Hs) as H.
  cbv beta in H. destruct (dec_render (status_code s)) as [|a [|b [|c [|? ?]]]]; try discriminate.
  apply andb_true_iff in H. destruct H as [H He]. apply andb_true_iff in H. destruct H as [H Hc].
  apply andb_true_iff in H. destruct H as [Ha Hb]. apply N.eqb_eq in He.
  exists a, b, c. rewrite <- !is_digit_iff. repeat split; assumption.
Qed.

(* the phrases: printable ASCII *)
Lemma status_phrase_printable (s : N) : s < status_count ->
  Forall (fun b => 32 <= b /\ b <= 126) (status_phrase s).
Proof.
  intros Hs.
  pose proof (status_sweep (fun s => forallb (fun b => (32 <=? b) && (b <=? 126)) (status_phrase s)) eq_refl s Hs) as H.
  cbv beta in H. rewrite forallb_forall in H. apply Forall_forall. intros b Hb. specialize (H b Hb).
  apply andb_true_iff in H. destruct H as [A B]. apply N.leb_le in A. apply N.leb_le in B. lia.
Qed.

(* comparison with the hand-written reference tables *)
Lemma status_phrase_rfc2616 (s : N) : s < status_count -> In (status_code s, status_phrase s) Txt.rfc2616_phrases.
Proof.
  intros Hs. apply in_table_In.
  exact (status_sweep (fun s => in_table (status_code s) (status_phrase s) Txt.rfc2616_phrases) eq_refl s Hs).
Qed.

Lemma status_phrase_rfc7231 (s : N) : s < status_count ->
  (In (status_code s, status_phrase s) Txt.rfc7231_phrases /\ ~ In (status_code s) rfc2616_only_codes) \/
  (In (status_code s) rfc2616_only_codes /\ ~ In (status_code s, status_phrase s) Txt.rfc7231_phrases).
Proof.
  intros Hs.
  pose proof (status_sweep (fun s => if memN (status_code s) rfc2616_only_codes
                                     then negb (memN (status_code s) (map fst (filter (fun e => beq (snd e) (status_phrase s)) Txt.rfc7231_phrases)))
                                     else in_table (status_code s) (status_phrase s) Txt.rfc7231_phrases) eq_refl s Hs) as H.
  cbv beta in H. destruct (memN (status_code s) rfc2616_only_codes) eqn:M.
  - right. split; [apply memN_In, M|]. intros Hin. apply negb_true_iff in H.
    assert (memN (status_code s) (map fst (filter (fun e => beq (snd e) (status_phrase s)) Txt.rfc7231_phrases)) = true); [|congruence].
    apply memN_In. apply in_map_iff. exists (status_code s, status_phrase s). split; [reflexivity|].
    apply filter_In. split; [exact Hin|]. cbn [snd]. apply beq_refl.
  - left. split; [apply in_table_In, H|]. intros Hin. apply memN_In in Hin. congruence.
Qed.

(* coverage: which codes of each RFC table have no variant *)
Definition modelled_codes : list N := map status_code status_idx.
Lemma status_coverage :
  (forall c ph, In (c, ph) Txt.rfc2616_phrases -> In c modelled_codes \/ c = 402) /\
  (forall c ph, In (c, ph) Txt.rfc7231_phrases -> In c modelled_codes \/ c = 402 \/ c = 426) /\
  ~ In 402 modelled_codes /\ ~ In 426 modelled_codes.
Proof.
  assert (A : forallb (fun e => memN (fst e) modelled_codes || (fst e =? 402)) Txt.rfc2616_phrases = true) by (vm_compute; reflexivity).
  assert (B : forallb (fun e => memN (fst e) modelled_codes || (fst e =? 402) || (fst e =? 426)) Txt.rfc7231_phrases = true) by (vm_compute; reflexivity).
  assert (C : memN 402 modelled_codes = false) by (vm_compute; reflexivity).
  assert (D : memN 426 modelled_codes = false) by (vm_compute; reflexivity).
  rewrite forallb_forall in A, B. repeat split.
  - intros c ph Hin. specialize (A _ Hin). cbn [fst] in A. apply orb_true_iff in A. destruct A as [A|A].
    + left. apply memN_In, A.
    + right. apply N.eqb_eq, A.
  - intros c ph Hin. specialize (B _ Hin). cbn [fst] in B. apply orb_true_iff in B. destruct B as [B|B].
    + apply orb_true_iff in B. destruct B as [B|B]; [left; apply memN_In, B|right; left; apply N.eqb_eq, B].
    + right. right. apply N.eqb_eq, B.
  - intros H. apply memN_In in H. congruence.
  - intros H. apply memN_In in H. congruence.
Qed.

Lemma status_registered (s : N) : s < status_count -> registered_phrase (status_code s) (status_phrase s).
Proof. intros Hs. right. apply status_phrase_rfc2616, Hs. Qed.

(* ================= 2. header names, stable sort ================= *)
Lemma hname_eqb_eq (a b : hname) : hname_eqb a b = true <-> a = b.
Proof.
  destruct a as [i|x], b as [j|y]; cbn [hname_eqb]; split; intros H; try discriminate.
  - apply N.eqb_eq in H. subst. reflexivity.
  - injection H as ->. apply N.eqb_refl.
  - apply beq_eq in H. subst. reflexivity.
  - injection H as ->. apply beq_refl.
Qed.

Lemma hname_eqb_refl (a : hname) : hname_eqb a a = true.
Proof. apply hname_eqb_eq. reflexivity. Qed.

Lemma bcmp_refl (a : bytes) : bcmp a a = Eq.
Proof. induction a as [|x a IH]; cbn [bcmp]; [reflexivity|]. rewrite N.compare_refl. exact IH. Qed.

Lemma hname_le_refl (a : hname) : hname_le a a = true.
Proof. unfold hname_le. rewrite N.eqb_refl, bcmp_refl. reflexivity. Qed.

(* bcmp is antisymmetric, hence hname_le is total *)
Lemma bcmp_antisym (a b : bytes) : bcmp b a = CompOpp (bcmp a b).
Proof.
  revert b. induction a as [|x a IH]; intros [|y b]; cbn [bcmp]; try reflexivity.
  rewrite (N.compare_antisym x y). destruct (x ?= y); cbn [CompOpp]; [apply IH|reflexivity|reflexivity].
Qed.

Lemma hname_le_total (a b : hname) : hname_le a b = false -> hname_le b a = true.
Proof.
  unfold hname_le. destruct (N.eqb_spec (hname_cat a) (hname_cat b)) as [E|E].
  - rewrite E, N.eqb_refl. rewrite (bcmp_antisym (hname_str a) (hname_str b)).
    destruct (bcmp (hname_str a) (hname_str b)); cbn [CompOpp]; intros H; try discriminate. reflexivity.
  - destruct (N.eqb_spec (hname_cat b) (hname_cat a)) as [E'|E']; [congruence|].
    intros H. apply N.ltb_ge in H. apply N.ltb_lt. lia.
Qed.

Definition name_is (n : hname) (h : header) : bool := hname_eqb n (fst h).

(* insertion never passes an element with the same name, so same-name order is kept *)
Lemma hinsert_filter (n : hname) (h : header) (l : headers) :
  filter (name_is n) (hinsert h l) = filter (name_is n) (h :: l).
Proof.
  induction l as [|x l IH]; [reflexivity|].
  cbn [hinsert]. destruct (hname_le (fst h) (fst x)) eqn:Hle; [reflexivity|].
  cbn [filter] in *. rewrite IH.
  destruct (name_is n h) eqn:Eh; destruct (name_is n x) eqn:Ex; try reflexivity.
  exfalso. unfold name_is in Eh, Ex. apply hname_eqb_eq in Eh. apply hname_eqb_eq in Ex.
  rewrite <- Eh, <- Ex, hname_le_refl in Hle. discriminate.
Qed.

Lemma hsort_filter (n : hname) (l : headers) : filter (name_is n) (hsort l) = filter (name_is n) l.
Proof.
  induction l as [|h l IH]; [reflexivity|].
  change (hsort (h :: l)) with (hinsert h (hsort l)). rewrite hinsert_filter. cbn [filter]. rewrite IH. reflexivity.
Qed.

Lemma hinsert_perm (h : header) (l : headers) : Permutation (hinsert h l) (h :: l).
Proof.
  induction l as [|x l IH]; [apply Permutation_refl|].
  cbn [hinsert]. destruct (hname_le (fst h) (fst x)); [apply Permutation_refl|].
  eapply Permutation_trans; [apply perm_skip, IH|apply perm_swap].
Qed.

Lemma hsort_perm (l : headers) : Permutation (hsort l) l.
Proof.
  induction l as [|h l IH]; [apply Permutation_refl|].
  change (hsort (h :: l)) with (hinsert h (hsort l)).
  eapply Permutation_trans; [apply hinsert_perm|apply perm_skip, IH].
Qed.

(* the output is ordered by (category, name): this is what makes the serialisation deterministic *)
Inductive hsorted : headers -> Prop :=
| hsorted_nil : hsorted []
| hsorted_one (h : header) : hsorted [h]
| hsorted_cons (h x : header) (l : headers) : hname_le (fst h) (fst x) = true -> hsorted (x :: l) -> hsorted (h :: x :: l).

Lemma hinsert_sorted (h : header) (l : headers) : hsorted l -> hsorted (hinsert h l).
Proof.
  induction 1 as [|x|x y l Hxy Hs IH].
  - constructor.
  - cbn [hinsert]. destruct (hname_le (fst h) (fst x)) eqn:E.
    + constructor; [exact E|constructor].
    + constructor; [apply hname_le_total, E|constructor].
  - cbn [hinsert] in *. destruct (hname_le (fst h) (fst x)) eqn:E.
    + constructor; [exact E|constructor; assumption].
    + destruct (hname_le (fst h) (fst y)) eqn:E2.
      * constructor; [apply hname_le_total, E|]. constructor; assumption.
      * constructor; [exact Hxy|exact IH].
Qed.

Lemma hsort_sorted (l : headers) : hsorted (hsort l).
Proof.
  induction l as [|h l IH]; [constructor|].
  change (hsort (h :: l)) with (hinsert h (hsort l)). apply hinsert_sorted, IH.
Qed.

Lemma hget_all_filter (n : hname) (l : headers) : hget_all n l = map snd (filter (name_is n) l).
Proof. reflexivity. Qed.

Lemma hget_hd (n : hname) (l : headers) : hget n l = hd_error (hget_all n l).
Proof.
  induction l as [|[n' v] l IH]; [reflexivity|].
  unfold hget_all in *. cbn [hget filter fst]. destruct (hname_eqb n n'); [reflexivity|exact IH].
Qed.

Lemma hget_all_hsort (n : hname) (l : headers) : hget_all n (hsort l) = hget_all n l.
Proof. rewrite !hget_all_filter, hsort_filter. reflexivity. Qed.

Lemma hget_hsort (n : hname) (l : headers) : hget n (hsort l) = hget n l.
Proof. rewrite !hget_hd, hget_all_hsort. reflexivity. Qed.

Lemma Forall_hsort (P : header -> Prop) (l : headers) : Forall P l -> Forall P (hsort l).
Proof. intros H. eapply Permutation_Forall; [apply Permutation_sym, hsort_perm|exact H]. Qed.

(* known names: the generated tables are mutually inverse (finite sweep) *)
Definition header_idx : list N := map fst header_name_table.
Lemma known_names_canonical :
  forallb (fun i => hname_eqb (hname_of (hname_str (HKnown i))) (HKnown i)) header_idx = true.
Proof. vm_compute. reflexivity. Qed.

Lemma canonical_known (i : N) : In i header_idx -> canonical_name (HKnown i).
Proof.
  intros H. pose proof known_names_canonical as K. rewrite forallb_forall in K. apply hname_eqb_eq, K, H.
Qed.

Lemma lower_byte_idem (b : N) : lower_byte (lower_byte b) = lower_byte b.
Proof.
  unfold lower_byte.
  destruct (N.leb_spec 65 b); destruct (N.leb_spec b 90); cbn [andb];
    destruct (N.leb_spec 65 (b + 32)); destruct (N.leb_spec (b + 32) 90); cbn [andb]; try reflexivity; try lia;
    destruct (N.leb_spec 65 b); destruct (N.leb_spec b 90); cbn [andb]; try reflexivity; lia.
Qed.

Lemma ascii_lower_idem (l : bytes) : ascii_lower (ascii_lower l) = ascii_lower l.
Proof. unfold ascii_lower. rewrite map_map. apply map_ext. intros b. apply lower_byte_idem. Qed.

(* lifting lemma: whatever HeaderType::from returns is a fixed point of to_string ; from *)
Lemma hname_of_canonical (s : bytes) : canonical_name (hname_of s).
Proof.
  unfold canonical_name.
  destruct (assoc_bytes (ascii_lower s) header_parse_table) as [i|] eqn:E.
  - replace (hname_of s) with (HKnown i) by (unfold hname_of; rewrite E; reflexivity).
    apply canonical_known.
    assert (Hall : forallb (fun e => memN (snd e) header_idx) header_parse_table = true) by (vm_compute; reflexivity).
    assert (Hin : forall t, assoc_bytes (ascii_lower s) t = Some i -> exists k, In (k, i) t).
    { induction t as [|[k v] t IH]; cbn [assoc_bytes]; [discriminate|].
      destruct (beq (ascii_lower s) k); [intros [= ->]; exists k; left; reflexivity|].
      intros H. destruct (IH H) as [k' Hk]. exists k'. right. exact Hk. }
    destruct (Hin _ E) as [k Hk]. rewrite forallb_forall in Hall. apply memN_In. exact (Hall _ Hk).
  - replace (hname_of s) with (HCustom (ascii_lower s)) by (unfold hname_of; rewrite E; reflexivity).
    cbn [hname_str]. unfold hname_of. rewrite ascii_lower_idem, E. reflexivity.
Qed.

(* tokens *)
Lemma tchar_props (b : N) : tchar b -> b < 128 /\ b <> COLON /\ b <> LF /\ b <> CR /\ b <> SP.
Proof.
  unfold tchar, digit, COLON, LF, CR, SP. cbn [In]. lia.
Qed.

Lemma token_ascii (s : bytes) : token s -> ascii s.
Proof. intros [_ H]. eapply Forall_impl; [|exact H]. intros b Hb. apply tchar_props in Hb. tauto. Qed.

Lemma token_notin (s : bytes) (c : N) : token s -> (c = COLON \/ c = LF \/ c = CR \/ c = SP) -> ~ In c s.
Proof.
  intros [_ H] Hc Hin. rewrite Forall_forall in H. apply H, tchar_props in Hin.
  destruct Hin as (_ & A & B & C & D). destruct Hc as [Hc|[Hc|[Hc|Hc]]]; subst c; contradiction.
Qed.
