(* Proofs for C07 (response direction, flat parser) and the C09 truncation lemma.
   Sections: 1 status tables, 2 header names and the stable sort, 3 parsing a rendered head, 4 Content-Length and
   chunked payloads, 5 truncation, 6 serialisation is a valid message, 7 round trip, 8 Set-Cookie. *)
From Hv Require Import Prelude Bytes StreamBuf TablesHttp Http BytesNumProofs HttpRespSpec.
From Coq Require Import Arith Lia Permutation.
Open Scope N_scope.
Arguments N.eqb : simpl never.
Arguments N.leb : simpl never.
Arguments N.ltb : simpl never.
Arguments N.add : simpl never.
Arguments N.mul : simpl never.
Arguments N.div : simpl never.
Arguments N.modulo : simpl never.
Arguments N.sub : simpl never.
Ltac Zify.zify_post_hook ::= Z.to_euclidean_division_equations.

(* ================= 1. status tables ================= *)
(* every variant index, enumerated from the generated status_count *)
Definition status_idx : list N := map N.of_nat (seq 0 (N.to_nat status_count)).

Lemma status_idx_in (s : N) : s < status_count -> In s status_idx.
Proof.
  intros H. unfold status_idx. replace s with (N.of_nat (N.to_nat s)) by apply N2Nat.id.
  apply in_map. apply in_seq. lia.
Qed.

(* lift a boolean sweep over the finite table to a statement about every index *)
Lemma status_sweep (P : N -> bool) : forallb P status_idx = true -> forall s, s < status_count -> P s = true.
Proof. intros H s Hs. rewrite forallb_forall in H. apply H. apply status_idx_in. exact Hs. Qed.

Definition in_table (c : N) (ph : bytes) (t : list (N * bytes)) : bool :=
  existsb (fun e => (fst e =? c) && beq (snd e) ph) t.
Lemma in_table_In (c : N) (ph : bytes) (t : list (N * bytes)) : in_table c ph t = true -> In (c, ph) t.
Proof.
  unfold in_table. rewrite existsb_exists. intros ((c', ph') & Hin & H).
  cbn [fst snd] in H. apply andb_true_iff in H. destruct H as [Hc Hp].
  apply N.eqb_eq in Hc. apply beq_eq in Hp. subst. exact Hin.
Qed.
Definition memN (c : N) (l : list N) : bool := existsb (N.eqb c) l.
Lemma memN_In (c : N) (l : list N) : memN c l = true <-> In c l.
Proof.
  unfold memN. rewrite existsb_exists. split.
  - intros (x & Hin & E). apply N.eqb_eq in E. subst. exact Hin.
  - intros H. exists c. split; [exact H|apply N.eqb_refl].
Qed.

(* u16 <-> variant: decoding the code of a variant gives the variant back *)
Lemma status_of_code_code (s : N) : s < status_count -> status_of_code (status_code s) = Some s.
Proof.
  intros Hs.
  pose proof (status_sweep (fun s => match status_of_code (status_code s) with Some s' => s' =? s | None => false end)
                eq_refl s Hs) as H.
  cbv beta in H. destruct (status_of_code (status_code s)) as [s'|]; [|discriminate].
  apply N.eqb_eq in H. subst. reflexivity.
Qed.

Lemma status_code_inj (s1 s2 : N) :
  s1 < status_count -> s2 < status_count -> status_code s1 = status_code s2 -> s1 = s2.
Proof.
  intros H1 H2 E. pose proof (status_of_code_code s1 H1) as A. rewrite E, (status_of_code_code s2 H2) in A.
  injection A as ->. reflexivity.
Qed.

(* every entry of the TryFrom<u16> table names a variant whose code is that number *)
Lemma status_of_code_sound (c s : N) : status_of_code c = Some s -> s < status_count /\ status_code s = c.
Proof.
  assert (Hall : forallb (fun e => (snd e <? status_count) && (status_code (snd e) =? fst e)) status_of_code_table = true)
    by (vm_compute; reflexivity).
  assert (Hin : forall t, assoc_N c t = Some s -> In (c, s) t).
  { induction t as [|[k v] t IH]; cbn [assoc_N]; [discriminate|].
    destruct (N.eqb_spec c k) as [->|Hne]; [intros [= ->]; left; reflexivity|intros H; right; apply IH, H]. }
  intros H. apply Hin in H. rewrite forallb_forall in Hall. specialize (Hall _ H). cbn [fst snd] in Hall.
  apply andb_true_iff in Hall. destruct Hall as [A B]. apply N.ltb_lt in A. apply N.eqb_eq in B. split; assumption.
Qed.

(* codes are three-digit numbers, hence fit u16 *)
Lemma status_code_range (s : N) : s < status_count -> 100 <= status_code s /\ status_code s <= 599.
Proof.
  intros Hs.
  pose proof (status_sweep (fun s => (100 <=? status_code s) && (status_code s <=? 599)) eq_refl s Hs) as H.
  cbv beta in H. apply andb_true_iff in H. destruct H as [A B]. apply N.leb_le in A. apply N.leb_le in B. lia.
Qed.

Lemma status_code_3digits (s : N) : s < status_count ->
  exists d1 d2 d3, dec_render (status_code s) = [d1; d2; d3] /\ digit d1 /\ digit d2 /\ digit d3 /\
                   status_code s = (d1 - 48) * 100 + (d2 - 48) * 10 + (d3 - 48).
Proof.
  intros Hs.
  pose proof (status_sweep (fun s => match dec_render (status_code s) with
                                     | [a; b; c] => is_digit a && is_digit b && is_digit c &&
                                                    (status_code s =? (a - 48) * 100 + (b - 48) * 10 + (c - 48))
                                     | _ => false end) eq_refl s Hs) as H.
  cbv beta in H. destruct (dec_render (status_code s)) as [|a [|b [|c [|? ?]]]]; try discriminate.
  apply andb_true_iff in H. destruct H as [H He]. apply andb_true_iff in H. destruct H as [H Hc].
  apply andb_true_iff in H. destruct H as [Ha Hb]. apply N.eqb_eq in He.
  exists a, b, c. rewrite <- !is_digit_iff. repeat split; assumption.
Qed.

(* the phrases: printable ASCII *)
Lemma status_phrase_printable (s : N) : s < status_count ->
  Forall (fun b => 32 <= b /\ b <= 126) (status_phrase s).
Proof.
  intros Hs.
  pose proof (status_sweep (fun s => forallb (fun b => (32 <=? b) && (b <=? 126)) (status_phrase s)) eq_refl s Hs) as H.
  cbv beta in H. rewrite forallb_forall in H. apply Forall_forall. intros b Hb. specialize (H b Hb).
  apply andb_true_iff in H. destruct H as [A B]. apply N.leb_le in A. apply N.leb_le in B. lia.
Qed.

(* comparison with the hand-written reference tables *)
(* every variant's reason phrase is the one registered for its code (RFC 7231 section 6 / the IANA registry) *)
Lemma status_phrase_rfc7231 (s : N) : s < status_count -> In (status_code s, status_phrase s) Txt.rfc7231_phrases.
Proof.
  intros Hs. apply in_table_In.
  exact (status_sweep (fun s => in_table (status_code s) (status_phrase s) Txt.rfc7231_phrases) eq_refl s Hs).
Qed.

(* and it is the RFC 2616 phrase as well, except for the three codes RFC 7231 renamed *)
Lemma status_phrase_rfc2616 (s : N) : s < status_count ->
  In (status_code s, status_phrase s) Txt.rfc2616_phrases \/ In (status_code s) rfc2616_only_codes.
Proof.
  intros Hs.
  pose proof (status_sweep (fun s => in_table (status_code s) (status_phrase s) Txt.rfc2616_phrases
                                     || memN (status_code s) rfc2616_only_codes) eq_refl s Hs) as H.
  cbv beta in H. apply orb_true_iff in H. destruct H as [H|H]; [left; apply in_table_In, H|right; apply memN_In, H].
Qed.

(* coverage: which codes of each RFC table have no variant *)
Definition modelled_codes : list N := map status_code status_idx.
Lemma status_coverage :
  (forall c ph, In (c, ph) Txt.rfc2616_phrases -> In c modelled_codes \/ c = 402) /\
  (forall c ph, In (c, ph) Txt.rfc7231_phrases -> In c modelled_codes \/ c = 402 \/ c = 426) /\
  ~ In 402 modelled_codes /\ ~ In 426 modelled_codes.
Proof.
  assert (A : forallb (fun e => memN (fst e) modelled_codes || (fst e =? 402)) Txt.rfc2616_phrases = true) by (vm_compute; reflexivity).
  assert (B : forallb (fun e => memN (fst e) modelled_codes || (fst e =? 402) || (fst e =? 426)) Txt.rfc7231_phrases = true) by (vm_compute; reflexivity).
  assert (C : memN 402 modelled_codes = false) by (vm_compute; reflexivity).
  assert (D : memN 426 modelled_codes = false) by (vm_compute; reflexivity).
  rewrite forallb_forall in A, B. repeat split.
  - intros c ph Hin. specialize (A _ Hin). cbn [fst] in A. apply orb_true_iff in A. destruct A as [A|A].
    + left. apply memN_In, A.
    + right. apply N.eqb_eq, A.
  - intros c ph Hin. specialize (B _ Hin). cbn [fst] in B. apply orb_true_iff in B. destruct B as [B|B].
    + apply orb_true_iff in B. destruct B as [B|B]; [left; apply memN_In, B|right; left; apply N.eqb_eq, B].
    + right. right. apply N.eqb_eq, B.
  - intros H. apply memN_In in H. congruence.
  - intros H. apply memN_In in H. congruence.
Qed.

Lemma status_registered (s : N) : s < status_count -> registered_phrase (status_code s) (status_phrase s).
Proof. intros Hs. left. apply status_phrase_rfc7231, Hs. Qed.

(* ================= 2. header names, stable sort ================= *)
Lemma hname_eqb_eq (a b : hname) : hname_eqb a b = true <-> a = b.
Proof.
  destruct a as [i|x], b as [j|y]; cbn [hname_eqb]; split; intros H; try discriminate.
  - apply N.eqb_eq in H. subst. reflexivity.
  - injection H as ->. apply N.eqb_refl.
  - apply beq_eq in H. subst. reflexivity.
  - injection H as ->. apply beq_refl.
Qed.

Lemma hname_eqb_refl (a : hname) : hname_eqb a a = true.
Proof. apply hname_eqb_eq. reflexivity. Qed.

Lemma bcmp_refl (a : bytes) : bcmp a a = Eq.
Proof. induction a as [|x a IH]; cbn [bcmp]; [reflexivity|]. rewrite N.compare_refl. exact IH. Qed.

Lemma hname_le_refl (a : hname) : hname_le a a = true.
Proof. unfold hname_le. rewrite N.eqb_refl, bcmp_refl. reflexivity. Qed.

(* bcmp is antisymmetric, hence hname_le is total *)
Lemma bcmp_antisym (a b : bytes) : bcmp b a = CompOpp (bcmp a b).
Proof.
  revert b. induction a as [|x a IH]; intros [|y b]; cbn [bcmp]; try reflexivity.
  rewrite (N.compare_antisym x y). destruct (x ?= y); cbn [CompOpp]; [apply IH|reflexivity|reflexivity].
Qed.

Lemma hname_le_total (a b : hname) : hname_le a b = false -> hname_le b a = true.
Proof.
  unfold hname_le. destruct (N.eqb_spec (hname_cat a) (hname_cat b)) as [E|E].
  - rewrite E, N.eqb_refl. rewrite (bcmp_antisym (hname_str a) (hname_str b)).
    destruct (bcmp (hname_str a) (hname_str b)); cbn [CompOpp]; intros H; try discriminate. reflexivity.
  - destruct (N.eqb_spec (hname_cat b) (hname_cat a)) as [E'|E']; [congruence|].
    intros H. apply N.ltb_ge in H. apply N.ltb_lt. lia.
Qed.

Definition name_is (n : hname) (h : header) : bool := hname_eqb n (fst h).

(* insertion never passes an element with the same name, so same-name order is kept *)
Lemma hinsert_filter (n : hname) (h : header) (l : headers) :
  filter (name_is n) (hinsert h l) = filter (name_is n) (h :: l).
Proof.
  induction l as [|x l IH]; [reflexivity|].
  cbn [hinsert]. destruct (hname_le (fst h) (fst x)) eqn:Hle; [reflexivity|].
  cbn [filter] in *. rewrite IH.
  destruct (name_is n h) eqn:Eh; destruct (name_is n x) eqn:Ex; try reflexivity.
  exfalso. unfold name_is in Eh, Ex. apply hname_eqb_eq in Eh. apply hname_eqb_eq in Ex.
  rewrite <- Eh, <- Ex, hname_le_refl in Hle. discriminate.
Qed.

Lemma hsort_filter (n : hname) (l : headers) : filter (name_is n) (hsort l) = filter (name_is n) l.
Proof.
  induction l as [|h l IH]; [reflexivity|].
  change (hsort (h :: l)) with (hinsert h (hsort l)). rewrite hinsert_filter. cbn [filter]. rewrite IH. reflexivity.
Qed.

Lemma hinsert_perm (h : header) (l : headers) : Permutation (hinsert h l) (h :: l).
Proof.
  induction l as [|x l IH]; [apply Permutation_refl|].
  cbn [hinsert]. destruct (hname_le (fst h) (fst x)); [apply Permutation_refl|].
  eapply Permutation_trans; [apply perm_skip, IH|apply perm_swap].
Qed.

Lemma hsort_perm (l : headers) : Permutation (hsort l) l.
Proof.
  induction l as [|h l IH]; [apply Permutation_refl|].
  change (hsort (h :: l)) with (hinsert h (hsort l)).
  eapply Permutation_trans; [apply hinsert_perm|apply perm_skip, IH].
Qed.

(* the output is ordered by (category, name): this is what makes the serialisation deterministic *)
Inductive hsorted : headers -> Prop :=
| hsorted_nil : hsorted []
| hsorted_one (h : header) : hsorted [h]
| hsorted_cons (h x : header) (l : headers) : hname_le (fst h) (fst x) = true -> hsorted (x :: l) -> hsorted (h :: x :: l).

Lemma hinsert_sorted (h : header) (l : headers) : hsorted l -> hsorted (hinsert h l).
Proof.
  induction 1 as [|x|x y l Hxy Hs IH].
  - constructor.
  - cbn [hinsert]. destruct (hname_le (fst h) (fst x)) eqn:E.
    + constructor; [exact E|constructor].
    + constructor; [apply hname_le_total, E|constructor].
  - cbn [hinsert] in *. destruct (hname_le (fst h) (fst x)) eqn:E.
    + constructor; [exact E|constructor; assumption].
    + destruct (hname_le (fst h) (fst y)) eqn:E2.
      * constructor; [apply hname_le_total, E|]. constructor; assumption.
      * constructor; [exact Hxy|exact IH].
Qed.

Lemma hsort_sorted (l : headers) : hsorted (hsort l).
Proof.
  induction l as [|h l IH]; [constructor|].
  change (hsort (h :: l)) with (hinsert h (hsort l)). apply hinsert_sorted, IH.
Qed.

Lemma hget_all_filter (n : hname) (l : headers) : hget_all n l = map snd (filter (name_is n) l).
Proof. reflexivity. Qed.

Lemma hget_hd (n : hname) (l : headers) : hget n l = hd_error (hget_all n l).
Proof.
  induction l as [|[n' v] l IH]; [reflexivity|].
  unfold hget_all in *. cbn [hget filter fst]. destruct (hname_eqb n n'); [reflexivity|exact IH].
Qed.

Lemma hget_all_hsort (n : hname) (l : headers) : hget_all n (hsort l) = hget_all n l.
Proof. rewrite !hget_all_filter, hsort_filter. reflexivity. Qed.

Lemma hget_hsort (n : hname) (l : headers) : hget n (hsort l) = hget n l.
Proof. rewrite !hget_hd, hget_all_hsort. reflexivity. Qed.

Lemma Forall_hsort (P : header -> Prop) (l : headers) : Forall P l -> Forall P (hsort l).
Proof. intros H. eapply Permutation_Forall; [apply Permutation_sym, hsort_perm|exact H]. Qed.

(* known names: the generated tables are mutually inverse (finite sweep) *)
Definition header_idx : list N := map fst header_name_table.
Lemma known_names_canonical :
  forallb (fun i => hname_eqb (hname_of (hname_str (HKnown i))) (HKnown i)) header_idx = true.
Proof. vm_compute. reflexivity. Qed.

Lemma canonical_known (i : N) : In i header_idx -> canonical_name (HKnown i).
Proof.
  intros H. pose proof known_names_canonical as K. rewrite forallb_forall in K. apply hname_eqb_eq, K, H.
Qed.

Lemma lower_byte_idem (b : N) : lower_byte (lower_byte b) = lower_byte b.
Proof.
  unfold lower_byte.
  destruct (N.leb_spec 65 b); destruct (N.leb_spec b 90); cbn [andb];
    destruct (N.leb_spec 65 (b + 32)); destruct (N.leb_spec (b + 32) 90); cbn [andb]; try reflexivity; try lia;
    destruct (N.leb_spec 65 b); destruct (N.leb_spec b 90); cbn [andb]; try reflexivity; lia.
Qed.

Lemma ascii_lower_idem (l : bytes) : ascii_lower (ascii_lower l) = ascii_lower l.
Proof. unfold ascii_lower. rewrite map_map. apply map_ext. intros b. apply lower_byte_idem. Qed.

(* lifting lemma: whatever HeaderType::from returns is a fixed point of to_string ; from *)
Lemma hname_of_canonical (s : bytes) : canonical_name (hname_of s).
Proof.
  unfold canonical_name.
  destruct (assoc_bytes (ascii_lower s) header_parse_table) as [i|] eqn:E.
  - replace (hname_of s) with (HKnown i) by (unfold hname_of; rewrite E; reflexivity).
    apply canonical_known.
    assert (Hall : forallb (fun e => memN (snd e) header_idx) header_parse_table = true) by (vm_compute; reflexivity).
    assert (Hin : forall t, assoc_bytes (ascii_lower s) t = Some i -> exists k, In (k, i) t).
    { induction t as [|[k v] t IH]; cbn [assoc_bytes]; [discriminate|].
      destruct (beq (ascii_lower s) k); [intros [= ->]; exists k; left; reflexivity|].
      intros H. destruct (IH H) as [k' Hk]. exists k'. right. exact Hk. }
    destruct (Hin _ E) as [k Hk]. rewrite forallb_forall in Hall. apply memN_In. exact (Hall _ Hk).
  - replace (hname_of s) with (HCustom (ascii_lower s)) by (unfold hname_of; rewrite E; reflexivity).
    cbn [hname_str]. unfold hname_of. rewrite ascii_lower_idem, E. reflexivity.
Qed.

(* tokens *)
Lemma tchar_props (b : N) : tchar b -> b < 128 /\ b <> COLON /\ b <> LF /\ b <> CR /\ b <> SP.
Proof.
  unfold tchar, digit, COLON, LF, CR, SP. cbn [In]. lia.
Qed.

Lemma token_ascii (s : bytes) : token s -> ascii s.
Proof. intros [_ H]. eapply Forall_impl; [|exact H]. intros b Hb. apply tchar_props in Hb. tauto. Qed.

Lemma token_notin (s : bytes) (c : N) : token s -> (c = COLON \/ c = LF \/ c = CR \/ c = SP) -> ~ In c s.
Proof.
  intros [_ H] Hc Hin. rewrite Forall_forall in H. apply H, tchar_props in Hin.
  destruct Hin as (_ & A & B & C & D). destruct Hc as [Hc|[Hc|[Hc|Hc]]]; subst c; contradiction.
Qed.

(* ================= 3. parsing a rendered head ================= *)
(* normalise nested appends to the right *)
Ltac app_norm := repeat (progress (cbn [app]; rewrite <- ?app_assoc)).
Definition parsed_line (l : srv_line) : header := (hname_of (sl_name l), sl_value l).

Lemma head_headers_map (h : srv_head) : head_headers h = map parsed_line (sh_lines h).
Proof. reflexivity. Qed.

Lemma ows_sws (o : bytes) : ows o -> Forall sws o.
Proof. apply Forall_impl. unfold sws. intros b [->| ->]; lia. Qed.
Lemma ows_ascii (o : bytes) : ows o -> ascii o.
Proof. apply Forall_impl. intros b [->| ->]; lia. Qed.
Lemma ows_noLF (o : bytes) : ows o -> ~ In LF o.
Proof. intros H Hin. unfold ows in H. rewrite Forall_forall in H. specialize (H _ Hin). unfold LF in H. lia. Qed.

Lemma CRLF_utf8 : utf8_valid CRLF = true.
Proof. reflexivity. Qed.

Lemma not_in_app (c : N) (a b : bytes) : ~ In c a -> ~ In c b -> ~ In c (a ++ b).
Proof. intros Ha Hb Hin. apply in_app_or in Hin. tauto. Qed.

Lemma not_in_one (c x : N) : c <> x -> ~ In c [x].
Proof. intros H [E|[]]. congruence. Qed.

(* a header line as sent splits as: text without LF, then LF *)
Lemma render_line_split (l : srv_line) :
  render_line l = (sl_name l ++ [COLON] ++ sl_ows l ++ sl_value l ++ [CR]) ++ [LF].
Proof. unfold render_line, CRLF. rewrite <- !app_assoc. reflexivity. Qed.

Lemma render_line_noLF (l : srv_line) :
  line_ok l -> ~ In LF (sl_name l ++ [COLON] ++ sl_ows l ++ sl_value l ++ [CR]).
Proof.
  intros (Ht & Ho & Hnl & _ & _).
  apply not_in_app; [apply token_notin; [exact Ht|right; left; reflexivity]|].
  apply not_in_app; [apply not_in_one; discriminate|].
  apply not_in_app; [apply ows_noLF, Ho|].
  apply not_in_app; [exact Hnl|apply not_in_one; discriminate].
Qed.

Lemma line_read (l : srv_line) (rest : bytes) :
  line_ok l -> read_until_flat LF (render_line l ++ rest) = (render_line l, rest).
Proof.
  intros H. rewrite render_line_split, <- app_assoc. cbn [app].
  apply read_until_flat_line. apply render_line_noLF, H.
Qed.

Lemma line_utf8 (l : srv_line) : line_ok l -> utf8_valid (render_line l) = true.
Proof.
  intros (Ht & Ho & _ & Hu & _). unfold render_line.
  apply utf8_valid_app; [apply utf8_valid_ascii, token_ascii, Ht|].
  apply utf8_valid_app; [reflexivity|].
  apply utf8_valid_app; [apply utf8_valid_ascii, ows_ascii, Ho|].
  apply utf8_valid_app; [exact Hu|reflexivity].
Qed.

Lemma line_not_blank (l : srv_line) : line_ok l -> beq (render_line l) CRLF = false.
Proof.
  intros ((Hne & Ht) & _). unfold render_line. destruct (sl_name l) as [|b n]; [contradiction|].
  inversion Ht as [|? ? Hb _]; subst. apply tchar_props in Hb. cbn [app beq CRLF].
  destruct (N.eqb_spec b CR); [tauto|reflexivity].
Qed.

Lemma parse_header_line_ok (l : srv_line) : line_ok l -> parse_header_line (render_line l) = Some (parsed_line l).
Proof.
  intros (Ht & Ho & _ & _ & Hw). unfold parse_header_line, render_line.
  replace (sl_name l ++ [COLON] ++ sl_ows l ++ sl_value l ++ CRLF)
    with ((sl_name l ++ COLON :: (sl_ows l ++ sl_value l)) ++ CRLF) by (app_norm; reflexivity).
  rewrite strip_crlf_app.
  rewrite split_once_app by (apply token_notin; [exact Ht|left; reflexivity]).
  rewrite trim_start_ows; [reflexivity|apply ows_sws, Ho|exact Hw].
Qed.

Lemma rheader_loop_step (l : srv_line) (f : nat) (rest : bytes) (acc : headers) :
  line_ok l -> rheader_loop_flat (S f) (render_line l ++ rest) acc = rheader_loop_flat f rest (parsed_line l :: acc).
Proof.
  intros H. cbn [rheader_loop_flat].
  rewrite (line_read l rest H), (line_utf8 l H), (line_not_blank l H), (parse_header_line_ok l H).
  reflexivity.
Qed.

Lemma rheader_loop_end (f : nat) (rest : bytes) (acc : headers) :
  rheader_loop_flat (S f) (CRLF ++ rest) acc = Ok (rev acc, rest).
Proof. reflexivity. Qed.

Lemma rheader_loop_ok (lines : list srv_line) : forall (f : nat) (acc : headers) (rest : bytes),
  Forall line_ok lines -> (length lines < f)%nat ->
  rheader_loop_flat f (concat (map render_line lines) ++ CRLF ++ rest) acc = Ok (rev acc ++ map parsed_line lines, rest).
Proof.
  induction lines as [|l lines IH]; intros f acc rest Hok Hf.
  - destruct f as [|f]; [cbn [length] in Hf; lia|]. cbn [map concat app]. rewrite rheader_loop_end, app_nil_r. reflexivity.
  - destruct f as [|f]; [cbn [length] in Hf; lia|]. inversion Hok as [|? ? Hl Hls]; subst.
    cbn [map concat]. rewrite <- app_assoc. rewrite rheader_loop_step by exact Hl.
    rewrite IH; [|exact Hls|cbn [length] in Hf; lia]. cbn [rev map]. rewrite <- app_assoc. reflexivity.
Qed.

Lemma lines_length (lines : list srv_line) : (length lines <= length (concat (map render_line lines)))%nat.
Proof.
  induction lines as [|l lines IH]; [cbn; lia|].
  cbn [map concat length]. rewrite app_length. rewrite render_line_split, app_length. cbn [length]. lia.
Qed.

(* status line *)
Definition status_line (h : srv_head) : bytes :=
  sh_version h ++ [SP] ++ dec_render (status_code (sh_status h)) ++ [SP] ++ sh_phrase h ++ CRLF.

Lemma render_head_split (h : srv_head) :
  render_head h = status_line h ++ concat (map render_line (sh_lines h)) ++ CRLF.
Proof. unfold render_head, status_line. rewrite <- !app_assoc. reflexivity. Qed.

Lemma status_line_split (h : srv_head) :
  status_line h = (sh_version h ++ [SP] ++ dec_render (status_code (sh_status h)) ++ [SP] ++ sh_phrase h ++ [CR]) ++ [LF].
Proof. unfold status_line, CRLF. rewrite <- !app_assoc. reflexivity. Qed.

Lemma status_line_noLF (h : srv_head) : head_ok h ->
  ~ In LF (sh_version h ++ [SP] ++ dec_render (status_code (sh_status h)) ++ [SP] ++ sh_phrase h ++ [CR]).
Proof.
  intros (_ & Hv & _ & _ & Hp & _).
  apply not_in_app; [exact Hv|]. apply not_in_app; [apply not_in_one; discriminate|].
  apply not_in_app; [apply digits_notin; [apply dec_render_digits|left; reflexivity]|].
  apply not_in_app; [apply not_in_one; discriminate|].
  apply not_in_app; [exact Hp|apply not_in_one; discriminate].
Qed.

Lemma status_line_read (h : srv_head) (rest : bytes) : head_ok h ->
  read_until_flat LF (status_line h ++ rest) = (status_line h, rest).
Proof.
  intros H. rewrite status_line_split, <- app_assoc. cbn [app].
  apply read_until_flat_line, status_line_noLF, H.
Qed.

Lemma status_line_utf8 (h : srv_head) : head_ok h -> utf8_valid (status_line h) = true.
Proof.
  intros (_ & _ & Hv & _ & _ & Hp & _). unfold status_line.
  apply utf8_valid_app; [exact Hv|]. apply utf8_valid_app; [reflexivity|].
  apply utf8_valid_app; [apply utf8_valid_ascii, digits_ascii, dec_render_digits|].
  apply utf8_valid_app; [reflexivity|]. apply utf8_valid_app; [exact Hp|reflexivity].
Qed.

Lemma parse_status_line_ok (h : srv_head) : head_ok h ->
  parse_status_line (status_line h) = Some (sh_version h, sh_status h).
Proof.
  intros H. pose proof H as (Hsp & _ & _ & Hs & _).
  unfold parse_status_line. rewrite (status_line_utf8 h H). cbn [negb].
  unfold splitn3_sp, status_line. cbn [app].
  rewrite split_once_app by exact Hsp.
  rewrite split_once_app by (apply digits_notin; [apply dec_render_digits|left; reflexivity]).
  rewrite parse_u16_render by (pose proof (status_code_range _ Hs); lia).
  rewrite status_of_code_code by exact Hs. reflexivity.
Qed.

(* what parse_response_flat does once the head is read (the tail of its definition, verbatim) *)
Definition resp_finish (version : bytes) (status : N) (hs : headers) (l2 : bytes) : outcome (response * bytes) :=
  let chunked := match hget (HKnown H_TransferEncoding) hs with Some te => beq te TE_chunked | None => false end in
  if chunked then
    match chunk_loop_flat (S (length l2)) l2 [] with
    | Ok (body, l3) =>
      let hs' := hremove (HKnown H_TransferEncoding) hs ++ [(HKnown H_ContentLength, dec_render (N.of_nat (length body)))] in
      Ok ({| s_version := version; s_status := status; s_headers := hs'; s_body := body |}, l3)
    | Err e => Err e
    | Crash w => Crash w
    end
  else
    match hget (HKnown H_ContentLength) hs with
    | Some cl =>
      match parse_usize cl with
      | None => Err E_Response
      | Some n =>
        match read_exact_flat_N n l2 with
        | Some (d, l3) => Ok ({| s_version := version; s_status := status; s_headers := hs; s_body := d |}, l3)
        | None => Err E_Stream
        end
      end
    | None => Ok ({| s_version := version; s_status := status; s_headers := hs; s_body := [] |}, l2)
    end.

Lemma parse_response_head (h : srv_head) (payload : bytes) : head_ok h ->
  parse_response_flat (render_head h ++ payload) =
  resp_finish (sh_version h) (sh_status h) (head_headers h) payload.
Proof.
  intros H. pose proof H as (_ & _ & _ & _ & _ & _ & Hl).
  unfold parse_response_flat. rewrite render_head_split, <- !app_assoc.
  rewrite (status_line_read h _ H). rewrite (parse_status_line_ok h H).
  rewrite rheader_loop_ok; [reflexivity|exact Hl|].
  rewrite app_length. pose proof (lines_length (sh_lines h)). lia.
Qed.

(* ================= 4. payloads: Content-Length, none, chunked ================= *)
Lemma chunked_flag_true (hs : headers) : is_chunked hs ->
  match hget (HKnown H_TransferEncoding) hs with Some te => beq te TE_chunked | None => false end = true.
Proof. unfold is_chunked. intros ->. apply beq_refl. Qed.

Lemma chunked_flag_false (hs : headers) : ~ is_chunked hs ->
  match hget (HKnown H_TransferEncoding) hs with Some te => beq te TE_chunked | None => false end = false.
Proof.
  unfold is_chunked. intros H. destruct (hget (HKnown H_TransferEncoding) hs) as [te|]; [|reflexivity].
  apply beq_neq. intros ->. apply H. reflexivity.
Qed.

Lemma parse_usize_dec_str (cl : bytes) (n : N) : dec_str cl n -> n <= usize_max -> parse_usize cl = Some n.
Proof. intros (Hne & Hd & Hv) Hn. apply parse_unsigned_digits; assumption. Qed.

Lemma dec_str_render (n : N) : dec_str (dec_render n) n.
Proof. split; [apply dec_render_nonempty|]. split; [apply dec_render_digits|apply dec_digits_render]. Qed.

Lemma resp_finish_cl (v : bytes) (s : N) (hs : headers) (cl body rest : bytes) :
  ~ is_chunked hs -> hget (HKnown H_ContentLength) hs = Some cl ->
  dec_str cl (N.of_nat (length body)) -> N.of_nat (length body) <= usize_max ->
  resp_finish v s hs (body ++ rest) = Ok ({| s_version := v; s_status := s; s_headers := hs; s_body := body |}, rest).
Proof.
  intros Hc Hcl Hd Hmax. unfold resp_finish. rewrite (chunked_flag_false hs Hc). cbv zeta. cbn iota.
  rewrite Hcl, (parse_usize_dec_str cl _ Hd Hmax), read_exact_flat_N_app. reflexivity.
Qed.

Lemma resp_finish_none (v : bytes) (s : N) (hs : headers) (rest : bytes) :
  ~ is_chunked hs -> hget (HKnown H_ContentLength) hs = None ->
  resp_finish v s hs rest = Ok ({| s_version := v; s_status := s; s_headers := hs; s_body := [] |}, rest).
Proof.
  intros Hc Hcl. unfold resp_finish. rewrite (chunked_flag_false hs Hc). cbv zeta. cbn iota. rewrite Hcl. reflexivity.
Qed.

(* one chunk *)
Lemma hex_line_read (hx : bytes) (n : N) (rest : bytes) : hex_str hx n ->
  read_until_flat LF (hx ++ CRLF ++ rest) = (hx ++ CRLF, rest).
Proof.
  intros (_ & Hd & _).
  replace (hx ++ CRLF ++ rest) with ((hx ++ [CR]) ++ LF :: rest) by (unfold CRLF; app_norm; reflexivity).
  replace (hx ++ CRLF) with ((hx ++ [CR]) ++ [LF]) by (unfold CRLF; app_norm; reflexivity).
  apply read_until_flat_line. apply not_in_app; [apply hex_notin; [exact Hd|reflexivity]|apply not_in_one; discriminate].
Qed.

Lemma hex_line_utf8 (hx : bytes) (n : N) : hex_str hx n -> utf8_valid (hx ++ CRLF) = true.
Proof.
  intros (_ & Hd & _). apply utf8_valid_ascii, ascii_app; [apply hex_ascii, Hd|].
  unfold CRLF, CR, LF. repeat constructor.
Qed.

Lemma parse_chunk_flat_data (hx d rest : bytes) : chunk_ok (hx, d) ->
  parse_chunk_flat (chunk_enc hx d ++ rest) = Ok (Some d, rest).
Proof.
  intros (Hne & Hhx & Hmax). cbn [fst snd] in *. unfold parse_chunk_flat, chunk_enc.
  replace ((hx ++ CRLF ++ d ++ CRLF) ++ rest) with (hx ++ CRLF ++ (d ++ CRLF ++ rest)) by (app_norm; reflexivity).
  rewrite (hex_line_read hx _ _ Hhx), (hex_line_utf8 hx _ Hhx). cbn [negb].
  rewrite (parse_usize_hex_line hx _ Hhx Hmax).
  destruct (N.eqb_spec (N.of_nat (length d)) 0) as [E|E]; [destruct d; [contradiction|cbn [length] in E; lia]|].
  rewrite read_exact_flat_N_app. reflexivity.
Qed.

Lemma parse_chunk_flat_last (hx rest : bytes) : hex_str hx 0 ->
  parse_chunk_flat (hx ++ CRLF ++ CRLF ++ rest) = Ok (None, rest).
Proof.
  intros Hhx. unfold parse_chunk_flat.
  rewrite (hex_line_read hx _ _ Hhx), (hex_line_utf8 hx _ Hhx). cbn [negb].
  rewrite (parse_usize_hex_line hx 0 Hhx) by (unfold usize_max; lia). reflexivity.
Qed.

Lemma chunks_enc_cons (c : bytes * bytes) (cs : list (bytes * bytes)) (last : bytes) :
  chunks_enc (c :: cs) last = chunk_enc (fst c) (snd c) ++ chunks_enc cs last.
Proof. unfold chunks_enc. cbn [map concat]. rewrite <- app_assoc. reflexivity. Qed.

Lemma chunks_enc_nil (last : bytes) : chunks_enc [] last = last ++ CRLF ++ CRLF.
Proof. reflexivity. Qed.

Lemma chunk_loop_ok (last : bytes) (cs : list (bytes * bytes)) : forall (f : nat) (acc rest : bytes),
  Forall chunk_ok cs -> hex_str last 0 -> (length cs < f)%nat ->
  chunk_loop_flat f (chunks_enc cs last ++ rest) acc = Ok (acc ++ concat (map snd cs), rest).
Proof.
  induction cs as [|[hx d] cs IH]; intros f acc rest Hok Hl Hf.
  - destruct f as [|f]; [cbn [length] in Hf; lia|]. rewrite chunks_enc_nil. cbn [chunk_loop_flat].
    replace ((last ++ CRLF ++ CRLF) ++ rest) with (last ++ CRLF ++ CRLF ++ rest) by (app_norm; reflexivity).
    rewrite parse_chunk_flat_last by exact Hl. cbn [map concat]. rewrite app_nil_r. reflexivity.
  - destruct f as [|f]; [cbn [length] in Hf; lia|]. inversion Hok as [|? ? Hc Hcs]; subst.
    rewrite chunks_enc_cons. cbn [fst snd chunk_loop_flat]. rewrite <- app_assoc.
    rewrite parse_chunk_flat_data by exact Hc.
    rewrite IH; [|exact Hcs|exact Hl|cbn [length] in Hf; lia]. cbn [map concat snd]. rewrite <- app_assoc. reflexivity.
Qed.

Lemma chunks_enc_length (cs : list (bytes * bytes)) (last : bytes) : (length cs <= length (chunks_enc cs last))%nat.
Proof.
  induction cs as [|c cs IH]; [cbn [length]; lia|].
  rewrite chunks_enc_cons, app_length. unfold chunk_enc at 1, CRLF. rewrite !app_length. cbn [length]. lia.
Qed.

Lemma resp_finish_chunked (v : bytes) (s : N) (hs : headers) (cs : list (bytes * bytes)) (last rest : bytes) :
  is_chunked hs -> Forall chunk_ok cs -> hex_str last 0 ->
  resp_finish v s hs (chunks_enc cs last ++ rest) =
  Ok ({| s_version := v; s_status := s; s_headers := dechunked_headers hs (concat (map snd cs));
         s_body := concat (map snd cs) |}, rest).
Proof.
  intros Hc Hok Hl. unfold resp_finish. rewrite (chunked_flag_true hs Hc). cbv zeta. cbn iota.
  rewrite (chunk_loop_ok last cs); [reflexivity|exact Hok|exact Hl|].
  rewrite app_length. pose proof (chunks_enc_length cs last). lia.
Qed.

(* --- the parse theorems for a conforming server --- *)
Lemma parse_cl_lemma (h : srv_head) (body rest : bytes) : head_ok h -> cl_framed h body ->
  parse_response_flat (render_head h ++ body ++ rest) =
  Ok ({| s_version := sh_version h; s_status := sh_status h; s_headers := head_headers h; s_body := body |}, rest).
Proof.
  intros H (Hc & cl & Hcl & Hd & Hmax). rewrite parse_response_head by exact H.
  apply (resp_finish_cl _ _ _ cl); assumption.
Qed.

Lemma parse_nobody_lemma (h : srv_head) (rest : bytes) : head_ok h -> no_body h ->
  parse_response_flat (render_head h ++ rest) =
  Ok ({| s_version := sh_version h; s_status := sh_status h; s_headers := head_headers h; s_body := [] |}, rest).
Proof.
  intros H (Hc & Hcl). rewrite parse_response_head by exact H. apply resp_finish_none; assumption.
Qed.

Lemma parse_chunked_general (h : srv_head) (cs : list (bytes * bytes)) (last rest : bytes) :
  head_ok h -> is_chunked (head_headers h) -> Forall chunk_ok cs -> hex_str last 0 ->
  parse_response_flat (render_head h ++ chunks_enc cs last ++ rest) =
  Ok ({| s_version := sh_version h; s_status := sh_status h;
         s_headers := dechunked_headers (head_headers h) (concat (map snd cs));
         s_body := concat (map snd cs) |}, rest).
Proof.
  intros H Hc Hok Hl. rewrite parse_response_head by exact H. apply resp_finish_chunked; assumption.
Qed.

(* the canonical encoder *)
Lemma take_chunks_spec (sizes : list nat) : forall (body : bytes),
  Forall (fun n => (0 < n)%nat /\ N.of_nat n <= usize_max) sizes -> fold_right Nat.add 0%nat sizes = length body ->
  concat (take_chunks sizes body) = body /\
  Forall (fun d => d <> [] /\ N.of_nat (length d) <= usize_max) (take_chunks sizes body).
Proof.
  induction sizes as [|n ss IH]; intros body Hs Hsum.
  - cbn [fold_right] in Hsum. destruct body; [|discriminate]. split; [reflexivity|constructor].
  - inversion Hs as [|? ? [Hn Hmax] Hss]; subst. cbn [fold_right] in Hsum. cbn [take_chunks concat].
    destruct (IH (skipn n body) Hss) as [Hc Hf]; [rewrite skipn_length; lia|].
    split; [rewrite Hc; apply firstn_skipn|].
    constructor; [|exact Hf].
    assert (Hlen : length (firstn n body) = n) by (apply firstn_length_le; lia).
    rewrite Hlen. split; [|exact Hmax]. intros E. rewrite E in Hlen. cbn [length] in Hlen. lia.
Qed.

Lemma chunked_encode_general (up : bool) (sizes : list nat) (body : bytes) : sizes_ok sizes body ->
  exists cs, chunked_encode up sizes body = chunks_enc cs (hex_render up 0) /\ Forall chunk_ok cs /\
             concat (map snd cs) = body /\ map snd cs = take_chunks sizes body.
Proof.
  intros [Hs Hsum]. destruct (take_chunks_spec sizes body Hs Hsum) as [Hc Hf].
  set (cs := map (fun d : bytes => (hex_render up (N.of_nat (length d)), d)) (take_chunks sizes body)).
  exists cs.
  assert (Hm : map snd cs = take_chunks sizes body).
  { unfold cs. rewrite map_map. cbn [snd]. apply map_id. }
  split; [reflexivity|]. split; [|split; [rewrite Hm; exact Hc|exact Hm]]. unfold cs.
  apply Forall_map. eapply Forall_impl; [|exact Hf]. intros d [Hne Hmax].
  unfold chunk_ok. cbn [fst snd]. split; [exact Hne|]. split; [apply hex_render_str|exact Hmax].
Qed.

Lemma parse_chunked_lemma (h : srv_head) (up : bool) (sizes : list nat) (body rest : bytes) :
  head_ok h -> is_chunked (head_headers h) -> sizes_ok sizes body ->
  parse_response_flat (render_head h ++ chunked_encode up sizes body ++ rest) =
  Ok ({| s_version := sh_version h; s_status := sh_status h;
         s_headers := dechunked_headers (head_headers h) body; s_body := body |}, rest).
Proof.
  intros H Hc Hs. destruct (chunked_encode_general up sizes body Hs) as (cs & -> & Hok & Hb & _).
  rewrite parse_chunked_general; [rewrite Hb; reflexivity|exact H|exact Hc|exact Hok|apply hex_render_str].
Qed.

(* ================= 5. truncation (C09) ================= *)
(* the two error classes of the Rust parser (ResponseError::Response / ::Stream); excludes Ok, Crash and the model's
   fuel error 99 *)
Definition bad_err (e : N) : Prop := e = E_Response \/ e = E_Stream.
Definition fails {A : Type} (x : outcome A) : Prop := exists e, x = Err e /\ bad_err e.

Lemma fails_response {A : Type} : @fails A (Err E_Response).
Proof. exists E_Response. split; [reflexivity|left; reflexivity]. Qed.
Lemma fails_stream {A : Type} : @fails A (Err E_Stream).
Proof. exists E_Stream. split; [reflexivity|right; reflexivity]. Qed.

Lemma strict_prefix_app_cases (p a b : bytes) : strict_prefix p (a ++ b) ->
  strict_prefix p a \/ exists p', p = a ++ p' /\ strict_prefix p' b.
Proof.
  intros (s & Hs & E). symmetry in E. apply app_eq_app in E. destruct E as (l & [[Ea Eb]|[Ea Eb]]).
  - right. exists l. split; [exact Ea|]. exists s. split; [exact Hs|exact Eb].
  - destruct l as [|x l].
    + right. exists []. rewrite app_nil_r in Ea. split; [rewrite app_nil_r; symmetry; exact Ea|].
      exists s. split; [exact Hs|]. cbn [app] in Eb. symmetry. exact Eb.
    + left. exists (x :: l). split; [discriminate|exact Ea].
Qed.

Lemma strict_prefix_noLF (x p : bytes) : ~ In LF x -> strict_prefix p (x ++ [LF]) -> ~ In LF p.
Proof.
  intros Hx (s & Hs & E) Hin. destruct (exists_last Hs) as (s' & c & ->).
  rewrite app_assoc in E. apply app_inj_tail in E. destruct E as [E _]. apply Hx. rewrite E.
  apply in_or_app. left. exact Hin.
Qed.

Lemma strict_prefix_length (p m : bytes) : strict_prefix p m -> (length p < length m)%nat.
Proof.
  intros (s & Hs & ->). rewrite app_length. destruct s; [contradiction|]. cbn [length]. lia.
Qed.

(* a header-loop input whose next line has no LF is rejected *)
Lemma rheader_loop_noLF (f : nat) (p : bytes) (acc : headers) : ~ In LF p ->
  rheader_loop_flat (S f) p acc = Err E_Response.
Proof.
  intros Hn. cbn [rheader_loop_flat]. rewrite (read_until_flat_none p Hn).
  destruct (utf8_valid p); cbn [negb]; [|reflexivity].
  destruct (beq p CRLF) eqn:E.
  - exfalso. apply beq_eq in E. apply Hn. rewrite E. right. left. reflexivity.
  - unfold parse_header_line. rewrite (strip_crlf_nolf p Hn). reflexivity.
Qed.

Lemma rheader_loop_trunc (lines : list srv_line) : forall (f : nat) (acc : headers) (p : bytes),
  Forall line_ok lines -> (length p < f)%nat ->
  strict_prefix p (concat (map render_line lines) ++ CRLF) ->
  rheader_loop_flat f p acc = Err E_Response.
Proof.
  induction lines as [|l lines IH]; intros f acc p Hok Hf Hp;
    (destruct f as [|f]; [lia|]).
  - cbn [map concat app] in Hp. apply rheader_loop_noLF.
    apply (strict_prefix_noLF [CR]); [apply not_in_one; discriminate|exact Hp].
  - inversion Hok as [|? ? Hl Hls]; subst. cbn [map concat] in Hp. rewrite <- app_assoc in Hp.
    apply strict_prefix_app_cases in Hp. destruct Hp as [Hp|(p' & -> & Hp')].
    + apply rheader_loop_noLF. rewrite render_line_split in Hp.
      apply (strict_prefix_noLF _ p (render_line_noLF l Hl) Hp).
    + rewrite rheader_loop_step by exact Hl. apply IH; [exact Hls| |exact Hp'].
      rewrite app_length, render_line_split, app_length in Hf. cbn [length] in Hf. lia.
Qed.

(* every strict prefix of the head is rejected *)
Lemma parse_response_trunc_head (h : srv_head) (p : bytes) : head_ok h ->
  strict_prefix p (render_head h) -> parse_response_flat p = Err E_Response.
Proof.
  intros H Hp. pose proof H as (_ & _ & _ & _ & _ & _ & Hl).
  rewrite render_head_split in Hp. apply strict_prefix_app_cases in Hp. destruct Hp as [Hp|(p' & -> & Hp')].
  - rewrite status_line_split in Hp. pose proof (strict_prefix_noLF _ p (status_line_noLF h H) Hp) as Hn.
    unfold parse_response_flat. rewrite (read_until_flat_none p Hn).
    destruct (parse_status_line p) as [[v s]|]; reflexivity.
  - unfold parse_response_flat. rewrite (status_line_read h p' H), (parse_status_line_ok h H).
    rewrite (rheader_loop_trunc (sh_lines h) _ [] p' Hl); [reflexivity|lia|exact Hp'].
Qed.

(* chunks *)
Lemma parse_chunk_noLF (p : bytes) : ~ In LF p -> fails (parse_chunk_flat p).
Proof.
  intros Hn. unfold parse_chunk_flat. rewrite (read_until_flat_none p Hn).
  destruct (utf8_valid p); cbn [negb]; [|apply fails_response].
  destruct (parse_usize_hex (trim_end p)) as [n|]; [|apply fails_response].
  destruct (N.eqb_spec n 0) as [E|E]; [apply fails_stream|].
  rewrite read_exact_flat_N_short by (cbn [length]; lia). apply fails_stream.
Qed.

(* after a good size line, fewer than n + 2 further bytes: UnexpectedEof *)
Lemma parse_chunk_short (hx : bytes) (n : N) (l1 : bytes) : hex_str hx n -> n <= usize_max ->
  N.of_nat (length l1) < n + 2 -> parse_chunk_flat (hx ++ CRLF ++ l1) = Err E_Stream.
Proof.
  intros Hhx Hmax Hlen. unfold parse_chunk_flat.
  rewrite (hex_line_read hx n l1 Hhx), (hex_line_utf8 hx n Hhx). cbn [negb].
  rewrite (parse_usize_hex_line hx n Hhx Hmax).
  destruct (N.eqb_spec n 0) as [E|E].
  - rewrite read_exact_flat_short by lia. reflexivity.
  - unfold read_exact_flat_N. destruct (N.ltb_spec (N.of_nat (length l1)) n); [reflexivity|].
    unfold read_exact_flat at 1. destruct (Nat.leb_spec (N.to_nat n) (length l1)); [|reflexivity].
    rewrite read_exact_flat_short; [reflexivity|]. rewrite skipn_length. lia.
Qed.

Lemma chunk_loop_fail (f : nat) (p acc : bytes) :
  fails (parse_chunk_flat p) -> fails (chunk_loop_flat (S f) p acc).
Proof. intros (e & E & He). cbn [chunk_loop_flat]. rewrite E. exists e. split; [reflexivity|exact He]. Qed.

Lemma hex_line_noLF (hx : bytes) (n : N) : hex_str hx n -> ~ In LF (hx ++ [CR]).
Proof.
  intros (_ & Hd & _). apply not_in_app; [apply hex_notin; [exact Hd|reflexivity]|apply not_in_one; discriminate].
Qed.

Lemma hex_line_split (hx : bytes) : hx ++ CRLF = (hx ++ [CR]) ++ [LF].
Proof. unfold CRLF. rewrite <- app_assoc. reflexivity. Qed.

Lemma chunk_loop_trunc (last : bytes) (cs : list (bytes * bytes)) : forall (f : nat) (acc p : bytes),
  Forall chunk_ok cs -> hex_str last 0 -> (length p < f)%nat ->
  strict_prefix p (chunks_enc cs last) -> fails (chunk_loop_flat f p acc).
Proof.
  induction cs as [|[hx d] cs IH]; intros f acc p Hok Hl Hf Hp;
    (destruct f as [|f]; [lia|]).
  - rewrite chunks_enc_nil in Hp. rewrite app_assoc in Hp.
    apply strict_prefix_app_cases in Hp. destruct Hp as [Hp|(p' & -> & Hp')].
    + apply chunk_loop_fail, parse_chunk_noLF. rewrite hex_line_split in Hp.
      apply (strict_prefix_noLF _ p (hex_line_noLF last 0 Hl) Hp).
    + apply chunk_loop_fail. rewrite <- app_assoc.
      rewrite (parse_chunk_short last 0 p' Hl); [apply fails_stream|unfold usize_max; lia|].
      apply strict_prefix_length in Hp'. unfold CRLF in Hp'. cbn [length] in Hp'. lia.
  - inversion Hok as [|? ? Hc Hcs]; subst. pose proof Hc as (Hne & Hhx & Hmax). cbn [fst snd] in *.
    rewrite chunks_enc_cons in Hp. cbn [fst snd] in Hp.
    apply strict_prefix_app_cases in Hp. destruct Hp as [Hp|(p' & -> & Hp')].
    + unfold chunk_enc in Hp. rewrite app_assoc in Hp.
      apply strict_prefix_app_cases in Hp. destruct Hp as [Hp|(p' & -> & Hp')].
      * apply chunk_loop_fail, parse_chunk_noLF. rewrite hex_line_split in Hp.
        apply (strict_prefix_noLF _ p (hex_line_noLF hx _ Hhx) Hp).
      * apply chunk_loop_fail. rewrite <- app_assoc.
        rewrite (parse_chunk_short hx _ p' Hhx Hmax); [apply fails_stream|].
        apply strict_prefix_length in Hp'. rewrite app_length in Hp'. unfold CRLF in Hp'. cbn [length] in Hp'. lia.
    + cbn [chunk_loop_flat]. rewrite parse_chunk_flat_data by exact Hc.
      apply IH; [exact Hcs|exact Hl| |exact Hp'].
      rewrite app_length in Hf. unfold chunk_enc, CRLF in Hf. rewrite !app_length in Hf. cbn [length] in Hf. lia.
Qed.

Lemma resp_finish_trunc_cl (v : bytes) (s : N) (hs : headers) (cl body p' : bytes) :
  ~ is_chunked hs -> hget (HKnown H_ContentLength) hs = Some cl ->
  dec_str cl (N.of_nat (length body)) -> N.of_nat (length body) <= usize_max ->
  strict_prefix p' body -> resp_finish v s hs p' = Err E_Stream.
Proof.
  intros Hc Hcl Hd Hmax Hp. unfold resp_finish. rewrite (chunked_flag_false hs Hc). cbv zeta. cbn iota.
  rewrite Hcl, (parse_usize_dec_str cl _ Hd Hmax).
  rewrite read_exact_flat_N_short; [reflexivity|]. apply strict_prefix_length in Hp. lia.
Qed.

Lemma resp_finish_trunc_chunked (v : bytes) (s : N) (hs : headers) (cs : list (bytes * bytes)) (last p' : bytes) :
  is_chunked hs -> Forall chunk_ok cs -> hex_str last 0 ->
  strict_prefix p' (chunks_enc cs last) -> fails (resp_finish v s hs p').
Proof.
  intros Hc Hok Hl Hp. unfold resp_finish. rewrite (chunked_flag_true hs Hc). cbv zeta. cbn iota.
  destruct (chunk_loop_trunc last cs (S (length p')) [] p' Hok Hl) as (e & E & He); [lia|exact Hp|].
  rewrite E. exists e. split; [reflexivity|exact He].
Qed.

(* C09: no strict prefix of a conforming server's complete message parses to Ok *)
Lemma truncated_never_ok_lemma (h : srv_head) (body m p : bytes) :
  head_ok h -> srv_message h body m -> strict_prefix p m -> fails (parse_response_flat p).
Proof.
  intros H Hm Hp. destruct Hm as [body (Hc & cl & Hcl & Hd & Hmax)|Hn|cs last Hc Hok Hl].
  - apply strict_prefix_app_cases in Hp. destruct Hp as [Hp|(p' & -> & Hp')].
    + rewrite (parse_response_trunc_head h p H Hp). apply fails_response.
    + rewrite parse_response_head by exact H.
      rewrite (resp_finish_trunc_cl _ _ _ cl body p'); [apply fails_stream|assumption..].
  - rewrite (parse_response_trunc_head h p H Hp). apply fails_response.
  - apply strict_prefix_app_cases in Hp. destruct Hp as [Hp|(p' & -> & Hp')].
    + rewrite (parse_response_trunc_head h p H Hp). apply fails_response.
    + rewrite parse_response_head by exact H. apply (resp_finish_trunc_chunked _ _ _ cs last); assumption.
Qed.

(* ... and the complete message itself parses to exactly what was sent (C07), whatever follows it *)
Lemma parse_srv_message (h : srv_head) (body m rest : bytes) :
  head_ok h -> srv_message h body m ->
  exists hs', parse_response_flat (m ++ rest) =
              Ok ({| s_version := sh_version h; s_status := sh_status h; s_headers := hs'; s_body := body |}, rest) /\
              (is_chunked (head_headers h) -> hs' = dechunked_headers (head_headers h) body) /\
              (~ is_chunked (head_headers h) -> hs' = head_headers h).
Proof.
  intros H Hm. destruct Hm as [body Hcl|Hn|cs last Hc Hok Hl].
  - exists (head_headers h). rewrite <- app_assoc. split; [apply parse_cl_lemma; assumption|].
    destruct Hcl as (Hc & _). split; [intros; contradiction|reflexivity].
  - exists (head_headers h). split; [apply parse_nobody_lemma; assumption|].
    destruct Hn as (Hc & _). split; [intros; contradiction|reflexivity].
  - exists (dechunked_headers (head_headers h) (concat (map snd cs))). rewrite <- app_assoc.
    split; [apply parse_chunked_general; assumption|]. split; [reflexivity|intros; contradiction].
Qed.

(* ================= 6. the serialisation is a valid message ================= *)
Definition line_of (hd : header) : srv_line :=
  {| sl_name := hname_str (fst hd); sl_ows := [SP]; sl_value := snd hd |}.
Definition head_of (r : response) : srv_head :=
  {| sh_version := s_version r; sh_status := s_status r; sh_phrase := status_phrase (s_status r);
     sh_lines := map line_of (hsort (s_headers r)) |}.
Definition body_tail (b : bytes) : bytes := match b with [] => [] | _ => CRLF end.

Lemma crlf_shift {A : Type} (f : A -> bytes) (l : list A) :
  concat (map (fun h => CRLF ++ f h) l) ++ CRLF = CRLF ++ concat (map (fun h => f h ++ CRLF) l).
Proof.
  induction l as [|a l IH]; [cbn [map concat app]; rewrite app_nil_r; reflexivity|].
  cbn [map concat]. rewrite <- !app_assoc. rewrite IH. reflexivity.
Qed.

Lemma render_line_of (hd : header) : render_line (line_of hd) = render_header hd ++ CRLF.
Proof. unfold render_line, line_of, render_header. cbn [sl_name sl_ows sl_value]. app_norm. reflexivity. Qed.

(* the Rust serialiser writes exactly: head of the abstract form, body, and CRLF after a non-empty body (F32) *)
Lemma serialize_as_head (r : response) :
  serialize_response r = render_head (head_of r) ++ s_body r ++ body_tail (s_body r).
Proof.
  unfold serialize_response, render_head, head_of. cbn [sh_version sh_status sh_phrase sh_lines].
  rewrite map_map.
  rewrite (map_ext (fun x => render_line (line_of x)) (fun x => render_header x ++ CRLF) render_line_of).
  replace (match s_body r with [] => [] | b => b ++ CRLF end) with (s_body r ++ body_tail (s_body r))
    by (destruct (s_body r); reflexivity).
  rewrite <- !app_assoc. do 5 f_equal.
  rewrite (app_assoc _ CRLF). rewrite crlf_shift. rewrite <- !app_assoc. reflexivity.
Qed.

Definition field_of (hd : header) : bytes * bytes := (hname_str (fst hd), snd hd).

Lemma header_lines_ok (l : headers) : Forall wf_header l ->
  HeaderLines (map field_of l) (concat (map (fun hd => render_line (line_of hd)) l)).
Proof.
  induction 1 as [|hd l (_ & Ht & Hf & _ & Hp & Hs) _ IH]; [constructor|].
  cbn [map concat]. unfold field_of at 1.
  replace (render_line (line_of hd) ++ concat (map (fun hd0 => render_line (line_of hd0)) l))
    with (hname_str (fst hd) ++ [COLON] ++ [SP] ++ snd hd ++ [] ++ CRLF ++ concat (map (fun hd0 => render_line (line_of hd0)) l))
    by (unfold render_line, line_of; cbn [sl_name sl_ows sl_value]; app_norm; reflexivity).
  apply HL_cons; try assumption.
  - constructor; [left; reflexivity|constructor].
  - constructor.
  - split; assumption.
Qed.

Lemma http_version_1x (v : bytes) : v = Txt.s_http10 \/ v = Txt.s_http11 -> http_version v.
Proof.
  intros [-> | ->]; [exists 49, 48|exists 49, 49]; unfold digit; (split; [lia|]); (split; [lia|]); reflexivity.
Qed.

Lemma printable_field_text (s : bytes) : Forall (fun b => 32 <= b /\ b <= 126) s -> field_text s.
Proof. apply Forall_impl. unfold field_byte. intros; lia. Qed.

Lemma status_line_valid (r : response) : wf_response r ->
  StatusLine (s_version r) (status_code (s_status r)) (status_phrase (s_status r)) (status_line (head_of r)).
Proof.
  intros (Hv & Hs & _). unfold status_line, head_of. cbn [sh_version sh_status sh_phrase].
  destruct (status_code_3digits _ Hs) as (d1 & d2 & d3 & E & H1 & H2 & H3 & Ec).
  rewrite E. pose proof (status_registered _ Hs) as Hr. rewrite Ec in Hr |- *.
  apply SL_intro; try assumption.
  - apply http_version_1x, Hv.
  - apply printable_field_text, status_phrase_printable, Hs.
Qed.

Lemma serialize_valid_lemma (r : response) : wf_response r ->
  exists hs' : headers,
    Permutation hs' (s_headers r) /\
    (forall n, filter (fun h => hname_eqb n (fst h)) hs' = filter (fun h => hname_eqb n (fst h)) (s_headers r)) /\
    Renders {| m_version := s_version r; m_code := status_code (s_status r); m_phrase := status_phrase (s_status r);
               m_fields := map (fun hd => (hname_str (fst hd), snd hd)) hs'; m_body := s_body r |}
            (serialize_response r).
Proof.
  intros H. exists (hsort (s_headers r)). split; [apply hsort_perm|]. split; [intros n; apply (hsort_filter n)|].
  rewrite serialize_as_head, render_head_split, <- !app_assoc.
  pose proof H as (_ & _ & Hh & _).
  apply (R_intro {| m_version := s_version r; m_code := status_code (s_status r); m_phrase := status_phrase (s_status r);
                    m_fields := map field_of (hsort (s_headers r)); m_body := s_body r |}).
  - cbn [m_version m_code m_phrase]. apply status_line_valid, H.
  - cbn [m_fields head_of sh_lines]. rewrite map_map. apply header_lines_ok, Forall_hsort, Hh.
  - unfold body_tail. destruct (s_body r); [left|right]; reflexivity.
Qed.

Lemma serialize_is_message (r : response) : wf_response r -> HttpMessage (serialize_response r).
Proof. intros H. destruct (serialize_valid_lemma r H) as (hs' & _ & _ & R). eexists. exact R. Qed.

(* ================= 7. round trip ================= *)
Lemma printable_noLF (s : bytes) : Forall (fun b => 32 <= b /\ b <= 126) s -> ~ In LF s.
Proof. intros H Hin. rewrite Forall_forall in H. specialize (H _ Hin). unfold LF in H. lia. Qed.
Lemma printable_ascii (s : bytes) : Forall (fun b => 32 <= b /\ b <= 126) s -> ascii s.
Proof. apply Forall_impl. intros; lia. Qed.

Lemma line_of_ok (hd : header) : rt_header hd -> line_ok (line_of hd).
Proof.
  intros (_ & Ht & Hv). unfold line_ok, line_of. cbn [sl_name sl_ows sl_value].
  split; [exact Ht|]. split; [|exact Hv]. constructor; [left; reflexivity|constructor].
Qed.

Lemma head_of_ok (r : response) : rt_response r -> head_ok (head_of r).
Proof.
  intros (Hsp & Hlf & Hu & Hs & Hh & _). unfold head_ok, head_of. cbn [sh_version sh_status sh_phrase sh_lines].
  pose proof (status_phrase_printable _ Hs) as Hp.
  repeat split; try assumption.
  - apply printable_noLF, Hp.
  - apply utf8_valid_ascii, printable_ascii, Hp.
  - apply Forall_map. apply Forall_hsort. eapply Forall_impl; [|exact Hh]. apply line_of_ok.
Qed.

Lemma head_headers_of (r : response) : rt_response r -> head_headers (head_of r) = hsort (s_headers r).
Proof.
  intros (_ & _ & _ & _ & Hh & _). unfold head_headers, head_of. cbn [sh_lines]. rewrite map_map.
  apply Forall_hsort in Hh. induction Hh as [|[n v] l (Hc & _) _ IH]; [reflexivity|].
  cbn [map line_of sl_name sl_value fst snd] in *. rewrite IH. unfold canonical_name in Hc. cbn [fst] in Hc. rewrite Hc.
  reflexivity.
Qed.

Lemma roundtrip_lemma (r : response) : rt_response r -> framing_ok r ->
  parse_response_flat (serialize_response r) =
  Ok ({| s_version := s_version r; s_status := s_status r; s_headers := hsort (s_headers r); s_body := s_body r |},
      match s_body r with [] => [] | _ => CRLF end).
Proof.
  intros H (Hte & Hf). pose proof (head_of_ok r H) as Hok. pose proof (head_headers_of r H) as Ehh.
  pose proof H as (_ & _ & _ & _ & _ & Hmax).
  assert (Hnc : ~ is_chunked (head_headers (head_of r))).
  { rewrite Ehh. unfold is_chunked. rewrite hget_hsort. exact Hte. }
  rewrite serialize_as_head. change (match s_body r with [] => [] | _ => CRLF end) with (body_tail (s_body r)).
  destruct Hf as [Hcl|[Hcl Hb]].
  - rewrite (parse_cl_lemma (head_of r) (s_body r) (body_tail (s_body r)) Hok).
    + rewrite Ehh. reflexivity.
    + split; [exact Hnc|]. exists (dec_render (N.of_nat (length (s_body r)))).
      split; [rewrite Ehh, hget_hsort; exact Hcl|]. split; [apply dec_str_render|exact Hmax].
  - rewrite Hb. cbn [body_tail app].
    rewrite (parse_nobody_lemma (head_of r) [] Hok).
    + rewrite Ehh. reflexivity.
    + split; [exact Hnc|]. rewrite Ehh, hget_hsort. exact Hcl.
Qed.

Lemma field_text_noLF (v : bytes) : field_text v -> ~ In LF v.
Proof.
  intros H Hin. unfold field_text in H. rewrite Forall_forall in H. specialize (H _ Hin). unfold field_byte, LF in H. lia.
Qed.

Lemma wf_rt_response (r : response) : wf_response r -> rt_response r.
Proof.
  intros (Hv & Hs & Hh & Hmax). unfold rt_response.
  assert (Hver : ~ In SP (s_version r) /\ ~ In LF (s_version r) /\ utf8_valid (s_version r) = true).
  { destruct Hv as [-> | ->]; (split; [|split; [|reflexivity]]); intros Hin; cbv in Hin;
      repeat (destruct Hin as [Hin|Hin]; [discriminate|]); exact Hin. }
  destruct Hver as (A & B & C). repeat split; try assumption.
  eapply Forall_impl; [|exact Hh]. intros hd (Hc & Ht & Hf & Hu & Hp & _).
  split; [exact Hc|]. split; [exact Ht|]. split; [apply field_text_noLF, Hf|]. split; assumption.
Qed.

(* the property's reading: parse(serialise r) is r with the same version, status, body and, name by name, the same
   header values in the same order; what is left unread is nothing, or the CRLF of F32 *)
Lemma roundtrip_same (r : response) : wf_response r -> framing_ok r ->
  exists r' leftover,
    parse_response_flat (serialize_response r) = Ok (r', leftover) /\
    s_version r' = s_version r /\ s_status r' = s_status r /\ s_body r' = s_body r /\
    same_headers (s_headers r') (s_headers r) /\ Permutation (s_headers r') (s_headers r) /\
    (leftover = [] \/ leftover = CRLF) /\ (s_body r = [] -> leftover = []).
Proof.
  intros H Hf. eexists. eexists. split; [apply roundtrip_lemma; [apply wf_rt_response, H|exact Hf]|].
  cbn [s_version s_status s_body s_headers]. repeat split.
  - intros n. apply hget_all_hsort.
  - apply hsort_perm.
  - destruct (s_body r); [left|right]; reflexivity.
  - intros ->. reflexivity.
Qed.

(* ================= 8. Set-Cookie ================= *)
Lemma same_site_text_str (s : N) : same_site_text s = same_site_str s.
Proof. destruct s as [|p]; [reflexivity|]. destruct p; reflexivity. Qed.

Lemma set_cookie_spec_lemma (c : set_cookie) :
  set_cookie_header c = (HKnown H_SetCookie, cookie_text c) /\ hname_str (HKnown H_SetCookie) = Txt.s_set_cookie.
Proof.
  split; [|reflexivity].
  unfold set_cookie_header, cookie_text, cookie_attrs. f_equal. do 3 f_equal.
  destruct c as [nm vl ex ma dm pa se ho ss]. cbn [sc_expires sc_max_age sc_domain sc_path sc_secure sc_http_only sc_same_site].
  destruct ex, ma, dm, pa, ss, se, ho; cbn [option_map opt_attr flag_attr app map concat];
    rewrite ?same_site_text_str, ?app_nil_r; app_norm; reflexivity.
Qed.

(* ================= 9. packaged statements for props/ ================= *)
Lemma In_in_table (c : N) (ph : bytes) (t : list (N * bytes)) : In (c, ph) t -> in_table c ph t = true.
Proof.
  intros H. unfold in_table. apply existsb_exists. exists (c, ph). split; [exact H|].
  cbn [fst snd]. rewrite N.eqb_refl, beq_refl. reflexivity.
Qed.

Lemma status_tables_lemma :
  (forall s, s < status_count -> status_of_code (status_code s) = Some s) /\
  (forall s1 s2, s1 < status_count -> s2 < status_count -> status_code s1 = status_code s2 -> s1 = s2) /\
  (forall c s, status_of_code c = Some s -> s < status_count /\ status_code s = c) /\
  (forall s, s < status_count -> 100 <= status_code s /\ status_code s <= 599) /\
  (forall s, s < status_count -> In (status_code s, status_phrase s) Txt.rfc7231_phrases) /\
  (forall s, s < status_count ->
     In (status_code s, status_phrase s) Txt.rfc2616_phrases \/ In (status_code s) [413; 414; 416]) /\
  (forall c ph, In (c, ph) Txt.rfc2616_phrases -> (exists s, s < status_count /\ status_code s = c) \/ c = 402) /\
  (forall c ph, In (c, ph) Txt.rfc7231_phrases -> (exists s, s < status_count /\ status_code s = c) \/ c = 402 \/ c = 426).
Proof.
  assert (Hmod : forall c, In c modelled_codes -> exists s, s < status_count /\ status_code s = c).
  { intros c Hin. unfold modelled_codes in Hin. apply in_map_iff in Hin. destruct Hin as (s & E & Hs).
    exists s. split; [|exact E]. unfold status_idx in Hs. apply in_map_iff in Hs. destruct Hs as (k & <- & Hk).
    apply in_seq in Hk. lia. }
  destruct status_coverage as (C1 & C2 & _ & _).
  split; [exact status_of_code_code|]. split; [exact status_code_inj|]. split; [exact status_of_code_sound|].
  split; [exact status_code_range|]. split; [exact status_phrase_rfc7231|]. split; [exact status_phrase_rfc2616|].
  split.
  - intros c ph Hin. destruct (C1 c ph Hin) as [H|H]; [left; apply Hmod, H|right; exact H].
  - intros c ph Hin. destruct (C2 c ph Hin) as [H|H]; [left; apply Hmod, H|right; exact H].
Qed.

(* before fix F38 the phrases of 413 / 414 / 416 were the RFC 2616 ones ("Request Entity Too Large", ...): with those
   the registry comparison fails, as this witness on the old phrase shows *)
Lemma status_phrases_old_rfc7231_refuted :
  ~ In (413, [82; 101; 113; 117; 101; 115; 116; 32; 69; 110; 116; 105; 116; 121; 32; 84; 111; 111; 32; 76; 97; 114; 103; 101] (* "Request Entity Too Large" *)) Txt.rfc7231_phrases.
Proof. intros Hin. apply In_in_table in Hin. vm_compute in Hin. discriminate. Qed.

Lemma hsort_stable_lemma (l : headers) :
  Permutation (hsort l) l /\
  (forall n, filter (fun h => hname_eqb n (fst h)) (hsort l) = filter (fun h => hname_eqb n (fst h)) l) /\
  (forall n, hget_all n (hsort l) = hget_all n l) /\ (forall n, hget n (hsort l) = hget n l) /\
  hsorted (hsort l).
Proof.
  split; [apply hsort_perm|]. split; [intros n; apply (hsort_filter n)|]. split; [intros n; apply hget_all_hsort|].
  split; [intros n; apply hget_hsort|apply hsort_sorted].
Qed.

Lemma number_roundtrip_lemma :
  (forall c, c <= 65535 -> parse_u16 (dec_render c) = Some c) /\
  (forall n, n <= usize_max -> parse_usize (dec_render n) = Some n) /\
  (forall up n, n <= usize_max -> parse_usize_hex (trim_end (hex_render up n ++ CRLF)) = Some n) /\
  (forall s n, hex_str s n -> n <= usize_max -> parse_usize_hex (trim_end (s ++ CRLF)) = Some n).
Proof.
  split; [exact parse_u16_render|]. split; [exact parse_usize_render|]. split; [exact parse_usize_hex_render|].
  exact parse_usize_hex_line.
Qed.

(* FINDING (confirmed on the real code through the harness): a header value that begins with a non-ASCII Unicode
   whitespace character (here U+00A0, bytes C2 A0 - legal obs-text in field-content, no leading SP/HTAB) does not survive
   the round trip: Response::from_stream calls str::trim_start, which strips every char::is_whitespace character.
   This is why rt_value / wf_value say ws_prefix_len v = 0 and not just "no leading SP / HTAB". *)
Definition r_unicode_ws : response :=
  {| s_version := Txt.s_http11; s_status := 2; s_headers := [(HCustom [120; 45; 97], [194; 160; 120])]; s_body := [] |}.
Lemma roundtrip_unicode_ws_refuted :
  exists r r' leftover,
    (s_version r = Txt.s_http11 /\ s_status r < status_count /\
     Forall (fun h => canonical_name (fst h) /\ token (hname_str (fst h)) /\ field_text (snd h) /\
                      utf8_valid (snd h) = true /\
                      (forall b, hd_error (snd h) = Some b -> b <> 32 /\ b <> 9) /\
                      ws_suffix_len (rev (snd h)) = 0%nat) (s_headers r)) /\
    framing_ok r /\
    parse_response_flat (serialize_response r) = Ok (r', leftover) /\
    ~ same_headers (s_headers r') (s_headers r).
Proof.
  exists r_unicode_ws. eexists. eexists. split; [|split; [|split; [vm_compute; reflexivity|]]].
  - split; [reflexivity|]. split; [reflexivity|]. constructor; [|constructor]. cbn [fst snd].
    split; [reflexivity|]. split.
    { split; [discriminate|]. repeat constructor; unfold tchar, digit; cbn [In]; lia. }
    split; [repeat constructor; unfold field_byte; lia|]. split; [reflexivity|].
    split; [|reflexivity]. intros b [= <-]. lia.
  - split; [vm_compute; discriminate|]. right. split; reflexivity.
  - intros H. specialize (H (HCustom [120; 45; 97])). vm_compute in H. discriminate.
Qed.

(* ================= 10. executable checkers for the well-formedness predicates (used for the Examples) ================= *)
Definition tcharb (b : N) : bool :=
  is_digit b || ((65 <=? b) && (b <=? 90)) || ((97 <=? b) && (b <=? 122)) ||
  memN b [33; 35; 36; 37; 38; 39; 42; 43; 45; 46; 94; 95; 96; 124; 126].
Definition tokenb (s : bytes) : bool := match s with [] => false | _ => forallb tcharb s end.
Definition field_byteb (b : N) : bool := (b =? 9) || ((32 <=? b) && (b <=? 126)) || ((128 <=? b) && (b <=? 255)).
Definition owsb (o : bytes) : bool := forallb (fun b => (b =? 32) || (b =? 9)) o.
Definition noLFb (s : bytes) : bool := negb (memN LF s).
Definition rt_valueb (v : bytes) : bool := noLFb v && utf8_valid v && Nat.eqb (ws_prefix_len v) 0.
Definition wf_valueb (v : bytes) : bool :=
  forallb field_byteb v && utf8_valid v && Nat.eqb (ws_prefix_len v) 0 && Nat.eqb (ws_suffix_len (rev v)) 0.
Definition canonicalb (n : hname) : bool := hname_eqb (hname_of (hname_str n)) n.
Definition wf_headerb (h : header) : bool := canonicalb (fst h) && tokenb (hname_str (fst h)) && wf_valueb (snd h).
Definition wf_responseb (r : response) : bool :=
  (beq (s_version r) Txt.s_http10 || beq (s_version r) Txt.s_http11) && (s_status r <? status_count) &&
  forallb wf_headerb (s_headers r) && (N.of_nat (length (s_body r)) <=? usize_max).
Definition line_okb (l : srv_line) : bool := tokenb (sl_name l) && owsb (sl_ows l) && rt_valueb (sl_value l).
Definition head_okb (h : srv_head) : bool :=
  negb (memN SP (sh_version h)) && noLFb (sh_version h) && utf8_valid (sh_version h) &&
  (sh_status h <? status_count) && noLFb (sh_phrase h) && utf8_valid (sh_phrase h) && forallb line_okb (sh_lines h).

Lemma tcharb_sound (b : N) : tcharb b = true -> tchar b.
Proof.
  unfold tcharb, tchar. rewrite !orb_true_iff, !andb_true_iff, !N.leb_le, is_digit_iff, memN_In. tauto.
Qed.

Lemma tokenb_sound (s : bytes) : tokenb s = true -> token s.
Proof.
  unfold tokenb, token. destruct s as [|b s]; [discriminate|]. intros H. split; [discriminate|].
  rewrite forallb_forall in H. apply Forall_forall. intros x Hx. apply tcharb_sound, H, Hx.
Qed.

Lemma field_textb_sound (v : bytes) : forallb field_byteb v = true -> field_text v.
Proof.
  intros H. rewrite forallb_forall in H. apply Forall_forall. intros b Hb. specialize (H b Hb).
  unfold field_byteb in H. unfold field_byte.
  rewrite !orb_true_iff, !andb_true_iff, !N.leb_le, N.eqb_eq in H. tauto.
Qed.

Lemma owsb_sound (o : bytes) : owsb o = true -> ows o.
Proof.
  intros H. unfold owsb in H. rewrite forallb_forall in H. apply Forall_forall. intros b Hb. specialize (H b Hb).
  rewrite orb_true_iff, !N.eqb_eq in H. exact H.
Qed.

Lemma noLFb_sound (s : bytes) : noLFb s = true -> ~ In LF s.
Proof. unfold noLFb. intros H Hin. apply memN_In in Hin. rewrite Hin in H. discriminate. Qed.

Lemma rt_valueb_sound (v : bytes) : rt_valueb v = true -> rt_value v.
Proof.
  unfold rt_valueb, rt_value. rewrite !andb_true_iff, Nat.eqb_eq. intros [[A B] C].
  split; [apply noLFb_sound, A|]. split; assumption.
Qed.

Lemma wf_valueb_sound (v : bytes) : wf_valueb v = true -> wf_value v.
Proof.
  unfold wf_valueb, wf_value. rewrite !andb_true_iff, !Nat.eqb_eq. intros [[[A B] C] D].
  split; [apply field_textb_sound, A|]. repeat split; assumption.
Qed.

Lemma wf_headerb_sound (h : header) : wf_headerb h = true -> wf_header h.
Proof.
  unfold wf_headerb, wf_header, canonicalb. rewrite !andb_true_iff. intros [[A B] C].
  split; [apply hname_eqb_eq, A|]. split; [apply tokenb_sound, B|apply wf_valueb_sound, C].
Qed.

Lemma wf_responseb_sound (r : response) : wf_responseb r = true -> wf_response r.
Proof.
  unfold wf_responseb, wf_response. rewrite !andb_true_iff, orb_true_iff, N.ltb_lt, N.leb_le.
  intros [[[A B] C] D]. split; [destruct A as [A|A]; apply beq_eq in A; tauto|]. split; [exact B|]. split; [|exact D].
  rewrite forallb_forall in C. apply Forall_forall. intros h Hh. apply wf_headerb_sound, C, Hh.
Qed.

Lemma line_okb_sound (l : srv_line) : line_okb l = true -> line_ok l.
Proof.
  unfold line_okb, line_ok. rewrite !andb_true_iff. intros [[A B] C].
  split; [apply tokenb_sound, A|]. split; [apply owsb_sound, B|apply rt_valueb_sound, C].
Qed.

Lemma head_okb_sound (h : srv_head) : head_okb h = true -> head_ok h.
Proof.
  unfold head_okb, head_ok. rewrite !andb_true_iff, N.ltb_lt. intros [[[[[[A B] C] D] E] F] G].
  split; [intros Hin; apply memN_In in Hin; rewrite Hin in A; discriminate|].
  split; [apply noLFb_sound, B|]. split; [exact C|]. split; [exact D|]. split; [apply noLFb_sound, E|]. split; [exact F|].
  rewrite forallb_forall in G. apply Forall_forall. intros l Hl. apply line_okb_sound, G, Hl.
Qed.

(* ================= 11. every header, in particular every Set-Cookie, is one complete line of the output ================= *)
Lemma serialize_header_line (r : response) (h : header) : In h (s_headers r) ->
  exists pre post, serialize_response r = pre ++ CRLF ++ render_header h ++ CRLF ++ post.
Proof.
  intros Hin. apply (Permutation_in h (Permutation_sym (hsort_perm (s_headers r)))) in Hin.
  apply in_split in Hin. destruct Hin as (l1 & l2 & E).
  unfold serialize_response. rewrite E, map_app, concat_app. cbn [map concat].
  exists (s_version r ++ [SP] ++ dec_render (status_code (s_status r)) ++ [SP] ++ status_phrase (s_status r) ++
          concat (map (fun h0 => CRLF ++ render_header h0) l1)).
  destruct l2 as [|x l2].
  - exists (CRLF ++ match s_body r with [] => [] | b => b ++ CRLF end). cbn [map concat]. app_norm. reflexivity.
  - exists (render_header x ++ concat (map (fun h0 => CRLF ++ render_header h0) l2) ++ CRLF ++ CRLF ++
            match s_body r with [] => [] | b => b ++ CRLF end). cbn [map concat]. app_norm. reflexivity.
Qed.

Lemma serialize_cookie_line (r : response) (c : set_cookie) : In (set_cookie_header c) (s_headers r) ->
  exists pre post,
    serialize_response r = pre ++ CRLF ++ Txt.s_set_cookie ++ [COLON; SP] ++ cookie_text c ++ CRLF ++ post.
Proof.
  intros Hin. destruct (serialize_header_line r _ Hin) as (pre & post & E). exists pre, post. rewrite E.
  destruct (set_cookie_spec_lemma c) as [-> Hn]. unfold render_header. cbn [fst snd]. rewrite Hn.
  app_norm. reflexivity.
Qed.
