(* Model of humphrey/src/percent.rs (C18, percent part): PercentEncode::percent_encode on &[u8] and
   PercentDecode::percent_decode on &str.  Definitions only.

   Strings are byte lists: percent_encode pushes only ASCII (`*byte as char` for bytes of the unreserved table, and the
   output of format!("%{:02X}", byte)), percent_decode iterates `self.as_ref().bytes()`, i.e. the UTF-8 bytes of the &str
   (NOT chars()), so a multi-byte character after `%` is seen as two bytes >= 0x80.  Neither function has a panic site
   (no slicing/indexing/unwrap/arithmetic that can overflow: `high * 16 + low` is u32 with high, low < 16), so the results
   are plain `list N` / `option (list N)` and not `outcome`. *)
From Hv Require Import Prelude TablesPct.
Open Scope N_scope.

Definition pct : N := 37. (* b'%' *)

(* ---- the RFC side (RFC 3986 section 2.3 and 2.1), written independently of the Rust table ---- *)
Definition is_alpha (c : N) : bool := ((65 <=? c) && (c <=? 90)) || ((97 <=? c) && (c <=? 122)).
Definition is_digit (c : N) : bool := (48 <=? c) && (c <=? 57).
(* unreserved = ALPHA / DIGIT / "-" / "." / "_" / "~" *)
Definition rfc_unreserved (c : N) : bool :=
  is_alpha c || is_digit c || (c =? 45) || (c =? 46) || (c =? 95) || (c =? 126).

(* HEXDIG, with the value of each digit, as an explicit table: "0".."9", "A".."F", and for decoding also "a".."f"
   ("uppercase and lowercase hex digits are equivalent", RFC 3986 section 2.1) *)
Definition hex_table : list (N * N) :=
  [(48,0);(49,1);(50,2);(51,3);(52,4);(53,5);(54,6);(55,7);(56,8);(57,9);
   (65,10);(66,11);(67,12);(68,13);(69,14);(70,15);
   (97,10);(98,11);(99,12);(100,13);(101,14);(102,15)].
Definition upper_hex_table : list (N * N) := firstn 16 hex_table.

Fixpoint assoc (c : N) (t : list (N * N)) : option N :=
  match t with
  | [] => None
  | (k, v) :: r => if c =? k then Some v else assoc c r
  end.

(* `c` is a hexadecimal digit of value `v` *)
Definition HexDigit (c v : N) : Prop := In (c, v) hex_table.
Definition UpperHexDigit (c v : N) : Prop := In (c, v) upper_hex_table.

(* pct-encoded = "%" HEXDIG HEXDIG.  A string is well formed for decoding when it is a sequence of literal bytes other
   than `%` and pct-encoded triplets; `PctDenotes s b` additionally gives the denoted byte string. *)
Inductive PctDenotes : list N -> list N -> Prop :=
| pd_nil : PctDenotes [] []
| pd_lit : forall c s b, c <> pct -> PctDenotes s b -> PctDenotes (c :: s) (c :: b)
| pd_esc : forall h1 h2 v1 v2 s b, HexDigit h1 v1 -> HexDigit h2 v2 -> PctDenotes s b ->
                                   PctDenotes (pct :: h1 :: h2 :: s) (16 * v1 + v2 :: b).

(* the same thing said by positions: every `%` is followed by two hexadecimal digits *)
Definition is_hexdigit (c : N) : Prop := exists v, HexDigit c v.
Definition EveryPctFollowedByTwoHex (s : list N) : Prop :=
  forall i, nth_error s i = Some pct ->
            exists h1 h2, nth_error s (S i) = Some h1 /\ nth_error s (S (S i)) = Some h2 /\
                          is_hexdigit h1 /\ is_hexdigit h2.

(* executable denotation (total; the value on ill-formed input is irrelevant: an ill-formed escape is kept literally) *)
Fixpoint denote (s : list N) : list N :=
  match s with
  | [] => []
  | c :: r =>
    if c =? pct then
      match r with
      | h1 :: h2 :: r' =>
        match assoc h1 hex_table, assoc h2 hex_table with
        | Some v1, Some v2 => 16 * v1 + v2 :: denote r'
        | _, _ => c :: denote r
        end
      | _ => c :: denote r
      end
    else c :: denote r
  end.

(* ---- percent_encode ---- *)
(* UNRESERVED_CHARACTERS.contains(byte) *)
Definition contains (t : list N) (b : N) : bool := existsb (N.eqb b) t.

(* one uppercase hex digit as produced by {:02X} (value < 16) *)
Definition upper_hex (v : N) : N := if v <? 10 then 48 + v else 55 + v.

(* format!("%{:02X}", byte) for a u8 *)
Definition escape (b : N) : list N := [pct; upper_hex (b / 16); upper_hex (b mod 16)].

Definition encode_byte (b : N) : list N :=
  if contains UNRESERVED_CHARACTERS b then [b] else escape b.

Fixpoint percent_encode (bs : list N) : list N :=
  match bs with
  | [] => []
  | b :: r => encode_byte b ++ percent_encode r
  end.

(* ---- percent_decode (the repaired code: char::to_digit(16) on each of the two bytes) ---- *)
(* (byte as char).to_digit(16): '0'..='9' | 'a'..='f' | 'A'..='F'; a byte >= 0x80 becomes U+0080..U+00FF, never a digit *)
Definition to_digit16 (c : N) : option N :=
  if (48 <=? c) && (c <=? 57) then Some (c - 48)
  else if (97 <=? c) && (c <=? 102) then Some (c - 87)
  else if (65 <=? c) && (c <=? 70) then Some (c - 55)
  else None.

Fixpoint percent_decode (s : list N) : option (list N) :=
  match s with
  | [] => Some []
  | c :: r =>
    if c =? pct then
      match r with
      | h1 :: h2 :: r' =>               (* [chars.next()?, chars.next()?] *)
        match to_digit16 h1 with
        | None => None
        | Some hi =>
          match to_digit16 h2 with
          | None => None
          | Some lo =>
            match percent_decode r' with
            | Some d => Some ((hi * 16 + lo) mod 256 :: d)      (* `as u8` *)
            | None => None
            end
          end
        end
      | _ => None
      end
    else
      match percent_decode r with
      | Some d => Some (c :: d)
      | None => None
      end
  end.

(* ---- percent_decode as it was at the pinned commit (F29), kept only for pct_old_refuted ----
   format!("{}{}", d1 as char, d2 as char) then u8::from_str_radix(_, 16): from_str_radix on a two-character string accepts
   an optional leading '+' followed by at least one digit, besides two digits. *)
Definition from_str_radix16_2 (c1 c2 : N) : option N :=
  if c1 =? 43 then to_digit16 c2
  else match to_digit16 c1, to_digit16 c2 with
       | Some hi, Some lo => Some (hi * 16 + lo)
       | _, _ => None
       end.

Fixpoint percent_decode_old (s : list N) : option (list N) :=
  match s with
  | [] => Some []
  | c :: r =>
    if c =? pct then
      match r with
      | h1 :: h2 :: r' =>
        match from_str_radix16_2 h1 h2 with
        | None => None
        | Some v =>
          match percent_decode_old r' with
          | Some d => Some (v :: d)
          | None => None
          end
        end
      | _ => None
      end
    else
      match percent_decode_old r with
      | Some d => Some (c :: d)
      | None => None
      end
  end.
