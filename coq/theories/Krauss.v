(* Model of humphrey/src/krauss.rs :: wildcard_match (C05, used by C04/C15/C19).
   Strings are lists of Unicode scalar values (the Rust code iterates chars()).
   Definitions only. *)
From Hv Require Import Prelude.
Open Scope N_scope.

Definition star : N := 42.

(* Declarative spec: the text is the pattern with each `*` replaced by some string. *)
Inductive Glob : list N -> list N -> Prop :=
| g_nil : Glob [] []
| g_star : forall p u t, Glob p t -> Glob (star :: p) (u ++ t)
| g_chr : forall c p t, c <> star -> Glob p t -> Glob (c :: p) (c :: t).

(* Executable reference decision procedure (exponential; oracle only). *)
Fixpoint globb (p t : list N) : bool :=
  match p with
  | [] => match t with [] => true | _ => false end
  | c :: p' =>
    if c =? star then
      (fix go (t : list N) : bool :=
         globb p' t || match t with [] => false | _ :: t' => go t' end) t
    else match t with
         | [] => false
         | x :: t' => (c =? x) && globb p' t'
         end
  end.

(* ---- the loop of the current (repaired) wildcard_match ----
   state: wild_iter rest, tame_iter rest, after_last_wild = Some (wild rest, tame rest).
   One recursive call = one `continue`/fall-through of the Rust loop. *)
Definition backtrack (k : list N -> list N -> option (list N * list N) -> option bool)
  (saved : option (list N * list N)) : option bool :=
  match saved with
  | Some (sw, st) =>              (* after_tame_iter.next(); restore both iterators *)
      let st' := tl st in k sw st' (Some (sw, st'))
  | None => Some false
  end.

Fixpoint wm (fuel : nat) (w t : list N) (saved : option (list N * list N)) : option bool :=
  match fuel with
  | O => None
  | S f =>
    match t with
    | [] =>                                        (* tame_char.is_none() *)
      match w with
      | [] => Some true
      | c :: w' => if c =? star then wm f w' t saved else Some false
      end
    | tc :: t' =>
      match w with
      | c :: w' =>
        if c =? star then wm f w' t (Some (w', t))     (* remember both positions *)
        else if c =? tc then wm f w' t' saved           (* fall through: advance both *)
        else backtrack (wm f) saved
      | [] => backtrack (wm f) saved                  (* tame_char != wild_char (None) *)
      end
    end
  end.

Definition wm_fuel_for (w t : list N) : nat :=
  (length t + 2) * (length w + length t + 2).

Definition wildcard_match_opt (w t : list N) : option bool :=
  wm (wm_fuel_for w t) w t None.

Definition wildcard_match (w t : list N) : bool :=
  match wildcard_match_opt w t with Some b => b | None => false end.

(* ---- the loop as it was at the pinned commit (before fix F02), kept only to state the refutation ---- *)
Fixpoint wm_old (fuel : nat) (w t : list N) (saved : option (list N)) : option bool :=
  match fuel with
  | O => None
  | S f =>
    match t with
    | [] =>
      match w with
      | [] => Some true
      | c :: w' => if c =? star then wm_old f w' t saved else Some false
      end
    | tc :: t' =>
      let same := match w with c :: _ => c =? tc | [] => false end in
      if same then wm_old f (tl w) t' saved            (* equality is tested before `*` *)
      else match w with
           | c :: w' =>
             if c =? star then wm_old f w' t (Some w')
             else match saved with
                  | Some sw =>
                    match sw with
                    | [] => Some true
                    | sc :: sw' => if sc =? tc then wm_old f sw' t' saved else wm_old f sw t' saved
                    end
                  | None => Some false
                  end
           | [] => match saved with
                   | Some sw =>
                     match sw with
                     | [] => Some true
                     | sc :: sw' => if sc =? tc then wm_old f sw' t' saved else wm_old f sw t' saved
                     end
                   | None => Some false
                   end
           end
    end
  end.

Definition wildcard_match_old (w t : list N) : option bool :=
  wm_old (2 * (length w + length t) + 2) w t None.
