(* C19, closer to the text of X-Forwarded-For: any entry of the comma-separated value, wherever it stands and whatever
   blanks surround it, that parses to a listed address gets the request refused; and nothing but the peer address, the
   list and that one header field decides. *)
From Hv Require Import Prelude Bytes TablesHttp Http Blacklist BlacklistProofs.
Open Scope N_scope.

Lemma in_filter_map {A B} (f : A -> option B) (l : list A) x y : In x l -> f x = Some y -> In y (filter_map f l).
Proof.
  induction l as [|a l IH]; intros Hin Hf; [contradiction|]. cbn [filter_map].
  destruct Hin as [->|Hin].
  - rewrite Hf. now left.
  - destruct (f a); [right|]; now apply IH.
Qed.

Theorem forwarded_entry_listed_403 ipp block bl p hs fwd e a :
  mem (p_ip p) bl = false -> hget XFF hs = Some fwd -> In e (split_on 44 fwd) -> ipp (trim e) = Some a ->
  mem a bl = true -> serve ipp block bl p hs = Forbidden.
Proof.
  intros Hp Hx He Hi Ha. apply (forwarded_listed_403 ipp block bl p hs a Hp); [|exact Ha].
  unfold forwarded. rewrite Hx. exact (in_filter_map (fun s => ipp (trim s)) _ e a He Hi).
Qed.

Theorem serve_depends_on_xff_only ipp block bl p hs1 hs2 :
  hget XFF hs1 = hget XFF hs2 -> serve ipp block bl p hs1 = serve ipp block bl p hs2.
Proof. intro E. unfold serve, address_of. rewrite E. reflexivity. Qed.
