(* Model of the config-driven server as a whole (humphrey-server/src/server/server.rs): `main` registers, for the default
   host and every configured host, one App route per configured route pattern whose handler is request_handler(host index,
   route index) (init_app_routes); the App's connection condition is verify_connection; a request is routed by the App
   (Routing.get_handler, C04), looked up again with Config::get_route, and handed to the handler of its route type
   (static.rs file_handler / directory_handler / redirect_handler, proxy.rs proxy_handler), each of which first applies
   the blacklist (Blacklist.v, C19). File contents come from the abstract file tree of StaticFs.v (C06); the configuration
   is the record Config.load produces from the configuration text (C15). The response cache is not part of this model
   (C16 models it; the end-to-end cases of this model run with the cache off or compare cache-transparent answers), nor are
   plugins, TLS and the WebSocket pass-through. For a proxy route `forwarded_bytes` gives the bytes proxy_handler writes
   to the chosen target (Proxy.v, C09). Definitions only. *)
From Hv Require Import Prelude Bytes TablesHttp TablesConfig TablesWs Http Krauss Routing Blacklist StaticFs Config Proxy.
Open Scope N_scope.

(* str::chars of a (valid) UTF-8 byte string: the matcher works on characters *)
Fixpoint scalars_fuel (fuel : nat) (l : bytes) : list N :=
  match fuel with
  | O => []
  | S f =>
    match l with
    | [] => []
    | b :: r =>
      if b <? 128 then b :: scalars_fuel f r
      else if b <? 224 then
        match r with
        | c1 :: r' => ((b mod 32) * 64 + (c1 mod 64)) :: scalars_fuel f r'
        | _ => [b]
        end
      else if b <? 240 then
        match r with
        | c1 :: c2 :: r' => ((b mod 16) * 4096 + (c1 mod 64) * 64 + (c2 mod 64)) :: scalars_fuel f r'
        | _ => [b]
        end
      else
        match r with
        | c1 :: c2 :: c3 :: r' => ((b mod 8) * 262144 + (c1 mod 64) * 4096 + (c2 mod 64) * 64 + (c3 mod 64)) :: scalars_fuel f r'
        | _ => [b]
        end
    end
  end.
Definition scalars (l : bytes) : list N := scalars_fuel (length l) l.

(* what one client observes for one request *)
Inductive sresp : Type :=
| SDropped                         (* connection closed without a response (verify_connection, block mode) *)
| SForbidden                       (* 403 from a handler's blacklist check *)
| SNotFound                        (* no route: the App's 404 *)
| SRedirect (location : bytes)     (* redirect_handler: 301 with this Location *)
| SStatic (r : StaticFs.resp)      (* file_handler / directory_handler *)
| SProxy (targets : list bytes) (mode : N) (matches : bytes)   (* handed to proxy_handler (C09) *)
| SWsOnly                          (* RouteType::ExclusiveWebSocket asked over plain HTTP: 404 with a message *)
| SWsProxy (target : bytes)        (* WebSocket upgrade on a route with a `websocket` target: tunnelled to it *)
| SClosed                          (* WebSocket upgrade that no WebSocket route takes: closed without a response *)
| SPanic.                          (* index out of range / unwrap of a missing path: the handler thread panics *)

(* init_app_routes: the App sub-application built for a host *)
Definition subapp_of (h : host_cfg) : subapp :=
  {| sa_host := scalars (hc_matches h); sa_routes := map (fun r => scalars (rt_matches r)) (hc_routes h) |}.

(* init_app_routes also registers a WebSocket route for every route that has a `websocket` target (its own or the
   server-wide default), under the index the route has among ALL routes of its host *)
Fixpoint ws_indexed_from (k : nat) (rs : list route_cfg) : list (nat * route_cfg) :=
  match rs with
  | [] => []
  | r :: rs' => match rt_ws r with
                | Some _ => (k, r) :: ws_indexed_from (S k) rs'
                | None => ws_indexed_from (S k) rs'
                end
  end.
Definition ws_indexed (h : host_cfg) : list (nat * route_cfg) := ws_indexed_from 0 (hc_routes h).
Definition ws_subapp_of (h : host_cfg) : subapp :=
  {| sa_host := scalars (hc_matches h); sa_routes := map (fun ir => scalars (rt_matches (snd ir))) (ws_indexed h) |}.

Definition ws_handler_ids (c : config) (ch : choice) : option (nat * nat) :=
  match ch with
  | InDefault j => option_map (fun ir => (O, fst ir)) (nth_error (ws_indexed (cf_default_host c)) j)
  | InSub i j => match nth_error (cf_hosts c) i with
                 | Some hc => option_map (fun ir => (S i, fst ir)) (nth_error (ws_indexed hc) j)
                 | None => None
                 end
  end.

(* app.rs client_handler: req.headers.get(&HeaderType::Upgrade) == Some("websocket") *)
Definition is_upgrade (req : request) : bool :=
  match hget (HKnown H_Upgrade) (r_headers req) with
  | Some v => beq v WS_APP_UPGRADE_VALUE
  | None => false
  end.

(* the (host index, route index) pair baked into the closure main() registers: default host = 0, hosts from 1 *)
Definition handler_ids (ch : choice) : nat * nat :=
  match ch with
  | InDefault j => (O, j)
  | InSub i j => (S i, j)
  end.

(* Config::get_route *)
Definition get_route (c : config) (host route : nat) : option route_cfg :=
  match host with
  | O => nth_error (hc_routes (cf_default_host c)) route
  | S h => match nth_error (cf_hosts c) h with
           | Some hc => nth_error (hc_routes hc) route
           | None => None
           end
  end.

(* static.rs inner_file_handler: the configured path is opened as it is (unwrap: a missing file panics); Content-Type from
   the extension ("" when there is none) is always set *)
Definition file_handler (fs : StaticFs.node) (path : bytes) : StaticFs.resp :=
  match resolve fs path with
  | Some loc =>
    match node_at fs loc with
    | Some (File c) =>
      R200 c (Some (mime_of_ext (match extension (last (split_on SLASH path) []) with Some e => e | None => [] end)))
    | _ => RPanic
    end
  | None => RPanic
  end.

Definition BLOCK_MODE : N := 0.

Section Server.
  Variable ipp : bytes -> option bytes.     (* IpAddr::from_str, canonical text *)
  Variable fs : StaticFs.node.              (* the file system the handlers read *)

  (* request_handler after routing: the handler of the route type, behind its blacklist check *)
  Definition dispatch (c : config) (rt : route_cfg) (verdict : Blacklist.verdict) (req : request) : sresp :=
    if rt_type rt =? RT_ExclusiveWebSocket then SWsOnly
    else match verdict with
    | Forbidden => SForbidden
    | _ =>
      if rt_type rt =? RT_File then
        match rt_path rt with Some p => SStatic (file_handler fs p) | None => SPanic end
      else if rt_type rt =? RT_Directory then
        match rt_path rt with Some p => SStatic (directory_handler fs p (rt_matches rt) (r_uri req)) | None => SPanic end
      else if rt_type rt =? RT_Redirect then
        match rt_path rt with Some p => SRedirect p | None => SPanic end
      else if rt_type rt =? RT_Proxy then
        match rt_lb rt with Some (targets, mode) => SProxy targets mode (rt_matches rt) | None => SPanic end
      else SPanic
    end.

  (* server.rs inner_websocket_handler (after fix F37: the blacklist applies here too) *)
  Definition ws_response (c : config) (verdict : Blacklist.verdict) (req : request) : sresp :=
    match get_handler (map ws_subapp_of (cf_hosts c)) (ws_subapp_of (cf_default_host c))
                      (option_map scalars (hget (HKnown H_Host) (r_headers req))) (scalars (r_uri req)) with
    | None => SClosed
    | Some ch =>
      match ws_handler_ids c ch with
      | None => SPanic
      | Some (h, j) =>
        match verdict with
        | Forbidden => SForbidden
        | _ => match get_route c h j with
               | Some rt => match rt_ws rt with Some t => SWsProxy t | None => SPanic end
               | None => SPanic
               end
        end
      end
    end.

  (* one request from peer p on a fresh connection *)
  Definition server_response (c : config) (p : peer) (req : request) : sresp :=
    match Blacklist.serve ipp (cf_bl_mode c =? BLOCK_MODE) (cf_bl_list c) p (r_headers req) with
    | Dropped => SDropped
    | verdict =>
      if is_upgrade req then ws_response c verdict req else
      match get_handler (map subapp_of (cf_hosts c)) (subapp_of (cf_default_host c))
                        (option_map scalars (hget (HKnown H_Host) (r_headers req))) (scalars (r_uri req)) with
      | None => SNotFound
      | Some ch =>
        let '(h, j) := handler_ids ch in
        match get_route c h j with
        | Some rt => dispatch c rt verdict req
        | None => SPanic
        end
      end
    end.

  (* proxy_handler: what is written to the target of a proxy route — the request with the route's literal prefix stripped
     and one more X-Forwarded-For naming its origin address (None: not proxied, or String::remove on an empty path) *)
  Definition forwarded_bytes (c : config) (p : peer) (req : request) : option bytes :=
    match server_response c p req with
    | SProxy _ _ mt => option_map (upstream_bytes req) (rewrite_uri mt (r_uri req))
    | _ => None
    end.

  (* proxy_websocket: what is written to the `websocket` target before the raw tunnel starts — the upgrade request as it
     is re-serialised (From<Request> for Vec<u8>), no prefix strip, no added header *)
  Definition ws_forwarded_bytes (c : config) (p : peer) (req : request) : option bytes :=
    match server_response c p req with
    | SWsProxy _ => Some (serialize_request req)
    | _ => None
    end.

  (* from the configuration text: what the server started with this file answers (None: the file does not load) *)
  Definition serve_text (files : bytes -> fentry) (file conf : bytes) (p : peer) (req : request) : option sresp :=
    match load ipp files file conf with
    | ROk c => Some (server_response c p req)
    | _ => None
    end.
  Definition forwarded_text (files : bytes -> fentry) (file conf : bytes) (p : peer) (req : request) : option bytes :=
    match load ipp files file conf with
    | ROk c => forwarded_bytes c p req
    | _ => None
    end.
  Definition ws_forwarded_text (files : bytes -> fentry) (file conf : bytes) (p : peer) (req : request) : option bytes :=
    match load ipp files file conf with
    | ROk c => ws_forwarded_bytes c p req
    | _ => None
    end.
End Server.
