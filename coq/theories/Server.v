(* Model of the config-driven server as a whole (humphrey-server/src/server/server.rs): `main` registers, for the default
   host and every configured host, one App route per configured route pattern whose handler is request_handler(host index,
   route index) (init_app_routes); the App's connection condition is verify_connection; a request is routed by the App
   (Routing.get_handler, C04), looked up again with Config::get_route, and handed to the handler of its route type
   (static.rs file_handler / directory_handler / redirect_handler, proxy.rs proxy_handler), each of which first applies
   the blacklist (Blacklist.v, C19). File contents come from the abstract file tree of StaticFs.v (C06); the configuration
   is the record Config.load produces from the configuration text (C15). The response cache is not part of this model
   (C16 models it; the end-to-end cases of this model run with the cache off or compare cache-transparent answers), nor are
   plugins, TLS and the WebSocket pass-through. Definitions only. *)
From Hv Require Import Prelude Bytes TablesHttp TablesConfig Http Krauss Routing Blacklist StaticFs Config.
Open Scope N_scope.

(* str::chars of a (valid) UTF-8 byte string: the matcher works on characters *)
Fixpoint scalars_fuel (fuel : nat) (l : bytes) : list N :=
  match fuel with
  | O => []
  | S f =>
    match l with
    | [] => []
    | b :: r =>
      if b <? 128 then b :: scalars_fuel f r
      else if b <? 224 then
        match r with
        | c1 :: r' => ((b mod 32) * 64 + (c1 mod 64)) :: scalars_fuel f r'
        | _ => [b]
        end
      else if b <? 240 then
        match r with
        | c1 :: c2 :: r' => ((b mod 16) * 4096 + (c1 mod 64) * 64 + (c2 mod 64)) :: scalars_fuel f r'
        | _ => [b]
        end
      else
        match r with
        | c1 :: c2 :: c3 :: r' => ((b mod 8) * 262144 + (c1 mod 64) * 4096 + (c2 mod 64) * 64 + (c3 mod 64)) :: scalars_fuel f r'
        | _ => [b]
        end
    end
  end.
Definition scalars (l : bytes) : list N := scalars_fuel (length l) l.

(* what one client observes for one request *)
Inductive sresp : Type :=
| SDropped                         (* connection closed without a response (verify_connection, block mode) *)
| SForbidden                       (* 403 from a handler's blacklist check *)
| SNotFound                        (* no route: the App's 404 *)
| SRedirect (location : bytes)     (* redirect_handler: 301 with this Location *)
| SStatic (r : StaticFs.resp)      (* file_handler / directory_handler *)
| SProxy (targets : list bytes) (mode : N) (matches : bytes)   (* handed to proxy_handler (C09) *)
| SWsOnly                          (* RouteType::ExclusiveWebSocket asked over plain HTTP: 404 with a message *)
| SPanic.                          (* index out of range / unwrap of a missing path: the handler thread panics *)

(* init_app_routes: the App sub-application built for a host *)
Definition subapp_of (h : host_cfg) : subapp :=
  {| sa_host := scalars (hc_matches h); sa_routes := map (fun r => scalars (rt_matches r)) (hc_routes h) |}.

(* the (host index, route index) pair baked into the closure main() registers: default host = 0, hosts from 1 *)
Definition handler_ids (ch : choice) : nat * nat :=
  match ch with
  | InDefault j => (O, j)
  | InSub i j => (S i, j)
  end.

(* Config::get_route *)
Definition get_route (c : config) (host route : nat) : option route_cfg :=
  match host with
  | O => nth_error (hc_routes (cf_default_host c)) route
  | S h => match nth_error (cf_hosts c) h with
           | Some hc => nth_error (hc_routes hc) route
           | None => None
           end
  end.

(* static.rs inner_file_handler: the configured path is opened as it is (unwrap: a missing file panics); Content-Type from
   the extension ("" when there is none) is always set *)
Definition file_handler (fs : StaticFs.node) (path : bytes) : StaticFs.resp :=
  match resolve fs path with
  | Some loc =>
    match node_at fs loc with
    | Some (File c) =>
      R200 c (Some (mime_of_ext (match extension (last (split_on SLASH path) []) with Some e => e | None => [] end)))
    | _ => RPanic
    end
  | None => RPanic
  end.

Definition BLOCK_MODE : N := 0.

Section Server.
  Variable ipp : bytes -> option bytes.     (* IpAddr::from_str, canonical text *)
  Variable fs : StaticFs.node.              (* the file system the handlers read *)

  (* request_handler after routing: the handler of the route type, behind its blacklist check *)
  Definition dispatch (c : config) (rt : route_cfg) (verdict : Blacklist.verdict) (req : request) : sresp :=
    if rt_type rt =? RT_ExclusiveWebSocket then SWsOnly
    else match verdict with
    | Forbidden => SForbidden
    | _ =>
      if rt_type rt =? RT_File then
        match rt_path rt with Some p => SStatic (file_handler fs p) | None => SPanic end
      else if rt_type rt =? RT_Directory then
        match rt_path rt with Some p => SStatic (directory_handler fs p (rt_matches rt) (r_uri req)) | None => SPanic end
      else if rt_type rt =? RT_Redirect then
        match rt_path rt with Some p => SRedirect p | None => SPanic end
      else if rt_type rt =? RT_Proxy then
        match rt_lb rt with Some (targets, mode) => SProxy targets mode (rt_matches rt) | None => SPanic end
      else SPanic
    end.

  (* one request from peer p on a fresh connection *)
  Definition server_response (c : config) (p : peer) (req : request) : sresp :=
    match Blacklist.serve ipp (cf_bl_mode c =? BLOCK_MODE) (cf_bl_list c) p (r_headers req) with
    | Dropped => SDropped
    | verdict =>
      match get_handler (map subapp_of (cf_hosts c)) (subapp_of (cf_default_host c))
                        (option_map scalars (hget (HKnown H_Host) (r_headers req))) (scalars (r_uri req)) with
      | None => SNotFound
      | Some ch =>
        let '(h, j) := handler_ids ch in
        match get_route c h j with
        | Some rt => dispatch c rt verdict req
        | None => SPanic
        end
      end
    end.

  (* from the configuration text: what the server started with this file answers (None: the file does not load) *)
  Definition serve_text (files : bytes -> fentry) (file conf : bytes) (p : peer) (req : request) : option sresp :=
    match load ipp files file conf with
    | ROk c => Some (server_response c p req)
    | _ => None
    end.
End Server.
