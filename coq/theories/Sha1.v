(* Model of humphrey-ws/src/util/sha1.rs :: <T as SHA1Hash>::hash (C18), as written:
   padded length ((len*8+583)/512)*64, zero-filled vector patched in place, one 80-word array reused by every
   chunk (words 16..79 still hold the previous chunk's values when a chunk starts), u32 arithmetic written out.
   Bytes and words are N; positions in vectors are nat; usize arithmetic that can overflow is done in N and checked
   (the harness is built with overflow checks, so an overflow is a panic).
   Panic sites: usize overflow of len*8 / +583 (Crash 1), the slices/index that patch the padding (Crash 2),
   message_len - 8 (Crash 3), the 4-byte slice of the word load (Crash 4). The array indexes chunk[i - k] use
   literal loop bounds inside a [u32; 80] and the `_ => panic!` arm of the round match is unreachable for the same
   reason; they are modelled as total. Definitions only. *)
From Hv Require Import Prelude.
Open Scope N_scope.

(* ---- u32 operators ---- *)
Definition MASK32 : N := 4294967295.
Definition wrapping_add (x y : N) : N := (x + y) mod 4294967296.
Definition rotate_left (x n : N) : N := N.lor (N.land (N.shiftl x n) MASK32) (N.shiftr x (32 - n)).
Definition not32 (x : N) : N := N.lxor x MASK32.                      (* !b *)

(* ---- usize ---- *)
Definition checked (x : N) : outcome N := if x <? 18446744073709551616 then Ok x else Crash 1.

Definition to_be_bytes64 (x : N) : list N :=
  map (fun k => (x / 2 ^ (8 * k)) mod 256) [7; 6; 5; 4; 3; 2; 1; 0].
Definition to_be_bytes32 (x : N) : list N :=
  [(x / 2 ^ 24) mod 256; (x / 2 ^ 16) mod 256; (x / 2 ^ 8) mod 256; x mod 256].

(* dst[off .. off + src.len()].copy_from_slice(src) *)
Definition copy_from (dst : list N) (off : nat) (src : list N) : list N :=
  firstn off dst ++ src ++ skipn (off + length src)%nat dst.
(* v[i] = x *)
Definition set_nth (l : list N) (i : nat) (x : N) : list N := firstn i l ++ x :: skipn (S i) l.

(* "Calculate padded message length then perform padding" *)
Definition pad_message (m : list N) : outcome (list N) :=
  let len := N.of_nat (length m) in
  obind (checked (len * 8)) (fun bits =>
  obind (checked (bits + 583)) (fun t =>
  let message_len := N.to_nat ((t / 512) * 64) in
  let message := repeat 0 message_len in                         (* vec![0; message_len] *)
  if (message_len <? length m)%nat then Crash 2                  (* message[0..len] *)
  else
    let message := copy_from message 0 m in
    if (message_len <=? length m)%nat then Crash 2               (* message[len] = 0x80 *)
    else
      let message := set_nth message (length m) 128 in
      if (message_len <? 8)%nat then Crash 3                     (* message_len - 8 *)
      else Ok (copy_from message (message_len - 8)%nat (to_be_bytes64 bits)))).

(* ---- "Initialize hash values" ---- *)
Definition hstate : Type := (N * N * N * N * N)%type.
Definition H_INIT : hstate := (1732584193, 4023233417, 2562383102, 271733878, 3285377520).
   (* 0x67452301 0xEFCDAB89 0x98BADCFE 0x10325476 0xC3D2E1F0 *)

(* u32::from_be_bytes(message[off .. off + 4].try_into().unwrap()) *)
Definition get_word (message : list N) (off : nat) : outcome N :=
  match firstn 4 (skipn off message) with
  | [a; b; c; d] => Ok (((a * 256 + b) * 256 + c) * 256 + d)
  | _ => Crash 4
  end.

(* for i in 0..16 { chunk[i] = ... }   — `is` is the list of the i still to do *)
Fixpoint load_words (message : list N) (chunk_id : nat) (is : list nat) (chunk : list N) : outcome (list N) :=
  match is with
  | [] => Ok chunk
  | i :: r =>
    obind (get_word message (chunk_id * 64 + i * 4)%nat) (fun w =>
    load_words message chunk_id r (set_nth chunk i w))
  end.

(* for i in 16..80 { chunk[i] = chunk[i-3] ^ chunk[i-8] ^ chunk[i-14] ^ chunk[i-16]; chunk[i] = chunk[i].rotate_left(1) } *)
Definition extend_step (chunk : list N) (i : nat) : list N :=
  let chunk1 := set_nth chunk i
      (N.lxor (N.lxor (N.lxor (nth (i - 3)%nat chunk 0) (nth (i - 8)%nat chunk 0)) (nth (i - 14)%nat chunk 0))
              (nth (i - 16)%nat chunk 0)) in
  set_nth chunk1 i (rotate_left (nth i chunk1 0) 1).
Definition extend (chunk : list N) : list N := fold_left extend_step (seq 16 64) chunk.

(* one iteration of `for (i, tem) in chunk.iter().enumerate()` *)
Definition round (st : hstate) (it : nat * N) : hstate :=
  let '(a, b, c, d, e) := st in
  let '(i, tem) := it in
  let fk :=
    if (i <? 20)%nat then (N.lor (N.land b c) (N.land (not32 b) d), 1518500249)             (* 0x5A827999 *)
    else if (i <? 40)%nat then (N.lxor (N.lxor b c) d, 1859775393)                           (* 0x6ED9EBA1 *)
    else if (i <? 60)%nat then (N.lor (N.lor (N.land b c) (N.land b d)) (N.land c d), 2400959708)  (* 0x8F1BBCDC *)
    else (N.lxor (N.lxor b c) d, 3395469782) in                                              (* 0xCA62C1D6 *)
  let temp := wrapping_add (wrapping_add (wrapping_add (wrapping_add (rotate_left a 5) (fst fk)) e) (snd fk)) tem in
  (temp, a, rotate_left b 30, c, d).

Definition enumerate (l : list N) : list (nat * N) := combine (seq 0 (length l)) l.

(* the body of the chunk loop after the schedule is ready: "Initialize hash value for this chunk", "Main loop",
   "Add this chunk's result to the hash" *)
Definition compress (h : hstate) (chunk : list N) : hstate :=
  let '(h0, h1, h2, h3, h4) := h in
  let '(a, b, c, d, e) := fold_left round (enumerate chunk) h in
  (wrapping_add h0 a, wrapping_add h1 b, wrapping_add h2 c, wrapping_add h3 d, wrapping_add h4 e).

(* for chunk_id in 0..message_len / 64 { ... } — `ids` is the list of chunk ids still to do;
   `chunk` is the [u32; 80] declared outside the loop *)
Fixpoint chunks_loop (message : list N) (ids : list nat) (h : hstate) (chunk : list N) : outcome hstate :=
  match ids with
  | [] => Ok h
  | chunk_id :: r =>
    obind (load_words message chunk_id (seq 0 16) chunk) (fun chunk =>
    let chunk := extend chunk in
    chunks_loop message r (compress h chunk) chunk)
  end.

Definition sha1 (m : list N) : outcome (list N) :=
  obind (pad_message m) (fun message =>                          (* message.len() == message_len *)
  obind (chunks_loop message (seq 0 (length message / 64)%nat) H_INIT (repeat 0 80)) (fun h =>
  let '(h0, h1, h2, h3, h4) := h in
  Ok (flat_map to_be_bytes32 [h0; h1; h2; h3; h4]))).
