(* The prefix strip of the proxy and directory handlers (String::remove(0) once per pattern character before the first '*')
   never runs out of characters on a request the router matched to that route: a matched path has at least as many
   characters as the pattern's literal prefix. Counting argument over UTF-8 characters. *)
From Coq Require Import Lia ZArith ZifyBool ZifyNat ZifyN.
From Hv Require Import Prelude Bytes BytesProofs TablesHttp TablesConfig Http Krauss KraussProofs Routing RoutingProofs
  Blacklist StaticFs StaticFsProofs StaticFsCompleteProofs Config Proxy HttpReqSpec HttpReqProofs ProxyReqProofs Server ServerProofs.
Open Scope N_scope.
Ltac Zify.zify_post_hook ::= Z.to_euclidean_division_equations.

(* number of characters = number of bytes that are not continuation bytes *)
Fixpoint nlead (l : bytes) : nat :=
  match l with [] => O | b :: r => if cont b then nlead r else S (nlead r) end.

(* scalars before the first '*' *)
Fixpoint star_prefix_len (w : list N) : nat :=
  match w with [] => O | c :: r => if c =? star then O else S (star_prefix_len r) end.

Lemma nlead_skip_cont l : nlead (skip_cont l) = nlead l.
Proof. induction l as [|b r IH]; [reflexivity|]. cbn [skip_cont nlead]. destruct (cont b) eqn:E; [exact IH|]. cbn [nlead]. now rewrite E. Qed.

Lemma skip_cont_on_boundary l : starts_on_boundary (skip_cont l).
Proof. induction l as [|b r IH]; [exact I|]. cbn [skip_cont]. destruct (cont b) eqn:E; [exact IH|]. exact E. Qed.

Lemma drop_chars_enough : forall n l, starts_on_boundary l -> (n <= nlead l)%nat -> drop_chars n l <> None.
Proof.
  induction n as [|n IH]; intros l B H; [discriminate|].
  destruct l as [|b r]; [cbn in H; lia|]. cbn [starts_on_boundary] in B. cbn [nlead] in H. rewrite B in H.
  cbn [drop_chars]. apply IH; [apply skip_cont_on_boundary|]. rewrite nlead_skip_cont. lia.
Qed.

(* one character of valid UTF-8: what scalars_fuel, nlead and literal_prefix_len make of it *)
Lemma char_step b r n : utf8_char_len (b :: r) = S n ->
  (n <= length r)%nat /\
  exists c, (forall f, scalars_fuel (S f) (b :: r) = c :: scalars_fuel f (skipn n r)) /\
            (c = star <-> b = star) /\
            nlead (b :: r) = S (nlead (skipn n r)) /\
            (b <> star -> literal_prefix_len (b :: r) = S (literal_prefix_len (skipn n r))).
Proof.
  cbn [utf8_char_len]. unfold star.
  destruct (b <? 128) eqn:A.
  { intros [= <-]. split; [cbn; lia|]. exists b. apply N.ltb_lt in A.
    assert (C : cont b = false) by (apply cont_ascii; exact A).
    split; [intro f; cbn [scalars_fuel skipn]; apply N.ltb_lt in A; now rewrite A|].
    split; [tauto|]. split; [cbn [nlead skipn]; now rewrite C|].
    intro Hb. rewrite literal_prefix_len_cons. apply N.eqb_neq in Hb. rewrite Hb, C. reflexivity. }
  assert (Hb : b <> 42) by (apply N.ltb_ge in A; lia).
  assert (LP : forall x, cont b = false -> literal_prefix_len (b :: x) = S (literal_prefix_len x)).
  { intros x C. rewrite literal_prefix_len_cons. apply N.eqb_neq in Hb. now rewrite Hb, C. }
  assert (LC : forall c x, cont c = true -> literal_prefix_len (c :: x) = literal_prefix_len x).
  { intros c x C. rewrite literal_prefix_len_cons, C. unfold cont in C. apply andb_true_iff in C as [C _]. apply N.leb_le in C.
    destruct (c =? 42) eqn:E; [apply N.eqb_eq in E; lia|reflexivity]. }
  intro H.
  repeat match type of H with
  | (if ?c then _ else _) = _ => destruct c eqn:?
  end; try discriminate.
  all: destruct r as [|c1 r]; try discriminate.
  all: try (destruct r as [|c2 r]; try discriminate).
  all: try (destruct r as [|c3 r]; try discriminate).
  all: repeat match type of H with
  | (if ?c then _ else _) = _ => destruct c eqn:?
  end; try discriminate.
  all: injection H as <-.
  all: b2p.
  all: assert (CB : cont b = false) by (unfold cont; apply andb_false_iff; rewrite !N.leb_gt; lia).
  all: assert (C1 : cont c1 = true) by (unfold cont; apply andb_true_iff; rewrite !N.leb_le; lia).
  all: try assert (C2 : cont c2 = true) by (unfold cont; apply andb_true_iff; rewrite !N.leb_le; lia).
  all: try assert (C3 : cont c3 = true) by (unfold cont; apply andb_true_iff; rewrite !N.leb_le; lia).
  all: split; [cbn [length]; lia|].
  all: eexists; split; [intro f; cbn [scalars_fuel skipn]; rewrite (proj2 (N.ltb_ge _ _) A);
         repeat match goal with |- context [?x <? ?k] => destruct (N.ltb_spec x k); try lia end; reflexivity|].
  all: split; [split; intro E; exfalso; lia|].
  all: split; [cbn [nlead skipn]; rewrite CB, ?C1, ?C2, ?C3; reflexivity|].
  all: intros _; cbn [skipn]; rewrite (LP _ CB), ?(LC _ _ C1), ?(LC _ _ C2), ?(LC _ _ C3); reflexivity.
Qed.

Lemma scalars_fuel_count : forall f l, utf8 l -> (length l <= f)%nat ->
  length (scalars_fuel f l) = nlead l /\ star_prefix_len (scalars_fuel f l) = literal_prefix_len l.
Proof.
  induction f as [|f IH]; intros l U Hf.
  - destruct l; [split; reflexivity|cbn in Hf; lia].
  - destruct U as [|l n E U]; [split; reflexivity|].
    destruct l as [|b r]; [discriminate|].
    destruct (char_step b r n E) as (Hn & c & Hs & Hc & Hl & Hp).
    cbn [skipn] in U. cbn [length] in Hf.
    assert (Hlen : (length (skipn n r) <= f)%nat) by (rewrite skipn_length; lia).
    destruct (IH _ U Hlen) as [I1 I2].
    rewrite Hs. cbn [length star_prefix_len]. split; [rewrite I1, Hl; reflexivity|].
    destruct (c =? star) eqn:Ec.
    + apply N.eqb_eq in Ec. apply Hc in Ec. subst b. reflexivity.
    + apply N.eqb_neq in Ec. rewrite I2. symmetry. apply Hp. intro Hb. apply Ec, Hc, Hb.
Qed.

Lemma scalars_count l : utf8 l ->
  length (scalars l) = nlead l /\ star_prefix_len (scalars l) = literal_prefix_len l.
Proof. intro U. apply scalars_fuel_count; [exact U|reflexivity]. Qed.

Lemma glob_star_prefix w t : Glob w t -> (star_prefix_len w <= length t)%nat.
Proof.
  induction 1 as [|p u t G IH|c p t Hc G IH]; cbn [star_prefix_len length].
  - lia.
  - rewrite N.eqb_refl. lia.
  - apply N.eqb_neq in Hc. rewrite Hc. lia.
Qed.

(* a path the pattern matches has the pattern's literal prefix to strip *)
Theorem matched_strip_succeeds (pat uri : bytes) :
  utf8 pat -> utf8 uri -> wildcard_match (scalars pat) (scalars uri) = true ->
  drop_chars (literal_prefix_len pat) uri <> None.
Proof.
  intros Up Uu M. apply wildcard_match_spec, glob_star_prefix in M.
  destruct (scalars_count pat Up) as [_ P]. destruct (scalars_count uri Uu) as [L _].
  apply drop_chars_enough; [now apply utf8_starts_on_boundary|]. lia.
Qed.

Section NoPanic.
  Variable ipp : bytes -> option bytes.
  Variable fs : StaticFs.node.

  (* proxy_handler's String::remove(0) loop cannot panic on a request that was routed to it *)
  Theorem server_proxy_strip_never_panics (c : config) p req ts m mt :
    utf8 (r_uri req) -> utf8 mt ->
    server_response ipp fs c p req = SProxy ts m mt ->
    exists uri', rewrite_uri mt (r_uri req) = Some uri'.
  Proof.
    intros Uu Um H.
    assert (M : wildcard_match (scalars mt) (scalars (r_uri req)) = true).
    { unfold server_response in H.
      destruct (Blacklist.serve ipp _ _ p _); [discriminate| |].
      all: destruct (is_upgrade req); [exfalso; eapply ws_not_proxy; exact H|].
      all: destruct (get_handler _ _ _ _) as [ch|] eqn:G; [|discriminate].
      all: destruct (wiring_total _ _ _ _ G) as (rt & E & W & _).
      all: destruct (handler_ids ch) as [h j]; cbn [fst snd] in E; rewrite E in H.
      all: unfold dispatch in H; destruct (rt_type rt =? RT_ExclusiveWebSocket); [discriminate|]; try discriminate.
      destruct (rt_type rt =? RT_File); [destruct (rt_path rt); discriminate|].
      destruct (rt_type rt =? RT_Directory); [destruct (rt_path rt); discriminate|].
      destruct (rt_type rt =? RT_Redirect); [destruct (rt_path rt); discriminate|].
      destruct (rt_type rt =? RT_Proxy); [|discriminate].
      destruct (rt_lb rt) as [[ts' m']|]; [|discriminate]. injection H as _ _ <-. exact W. }
    unfold rewrite_uri. destruct (drop_chars _ _) as [rest|] eqn:D; [eauto|].
    exfalso. exact (matched_strip_succeeds mt (r_uri req) Um Uu M D).
  Qed.

  (* neither can directory_handler's: a directory route never answers with the panic of the strip loop, whatever the
     tree looks like — RPanic from a directory route would have to come from elsewhere, and directory_handler has no
     other source of it *)
  Theorem directory_handler_never_panics (directory matches uri : bytes) :
    utf8 matches -> utf8 uri -> wildcard_match (scalars matches) (scalars uri) = true ->
    directory_handler fs directory matches uri <> RPanic.
  Proof.
    intros Um Uu M. unfold directory_handler.
    destruct (drop_chars _ _) as [rest|] eqn:D; [|exfalso; exact (matched_strip_succeeds matches uri Um Uu M D)].
    destruct (try_find_path fs directory rest) as [[|loc]|]; try discriminate.
    unfold serve_loc. destruct (node_at fs loc) as [[cn|]|]; try discriminate.
    destruct (extension _); discriminate.
  Qed.

  (* through the server: a directory route that the router chose answers without that panic *)
  Theorem server_directory_never_panics (c : config) p req :
    utf8 (r_uri req) ->
    (forall rt, In rt (hc_routes (cf_default_host c)) -> utf8 (rt_matches rt)) ->
    (forall hc rt, In hc (cf_hosts c) -> In rt (hc_routes hc) -> utf8 (rt_matches rt)) ->
    forall ch rt,
      get_handler (map subapp_of (cf_hosts c)) (subapp_of (cf_default_host c))
                  (option_map scalars (hget (HKnown H_Host) (r_headers req))) (scalars (r_uri req)) = Some ch ->
      get_route c (fst (handler_ids ch)) (snd (handler_ids ch)) = Some rt ->
      rt_type rt = RT_Directory -> rt_path rt <> None ->
      is_upgrade req = false ->
      server_response ipp fs c p req <> SStatic RPanic /\ server_response ipp fs c p req <> SPanic.
  Proof.
    intros Uu Ud Uh ch rt G GR Ty Hp Up.
    destruct (wiring_total _ _ _ _ G) as (rt' & E & W & Wh). rewrite GR in E. injection E as <-.
    assert (Um : utf8 (rt_matches rt)).
    { destruct ch as [i j|j].
      - destruct Wh as (hc & Hh & Hr & _). eapply Uh; eapply nth_error_In; eassumption.
      - apply Ud. eapply nth_error_In; exact Wh. }
    unfold server_response. rewrite Up, G.
    destruct (handler_ids ch) as [h j]. cbn [fst snd] in GR. 
    destruct (Blacklist.serve ipp _ _ p _); [split; discriminate| |]; rewrite GR.
    all: unfold dispatch; rewrite Ty.
    all: change (RT_Directory =? RT_ExclusiveWebSocket) with false; cbv iota.
    1: split; discriminate.
    change (RT_Directory =? RT_File) with false. rewrite N.eqb_refl. cbv iota.
    destruct (rt_path rt) as [d|]; [|contradiction].
    split; [|discriminate]. intro H. injection H as H.
    exact (directory_handler_never_panics d (rt_matches rt) (r_uri req) Um Uu W H).
  Qed.
End NoPanic.

(* with the strip hypothesis discharged: whatever a parsed request is routed to a proxy route whose pattern is valid UTF-8
   (config strings are Rust Strings), the target receives it as C09_upstream_sees describes *)
Theorem server_upstream_sees_total ipp fs (c : config) p p' req ts m mt :
  parsed_ok ipp p req -> server_response ipp fs c p req = SProxy ts m mt -> utf8 mt ->
  ip_text_ok (a_origin (r_addr req)) ->
  exists uri' b r', rewrite_uri mt (r_uri req) = Some uri' /\ forwarded_bytes ipp fs c p req = Some b /\
    parse_request_flat ipp p' b = Ok (r', []) /\
    r_method r' = r_method req /\ r_uri r' = uri' /\ r_query r' = r_query req /\ r_version r' = r_version req /\
    r_content r' = r_content req /\
    (forall n, hget_all n (r_headers r') = hget_all n (r_headers req ++ [(XFF, a_origin (r_addr req))])).
Proof.
  intros P H Um I.
  assert (Uu : utf8 (r_uri req)) by (destruct P as [S _ _ _]; exact (so_uri_u _ _ _ _ S)).
  destruct (server_proxy_strip_never_panics ipp fs c p req ts m mt Uu Um H) as (uri' & R).
  destruct (server_upstream_sees ipp fs c p p' req ts m mt uri' P H R I) as (b & r' & F & Q).
  exists uri', b, r'. split; [exact R|]. split; [exact F|exact Q].
Qed.
