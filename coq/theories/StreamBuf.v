(* Model of std::io::Read over a scripted source and of std::io::BufReader (capacity 8 KiB) on top of it:
   read, fill_buf, read_until, read_exact. `chunks` = what successive read() calls can deliver at most
   (one element = the bytes available to one call; [] = EOF). Definitions only. *)
From Hv Require Import Prelude Bytes.
From Coq Require Import Arith.
Open Scope N_scope.

Definition wf_chunks (cs : chunks) : Prop := Forall (fun c => c <> []) cs.
Definition wf_chunksb (cs : chunks) : bool := forallb (fun c => match c with [] => false | _ => true end) cs.

(* Read::read(&mut buf) with |buf| = n > 0 *)
Definition read (n : nat) (cs : chunks) : bytes * chunks :=
  match cs with
  | [] => ([], [])
  | c :: cs' => if (length c <=? n)%nat then (c, cs') else (firstn n c, skipn n c :: cs')
  end.

Record bufreader := { buf : bytes; inner : chunks }.
Definition contents (br : bufreader) : bytes := buf br ++ concat (inner br).
Definition cap : nat := N.to_nat 8192.

Definition br_new (cs : chunks) : bufreader := {| buf := []; inner := cs |}.

Definition fill_buf (br : bufreader) : bufreader :=
  match buf br with
  | [] => let '(d, cs') := read cap (inner br) in {| buf := d; inner := cs' |}
  | _ => br
  end.

(* BufRead::read_until(d, &mut acc): bytes through the delimiter, or everything until EOF. None = fuel exhausted. *)
Fixpoint read_until (fuel : nat) (d : N) (br : bufreader) (acc : bytes) : option (bytes * bufreader) :=
  match fuel with
  | O => None
  | S f =>
    let br1 := fill_buf br in
    match buf br1 with
    | [] => Some (acc, br1)
    | b => match split_incl d b with
           | Some (a, rest) => Some (acc ++ a, {| buf := rest; inner := inner br1 |})
           | None => read_until f d {| buf := []; inner := inner br1 |} (acc ++ b)
           end
    end
  end.

Definition fuel_of (br : bufreader) : nat := S (S (length (concat (inner br)) + length (inner br))).

Definition read_line (br : bufreader) : option (bytes * bufreader) := read_until (fuel_of br) LF br [].

(* flat specification of read_until *)
Definition read_until_flat (d : N) (l : bytes) : bytes * bytes :=
  match split_incl d l with Some (a, b) => (a, b) | None => (l, []) end.

(* Read::read_exact through the BufReader. Result: RFuel (model fuel exhausted, excluded by lemma), REof (UnexpectedEof),
   ROk data reader'. BufReader::read bypasses its buffer when it is empty and the request is at least the capacity. *)
Inductive rx : Type := RFuel | REof | ROk (d : bytes) (br : bufreader).

Fixpoint read_exact_br (fuel : nat) (n : nat) (br : bufreader) (acc : bytes) : rx :=
  match n with
  | O => ROk acc br
  | _ =>
    match fuel with
    | O => RFuel
    | S f =>
      match buf br with
      | [] =>
        if (cap <=? n)%nat then
          let '(d, cs') := read n (inner br) in
          match d with
          | [] => REof
          | _ => read_exact_br f (n - length d) {| buf := []; inner := cs' |} (acc ++ d)
          end
        else
          let br1 := fill_buf br in
          match buf br1 with
          | [] => REof
          | _ => read_exact_br f n br1 acc
          end
      | b =>
        let k := Nat.min n (length b) in
        read_exact_br f (n - k) {| buf := skipn k b; inner := inner br |} (acc ++ firstn k b)
      end
    end
  end.

Definition read_exact (n : nat) (br : bufreader) : rx :=
  read_exact_br (2 * length (inner br) + 4) n br [].

Definition read_exact_flat (n : nat) (l : bytes) : option (bytes * bytes) :=
  if (n <=? length l)%nat then Some (firstn n l, skipn n l) else None.

(* the same with a length given as N (a peer-claimed length can be astronomically large: never convert it to a
   unary nat before knowing that many bytes are there; fewer bytes available = UnexpectedEof either way) *)
Definition read_exact_N (n : N) (br : bufreader) : rx :=
  if N.of_nat (length (contents br)) <? n then REof else read_exact (N.to_nat n) br.
Definition read_exact_flat_N (n : N) (l : bytes) : option (bytes * bytes) :=
  if N.of_nat (length l) <? n then None else read_exact_flat (N.to_nat n) l.

(* plain Read::read_exact on the raw source (no BufReader), as used for the first byte of a request *)
Fixpoint read_exact_raw (fuel : nat) (n : nat) (cs : chunks) (acc : bytes) : option (option (bytes * chunks)) :=
  match n with
  | O => Some (Some (acc, cs))
  | _ =>
    match fuel with
    | O => None
    | S f =>
      let '(d, cs') := read n cs in
      match d with
      | [] => Some None
      | _ => read_exact_raw f (n - length d) cs' (acc ++ d)
      end
    end
  end.
