(* Proofs about the WebSocket frame codec model (C10; decode_safe for C03). *)
From Coq Require Import Lia.
From Hv Require Import Prelude Stream StreamProofs Frame FrameSpec.
Open Scope N_scope.

(* ================= finite sweeps ================= *)
Definition below (n : nat) : list N := map N.of_nat (seq 0 n).

Lemma below_in n x : x < N.of_nat n -> In x (below n).
Proof.
  intro H. unfold below. apply in_map_iff. exists (N.to_nat x). split; [lia|]. apply in_seq. lia.
Qed.

Lemma sweep n (P : N -> bool) : forallb P (below n) = true -> forall x, x < N.of_nat n -> P x = true.
Proof. intros H x Hx. rewrite forallb_forall in H. apply H. now apply below_in. Qed.

Lemma sweep2 n m (P : N -> N -> bool) :
  forallb (fun a => forallb (P a) (below m)) (below n) = true ->
  forall a b, a < N.of_nat n -> b < N.of_nat m -> P a b = true.
Proof.
  intros H a b Ha Hb. pose proof (sweep n _ H a Ha) as H1. cbv beta in H1. exact (sweep m _ H1 b Hb).
Qed.

(* ---- the header fields: shifts/masks of the code vs division/remainder of the RFC picture ---- *)
Definition hdr_code (h0 h1 : N) : bool * bool * bool * bool * N * bool * N :=
  (negb (N.land h0 128 =? 0), negb (N.land h0 64 =? 0), negb (N.land h0 32 =? 0), negb (N.land h0 16 =? 0),
   N.land h0 15, negb (N.land h1 128 =? 0), N.land h1 127).

Definition hdr_arith (h0 h1 : N) : bool * bool * bool * bool * N * bool * N :=
  (128 <=? h0, 64 <=? h0 mod 128, 32 <=? h0 mod 64, 16 <=? h0 mod 32, h0 mod 16, 128 <=? h1, h1 mod 128).

Definition hdr_eqb (a b : bool * bool * bool * bool * N * bool * N) : bool :=
  let '(a1, a2, a3, a4, a5, a6, a7) := a in
  let '(b1, b2, b3, b4, b5, b6, b7) := b in
  Bool.eqb a1 b1 && Bool.eqb a2 b2 && Bool.eqb a3 b3 && Bool.eqb a4 b4 && (a5 =? b5) && Bool.eqb a6 b6 && (a7 =? b7).

Lemma hdr_eqb_eq a b : hdr_eqb a b = true -> a = b.
Proof.
  destruct a as [[[[[[a1 a2] a3] a4] a5] a6] a7], b as [[[[[[b1 b2] b3] b4] b5] b6] b7]. cbn [hdr_eqb].
  rewrite !andb_true_iff, !Bool.eqb_true_iff, !N.eqb_eq. intuition congruence.
Qed.

(* all 65 536 two-byte headers *)
Lemma all_headers_sweep :
  forallb (fun h0 => forallb (fun h1 => hdr_eqb (hdr_code h0 h1) (hdr_arith h0 h1)) (below 256)) (below 256) = true.
Proof. vm_compute. reflexivity. Qed.

Lemma hdr_code_arith h0 h1 : h0 < 256 -> h1 < 256 -> hdr_code h0 h1 = hdr_arith h0 h1.
Proof.
  intros H0 H1. apply hdr_eqb_eq.
  exact (sweep2 256 256 (fun a b => hdr_eqb (hdr_code a b) (hdr_arith a b)) all_headers_sweep h0 h1 H0 H1).
Qed.

(* ---- header construction ---- *)
Lemma header_byte0_arith f :
  header_byte0 f =
  128 * b2n (fin f) + 64 * b2n (rsv1 f) + 32 * b2n (rsv2 f) + 16 * b2n (rsv3 f) + rfc_opcode (fopcode f).
Proof.
  unfold header_byte0. destruct (fin f), (rsv1 f), (rsv2 f), (rsv3 f), (fopcode f); vm_compute; reflexivity.
Qed.

Lemma byte1_sweep :
  forallb (fun x => (N.lor 128 x =? 128 + x) && (N.lor 0 x =? x)) (below 128) = true.
Proof. vm_compute. reflexivity. Qed.

Lemma header_byte1_arith (m : bool) x : x < 128 -> N.lor (N.shiftl (b2n m) 7) x = 128 * b2n m + x.
Proof.
  intro Hx. pose proof (sweep 128 _ byte1_sweep x Hx) as H. cbv beta in H.
  apply andb_true_iff in H as [H1 H2]. apply N.eqb_eq in H1, H2.
  destruct m; cbn [b2n]; [change (N.shiftl 1 7) with 128 | change (N.shiftl 0 7) with 0]; lia.
Qed.

Lemma opcode_of_N_value v : opcode_of_N v = opcode_of_value v.
Proof.
  unfold opcode_of_N, opcode_of_value, all_opcodes. cbn [find rfc_opcode]. rewrite !(N.eqb_sym _ v). reflexivity.
Qed.

Lemma opcode_roundtrip o : opcode_of_value (rfc_opcode o) = Some o.
Proof. destruct o; reflexivity. Qed.

Lemma opcode_to_N_rfc o : opcode_to_N o = rfc_opcode o.
Proof. destruct o; reflexivity. Qed.

Lemma opcode_of_value_some v o : opcode_of_value v = Some o -> rfc_opcode o = v.
Proof.
  unfold opcode_of_value, all_opcodes. intro H. apply find_some in H as [_ H]. now apply N.eqb_eq in H.
Qed.

Lemma opcode_of_value_none v : v < 16 -> (opcode_of_value v = None <-> In v reserved_opcodes).
Proof.
  intro Hv.
  assert (S : forallb (fun v => Bool.eqb (match opcode_of_value v with None => true | _ => false end)
                                       (existsb (N.eqb v) reserved_opcodes)) (below 16) = true)
    by (vm_compute; reflexivity).
  pose proof (sweep 16 _ S v Hv) as H. cbv beta in H. apply Bool.eqb_prop in H.
  split.
  - intro E. rewrite E in H. symmetry in H. apply existsb_exists in H as (x & Hx & Hx'). apply N.eqb_eq in Hx'. now subst.
  - intro Hin. destruct (opcode_of_value v); [|reflexivity]. symmetry in H.
    assert (existsb (N.eqb v) reserved_opcodes = true) by (apply existsb_exists; exists v; split; [assumption|apply N.eqb_refl]).
    congruence.
Qed.

(* ================= big-endian integers ================= *)
Lemma be_value_snoc l x : be_value (l ++ [x]) = be_value l * 256 + x.
Proof. unfold be_value. now rewrite fold_left_app. Qed.

Lemma be_bytes_length k : forall n, length (be_bytes k n) = k.
Proof. induction k as [|k IH]; intro n; cbn [be_bytes]; [reflexivity|]. rewrite app_length, IH. cbn. lia. Qed.

Lemma be_bytes_byte k : forall n, Forall byte (be_bytes k n).
Proof.
  induction k as [|k IH]; intro n; cbn [be_bytes]; [constructor|].
  apply Forall_app. split; [apply IH|]. constructor; [|constructor]. unfold byte. apply N.mod_lt. lia.
Qed.

Lemma be_value_be_bytes k : forall n, be_value (be_bytes k n) = n mod 256 ^ N.of_nat k.
Proof.
  induction k as [|k IH]; intro n; cbn [be_bytes].
  - cbn. now rewrite N.mod_1_r.
  - rewrite be_value_snoc, IH. rewrite Nat2N.inj_succ, N.pow_succ_r'.
    rewrite N.mod_mul_r by (try apply N.pow_nonzero; lia). lia.
Qed.

Lemma unsigned_be_snoc l x : unsigned_be (l ++ [x]) = unsigned_be l * 256 + x.
Proof.
  induction l as [|b t IH]; cbn [app unsigned_be].
  - cbn. lia.
  - rewrite IH, blen_app. change (blen [x]) with 1. rewrite N.pow_add_r. change (256 ^ 1) with 256. lia.
Qed.

Lemma unsigned_be_value l : unsigned_be l = be_value l.
Proof.
  induction l as [|x l IH] using rev_ind; [reflexivity|]. now rewrite unsigned_be_snoc, be_value_snoc, IH.
Qed.

Lemma unsigned_be_bound l : Forall byte l -> unsigned_be l < 256 ^ blen l.
Proof.
  induction 1 as [|b t Hb _ IH]; cbn [unsigned_be]; [cbn; lia|].
  rewrite blen_cons, N.pow_add_r. change (256 ^ 1) with 256. unfold byte in Hb.
  assert (0 < 256 ^ blen t) by (apply N.neq_0_lt_0, N.pow_nonzero; lia). nia.
Qed.

Lemma unsigned_be_inj l1 : forall l2, length l1 = length l2 -> Forall byte l1 -> Forall byte l2 ->
  unsigned_be l1 = unsigned_be l2 -> l1 = l2.
Proof.
  induction l1 as [|a t1 IH]; intros [|b t2] Hlen F1 F2 E; try discriminate; [reflexivity|].
  inversion F1 as [|? ? Ha F1']; inversion F2 as [|? ? Hb F2']; subst.
  cbn [unsigned_be] in E. injection Hlen as Hlen.
  pose proof (unsigned_be_bound t1 F1') as B1. pose proof (unsigned_be_bound t2 F2') as B2.
  assert (Hbl : blen t1 = blen t2) by (unfold blen; now rewrite Hlen). rewrite Hbl in *.
  set (P := 256 ^ blen t2) in *.
  assert (a = b /\ unsigned_be t1 = unsigned_be t2) as [-> E'].
  { destruct (N.lt_trichotomy a b) as [L|[L|L]].
    - assert ((a + 1) * P <= b * P) by (apply N.mul_le_mono_r; lia). lia.
    - subst. lia.
    - assert ((b + 1) * P <= a * P) by (apply N.mul_le_mono_r; lia). lia. }
  f_equal. now apply IH.
Qed.

(* ================= masking ================= *)
Lemma key_at_nth k (j : nat) : key_at k (N.of_nat j mod 4) = nth (j mod 4) (key_bytes k) 0.
Proof.
  assert (Hj : N.of_nat j mod 4 = N.of_nat (j mod 4)).
  { now rewrite Nat2N.inj_mod. }
  rewrite Hj. assert (Hlt : (j mod 4 < 4)%nat) by (apply Nat.mod_upper_bound; lia).
  destruct (j mod 4)%nat as [|[|[|[|?]]]]; try reflexivity. lia.
Qed.

Lemma xor_from_length k l : forall i, length (xor_from k i l) = length l.
Proof. induction l as [|x t IH]; intro i; cbn [xor_from length]; [reflexivity|]. now rewrite IH. Qed.

Lemma xor_from_invol k l : forall i, xor_from k i (xor_from k i l) = l.
Proof.
  induction l as [|x t IH]; intro i; cbn [xor_from]; [reflexivity|].
  rewrite IH. f_equal. now rewrite N.lxor_assoc, N.lxor_nilpotent, N.lxor_0_r.
Qed.

Lemma xor_key_invol k l : xor_key k (xor_key k l) = l.
Proof. apply xor_from_invol. Qed.

Lemma xor_from_unmask k l : forall s : nat,
  map (fun ix : nat * N => N.lxor (snd ix) (nth (fst ix mod 4) (key_bytes k) 0)) (combine (seq s (length l)) l)
  = xor_from k (N.of_nat s) l.
Proof.
  induction l as [|x t IH]; intro s; cbn [length seq combine map xor_from fst snd]; [reflexivity|].
  rewrite IH, key_at_nth. do 2 f_equal. lia.
Qed.

Lemma unmask_xor_key k l : unmask k l = xor_key k l.
Proof. unfold unmask, xor_key. apply (xor_from_unmask k l 0). Qed.

Lemma xor_key_length k l : length (xor_key k l) = length l.
Proof. apply xor_from_length. Qed.

Lemma xor_key_blen k l : blen (xor_key k l) = blen l.
Proof. unfold blen. now rewrite xor_key_length. Qed.

Lemma unmask_nth k l (i : nat) : (i < length l)%nat ->
  nth i (unmask k l) 0 = N.lxor (nth i l 0) (nth (i mod 4) (key_bytes k) 0).
Proof.
  intro Hi. unfold unmask.
  set (f := fun ix : nat * N => N.lxor (snd ix) (nth (fst ix mod 4) (key_bytes k) 0)).
  rewrite (nth_indep _ 0 (f (0%nat, 0))) by (rewrite map_length, combine_length, seq_length; lia).
  rewrite map_nth, combine_nth by (now rewrite seq_length).
  rewrite seq_nth by assumption. reflexivity.
Qed.

(* the masking relation of the spec determines the wire bytes, and the code's loop computes them *)
Lemma masked_xor_key k p : Masked k p (xor_key k p).
Proof.
  split; [apply xor_key_length|]. intros i Hi. rewrite <- unmask_xor_key. now apply unmask_nth.
Qed.

Lemma masked_unique k p wire : Masked k p wire -> wire = xor_key k p.
Proof.
  intros [Hlen Hn]. apply (nth_ext _ _ 0 0); [now rewrite xor_key_length|].
  intros i Hi. rewrite Hlen in Hi. rewrite (Hn i Hi). destruct (masked_xor_key k p) as [_ Hx]. now rewrite (Hx i Hi).
Qed.

(* ================= the chunked decoder refines the flat reference parser ================= *)
Lemma read_len_flat len7 cs : wf_chunks cs ->
  match read_len len7 cs with
  | Some (n, cs') =>
    exists ext, take_exact (if len7 =? 126 then 2 else if len7 =? 127 then 8 else 0) (concat cs) = Some (ext, concat cs')
                /\ n = (if (if len7 =? 126 then 2 else if len7 =? 127 then 8 else 0) =? 0 then len7 else unsigned_be ext)
                /\ wf_chunks cs'
  | None => take_exact (if len7 =? 126 then 2 else if len7 =? 127 then 8 else 0) (concat cs) = None
  end.
Proof.
  intro W. unfold read_len. destruct (len7 =? 126).
  - pose proof (read_exact_flat cs 2 W) as F. destruct (read_exact 2 cs) as [[b r]|]; [|exact F].
    destruct F as [F W']. exists b. rewrite unsigned_be_value. auto.
  - destruct (len7 =? 127).
    + pose proof (read_exact_flat cs 8 W) as F. destruct (read_exact 8 cs) as [[b r]|]; [|exact F].
      destruct F as [F W']. exists b. rewrite unsigned_be_value. auto.
    + exists []. rewrite take_exact_0. auto.
Qed.

Lemma read_key_flat (m : bool) cs : wf_chunks cs ->
  match read_key m cs with
  | Some (k, cs') =>
    exists kb, take_exact (if m then 4 else 0) (concat cs) = Some (kb, concat cs')
               /\ k = (if m then key_of_list kb else zero_key) /\ wf_chunks cs'
  | None => take_exact (if m then 4 else 0) (concat cs) = None
  end.
Proof.
  intro W. unfold read_key. destruct m.
  - pose proof (read_exact_flat cs 4 W) as F. destruct (read_exact 4 cs) as [[b r]|]; [|exact F].
    destruct F as [F W']. exists b. auto.
  - exists []. rewrite take_exact_0. auto.
Qed.

Lemma from_stream_inner_refines cs1 h0 h1 :
  wf_chunks cs1 -> h0 < 256 -> h1 < 256 ->
  refines (fst (from_stream_inner cs1 h0 h1)) (parse_spec (h0 :: h1 :: concat cs1)).
Proof.
  intros W H0 H1. unfold from_stream_inner. cbn [parse_spec].
  pose proof (hdr_code_arith h0 h1 H0 H1) as HC. unfold hdr_code, hdr_arith in HC.
  injection HC as -> -> -> -> -> -> ->.
  rewrite opcode_of_N_value. destruct (opcode_of_value (h0 mod 16)) as [op|]; [|reflexivity].
  pose proof (read_len_flat (h1 mod 128) cs1 W) as FL.
  destruct (read_len (h1 mod 128) cs1) as [[n cs2]|]; [|rewrite FL; reflexivity].
  destruct FL as (ext & -> & -> & W2).
  pose proof (read_key_flat (128 <=? h1) cs2 W2) as FK.
  destruct (read_key (128 <=? h1) cs2) as [[key cs3]|]; [|rewrite FK; reflexivity].
  destruct FK as (kb & -> & -> & W3).
  set (n := if (if h1 mod 128 =? 126 then 2 else if h1 mod 128 =? 127 then 8 else 0) =? 0
            then h1 mod 128 else unsigned_be ext).
  pose proof (read_take_exact n cs3 W3) as FT.
  destruct (read_take n cs3) as [data cs4].
  destruct (blen data =? n).
  - destruct FT as [-> W4]. cbn [fst refines]. rewrite unmask_xor_key. auto.
  - rewrite FT. reflexivity.
Qed.

Theorem decode_refines cs :
  wf_chunks cs -> Forall byte (firstn 2 (concat cs)) -> refines (decode cs) (parse_spec (concat cs)).
Proof.
  intros W HB. unfold decode, decode_m.
  pose proof (read_exact_flat cs 2 W) as F.
  destruct (read_exact 2 cs) as [[hdr cs1]|].
  - destruct F as [F W1]. apply take_exact_some in F as [Hc Hl].
    destruct hdr as [|h0 [|h1 [|? ?]]]; try (unfold blen in Hl; cbn in Hl; lia).
    rewrite Hc in *. cbn [app firstn] in HB. inversion HB as [|? ? B0 HB']; subst. inversion HB' as [|? ? B1 _]; subst.
    cbn [app]. now apply from_stream_inner_refines.
  - apply take_exact_none in F. cbn [fst].
    destruct (concat cs) as [|a [|b r]]; try reflexivity. unfold blen in F. cbn in F. lia.
Qed.

(* ================= encode produces the RFC layout ================= *)
Lemma layout_any f bs : FrameBytes f bs -> FrameBytesAny f bs.
Proof.
  intros (len7 & ext & wire & Hb & LF & MW). exists len7, ext, wire. repeat split; try assumption.
  destruct LF as [(H1 & H2 & H3)|[(H1 & H2 & H3)|(H1 & H2 & H3)]].
  - left. subst. repeat split; auto; lia.
  - right; left. auto.
  - right; right. auto.
Qed.

Theorem encode_layout f : wf f -> FrameBytes f (encode f).
Proof.
  intros (Hlen & Hlt & Hp & Hk). unfold FrameBytes, Layout, encode, encode_header.
  rewrite <- header_byte0_arith.
  assert (MW : if mask f then Masked (mkey f) (payload f) (if mask f then xor_key (mkey f) (payload f) else payload f)
               else (if mask f then xor_key (mkey f) (payload f) else payload f) = payload f).
  { destruct (mask f); [apply masked_xor_key | reflexivity]. }
  destruct (flen f <? 126) eqn:E1; [|destruct (flen f <? 65536) eqn:E2].
  - apply N.ltb_lt in E1. exists (flen f), [], (if mask f then xor_key (mkey f) (payload f) else payload f).
    split; [|split; [left; auto | exact MW]].
    rewrite N.mod_small by lia. rewrite header_byte1_arith by lia. reflexivity.
  - apply N.ltb_ge in E1. apply N.ltb_lt in E2.
    exists 126, (be_bytes 2 (flen f mod 65536)), (if mask f then xor_key (mkey f) (payload f) else payload f).
    split; [|split; [right; left | exact MW]].
    + rewrite header_byte1_arith by lia. now rewrite <- app_assoc.
    + repeat split; try lia; try apply be_bytes_length; try apply be_bytes_byte.
      rewrite unsigned_be_value, be_value_be_bytes. change (256 ^ N.of_nat 2) with 65536.
      rewrite N.mod_mod by lia. apply N.mod_small. lia.
  - apply N.ltb_ge in E1, E2.
    assert (H64 : (2:N) ^ 63 < 2 ^ 64) by (vm_compute; reflexivity).
    exists 127, (be_bytes 8 (flen f)), (if mask f then xor_key (mkey f) (payload f) else payload f).
    split; [|split; [right; right | exact MW]].
    + rewrite header_byte1_arith by lia. now rewrite <- app_assoc.
    + repeat split; try lia; try apply be_bytes_length; try apply be_bytes_byte.
      rewrite unsigned_be_value, be_value_be_bytes. change (256 ^ N.of_nat 8) with (2 ^ 64).
      apply N.mod_small. lia.
Qed.

(* every byte of an encoding is a byte *)
Lemma xor_from_byte k l : key_ok k -> Forall byte l -> forall i, Forall byte (xor_from k i l).
Proof.
  intros (K0 & K1 & K2 & K3) Hl. induction Hl as [|x t Hx _ IH]; intro i; cbn [xor_from]; constructor; [|apply IH].
  assert (Hk : key_at k (i mod 4) < 256).
  { unfold key_at. destruct (i mod 4 =? 0); [assumption|]. destruct (i mod 4 =? 1); [assumption|].
    destruct (i mod 4 =? 2); assumption. }
  unfold byte in *. change 256 with (2 ^ 8).
  destruct (N.eq_dec (N.lxor x (key_at k (i mod 4))) 0) as [->|Hnz]; [reflexivity|].
  apply N.log2_lt_pow2; [lia|].
  eapply N.le_lt_trans; [apply N.log2_lxor|].
  apply N.max_lub_lt.
  - destruct (N.eq_dec x 0) as [->|Hx0]; [cbn; lia|]. apply N.log2_lt_pow2; [lia|exact Hx].
  - destruct (N.eq_dec (key_at k (i mod 4)) 0) as [->|Hk0]; [cbn; lia|]. apply N.log2_lt_pow2; [lia|exact Hk].
Qed.

Lemma layout_bytes f bs : FrameBytesAny f bs -> Forall byte (payload f) -> key_ok (mkey f) -> Forall byte bs.
Proof.
  intros (len7 & ext & wire & -> & LA & MW) Hp Hk.
  assert (L7 : len7 < 128 /\ Forall byte ext).
  { destruct LA as [(H1 & H2 & H3)|[(H1 & H2 & H3 & H4)|(H1 & H2 & H3 & H4)]]; subst; split; try lia; auto; constructor. }
  destruct L7 as [L7 He].
  apply Forall_app. split.
  - constructor; [|constructor; [|constructor]]; unfold byte.
    + destruct (fin f), (rsv1 f), (rsv2 f), (rsv3 f), (fopcode f); vm_compute; reflexivity.
    + destruct (mask f); cbn [b2n]; lia.
  - apply Forall_app. split; [assumption|]. apply Forall_app. split.
    + destruct (mask f); [|constructor]. destruct Hk as (K0 & K1 & K2 & K3). repeat constructor; assumption.
    + destruct (mask f); [|now subst]. apply masked_unique in MW. subst. now apply xor_from_byte.
Qed.

Theorem encode_bytes f : wf f -> Forall byte (encode f).
Proof.
  intros Hw. pose proof (encode_layout f Hw) as L. destruct Hw as (_ & _ & Hp & Hk).
  eapply layout_bytes; eauto. now apply layout_any.
Qed.

(* ================= the flat parser inverts every layout ================= *)
Lemma header0_fields f :
  let b0 := 128 * b2n (fin f) + 64 * b2n (rsv1 f) + 32 * b2n (rsv2 f) + 16 * b2n (rsv3 f) + rfc_opcode (fopcode f) in
  opcode_of_value (b0 mod 16) = Some (fopcode f) /\ (128 <=? b0) = fin f /\ (64 <=? b0 mod 128) = rsv1 f /\
  (32 <=? b0 mod 64) = rsv2 f /\ (16 <=? b0 mod 32) = rsv3 f.
Proof. destruct (fin f), (rsv1 f), (rsv2 f), (rsv3 f), (fopcode f); vm_compute; repeat split. Qed.

Lemma header1_sweep :
  forallb (fun x => ((128 * 1 + x) mod 128 =? x) && (128 <=? 128 * 1 + x) && ((128 * 0 + x) mod 128 =? x)
                    && negb (128 <=? 128 * 0 + x)) (below 128) = true.
Proof. vm_compute. reflexivity. Qed.

Lemma header1_fields (m : bool) len7 : len7 < 128 ->
  (128 * b2n m + len7) mod 128 = len7 /\ (128 <=? 128 * b2n m + len7) = m.
Proof.
  intro H. pose proof (sweep 128 _ header1_sweep len7 H) as S. cbv beta in S.
  rewrite !andb_true_iff, !N.eqb_eq, negb_true_iff in S. destruct S as [[[S1 S2] S3] S4].
  destruct m; cbn [b2n]; auto.
Qed.

Lemma lenany_fields n len7 ext : LenAny n len7 ext ->
  len7 < 128 /\ (if len7 =? 126 then 2 else if len7 =? 127 then 8 else 0) = blen ext /\
  (if blen ext =? 0 then len7 else unsigned_be ext) = n.
Proof.
  intros [(H1 & H2 & H3)|[(H1 & H2 & H3 & H4)|(H1 & H2 & H3 & H4)]].
  - subst. split; [lia|]. destruct (len7 =? 126) eqn:E1; [apply N.eqb_eq in E1; lia|].
    destruct (len7 =? 127) eqn:E2; [apply N.eqb_eq in E2; lia|]. auto.
  - rewrite H1. unfold blen. rewrite H2. cbn. split; [lia|]. split; [reflexivity|]. exact H4.
  - rewrite H1. unfold blen. rewrite H2. cbn. split; [lia|]. split; [reflexivity|]. exact H4.
Qed.

Lemma key_of_list_bytes k : key_of_list (key_bytes k) = k.
Proof. destruct k; reflexivity. Qed.

Lemma xor_from_zero l : forall i, xor_from zero_key i l = l.
Proof.
  induction l as [|x t IH]; intro i; cbn [xor_from]; [reflexivity|]. rewrite IH. f_equal.
  unfold key_at, zero_key. cbn [k0 k1 k2 k3].
  destruct (i mod 4 =? 0), (i mod 4 =? 1), (i mod 4 =? 2); apply N.lxor_0_r.
Qed.

Theorem parse_layout f pre rest :
  FrameBytesAny f pre -> flen f = blen (payload f) -> parse_spec (pre ++ rest) = Ok (norm f, rest).
Proof.
  intros (len7 & ext & wire & -> & LA & MW) Hlen.
  destruct (lenany_fields _ _ _ LA) as (L7 & Hext & Hn).
  destruct (header0_fields f) as (Hop & Hfin & Hr1 & Hr2 & Hr3).
  destruct (header1_fields (mask f) len7 L7) as [Hl7 Hm].
  cbn [app parse_spec]. rewrite Hop, Hl7, Hm, Hfin, Hr1, Hr2, Hr3.
  rewrite Hext. rewrite <- !app_assoc. rewrite take_exact_app. rewrite Hn.
  assert (Hw : blen wire = flen f /\ unmask (if mask f then mkey f else zero_key) wire = payload f).
  { destruct (mask f).
    - apply masked_unique in MW. subst wire. rewrite xor_key_blen, unmask_xor_key, xor_key_invol. auto.
    - subst wire. rewrite unmask_xor_key. unfold xor_key. rewrite xor_from_zero. auto. }
  destruct Hw as [Hwl Hwp].
  unfold norm. destruct (mask f) eqn:Em.
  - rewrite (take_exact_app' 4 (key_bytes (mkey f))) by reflexivity.
    rewrite (take_exact_app' (flen f) wire rest Hwl). rewrite key_of_list_bytes, Hwp.
    destruct f; cbn in *; subst; reflexivity.
  - cbn [app]. rewrite take_exact_0. rewrite (take_exact_app' (flen f) wire rest Hwl). rewrite Hwp. reflexivity.
Qed.

Lemma take_exact_trunc n a x r t :
  blen a = n -> r ++ t = a ++ x ->
  take_exact n r = None \/ exists r', take_exact n r = Some (a, r') /\ r' ++ t = x.
Proof.
  intros Hn E. apply app_eq_app in E as [l [[-> ->]|[-> ->]]].
  - right. exists l. split; [now apply take_exact_app'|reflexivity].
  - destruct l as [|y l].
    + right. exists []. rewrite app_nil_r in *. split; [|reflexivity].
      rewrite <- (app_nil_r r) at 1. now apply take_exact_app'.
    + left. apply take_exact_none. rewrite <- Hn, blen_app, blen_cons. lia.
Qed.

Theorem parse_truncated f pre b :
  FrameBytesAny f pre -> flen f = blen (payload f) -> strict_prefix b pre -> parse_spec b = Err ReadError.
Proof.
  intros (len7 & ext & wire & Hpre & LA & MW) Hlen (t & Ht & E).
  destruct (lenany_fields _ _ _ LA) as (L7 & Hext & Hn).
  destruct (header0_fields f) as (Hop & _).
  destruct (header1_fields (mask f) len7 L7) as [Hl7 Hm].
  remember (128 * b2n (fin f) + 64 * b2n (rsv1 f) + 32 * b2n (rsv2 f) + 16 * b2n (rsv3 f) + rfc_opcode (fopcode f)) as b0.
  remember (128 * b2n (mask f) + len7) as b1.
  subst pre.
  destruct b as [|x0 [|x1 r0]]; try reflexivity.
  cbn [app] in E. injection E as E0 E1 E. subst x0 x1.
  cbn [parse_spec]. rewrite Hop, Hl7, Hm, Hext.
  destruct (take_exact_trunc (blen ext) ext _ r0 t eq_refl (eq_sym E)) as [->|(r1 & -> & E1)]; [reflexivity|].
  rewrite Hn.
  assert (Hwl : blen wire = flen f).
  { destruct (mask f); [apply masked_unique in MW; subst wire; now rewrite xor_key_blen | now subst wire]. }
  assert (Hk : blen (if mask f then key_bytes (mkey f) else []) = (if mask f then 4 else 0)) by (now destruct (mask f)).
  destruct (take_exact_trunc _ _ _ r1 t Hk E1) as [->|(r2 & -> & E2)]; [reflexivity|].
  rewrite <- (app_nil_r wire) in E2.
  destruct (take_exact_trunc _ _ _ r2 t Hwl E2) as [->|(r3 & _ & E3)]; [reflexivity|].
  apply app_eq_nil in E3 as [_ ->]. contradiction.
Qed.

(* ================= whatever the flat parser accepts is a frame laid out as in the RFC ================= *)
Lemma byte0_sweep :
  forallb (fun h => h =? 128 * b2n (128 <=? h) + 64 * b2n (64 <=? h mod 128) + 32 * b2n (32 <=? h mod 64)
                          + 16 * b2n (16 <=? h mod 32) + h mod 16) (below 256) = true.
Proof. vm_compute. reflexivity. Qed.

Lemma byte1_split_sweep : forallb (fun h => h =? 128 * b2n (128 <=? h) + h mod 128) (below 256) = true.
Proof. vm_compute. reflexivity. Qed.

Lemma key_bytes_of_list kb : length kb = 4%nat -> key_bytes (key_of_list kb) = kb.
Proof. destruct kb as [|a [|b [|c [|d [|? ?]]]]]; try discriminate. reflexivity. Qed.

Theorem parse_sound bs f rest :
  parse_spec bs = Ok (f, rest) -> Forall byte bs ->
  exists pre, bs = pre ++ rest /\ FrameBytesAny f pre /\ flen f = blen (payload f).
Proof.
  intros H HB. destruct bs as [|h0 [|h1 r0]]; try discriminate.
  inversion HB as [|? ? B0 HB1]; subst. inversion HB1 as [|? ? B1 HB2]; subst.
  cbn [parse_spec] in H.
  destruct (opcode_of_value (h0 mod 16)) as [op|] eqn:Eop; [|discriminate].
  set (extn := if h1 mod 128 =? 126 then 2 else if h1 mod 128 =? 127 then 8 else 0) in *.
  destruct (take_exact extn r0) as [[ext r1]|] eqn:T1; [|discriminate].
  destruct (take_exact (if 128 <=? h1 then 4 else 0) r1) as [[kb r2]|] eqn:T2; [|discriminate].
  destruct (take_exact (if extn =? 0 then h1 mod 128 else unsigned_be ext) r2) as [[wire r3]|] eqn:T3; [|discriminate].
  injection H as <- <-.
  apply take_exact_some in T1 as [-> Le]. apply take_exact_some in T2 as [-> Lk]. apply take_exact_some in T3 as [-> Lw].
  pose proof (sweep 256 _ byte0_sweep h0 B0) as S0. pose proof (sweep 256 _ byte1_split_sweep h1 B1) as S1.
  cbv beta in S0, S1. apply N.eqb_eq in S0, S1. apply opcode_of_value_some in Eop.
  exists ([h0; h1] ++ ext ++ kb ++ wire). split; [now rewrite <- !app_assoc|]. split.
  - exists (h1 mod 128), ext, wire. cbn [fin rsv1 rsv2 rsv3 fopcode mask flen mkey payload].
    split; [|split].
    + rewrite Eop, <- S0, <- S1. do 3 f_equal.
      destruct (128 <=? h1); [|apply blen_nil_iff in Lk; now subst].
      rewrite key_bytes_of_list; [reflexivity|]. unfold blen in Lk. lia.
    + assert (Hm : h1 mod 128 < 128) by (apply N.mod_lt; lia).
      assert (He : Forall byte ext) by (apply Forall_app in HB2; tauto).
      unfold extn in *. destruct (h1 mod 128 =? 126) eqn:E6; [|destruct (h1 mod 128 =? 127) eqn:E7].
      * apply N.eqb_eq in E6. right; left. unfold blen in Le. repeat split; auto; lia.
      * apply N.eqb_eq in E7. right; right. unfold blen in Le. repeat split; auto; lia.
      * apply N.eqb_neq in E6, E7. apply blen_nil_iff in Le. left. cbn. repeat split; auto; lia.
    + destruct (128 <=? h1).
      * rewrite unmask_xor_key. pose proof (masked_xor_key (key_of_list kb) (xor_key (key_of_list kb) wire)) as M.
        now rewrite xor_key_invol in M.
      * rewrite unmask_xor_key. unfold xor_key. now rewrite xor_from_zero.
  - cbn [flen payload]. rewrite unmask_xor_key, xor_key_blen. now rewrite Lw.
Qed.

(* the layout with the shortest length form determines the bytes: encode f is the only byte string it admits *)
Theorem framebytes_unique f bs : wf f -> FrameBytes f bs -> bs = encode f.
Proof.
  intros Hw L. pose proof (encode_layout f Hw) as L'.
  destruct L as (len7 & ext & wire & -> & LF & MW). destruct L' as (len7' & ext' & wire' & -> & LF' & MW').
  assert (wire = wire').
  { destruct (mask f); [apply masked_unique in MW, MW'; congruence | congruence]. }
  assert (len7 = len7' /\ ext = ext') as [-> ->]; [|now subst].
  destruct LF as [(H1 & H2 & H3)|[(H1 & H2 & H3 & H4 & H5)|(H1 & H2 & H3 & H4 & H5)]];
    destruct LF' as [(G1 & G2 & G3)|[(G1 & G2 & G3 & G4 & G5)|(G1 & G2 & G3 & G4 & G5)]]; try lia.
  - split; congruence.
  - split; [congruence|]. apply unsigned_be_inj; congruence.
  - split; [congruence|]. apply unsigned_be_inj; congruence.
Qed.

(* ================= theorems about the chunked decoder ================= *)
Lemma refines_ok a f r : refines a (Ok (f, r)) -> exists cs', a = Ok (f, cs') /\ concat cs' = r /\ wf_chunks cs'.
Proof.
  destruct a as [[g cs']|e|w]; cbn [refines]; try contradiction. intros (-> & <- & W). eauto.
Qed.

Lemma refines_err a e : refines a (Err e) -> a = Err e.
Proof. destruct a as [[g cs']|e'|w]; cbn [refines]; try contradiction. now intros ->. Qed.

Lemma layout_first2 f pre rest : FrameBytesAny f pre -> Forall byte (firstn 2 (pre ++ rest)).
Proof.
  intros (len7 & ext & wire & -> & LA & MW). destruct (lenany_fields _ _ _ LA) as (L7 & _).
  cbn [app firstn]. constructor; [|constructor; [|constructor]]; unfold byte.
  - destruct (fin f), (rsv1 f), (rsv2 f), (rsv3 f), (fopcode f); vm_compute; reflexivity.
  - destruct (mask f); cbn [b2n]; lia.
Qed.

(* decoding any layout (shortest form or not) of f, followed by anything, under any split into reads *)
Theorem decode_layout f pre rest cs :
  FrameBytesAny f pre -> flen f = blen (payload f) -> wf_chunks cs -> concat cs = pre ++ rest ->
  exists cs', decode cs = Ok (norm f, cs') /\ concat cs' = rest /\ wf_chunks cs'.
Proof.
  intros L Hlen W Hc. apply refines_ok.
  assert (HB : Forall byte (firstn 2 (concat cs))) by (rewrite Hc; eapply layout_first2; eassumption).
  pose proof (decode_refines cs W HB) as R. rewrite Hc, (parse_layout f pre rest L Hlen) in R. exact R.
Qed.

Theorem decode_encode f rest cs :
  wf f -> wf_chunks cs -> concat cs = encode f ++ rest ->
  exists cs', decode cs = Ok (norm f, cs') /\ concat cs' = rest /\ wf_chunks cs'.
Proof.
  intros Hw W Hc. apply (decode_layout f (encode f) rest cs); auto.
  - apply layout_any, encode_layout, Hw.
  - apply Hw.
Qed.

Theorem decode_truncated f b cs :
  wf f -> strict_prefix b (encode f) -> wf_chunks cs -> concat cs = b -> decode cs = Err ReadError.
Proof.
  intros Hw Hp W Hc. apply refines_err.
  assert (HB : Forall byte (firstn 2 (concat cs))).
  { rewrite Hc. destruct Hp as (t & _ & E).
    pose proof (layout_first2 f (encode f) [] (layout_any _ _ (encode_layout f Hw))) as F2.
    rewrite app_nil_r, E in F2.
    (* the first two bytes of a prefix are among the first two bytes of the whole *)
    rewrite firstn_app in F2. apply Forall_app in F2. tauto. }
  pose proof (decode_refines cs W HB) as R.
  rewrite Hc, (parse_truncated f (encode f) b (layout_any _ _ (encode_layout f Hw)) (proj1 Hw) Hp) in R. exact R.
Qed.

Theorem reserved_opcode_rejected cs h0 h1 tl :
  wf_chunks cs -> concat cs = h0 :: h1 :: tl -> h0 < 256 -> h1 < 256 ->
  In (h0 mod 16) reserved_opcodes -> decode cs = Err InvalidOpcode.
Proof.
  intros W Hc H0 H1 Hin. apply refines_err.
  assert (P : parse_spec (concat cs) = Err InvalidOpcode).
  { rewrite Hc. cbn [parse_spec].
    assert (Hn : opcode_of_value (h0 mod 16) = None) by (apply opcode_of_value_none; [apply N.mod_lt; lia | assumption]).
    now rewrite Hn. }
  assert (HB : Forall byte (firstn 2 (concat cs))) by (rewrite Hc; cbn [firstn]; repeat constructor; assumption).
  pose proof (decode_refines cs W HB) as R. rewrite P in R. exact R.
Qed.

Theorem valid_opcode_not_rejected cs h0 h1 tl :
  wf_chunks cs -> concat cs = h0 :: h1 :: tl -> h0 < 256 -> h1 < 256 ->
  ~ In (h0 mod 16) reserved_opcodes -> decode cs <> Err InvalidOpcode.
Proof.
  intros W Hc H0 H1 Hin E.
  pose proof (decode_refines cs W) as R. rewrite Hc in R. cbn [firstn] in R.
  specialize (R ltac:(repeat constructor; assumption)). rewrite E in R. cbn [parse_spec] in R.
  destruct (opcode_of_value (h0 mod 16)) eqn:Eo.
  - repeat match type of R with
           | refines _ (match ?x with _ => _ end) => destruct x as [[? ?]|]
           end; cbn [refines] in R; try discriminate; try contradiction.
  - apply opcode_of_value_none in Eo; [contradiction | apply N.mod_lt; lia].
Qed.

Theorem two_byte_headers h0 h1 rem cs :
  h0 < 256 -> h1 < 256 -> wf_chunks cs -> concat cs = h0 :: h1 :: rem ->
  refines (decode cs) (parse_spec (h0 :: h1 :: rem)).
Proof.
  intros H0 H1 W Hc. rewrite <- Hc. apply decode_refines; [assumption|]. rewrite Hc. cbn [firstn].
  repeat constructor; assumption.
Qed.

Theorem decode_short cs : wf_chunks cs -> total_len cs < 2 -> decode cs = Err ReadError.
Proof.
  intros W H. unfold decode, decode_m. apply (read_exact_none 2 cs W) in H. now rewrite H.
Qed.

(* everything the decoder returns is a frame in RFC layout (any length form), and it consumed exactly that layout *)
Theorem decode_sound cs f cs' :
  wf_chunks cs -> Forall byte (concat cs) -> decode cs = Ok (f, cs') ->
  exists pre, concat cs = pre ++ concat cs' /\ FrameBytesAny f pre /\ flen f = blen (payload f).
Proof.
  intros W HB H. pose proof (decode_refines cs W) as R.
  assert (HB2 : Forall byte (firstn 2 (concat cs))).
  { rewrite <- (firstn_skipn 2 (concat cs)) in HB. apply Forall_app in HB. tauto. }
  specialize (R HB2). rewrite H in R.
  destruct (parse_spec (concat cs)) as [[g r]|e|w] eqn:P; cbn [refines] in R; try contradiction.
  destruct R as (<- & <- & _). now apply parse_sound.
Qed.

(* ================= safety (C03): no crash on any input, allocation bounded by the bytes supplied ================= *)
Lemma from_stream_inner_safe cs1 h0 h1 :
  is_crash (fst (from_stream_inner cs1 h0 h1)) = false /\
  snd (from_stream_inner cs1 h0 h1) <= 2 * total_len cs1 + 32.
Proof.
  unfold from_stream_inner. destruct (opcode_of_N (N.land h0 15)); [|cbn; split; [reflexivity|lia]].
  destruct (read_len (N.land h1 127) cs1) as [[n cs2]|] eqn:EL; [|cbn; split; [reflexivity|lia]].
  assert (T2 : total_len cs2 <= total_len cs1).
  { unfold read_len in EL. destruct (N.land h1 127 =? 126).
    - destruct (read_exact 2 cs1) as [[b r]|] eqn:E; [|discriminate]. injection EL as _ <-.
      rewrite (read_exact_total _ _ _ _ E). lia.
    - destruct (N.land h1 127 =? 127).
      + destruct (read_exact 8 cs1) as [[b r]|] eqn:E; [|discriminate]. injection EL as _ <-.
        rewrite (read_exact_total _ _ _ _ E). lia.
      + injection EL as _ <-. lia. }
  destruct (read_key (negb (N.land h1 128 =? 0)) cs2) as [[key cs3]|] eqn:EK; [|cbn; split; [reflexivity|lia]].
  assert (T3 : total_len cs3 <= total_len cs2).
  { unfold read_key in EK. destruct (negb (N.land h1 128 =? 0)).
    - destruct (read_exact 4 cs2) as [[b r]|] eqn:E; [|discriminate]. injection EK as _ <-.
      rewrite (read_exact_total _ _ _ _ E). lia.
    - injection EK as _ <-. lia. }
  pose proof (read_take_len cs3 n) as [TL _].
  destruct (read_take n cs3) as [data cs4]. cbn [fst] in TL.
  destruct (blen data =? n); cbn [fst snd is_crash]; split; try reflexivity; lia.
Qed.

Theorem decode_safe cs :
  is_crash (decode cs) = false /\ decode_alloc cs <= 2 * total_len cs + 32.
Proof.
  unfold decode, decode_alloc, decode_m.
  destruct (read_exact 2 cs) as [[hdr cs1]|] eqn:E; [|cbn; split; [reflexivity|lia]].
  pose proof (read_exact_len _ _ _ _ E) as Hl. pose proof (read_exact_total _ _ _ _ E) as Ht.
  destruct hdr as [|h0 [|h1 [|? ?]]]; try (unfold blen in Hl; cbn in Hl; lia).
  destruct (from_stream_inner_safe cs1 h0 h1) as [C A]. split; [assumption|lia].
Qed.

(* ================= the code as it was ================= *)
Theorem encode_old_refuted :
  exists f, wf f /\ ~ FrameBytes f (encode_old f) /\
            exists f' cs', decode [encode_old f] = Ok (f', cs') /\ payload f' <> payload f.
Proof.
  exists (mkFrame true false false false Text true 1 (mkKey 1 0 0 0) [0]).
  split; [|split].
  - unfold wf, key_ok, byte. cbn. repeat split; try lia. repeat constructor.
  - intro L. apply framebytes_unique in L.
    + vm_compute in L. discriminate.
    + unfold wf, key_ok, byte. cbn. repeat split; try lia. repeat constructor.
  - eexists. eexists. split; [vm_compute; reflexivity|]. cbn. discriminate.
Qed.

(* with no key or an all-zero key the old serialiser was right: the defect is exactly the missing XOR *)
Lemma encode_old_unmasked f : mask f = false -> encode_old f = encode f.
Proof. unfold encode_old, encode. now intros ->. Qed.

Theorem decode_old_unsafe :
  (exists cs, total_len cs = 10 /\ snd (decode_old_m cs) = 2 ^ 40) /\
  (exists cs, total_len cs = 10 /\ is_crash (fst (decode_old_m cs)) = true).
Proof.
  split.
  - exists [[130; 127; 0; 0; 1; 0; 0; 0; 0; 0]]. split; vm_compute; reflexivity.
  - exists [[130; 127; 128; 0; 0; 0; 0; 0; 0; 0]]. split; vm_compute; reflexivity.
Qed.

(* ================= Frame::new / Message::to_frame ================= *)
Lemma new_frame_wf o p : blen p < 2 ^ 63 -> Forall byte p -> wf (new_frame o p).
Proof. intros H1 H2. unfold wf, new_frame, key_ok, byte. cbn. repeat split; auto; lia. Qed.

Theorem message_to_frame_layout (text : bool) p :
  blen p < 2 ^ 63 -> Forall byte p ->
  FrameBytes (new_frame (if text then Text else Binary) p) (message_to_frame text p) /\
  exists len7 ext, message_to_frame text p = [128 + (if text then 1 else 2); len7] ++ ext ++ p /\ len7 < 128.
Proof.
  intros H1 H2. pose proof (encode_layout _ (new_frame_wf (if text then Text else Binary) p H1 H2)) as L.
  split; [exact L|]. destruct L as (len7 & ext & wire & E & LF & MW). cbn [mask new_frame payload] in *. subst wire.
  exists len7, ext. unfold message_to_frame. rewrite E. split.
  - destruct text; reflexivity.
  - destruct LF as [(A & B & C)|[(A & B & C)|(A & B & C)]]; cbn [flen new_frame] in *; lia.
Qed.

Theorem encode_layout_bytes f : wf f -> FrameBytes f (encode f) /\ Forall byte (encode f).
Proof. intro H. split; [exact (encode_layout f H) | exact (encode_bytes f H)]. Qed.

(* a non-trivial frame used by the examples of props/C10.v *)
Definition ex_frame : frame :=
  mkFrame true false true false Binary true 5 (mkKey 1 2 3 255) [104; 101; 108; 108; 111].

Lemma ex_wf : wf ex_frame /\ encode ex_frame = [162; 133; 1; 2; 3; 255; 105; 103; 111; 147; 110].
Proof.
  split; [|vm_compute; reflexivity].
  unfold wf, key_ok, byte, ex_frame; cbn. repeat split; try lia; repeat constructor.
Qed.

Lemma ex_split :
  wf_chunks [[162]; [133; 1; 2]; [3; 255; 105; 103]; [111; 147; 110; 77]] /\
  decode [[162]; [133; 1; 2]; [3; 255; 105; 103]; [111; 147; 110; 77]] = Ok (ex_frame, [[77]]) /\
  decode (bytewise [162; 133; 1; 2; 3; 255; 105; 103; 111; 147]) = Err ReadError /\
  decode [[131; 0]] = Err InvalidOpcode /\
  strict_prefix [162; 133; 1] (encode ex_frame).
Proof.
  split; [repeat constructor; discriminate|]. split; [vm_compute; reflexivity|]. split; [vm_compute; reflexivity|].
  split; [vm_compute; reflexivity|]. exists [2; 3; 255; 105; 103; 111; 147; 110]. split; [discriminate|vm_compute; reflexivity].
Qed.

Lemma ex_lengths :
  firstn 4 (encode (new_frame Text (repeat 97 126))) = [129; 126; 0; 126] /\
  firstn 10 (encode (new_frame Binary (repeat 0 (N.to_nat 65536)))) = [130; 127; 0; 0; 0; 0; 0; 1; 0; 0] /\
  wf (new_frame Binary (repeat 0 (N.to_nat 65536))).
Proof.
  split; [vm_compute; reflexivity|]. split; [vm_compute; reflexivity|].
  apply new_frame_wf; [vm_compute; reflexivity|]. apply Forall_forall. intros x Hx. apply repeat_spec in Hx. subst. reflexivity.
Qed.


(* ================= the classification of all two-byte headers, spelled out ================= *)
Lemma skipn_skipn_add {A} (a b : nat) (l : list A) : skipn a (skipn b l) = skipn (a + b) l.
Proof.
  revert l. induction b as [|b IH]; intro l; [now rewrite Nat.add_0_r|].
  destruct l as [|x l]; [now rewrite !skipn_nil|]. rewrite Nat.add_succ_r. cbn [skipn]. apply IH.
Qed.

Lemma take_exact_lt n l : blen l < n -> take_exact n l = None.
Proof. apply take_exact_none. Qed.

Lemma take_exact_ge n l : n <= blen l -> take_exact n l = Some (firstn (N.to_nat n) l, skipn (N.to_nat n) l).
Proof. intro H. unfold take_exact. destruct (N.ltb_spec (blen l) n); [lia|reflexivity]. Qed.

Lemma parse_spec_classes h0 h1 rem :
  let len7 := h1 mod 128 in
  let extn := if len7 =? 126 then 2 else if len7 =? 127 then 8 else 0 in
  let keyn := if 128 <=? h1 then 4 else 0 in
  let n := if extn =? 0 then len7 else unsigned_be (firstn (N.to_nat extn) rem) in
  match opcode_of_value (h0 mod 16) with
  | None => parse_spec (h0 :: h1 :: rem) = Err InvalidOpcode
  | Some op =>
    if blen rem <? extn + keyn + n then parse_spec (h0 :: h1 :: rem) = Err ReadError
    else parse_spec (h0 :: h1 :: rem) =
         Ok (mkFrame (128 <=? h0) (64 <=? h0 mod 128) (32 <=? h0 mod 64) (16 <=? h0 mod 32) op (128 <=? h1) n
                     (if 128 <=? h1 then key_of_list (firstn 4 (skipn (N.to_nat extn) rem)) else zero_key)
                     (unmask (if 128 <=? h1 then key_of_list (firstn 4 (skipn (N.to_nat extn) rem)) else zero_key)
                             (firstn (N.to_nat n) (skipn (N.to_nat (extn + keyn)) rem))),
             skipn (N.to_nat (extn + keyn + n)) rem)
  end.
Proof.
  intros len7 extn keyn n. cbn [parse_spec]. destruct (opcode_of_value (h0 mod 16)) as [op|]; [|reflexivity].
  fold len7. fold extn. replace (if 128 <=? h1 then 4 else 0) with keyn by reflexivity.
  destruct (N.ltb_spec (blen rem) (extn + keyn + n)) as [L|L].
  - (* not enough bytes: one of the three reads fails *)
    destruct (N.ltb_spec (blen rem) extn) as [L1|L1]; [now rewrite (take_exact_lt _ _ L1)|].
    rewrite (take_exact_ge _ _ L1). fold n.
    destruct (N.ltb_spec (blen (skipn (N.to_nat extn) rem)) keyn) as [L2|L2]; [now rewrite (take_exact_lt _ _ L2)|].
    rewrite (take_exact_ge _ _ L2).
    rewrite take_exact_lt; [reflexivity|]. rewrite !blen_skipn in *. lia.
  - assert (L1 : extn <= blen rem) by lia. rewrite (take_exact_ge _ _ L1). fold n.
    assert (L2 : keyn <= blen (skipn (N.to_nat extn) rem)) by (rewrite blen_skipn; lia).
    rewrite (take_exact_ge _ _ L2).
    rewrite take_exact_ge by (rewrite !blen_skipn; lia).
    rewrite !skipn_skipn_add.
    replace (N.to_nat keyn + N.to_nat extn)%nat with (N.to_nat (extn + keyn)) by lia.
    replace (N.to_nat n + N.to_nat (extn + keyn))%nat with (N.to_nat (extn + keyn + n)) by lia.
    unfold keyn at 1 2. destruct (128 <=? h1); reflexivity.
Qed.

Theorem header_classes h0 h1 rem cs :
  h0 < 256 -> h1 < 256 -> wf_chunks cs -> concat cs = h0 :: h1 :: rem ->
  let len7 := h1 mod 128 in
  let extn := if len7 =? 126 then 2 else if len7 =? 127 then 8 else 0 in
  let keyn := if 128 <=? h1 then 4 else 0 in
  let n := if extn =? 0 then len7 else unsigned_be (firstn (N.to_nat extn) rem) in
  let key := if 128 <=? h1 then key_of_list (firstn 4 (skipn (N.to_nat extn) rem)) else zero_key in
  (In (h0 mod 16) reserved_opcodes /\ decode cs = Err InvalidOpcode) \/
  (exists op, rfc_opcode op = h0 mod 16 /\
     ((blen rem < extn + keyn + n /\ decode cs = Err ReadError) \/
      (extn + keyn + n <= blen rem /\
       exists cs', decode cs =
                   Ok (mkFrame (128 <=? h0) (64 <=? h0 mod 128) (32 <=? h0 mod 64) (16 <=? h0 mod 32) op (128 <=? h1) n key
                               (unmask key (firstn (N.to_nat n) (skipn (N.to_nat (extn + keyn)) rem))), cs')
                   /\ concat cs' = skipn (N.to_nat (extn + keyn + n)) rem /\ wf_chunks cs'))).
Proof.
  intros H0 H1 W Hc len7 extn keyn n key.
  pose proof (two_byte_headers h0 h1 rem cs H0 H1 W Hc) as R.
  pose proof (parse_spec_classes h0 h1 rem) as P. cbv zeta in P. fold len7 in P. fold extn in P. fold keyn in P.
  fold n in P. fold key in P.
  destruct (opcode_of_value (h0 mod 16)) as [op|] eqn:Eo.
  - right. exists op. split; [now apply opcode_of_value_some|].
    destruct (N.ltb_spec (blen rem) (extn + keyn + n)) as [L|L].
    + left. split; [assumption|]. rewrite P in R. now apply refines_err.
    + right. split; [assumption|]. rewrite P in R. now apply refines_ok.
  - left. split.
    + apply opcode_of_value_none; [apply N.mod_lt; lia|assumption].
    + rewrite P in R. now apply refines_err.
Qed.

(* ================= a stream of frames (used by the message layer, C11) ================= *)
(* k successive calls of the decoder on the same reader *)
Fixpoint decode_many (k : nat) (cs : chunks) : outcome (list frame * chunks) :=
  match k with
  | O => Ok ([], cs)
  | S k' =>
    match decode cs with
    | Ok (f, cs1) =>
      match decode_many k' cs1 with
      | Ok (fs, cs2) => Ok (f :: fs, cs2)
      | Err e => Err e
      | Crash w => Crash w
      end
    | Err e => Err e
    | Crash w => Crash w
    end
  end.

Theorem decode_many_encode fs : forall rest cs,
  Forall wf fs -> wf_chunks cs -> concat cs = concat (map encode fs) ++ rest ->
  exists cs', decode_many (length fs) cs = Ok (map norm fs, cs') /\ concat cs' = rest /\ wf_chunks cs'.
Proof.
  induction fs as [|f fs IH]; intros rest cs HW W Hc; cbn [length decode_many map concat] in *.
  - exists cs. auto.
  - inversion HW as [|? ? Hf HW']; subst. rewrite <- app_assoc in Hc.
    destruct (decode_encode f _ cs Hf W Hc) as (cs1 & -> & Hc1 & W1).
    destruct (IH rest cs1 HW' W1 Hc1) as (cs2 & -> & Hc2 & W2). exists cs2. auto.
Qed.

(* ================= reads that return 0 bytes =================
   Every list of chunks is either free of empty chunks (all theorems above) or of the form cs1 ++ [] :: cs2: the
   decoder then behaves as on cs1 alone (an Ok(0) read is EOF) and never looks at cs2. *)
Definition with_tail (tail : chunks) (a : outcome (frame * chunks)) : outcome (frame * chunks) :=
  match a with Ok (f, r) => Ok (f, r ++ tail) | Err e => Err e | Crash w => Crash w end.

Lemma read_len_eof_app len7 cs1 cs2 :
  read_len len7 (cs1 ++ [] :: cs2) =
  match read_len len7 cs1 with Some (n, r) => Some (n, r ++ [] :: cs2) | None => None end.
Proof.
  unfold read_len. destruct (len7 =? 126); [|destruct (len7 =? 127)]; try reflexivity;
    rewrite read_exact_eof_app; match goal with |- context [read_exact ?k cs1] => destruct (read_exact k cs1) as [[? ?]|] end;
    reflexivity.
Qed.

Lemma read_key_eof_app (m : bool) cs1 cs2 :
  read_key m (cs1 ++ [] :: cs2) =
  match read_key m cs1 with Some (k, r) => Some (k, r ++ [] :: cs2) | None => None end.
Proof.
  unfold read_key. destruct m; [|reflexivity]. rewrite read_exact_eof_app.
  destruct (read_exact 4 cs1) as [[? ?]|]; reflexivity.
Qed.

Lemma from_stream_inner_eof_app cs1 cs2 h0 h1 :
  fst (from_stream_inner (cs1 ++ [] :: cs2) h0 h1) = with_tail ([] :: cs2) (fst (from_stream_inner cs1 h0 h1)).
Proof.
  unfold from_stream_inner. destruct (opcode_of_N (N.land h0 15)); [|reflexivity].
  rewrite read_len_eof_app. destruct (read_len (N.land h1 127) cs1) as [[n c2]|]; [|reflexivity].
  rewrite read_key_eof_app. destruct (read_key (negb (N.land h1 128 =? 0)) c2) as [[key c3]|]; [|reflexivity].
  destruct (read_take n (c3 ++ [] :: cs2)) as [d1 r1] eqn:E1. destruct (read_take n c3) as [d2 r2] eqn:E2.
  destruct (read_take_eof_app c3 cs2 n) as [Hf Hs]. unfold chunks, bytes in *. rewrite E1, E2 in Hf, Hs. cbn [fst snd] in Hf, Hs. rewrite Hf.
  destruct (blen d2 =? n) eqn:E; [|reflexivity]. apply N.eqb_eq in E. rewrite (Hs E). reflexivity.
Qed.

Theorem decode_zero_read cs1 cs2 : decode (cs1 ++ [] :: cs2) = with_tail ([] :: cs2) (decode cs1).
Proof.
  unfold decode, decode_m. rewrite read_exact_eof_app.
  destruct (read_exact 2 cs1) as [[hdr c1]|]; [|reflexivity].
  destruct hdr as [|h0 [|h1 [|? ?]]]; try reflexivity. apply from_stream_inner_eof_app.
Qed.

(* in particular a read returning 0 before the frame is complete is a read error *)
Corollary decode_zero_read_truncated f b cs1 cs2 :
  wf f -> strict_prefix b (encode f) -> wf_chunks cs1 -> concat cs1 = b -> decode (cs1 ++ [] :: cs2) = Err ReadError.
Proof. intros Hw Hp W Hc. rewrite decode_zero_read, (decode_truncated f b cs1 Hw Hp W Hc). reflexivity. Qed.
