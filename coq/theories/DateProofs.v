(* Proofs about the HTTP-date model (C18, date part).
   Plan: (1) the quot/rem + fix-up steps are floor division; (2) year_day returns the unique canonical pair
   (March-based year Y, day rd within that year) for every day count (400/100/4/1-year decomposition, by lia with
   euclidean division equations); (3) the month loop and the day-by-day calendar `next_day` are compared on the finite
   domain rd in [0,366) x leap flags by a vm_compute sweep and lifted to every year; (4) induction over days from
   1970-01-01 gives date_part (n - 11017) = civil n for EVERY n >= 0 (no upper bound); (5) casts, time of day, weekday,
   formatting. *)
From Hv Require Import Prelude TablesDate Date.
From Coq Require Import Lia.
Open Scope Z_scope.
Ltac Zify.zify_post_hook ::= Z.to_euclidean_division_equations.

(* ---------------------------------------------------------------------------------------------------- *)
Lemma consts : DAY = 86400 /\ DAYS_4_YEARS = 1461 /\ DAYS_100_YEARS = 36524 /\ DAYS_400_YEARS = 146097
  /\ MARCH_01_2000 = 11017 * 86400 /\ HOUR = 3600 /\ MINUTE = 60.
Proof. repeat split. Qed.

Lemma split_time_spec : forall s, split_time s = (s / 86400, s mod 86400).
Proof.
  intros s. unfold split_time. replace DAY with 86400 by reflexivity.
  destruct (Z.rem s 86400 <? 0) eqn:E; f_equal; lia.
Qed.

Lemma weekday_of_spec : forall d, weekday_of d = (d + 3) mod 7.
Proof. intros d. unfold weekday_of. destruct (Z.rem (d + 3) 7 <? 0) eqn:E; lia. Qed.

Definition mdays (Y : Z) : Z := 365 * (Y - 2000) + (Y - 2000) / 4 - (Y - 2000) / 100 + (Y - 2000) / 400.
Definition ylen (Y : Z) : Z := if is_leap (Y + 1) then 366 else 365.

Lemma is_leap_spec : forall y, is_leap y = true <-> (y mod 4 = 0 /\ (y mod 100 <> 0 \/ y mod 400 = 0)).
Proof.
  intros y. unfold is_leap. rewrite andb_true_iff, orb_true_iff, negb_true_iff, !Z.eqb_eq, Z.eqb_neq. tauto.
Qed.

Lemma year_day_spec : forall D, let '(Y, rd) := year_day D in 0 <= rd < ylen Y /\ D = mdays Y + rd.
Proof.
  intros D. unfold year_day.
  replace DAYS_400_YEARS with 146097 by reflexivity.
  replace DAYS_100_YEARS with 36524 by reflexivity.
  replace DAYS_4_YEARS with 1461 by reflexivity.
  set (q0 := Z.quot D 146097). set (r := Z.rem D 146097).
  assert (Hq : D = 146097 * q0 + r /\ -146097 < r < 146097) by (subst q0 r; lia).
  clearbody q0 r.
  set (q := if r <? 0 then q0 - 1 else q0). set (r0 := if r <? 0 then r + 146097 else r).
  assert (Hq' : D = 146097 * q + r0 /\ 0 <= r0 < 146097) by (subst q r0; destruct (r <? 0) eqn:E; lia).
  clearbody q r0. clear Hq q0 r.
  set (b0 := Z.quot r0 36524).
  assert (Hb0 : r0 = 36524 * b0 + (r0 - 36524 * b0) /\ 0 <= r0 - 36524 * b0 < 36524 /\ 0 <= b0 <= 4) by (subst b0; lia).
  clearbody b0.
  set (b := if b0 =? 4 then b0 - 1 else b0).
  assert (Hb : 0 <= b <= 3 /\ 0 <= r0 - b * 36524 <= 36524 /\ (r0 - b * 36524 = 36524 -> b = 3))
    by (subst b; destruct (b0 =? 4) eqn:E; lia).
  clearbody b. clear Hb0 b0.
  set (r1 := r0 - b * 36524) in *.
  assert (Hr1 : r0 = r1 + b * 36524) by (subst r1; lia). clearbody r1.
  set (c0 := Z.quot r1 1461).
  assert (Hc0 : 0 <= r1 - 1461 * c0 < 1461 /\ 0 <= c0 <= 24) by (subst c0; lia).
  clearbody c0.
  set (c := if c0 =? 25 then c0 - 1 else c0).
  assert (Hc : c = c0) by (subst c; destruct (c0 =? 25) eqn:E; lia).
  clearbody c. subst c0.
  set (r2 := r1 - c * 1461) in *.
  assert (Hr2 : r1 = r2 + c * 1461) by (subst r2; lia). clearbody r2.
  set (e0 := Z.quot r2 365).
  assert (He0 : 0 <= r2 - 365 * e0 < 365 /\ 0 <= e0 <= 4) by (subst e0; lia).
  clearbody e0.
  set (e := if e0 =? 4 then e0 - 1 else e0).
  assert (He : 0 <= e <= 3 /\ 0 <= r2 - e * 365 <= 365 /\ (r2 - e * 365 = 365 -> e = 3))
    by (subst e; destruct (e0 =? 4) eqn:E; lia).
  clearbody e. clear He0 e0.
  set (rd := r2 - e * 365) in *.
  assert (Hrd : r2 = rd + e * 365) by (subst rd; lia). clearbody rd.
  set (Y := e + 4 * c + 100 * b + 400 * q + 2000).
  assert (HY : Y - 2000 = e + 4 * c + 100 * b + 400 * q) by (subst Y; lia). clearbody Y.
  assert (Hm : mdays Y = 365 * (Y - 2000) + (100 * q + 25 * b + c) - (4 * q + b) + q).
  { unfold mdays. rewrite HY.
    assert ((e + 4 * c + 100 * b + 400 * q) / 4 = 100 * q + 25 * b + c) by lia.
    assert ((e + 4 * c + 100 * b + 400 * q) / 100 = 4 * q + b) by lia.
    assert ((e + 4 * c + 100 * b + 400 * q) / 400 = q) by lia. lia. }
  split; [|lia].
  unfold ylen. destruct (is_leap (Y + 1)) eqn:L.
  - lia.
  - assert (rd <> 365); [|lia]. intros E365.
    assert (HL : is_leap (Y + 1) = true); [|congruence].
    apply is_leap_spec.
    assert (e = 3) by lia.
    assert (c <> 24 \/ b = 3) by lia.
    replace (Y + 1) with (4 * (c + 1) + 100 * b + 400 * q + 2000) by lia. lia.
Qed.

(* ---------------------------------------------------------------------------------------------------- *)
Lemma ylen_pos : forall Y, 365 <= ylen Y <= 366.
Proof. intros Y. unfold ylen. destruct (is_leap (Y + 1)); lia. Qed.

Lemma mdays_succ : forall Y, mdays (Y + 1) = mdays Y + ylen Y.
Proof.
  intros Y. unfold mdays, ylen. destruct (is_leap (Y + 1)) eqn:L.
  - apply is_leap_spec in L. lia.
  - assert (N : ~ ((Y + 1) mod 4 = 0 /\ ((Y + 1) mod 100 <> 0 \/ (Y + 1) mod 400 = 0))).
    { intros H. apply is_leap_spec in H. congruence. }
    lia.
Qed.

Lemma mdays_mono : forall a b, a <= b -> mdays a <= mdays b.
Proof. intros a b H. unfold mdays. lia. Qed.

Lemma canonical_unique : forall Y rd Y' rd',
  0 <= rd < ylen Y -> 0 <= rd' < ylen Y' -> mdays Y + rd = mdays Y' + rd' -> Y = Y' /\ rd = rd'.
Proof.
  intros Y rd Y' rd' H H' E.
  assert (Y = Y'); [|subst; lia].
  destruct (Z.lt_trichotomy Y Y') as [L|[L|L]]; [|exact L|].
  - pose proof (mdays_mono (Y + 1) Y' ltac:(lia)). rewrite mdays_succ in *. lia.
  - pose proof (mdays_mono (Y' + 1) Y ltac:(lia)). rewrite mdays_succ in *. lia.
Qed.

(* ---------------------------------------------------------------------------------------------------- *)
Definition shift (Y : Z) (r : Z * Z * Z) : cdate := let '(yi, m0, d) := r in mkC (Y + yi) (m0 + 1) d.

Definition next_rel (L0 L1 : bool) (r : Z * Z * Z) : Z * Z * Z :=
  let '(yi, m0, d) := r in
  let leap := if yi =? 0 then L0 else L1 in
  if d <? month_length leap (m0 + 1) then (yi, m0, d + 1)
  else if m0 + 1 <? 12 then (yi, m0 + 1, 1)
  else (yi + 1, 0, 1).

Definition eq3 (a b : Z * Z * Z) : bool :=
  let '(a1, a2, a3) := a in let '(b1, b2, b3) := b in (a1 =? b1) && (a2 =? b2) && (a3 =? b3).
Lemma eq3_eq : forall a b, eq3 a b = true -> a = b.
Proof.
  intros [[a1 a2] a3] [[b1 b2] b3] H. cbn in H. apply andb_true_iff in H. destruct H as [H H3].
  apply andb_true_iff in H. destruct H as [H1 H2]. apply Z.eqb_eq in H1, H2, H3. subst. reflexivity.
Qed.

Definition step_ok (L0 L1 : bool) (rd : Z) : bool :=
  match month_day rd with
  | Ok (yi, m0, d) =>
    ((yi =? 0) || (yi =? 1)) &&
    (if rd + 1 <? (if L1 then 366 else 365) then
       match month_day (rd + 1) with Ok r' => eq3 (next_rel L0 L1 (yi, m0, d)) r' | _ => false end
     else
       match month_day 0 with Ok (yi0, m00, d0) => eq3 (next_rel L0 L1 (yi, m0, d)) (yi0 + 1, m00, d0) | _ => false end)
  | _ => false
  end.

Definition zrange (n : nat) : list Z := map Z.of_nat (seq 0 n).
Lemma zrange_In : forall n z, 0 <= z < Z.of_nat n -> In z (zrange n).
Proof.
  intros n z H. unfold zrange. apply in_map_iff. exists (Z.to_nat z). split; [lia|]. apply in_seq. lia.
Qed.

Definition sweep_ok (L0 L1 : bool) : bool :=
  forallb (fun rd => if rd <? (if L1 then 366 else 365) then step_ok L0 L1 rd else true) (zrange 366).

Lemma sweep_all : sweep_ok false false && sweep_ok false true && sweep_ok true false && sweep_ok true true = true.
Proof. vm_compute. reflexivity. Qed.

Lemma step_ok_all : forall (L0 L1 : bool) (rd : Z), 0 <= rd < (if L1 then 366 else 365) -> step_ok L0 L1 rd = true.
Proof.
  intros L0 L1 rd H. pose proof sweep_all as S.
  apply andb_true_iff in S. destruct S as [S S4]. apply andb_true_iff in S. destruct S as [S S3].
  apply andb_true_iff in S. destruct S as [S1 S2].
  assert (Hin : In rd (zrange 366)) by (apply zrange_In; destruct L1; lia).
  assert (G : forall a b, sweep_ok a b = true -> 0 <= rd < (if b then 366 else 365) -> step_ok a b rd = true).
  { intros a b Hs Hr. unfold sweep_ok in Hs. rewrite forallb_forall in Hs. specialize (Hs rd Hin).
    destruct (rd <? (if b then 366 else 365)) eqn:E; [exact Hs | lia]. }
  destruct L0, L1; apply G; assumption.
Qed.

Lemma next_day_shift : forall Y yi m0 d, yi = 0 \/ yi = 1 ->
  next_day (shift Y (yi, m0, d)) = shift Y (next_rel (is_leap Y) (is_leap (Y + 1)) (yi, m0, d)).
Proof.
  intros Y yi m0 d Hyi. unfold next_day, shift, next_rel, days_in_month. cbn [c_year c_month c_day].
  assert (EL : is_leap (Y + yi) = (if yi =? 0 then is_leap Y else is_leap (Y + 1))).
  { destruct Hyi; subst; [rewrite Z.add_0_r|]; reflexivity. }
  rewrite EL.
  destruct (d <? month_length (if yi =? 0 then is_leap Y else is_leap (Y + 1)) (m0 + 1)); [reflexivity|].
  destruct (m0 + 1 <? 12); [reflexivity|]. f_equal; lia.
Qed.

Definition Inv (n : nat) : Prop :=
  exists Y rd r, 0 <= rd < ylen Y /\ Z.of_nat n - 11017 = mdays Y + rd /\ month_day rd = Ok r /\ civil_nat n = shift Y r.

Lemma inv_all : forall n, Inv n.
Proof.
  induction n as [|n IH].
  - exists 1969, 306, (1, 0, 1). repeat split; try (vm_compute; congruence).
  - destruct IH as [Y [rd [r [Hrd [HD [Hmd Hc]]]]]].
    pose proof (step_ok_all (is_leap Y) (is_leap (Y + 1)) rd) as HS. unfold ylen in Hrd.
    specialize (HS Hrd). unfold step_ok in HS. rewrite Hmd in HS. destruct r as [[yi m0] d].
    apply andb_true_iff in HS. destruct HS as [Hyi HS].
    assert (Hyi' : yi = 0 \/ yi = 1) by (apply orb_true_iff in Hyi; rewrite !Z.eqb_eq in Hyi; exact Hyi).
    assert (Hn : civil_nat (S n) = shift Y (next_rel (is_leap Y) (is_leap (Y + 1)) (yi, m0, d)))
      by (cbn [civil_nat]; rewrite Hc; apply (next_day_shift Y yi m0 d Hyi')).
    destruct (rd + 1 <? (if is_leap (Y + 1) then 366 else 365)) eqn:E.
    + destruct (month_day (rd + 1)) as [r'| |] eqn:Hmd'; try discriminate. apply eq3_eq in HS.
      exists Y, (rd + 1), r'. unfold ylen. repeat split; try lia; [exact Hmd' | rewrite Hn, HS; reflexivity].
    + destruct (month_day 0) as [[[yi0 m00] d0]| |] eqn:Hmd'; try discriminate. apply eq3_eq in HS.
      exists (Y + 1), 0, (yi0, m00, d0). pose proof (ylen_pos (Y + 1)). rewrite mdays_succ. unfold ylen at 2.
      repeat split; try lia; [exact Hmd'|]. rewrite Hn, HS. unfold shift. f_equal. lia.
Qed.

Lemma date_part_civil : forall n : nat,
  exists y m0 d, date_part (Z.of_nat n - 11017) = Ok (y, m0, d) /\ civil_nat n = mkC y (m0 + 1) d.
Proof.
  intros n. destruct (inv_all n) as [Y [rd [[[yi m0] d] [Hrd [HD [Hmd Hc]]]]]].
  unfold date_part. pose proof (year_day_spec (Z.of_nat n - 11017)) as YS.
  destruct (year_day (Z.of_nat n - 11017)) as [Y' rd']. destruct YS as [Hrd' HD'].
  destruct (canonical_unique Y rd Y' rd' Hrd Hrd' ltac:(lia)) as [EY Er]. subst Y' rd'.
  rewrite Hmd. exists (Y + yi), m0, d. split; [reflexivity | exact Hc].
Qed.

(* ---------------------------------------------------------------------------------------------------- *)
(* ranges of what the month loop returns *)
Definition md_range_ok (rd : Z) : bool :=
  match month_day rd with
  | Ok (yi, m0, d) => (0 <=? m0) && (m0 <=? 11) && (1 <=? d) && (d <=? 31) && (yi =? (if rd <? 306 then 0 else 1))
  | _ => false
  end.
Lemma md_range_sweep : forallb md_range_ok (zrange 366) = true.
Proof. vm_compute. reflexivity. Qed.
Lemma month_day_range : forall rd, 0 <= rd < 366 ->
  exists yi m0 d, month_day rd = Ok (yi, m0, d) /\ 0 <= m0 <= 11 /\ 1 <= d <= 31 /\ yi = (if rd <? 306 then 0 else 1).
Proof.
  intros rd H. pose proof md_range_sweep as S. rewrite forallb_forall in S.
  specialize (S rd (zrange_In 366 rd ltac:(lia))). unfold md_range_ok in S.
  destruct (month_day rd) as [[[yi m0] d]| |]; try discriminate.
  exists yi, m0, d. split; [reflexivity|].
  repeat (apply andb_true_iff in S; destruct S as [S ?]). lia.
Qed.

(* the date part for a day number n >= 0 counted from 1970-01-01, with ranges and year bounds *)
Lemma date_part_civil_Z : forall n, 0 <= n ->
  exists y m0 d, date_part (n - 11017) = Ok (y, m0, d) /\ civil n = mkC y (m0 + 1) d /\
                 0 <= m0 <= 11 /\ 1 <= d <= 31 /\
                 (forall Y1, n - 11017 < mdays Y1 + 306 -> y <= Y1) /\
                 (forall Y0, mdays Y0 + 306 <= n - 11017 -> Y0 + 1 <= y).
Proof.
  intros n Hn. unfold civil.
  destruct (inv_all (Z.to_nat n)) as [Y [rd [[[yi m0] d] [Hrd [HD [Hmd Hc]]]]]].
  rewrite Z2Nat.id in HD by lia.
  unfold date_part. pose proof (year_day_spec (n - 11017)) as YS.
  destruct (year_day (n - 11017)) as [Y' rd']. destruct YS as [Hrd' HD'].
  destruct (canonical_unique Y rd Y' rd' Hrd Hrd' ltac:(lia)) as [EY Er]. subst Y' rd'.
  rewrite Hmd. exists (Y + yi), m0, d.
  pose proof (ylen_pos Y) as YL.
  destruct (month_day_range rd ltac:(lia)) as [yi' [m0' [d' [E [Hm [Hd Hyi]]]]]].
  rewrite Hmd in E. injection E as E1 E2 E3. subst yi' m0' d'.
  split; [reflexivity|]. split; [exact Hc|]. split; [exact Hm|]. split; [exact Hd|]. split.
  - intros Y1 HY1. destruct (Z_le_gt_dec (Y1 + 1) Y) as [L|G].
    + pose proof (mdays_mono (Y1 + 1) Y L) as M. rewrite mdays_succ in M. pose proof (ylen_pos Y1). lia.
    + destruct (Z.eq_dec Y Y1) as [EY|NY]; [subst Y1; destruct (rd <? 306) eqn:E; lia | destruct (rd <? 306); lia].
  - intros Y0 HY0. destruct (Z_le_gt_dec (Y0 + 1) Y) as [L|G]; [destruct (rd <? 306); lia|].
    destruct (Z.eq_dec Y Y0) as [EY|NY]; [subst Y0; destruct (rd <? 306) eqn:E; lia|].
    pose proof (mdays_mono (Y + 1) Y0 ltac:(lia)) as M. rewrite mdays_succ in M. lia.
Qed.

Lemma weekday_nat_spec : forall n, weekday_nat n = (Z.of_nat n + 4) mod 7.
Proof.
  induction n as [|n IH]; [reflexivity|].
  cbn [weekday_nat]. rewrite IH. destruct ((Z.of_nat n + 4) mod 7 =? 6) eqn:E; lia.
Qed.

Lemma weekday_count_spec : forall n, 0 <= n -> weekday_count n = (n + 4) mod 7.
Proof. intros n H. unfold weekday_count. rewrite weekday_nat_spec, Z2Nat.id by lia. reflexivity. Qed.

Definition time_ok (t : Z) (d : datetime) : Prop :=
  dt_hour d * 3600 + dt_minute d * 60 + dt_second d = t mod 86400 /\
  0 <= dt_hour d < 24 /\ 0 <= dt_minute d < 60 /\ 0 <= dt_second d < 60 /\
  dt_hour d = (t mod 86400) / 3600 /\ dt_minute d = (t mod 86400) / 60 mod 60 /\ dt_second d = t mod 60.

Definition ts_end_u16 : Z := 2005949145600.  (* 65536-01-01 00:00:00 *)

Lemma ends_check : ts_end_9999 = 86400 * (mdays 9999 + 306 + 11017) /\ ts_end_u16 = 86400 * (mdays 65535 + 306 + 11017)
                   /\ mdays 1969 + 306 + 11017 = 0.
Proof. vm_compute. repeat split. Qed.

Lemma tod_spec : forall rs, 0 <= rs < 86400 ->
  let h := Z.quot rs 3600 mod 256 in let mi := Z.rem (Z.quot rs 60) 60 mod 256 in let s := Z.rem rs 60 mod 256 in
  h * 3600 + mi * 60 + s = rs /\ 0 <= h < 24 /\ 0 <= mi < 60 /\ 0 <= s < 60 /\
  h = rs / 3600 /\ mi = rs / 60 mod 60 /\ s = rs mod 60.
Proof.
  intros rs H. cbv zeta.
  assert (Hh : Z.quot rs 3600 mod 256 = rs / 3600) by lia.
  assert (Hmi : Z.rem (Z.quot rs 60) 60 mod 256 = rs / 60 mod 60) by lia.
  assert (Hs : Z.rem rs 60 mod 256 = rs mod 60) by lia.
  rewrite Hh, Hmi, Hs. clear Hh Hmi Hs.
  repeat split; lia.
Qed.

Lemma from_timestamp_correct_gen : forall t Ymax, 0 <= t < 86400 * (mdays Ymax + 306 + 11017) -> Ymax <= 65535 ->
  exists d, from_timestamp t = Ok d /\
    dt_timestamp d = t /\
    mkC (dt_year d) (dt_month d + 1) (dt_day d) = civil (t / 86400) /\
    1970 <= dt_year d <= Ymax /\ 0 <= dt_month d <= 11 /\ 1 <= dt_day d <= 31 /\
    dt_weekday d = (t / 86400 + 4) mod 7 /\ dt_weekday d = weekday_count (t / 86400) /\
    time_ok t d.
Proof.
  intros t Ymax Ht HY. unfold from_timestamp.
  assert (Hend : mdays Ymax <= mdays 65535) by (apply mdays_mono; exact HY).
  assert (Hm65535 : mdays 65535 = 23205681) by (vm_compute; reflexivity).
  replace MARCH_01_2000 with (11017 * 86400) by reflexivity.
  assert (Hin : in_i64 (t - 11017 * 86400) = true).
  { unfold in_i64, i64_min, i64_max. apply andb_true_iff. rewrite !Z.leb_le. lia. }
  rewrite Hin. cbn [negb]. rewrite split_time_spec.
  set (n := t / 86400).
  assert (Hn : 0 <= n /\ n - 11017 < mdays Ymax + 306) by (subst n; lia).
  assert (E1 : (t - 11017 * 86400) / 86400 = n - 11017) by (subst n; lia).
  assert (E2 : (t - 11017 * 86400) mod 86400 = t mod 86400) by lia.
  rewrite E1, E2.
  destruct (date_part_civil_Z n ltac:(lia)) as [y [m0 [d [Hdp [Hc [Hm [Hd [Hup Hlo]]]]]]]].
  rewrite Hdp.
  specialize (Hup Ymax ltac:(lia)). specialize (Hlo 1969 ltac:(vm_compute mdays; lia)).
  eexists. split; [reflexivity|]. cbn [dt_timestamp dt_year dt_month dt_day dt_weekday dt_hour dt_minute dt_second].
  unfold as_u16, as_u8. rewrite weekday_of_spec, weekday_count_spec by lia.
  unfold time_ok. cbn [dt_hour dt_minute dt_second].
  set (rs := t mod 86400). assert (Hrs : 0 <= rs < 86400) by (subst rs; lia).
  assert (Ers : t mod 60 = rs mod 60) by (subst rs; lia).
  rewrite Ers. clearbody rs n.
  rewrite (Z.mod_small y), (Z.mod_small m0), (Z.mod_small d) by lia.
  assert (Hw : ((n - 11017 + 3) mod 7) mod 256 = (n + 4) mod 7) by lia.
  rewrite Hw.
  split; [reflexivity|]. split; [symmetry; exact Hc|]. split; [lia|]. split; [lia|]. split; [lia|].
  split; [reflexivity|]. split; [reflexivity|].
  exact (tod_spec rs Hrs).
Qed.

(* ---------------------------------------------------------------------------------------------------- *)
Lemma date_format_is : DATE_FORMAT =
  [123; 125; 44; 32; 123; 58; 48; 50; 125; 32; 123; 58; 48; 50; 125; 32; 123; 125; 32; 123; 58; 48; 50; 125; 58;
   123; 58; 48; 50; 125; 58; 123; 58; 48; 50; 125; 32; 71; 77; 84]%N.   (* "{}, {:02} {:02} {} {:02}:{:02}:{:02} GMT" *)
Proof. reflexivity. Qed.

Lemma days_table_rfc : forall w, 0 <= w <= 6 -> nth_error DAYS (Z.to_nat w) = Some (rfc_day_name w).
Proof.
  intros w H. assert (C : w = 0 \/ w = 1 \/ w = 2 \/ w = 3 \/ w = 4 \/ w = 5 \/ w = 6) by lia.
  repeat (destruct C as [C|C]; [subst w; reflexivity|]). subst w. reflexivity.
Qed.

Lemma months_table_rfc : forall m0, 0 <= m0 <= 11 -> nth_error MONTHS (Z.to_nat m0) = Some (rfc_month_name (m0 + 1)).
Proof.
  intros m H.
  assert (C : m = 0 \/ m = 1 \/ m = 2 \/ m = 3 \/ m = 4 \/ m = 5 \/ m = 6 \/ m = 7 \/ m = 8 \/ m = 9 \/ m = 10 \/ m = 11) by lia.
  repeat (destruct C as [C|C]; [subst m; reflexivity|]). subst m. reflexivity.
Qed.

Lemma rfc_month_name_len : forall m, length (rfc_month_name m) = 3%nat.
Proof. intros m. unfold rfc_month_name. repeat match goal with |- context [match ?x with _ => _ end] => destruct x end; reflexivity. Qed.
Lemma rfc_day_name_len : forall w, length (rfc_day_name w) = 3%nat.
Proof. intros w. unfold rfc_day_name. repeat match goal with |- context [match ?x with _ => _ end] => destruct x end; reflexivity. Qed.

Lemma fmt_str02_id : forall s, length s = 3%nat -> fmt_str02 s = s.
Proof. intros s H. unfold fmt_str02. rewrite H. cbn [Nat.sub repeat]. apply app_nil_r. Qed.

Lemma fmt_02_d2 : forall v, 0 <= v < 100 -> fmt_02 v = d2 v.
Proof.
  intros v H. unfold fmt_02, d2. destruct (v <? 10) eqn:E.
  - assert (E1 : v / 10 = 0) by lia. assert (E2 : v mod 10 = v) by lia. rewrite E1, E2. reflexivity.
  - assert (E2 : (v <? 100) = true) by lia. rewrite E2. reflexivity.
Qed.

Lemma fmt_u16_d4 : forall v, 1000 <= v < 10000 -> fmt_u16 v = d4 v.
Proof.
  intros v H. unfold fmt_u16, d4.
  assert (E1 : (v <? 10) = false) by lia. assert (E2 : (v <? 100) = false) by lia.
  assert (E3 : (v <? 1000) = false) by lia. assert (E4 : (v <? 10000) = true) by lia.
  rewrite E1, E2, E3, E4. reflexivity.
Qed.

Lemma to_string_imf : forall d,
  1000 <= dt_year d < 10000 -> 0 <= dt_month d <= 11 -> 1 <= dt_day d <= 31 -> 0 <= dt_weekday d <= 6 ->
  0 <= dt_hour d < 24 -> 0 <= dt_minute d < 60 -> 0 <= dt_second d < 60 ->
  to_string d = Ok (imf_fixdate (mkC (dt_year d) (dt_month d + 1) (dt_day d)) (dt_weekday d)
                                (dt_hour d) (dt_minute d) (dt_second d)).
Proof.
  intros d Hy Hm Hd Hw Hh Hmi Hs. unfold to_string, imf_fixdate. cbn [c_year c_month c_day].
  rewrite (days_table_rfc _ Hw), (months_table_rfc _ Hm).
  rewrite (fmt_str02_id _ (rfc_month_name_len _)).
  rewrite !fmt_02_d2 by lia. rewrite (fmt_u16_d4 _ Hy). reflexivity.
Qed.

Lemma imf_fixdate_length : forall c w h m s, length (imf_fixdate c w h m s) = 29%nat.
Proof.
  intros c w h m s. unfold imf_fixdate. rewrite !app_length, rfc_day_name_len, rfc_month_name_len. reflexivity.
Qed.

(* the digit fields really are ASCII digits *)
Definition is_ascii_digit (c : N) : Prop := (48 <= c <= 57)%N.
Lemma digit_ascii : forall v, 0 <= v <= 9 -> is_ascii_digit (digit v).
Proof. intros v H. unfold is_ascii_digit, digit. lia. Qed.
Lemma d2_digits : forall v, 0 <= v < 100 -> Forall is_ascii_digit (d2 v).
Proof. intros v H. unfold d2. repeat constructor; apply digit_ascii; lia. Qed.
Lemma d4_digits : forall v, 0 <= v < 10000 -> Forall is_ascii_digit (d4 v).
Proof. intros v H. unfold d4. repeat constructor; apply digit_ascii; lia. Qed.

(* value of a fixed-width decimal field *)
Definition dec_value (l : list N) : Z := fold_left (fun acc c => 10 * acc + (Z.of_N c - 48)) l 0.
Lemma d2_value : forall v, 0 <= v < 100 -> dec_value (d2 v) = v.
Proof. intros v H. unfold dec_value, d2, digit. cbn [fold_left]. rewrite !Z2N.id by lia. lia. Qed.
Lemma d4_value : forall v, 0 <= v < 10000 -> dec_value (d4 v) = v.
Proof. intros v H. unfold dec_value, d4, digit. cbn [fold_left]. rewrite !Z2N.id by lia. lia. Qed.

Lemma http_date_correct : forall t, 0 <= t < ts_end_9999 ->
  exists d, from_timestamp t = Ok d /\
    http_date t = Ok (imf_fixdate (civil (t / 86400)) ((t / 86400 + 4) mod 7)
                                  ((t mod 86400) / 3600) ((t mod 86400) / 60 mod 60) (t mod 60)) /\
    (exists s, http_date t = Ok s /\ length s = 29%nat).
Proof.
  intros t Ht. destruct ends_check as [E9 _].
  destruct (from_timestamp_correct_gen t 9999 ltac:(rewrite <- E9; exact Ht) ltac:(lia))
    as [d [Hd [Hts [Hc [Hy [Hm [Hdd [Hw [_ Ht']]]]]]]]].
  destruct Ht' as [_ [Hh [Hmi [Hs [Eh [Emi Es]]]]]].
  exists d. split; [exact Hd|]. unfold http_date. rewrite Hd.
  rewrite to_string_imf; try lia.
  - rewrite Hc, Hw, Eh, Emi, Es. split; [reflexivity|]. eexists. split; [reflexivity | apply imf_fixdate_length].
Qed.

(* ---------------------------------------------------------------------------------------------------- *)
(* sanity of the reference calendar itself: every counted date is a valid Gregorian date *)
Definition valid_date (c : cdate) : Prop :=
  1 <= c_month c <= 12 /\ 1 <= c_day c <= days_in_month (c_year c) (c_month c).

Lemma month_length_bounds : forall l m, 28 <= month_length l m <= 31.
Proof.
  intros l m. unfold month_length.
  repeat match goal with |- context [match ?x with _ => _ end] => destruct x end; lia.
Qed.

Lemma next_day_valid : forall c, valid_date c -> valid_date (next_day c).
Proof.
  intros [y m d] [Hm Hd]. cbn [c_year c_month c_day] in *. unfold next_day, valid_date. cbn [c_year c_month c_day].
  destruct (d <? days_in_month y m) eqn:E1; cbn [c_year c_month c_day].
  - lia.
  - destruct (m <? 12) eqn:E2; cbn [c_year c_month c_day]; unfold days_in_month;
      pose proof (month_length_bounds (is_leap y) (m + 1)); pose proof (month_length_bounds (is_leap (y + 1)) 1); lia.
Qed.

Lemma civil_valid : forall n, valid_date (civil n).
Proof.
  intros n. unfold civil. induction (Z.to_nat n) as [|k IH].
  - vm_compute. repeat split; discriminate.
  - cbn [civil_nat]. apply next_day_valid, IH.
Qed.

Lemma civil_0 : civil 0 = mkC 1970 1 1.
Proof. reflexivity. Qed.

Lemma civil_succ : forall n, 0 <= n -> civil (n + 1) = next_day (civil n).
Proof. intros n H. unfold civil. rewrite Z2Nat.inj_add by lia. rewrite Nat.add_1_r. reflexivity. Qed.

Lemma weekday_count_0 : weekday_count 0 = 4.
Proof. reflexivity. Qed.
Lemma weekday_count_succ : forall n, 0 <= n ->
  weekday_count (n + 1) = if weekday_count n =? 6 then 0 else weekday_count n + 1.
Proof. intros n H. unfold weekday_count. rewrite Z2Nat.inj_add by lia. rewrite Nat.add_1_r. reflexivity. Qed.

(* final forms used by props/C18_date.v *)
Lemma date_correct_9999 : forall t, 0 <= t < 253402300800 ->
  exists d, from_timestamp t = Ok d /\
    dt_timestamp d = t /\
    mkC (dt_year d) (dt_month d + 1) (dt_day d) = civil (t / 86400) /\
    1970 <= dt_year d <= 9999 /\ 0 <= dt_month d <= 11 /\ 1 <= dt_day d <= 31 /\
    dt_weekday d = (t / 86400 + 4) mod 7 /\ dt_weekday d = weekday_count (t / 86400) /\
    time_ok t d.
Proof.
  intros t Ht. destruct ends_check as [E9 _].
  apply from_timestamp_correct_gen; [|lia]. rewrite <- E9. exact Ht.
Qed.

Lemma date_correct_u16 : forall t, 0 <= t < 2005949145600 ->
  exists d, from_timestamp t = Ok d /\
    dt_timestamp d = t /\
    mkC (dt_year d) (dt_month d + 1) (dt_day d) = civil (t / 86400) /\
    1970 <= dt_year d <= 65535 /\ 0 <= dt_month d <= 11 /\ 1 <= dt_day d <= 31 /\
    dt_weekday d = (t / 86400 + 4) mod 7 /\ dt_weekday d = weekday_count (t / 86400) /\
    time_ok t d.
Proof.
  intros t Ht. destruct ends_check as [_ [E16 _]].
  apply from_timestamp_correct_gen; [|lia]. rewrite <- E16. exact Ht.
Qed.

(* the date algorithm itself (before the casts) agrees with day counting for every day from 1970-01-01 on, unbounded *)
Lemma date_part_counts_days : forall n, 0 <= n ->
  exists y m0 d, date_part (n - 11017) = Ok (y, m0, d) /\ civil n = mkC y (m0 + 1) d.
Proof.
  intros n H. destruct (date_part_civil_Z n H) as [y [m0 [d [H1 [H2 _]]]]]. exists y, m0, d. auto.
Qed.

Lemma http_date_fields : forall t, 0 <= t < 253402300800 ->
  let c := civil (t / 86400) in
  1000 <= c_year c <= 9999 /\ 1 <= c_month c <= 12 /\ 1 <= c_day c <= 31 /\
  Forall is_ascii_digit (d2 (c_day c)) /\ dec_value (d2 (c_day c)) = c_day c /\
  Forall is_ascii_digit (d4 (c_year c)) /\ dec_value (d4 (c_year c)) = c_year c /\
  Forall is_ascii_digit (d2 (t mod 86400 / 3600)) /\ dec_value (d2 (t mod 86400 / 3600)) = t mod 86400 / 3600 /\
  Forall is_ascii_digit (d2 (t mod 86400 / 60 mod 60)) /\ dec_value (d2 (t mod 86400 / 60 mod 60)) = t mod 86400 / 60 mod 60 /\
  Forall is_ascii_digit (d2 (t mod 60)) /\ dec_value (d2 (t mod 60)) = t mod 60.
Proof.
  intros t Ht. destruct (date_correct_9999 t Ht) as [d [_ [_ [Hc [Hy [Hm [Hd _]]]]]]].
  cbv zeta. rewrite <- Hc. cbn [c_year c_month c_day].
  assert (0 <= t mod 86400 / 3600 < 100) by lia.
  assert (0 <= t mod 86400 / 60 mod 60 < 100) by lia.
  assert (0 <= t mod 60 < 100) by lia.
  repeat split; try lia; try (apply d2_digits; lia); try (apply d2_value; lia);
    try (apply d4_digits; lia); try (apply d4_value; lia).
Qed.

(* ---------------------------------------------------------------------------------------------------- *)
(* beyond the property's range: every integer day count, and totality on i64 *)
Definition to_cdate (r : Z * Z * Z) : cdate := let '(y, m0, d) := r in mkC y (m0 + 1) d.

Lemma date_part_canonical : forall D,
  exists Y rd yi m0 d, 0 <= rd < ylen Y /\ D = mdays Y + rd /\ month_day rd = Ok (yi, m0, d) /\
                       date_part D = Ok (Y + yi, m0, d) /\ 0 <= m0 <= 11 /\ 1 <= d <= 31.
Proof.
  intros D. pose proof (year_day_spec D) as YS. unfold date_part.
  destruct (year_day D) as [Y rd]. destruct YS as [Hrd HD].
  pose proof (ylen_pos Y) as YL.
  destruct (month_day_range rd ltac:(lia)) as [yi [m0 [d [E [Hm [Hd Hyi]]]]]].
  exists Y, rd, yi, m0, d. rewrite E. repeat split; try assumption; lia.
Qed.

(* for EVERY integer day count D (negative = before 2000-03-01, no upper bound), one more day is next_day *)
Lemma date_part_step : forall D,
  exists r r', date_part D = Ok r /\ date_part (D + 1) = Ok r' /\ to_cdate r' = next_day (to_cdate r).
Proof.
  intros D.
  destruct (date_part_canonical D) as [Y [rd [yi [m0 [d [Hrd [HD [Hmd [Hdp _]]]]]]]]].
  destruct (date_part_canonical (D + 1)) as [Y' [rd' [yi' [m0' [d' [Hrd' [HD' [Hmd' [Hdp' _]]]]]]]]].
  exists (Y + yi, m0, d), (Y' + yi', m0', d'). split; [exact Hdp|]. split; [exact Hdp'|].
  pose proof (step_ok_all (is_leap Y) (is_leap (Y + 1)) rd) as HS. unfold ylen in Hrd.
  specialize (HS Hrd). unfold step_ok in HS. rewrite Hmd in HS.
  apply andb_true_iff in HS. destruct HS as [Hyi HS].
  assert (Hyi' : yi = 0 \/ yi = 1) by (apply orb_true_iff in Hyi; rewrite !Z.eqb_eq in Hyi; exact Hyi).
  change (to_cdate (Y + yi, m0, d)) with (shift Y (yi, m0, d)).
  change (to_cdate (Y' + yi', m0', d')) with (shift Y' (yi', m0', d')).
  rewrite (next_day_shift Y yi m0 d Hyi').
  destruct (rd + 1 <? (if is_leap (Y + 1) then 366 else 365)) eqn:E.
  - destruct (canonical_unique Y (rd + 1) Y' rd' ltac:(unfold ylen; lia) Hrd' ltac:(lia)) as [EY Er]. subst Y' rd'.
    rewrite Hmd' in HS. apply eq3_eq in HS. rewrite HS. reflexivity.
  - pose proof (ylen_pos (Y + 1)) as YL.
    destruct (canonical_unique (Y + 1) 0 Y' rd' ltac:(lia) Hrd'
                ltac:(rewrite mdays_succ; unfold ylen at 1; lia)) as [EY Er]. subst Y' rd'.
    rewrite Hmd' in HS. apply eq3_eq in HS. rewrite HS. unfold shift. f_equal. lia.
Qed.

Lemma date_part_anchor : date_part (-11017) = Ok (1970, 0, 1) /\ date_part 0 = Ok (2000, 2, 1).
Proof. vm_compute. split; reflexivity. Qed.

(* no panic for any i64 timestamp except the subtraction overflow, and to_string never indexes out of range *)
Lemma from_timestamp_total : forall t, i64_min <= t <= i64_max ->
  (t < i64_min + MARCH_01_2000 /\ from_timestamp t = Crash 1) \/
  (i64_min + MARCH_01_2000 <= t /\ exists d s, from_timestamp t = Ok d /\ to_string d = Ok s /\
     0 <= dt_month d <= 11 /\ 0 <= dt_weekday d <= 6).
Proof.
  intros t Ht. unfold from_timestamp, i64_min, i64_max in *.
  replace MARCH_01_2000 with 951868800 by reflexivity.
  destruct (Z_lt_ge_dec t (-9223372036854775808 + 951868800)) as [L|G].
  - left. split; [exact L|].
    assert (E : in_i64 (t - 951868800) = false).
    { unfold in_i64, i64_min. apply andb_false_iff. left. apply Z.leb_gt. lia. }
    rewrite E. reflexivity.
  - right. split; [lia|].
    assert (E : in_i64 (t - 951868800) = true).
    { unfold in_i64, i64_min, i64_max. apply andb_true_iff. rewrite !Z.leb_le. lia. }
    rewrite E. cbn [negb]. rewrite split_time_spec.
    destruct (date_part_canonical ((t - 951868800) / 86400)) as [Y [rd [yi [m0 [d [_ [_ [_ [Hdp [Hm Hd]]]]]]]]]].
    rewrite Hdp.
    set (w := weekday_of ((t - 951868800) / 86400)).
    assert (Hw : 0 <= w <= 6) by (subst w; rewrite weekday_of_spec; lia).
    eexists. eexists. split; [reflexivity|].
    unfold to_string. cbn [dt_weekday dt_month].
    unfold as_u8. rewrite (Z.mod_small w) by lia. rewrite (Z.mod_small m0) by lia.
    rewrite (days_table_rfc w Hw), (months_table_rfc m0 Hm).
    split; [reflexivity|]. lia.
Qed.
