(* Model of the three macro_rules! token munchers of humphrey-json/src/macros.rs (C14):
     json!                     6 arms
     json_array_internal!      8 arms, accumulator  [ elems, ]  followed by the tokens still to be consumed
     json_object_internal!     8 arms, same shape, elements are (key.to_string(), value) pairs
   as a rewriting function on token trees, arm by arm, in the order macro_rules! tries them.  Definitions only.

   Token trees.  The input of a macro is a sequence of Rust token trees.  The model keeps the tokens the arms distinguish:
     TNull            the identifier `null`
     TComma, TColon   `,` and `:`
     TBracket l       a `[ .. ]` group,  TBrace l  a `{ .. }` group
     TExpr v key      a MAXIMAL run of tokens that rustc parses as one expression (what an `$x:expr` fragment captures),
                      abstracted to the value v of `Value::from(<that expression>)` - literals `true`, `1.5`, "text",
                      variables, calls with commas inside parentheses, turbofish, struct literals, ...
                      key = Some k when the expression is a SINGLE token tree (a literal, an identifier, a parenthesised
                      group) whose `.to_string()` is k - only such an expression can stand in key position (`$key:tt`);
                      key = None for an expression of several token trees (`-1`, `f(x)`, `a.b`, `x + 1`).
   Modelling assumptions on what is abstracted as TExpr (they hold for everything produced by the JSON literal grammar and for
   the generated programs): the expression does not begin with `null`, `[`, `{` or `,` (those are caught by earlier arms of the
   real macro and are separate tokens here), and a multi-token expression does not have `:` as its second token.
   An `expr` fragment must be followed by `,` or by the end of the input (macro_rules! follow set), which is what arms 6/7 ask.

   A macro invocation for which no arm matches is a compile error (Err E_NOARM), so is an expansion that does not type-check
   because the key token has no `.to_string()` (Err E_KEY): neither is a value, hence not a violation of the property.
   Nested invocations are evaluated where they occur in the expansion; every arm costs one unit of fuel (json_fuel is enough:
   JsonMacroProofs.json_macro_total).

   `old = true` is the tree before fix F03: the `null` arm of json_array_internal! did not pass the rest of the tokens on.  *)
From Hv Require Import Prelude Json.
Open Scope N_scope.

Definition E_NOARM : N := 20.   (* error: no rules expected the token ..  *)
Definition E_KEY : N := 21.     (* the expansion `($key.to_string(), ..)` does not compile for this key token *)

Section Macro.
  Variable F : Type.

  Inductive tt : Type :=
  | TNull
  | TComma
  | TColon
  | TExpr (v : value F) (key : option str)
  | TBracket (l : list tt)
  | TBrace (l : list tt).

  (* can the token stand where the pattern says `$key:tt`?  (a multi-token expression is not one token tree) *)
  Definition single_tt (t : tt) : bool :=
    match t with TExpr _ None => false | _ => true end.

  (* `$key.to_string()` *)
  Definition key_string (t : tt) : option str :=
    match t with TExpr _ (Some k) => Some k | _ => None end.

  Fixpoint tsize (t : tt) : nat :=
    match t with
    | TBracket l => S (S ((fix ls (l : list tt) : nat := match l with [] => O | x :: r => (tsize x + ls r)%nat end) l))
    | TBrace l => S (S ((fix ls (l : list tt) : nat := match l with [] => O | x :: r => (tsize x + ls r)%nat end) l))
    | _ => 1%nat
    end.
  Fixpoint lsize (l : list tt) : nat := match l with [] => O | x :: r => (tsize x + lsize r)%nat end.

  Variable old : bool.

  Fixpoint json_m (fuel : nat) (ts : list tt) {struct fuel} : outcome (value F) :=
    match fuel with
    | O => Err E_FUEL
    | S f =>
      match ts with
      | [] => Ok VNull                                             (* arm 1: () => Value::Null *)
      | [TNull] => Ok VNull                                        (* arm 2: (null) => Value::Null *)
      | [TBracket elems] =>                                        (* arm 3: ([ elems.. ]) => Value::Array(json_array_internal!([] elems..)) *)
        match array_m f [] elems with
        | Ok l => Ok (VArr l)
        | Err e => Err e
        | Crash w => Crash w
        end
      | [TBrace []] => Ok (VObj [])                                (* arm 4: ({}) => Value::Object(Vec::new()) *)
      | [TBrace elems] =>                                          (* arm 5: ({ elems.. }) => Value::Object(json_object_internal!([] elems..)) *)
        match object_m f [] elems with
        | Ok m => Ok (VObj m)
        | Err e => Err e
        | Crash w => Crash w
        end
      | [TExpr v _] => Ok v                                        (* arm 6: ($v:expr) => Value::from($v) *)
      | _ => Err E_NOARM
      end
    end

  (* json_array_internal!([ acc, ] rest..) *)
  with array_m (fuel : nat) (acc : list (value F)) (rest : list tt) {struct fuel} : outcome (list (value F)) :=
    match fuel with
    | O => Err E_FUEL
    | S f =>
      match rest with
      | [] => Ok acc                                               (* arms 1 and 2: vec![ acc ] *)
      | TNull :: r =>                                              (* arm 3: next value is `null` *)
        array_m f (acc ++ [VNull]) (if old then [] else r)
      | TBracket a :: r =>                                         (* arm 4: next value is an array: json!([ array.. ]) *)
        match json_m f [TBracket a] with
        | Ok x => array_m f (acc ++ [x]) r
        | Err e => Err e
        | Crash w => Crash w
        end
      | TBrace o :: r =>                                           (* arm 5: next value is an object *)
        match json_m f [TBrace o] with
        | Ok x => array_m f (acc ++ [x]) r
        | Err e => Err e
        | Crash w => Crash w
        end
      | TExpr v k :: TComma :: r =>                                (* arm 6: $value:expr , rest.. *)
        match json_m f [TExpr v k] with
        | Ok x => array_m f (acc ++ [x]) r
        | Err e => Err e
        | Crash w => Crash w
        end
      | [TExpr v k] =>                                             (* arm 7: last value is an expression *)
        match json_m f [TExpr v k] with
        | Ok x => array_m f (acc ++ [x]) []
        | Err e => Err e
        | Crash w => Crash w
        end
      | TComma :: r => array_m f acc r                             (* arm 8: comma *)
      | _ => Err E_NOARM
      end
    end

  (* json_object_internal!([ acc, ] rest..) *)
  with object_m (fuel : nat) (acc : list (str * value F)) (rest : list tt) {struct fuel} : outcome (list (str * value F)) :=
    match fuel with
    | O => Err E_FUEL
    | S f =>
      match rest with
      | [] => Ok acc                                               (* arms 1 and 2 *)
      | key :: TColon :: vrest =>
        if single_tt key then
          match vrest with
          | TNull :: r =>                                          (* arm 3: $key:tt : null rest.. *)
            match key_string key with
            | Some k => object_m f (acc ++ [(k, VNull)]) r
            | None => Err E_KEY
            end
          | TBracket a :: r =>                                     (* arm 4: $key:tt : [ array.. ] rest.. *)
            match json_m f [TBracket a] with
            | Ok x => match key_string key with
                      | Some k => object_m f (acc ++ [(k, x)]) r
                      | None => Err E_KEY
                      end
            | Err e => Err e
            | Crash w => Crash w
            end
          | TBrace o :: r =>                                       (* arm 5: $key:tt : { object.. } rest.. *)
            match json_m f [TBrace o] with
            | Ok x => match key_string key with
                      | Some k => object_m f (acc ++ [(k, x)]) r
                      | None => Err E_KEY
                      end
            | Err e => Err e
            | Crash w => Crash w
            end
          | TExpr v kk :: TComma :: r =>                           (* arm 6: $key:tt : $value:expr , rest.. *)
            match json_m f [TExpr v kk] with
            | Ok x => match key_string key with
                      | Some k => object_m f (acc ++ [(k, x)]) r
                      | None => Err E_KEY
                      end
            | Err e => Err e
            | Crash w => Crash w
            end
          | [TExpr v kk] =>                                        (* arm 7: $key:tt : $value:expr *)
            match json_m f [TExpr v kk] with
            | Ok x => match key_string key with
                      | Some k => object_m f (acc ++ [(k, x)]) []
                      | None => Err E_KEY
                      end
            | Err e => Err e
            | Crash w => Crash w
            end
          | _ =>                                                   (* arms 3-7 do not match; arm 8 if the first token is a comma *)
            match key with
            | TComma => object_m f acc (TColon :: vrest)
            | _ => Err E_NOARM
            end
          end
        else Err E_NOARM
      | TComma :: r => object_m f acc r                            (* arm 8: comma *)
      | _ => Err E_NOARM
      end
    end.

  Definition json_fuel (ts : list tt) : nat := S (lsize ts).

  (* json!( ts ) *)
  Definition json_macro (ts : list tt) : outcome (value F) := json_m (json_fuel ts) ts.

  (* ---- the JSON literal grammar, on token trees, with the value a literal denotes ----
       value   = `null` | expression | `[` elems `]` | `{` members `}`
       elems   = (empty) | value | value `,` elems            (so a trailing comma is allowed)
       members = (empty) | key `:` value | key `:` value `,` members
       key     = an expression that is one token tree (a string literal in JSON proper) and has a .to_string()
     An expression denotes the value of Value::from(expression): for the literals `true`, `false`, numbers and strings
     that is the value RFC 8259 assigns to the same literal. *)
  Inductive Lit : tt -> value F -> Prop :=
  | lit_null : Lit TNull VNull
  | lit_expr : forall v k, Lit (TExpr v k) v
  | lit_array : forall l vs, LitElems l vs -> Lit (TBracket l) (VArr vs)
  | lit_object : forall l ms, LitMembers l ms -> Lit (TBrace l) (VObj ms)
  with LitElems : list tt -> list (value F) -> Prop :=
  | le_nil : LitElems [] []
  | le_one : forall t v, Lit t v -> LitElems [t] [v]
  | le_cons : forall t v r vs, Lit t v -> LitElems r vs -> LitElems (t :: TComma :: r) (v :: vs)
  with LitMembers : list tt -> list (str * value F) -> Prop :=
  | lm_nil : LitMembers [] []
  | lm_one : forall kv k t v, Lit t v -> LitMembers [TExpr kv (Some k); TColon; t] [(k, v)]
  | lm_cons : forall kv k t v r ms,
      Lit t v -> LitMembers r ms -> LitMembers (TExpr kv (Some k) :: TColon :: t :: TComma :: r) ((k, v) :: ms).

  (* the same grammar as a function: denotation of a token tree, None outside the grammar *)
  Fixpoint denote (t : tt) : option (value F) :=
    match t with
    | TNull => Some VNull
    | TExpr v _ => Some v
    | TBracket l =>
      match (fix elems (l : list tt) : option (list (value F)) :=
               match l with
               | [] => Some []
               | x :: r =>
                 match denote x with
                 | Some v =>
                   match r with
                   | [] => Some [v]
                   | TComma :: r' => match elems r' with Some vs => Some (v :: vs) | None => None end
                   | _ => None
                   end
                 | None => None
                 end
               end) l with
      | Some vs => Some (VArr vs)
      | None => None
      end
    | TBrace l =>
      match (fix members (l : list tt) : option (list (str * value F)) :=
               match l with
               | [] => Some []
               | TExpr _ (Some k) :: TColon :: x :: r =>
                 match denote x with
                 | Some v =>
                   match r with
                   | [] => Some [(k, v)]
                   | TComma :: r' => match members r' with Some ms => Some ((k, v) :: ms) | None => None end
                   | _ => None
                   end
                 | None => None
                 end
               | _ => None
               end) l with
      | Some ms => Some (VObj ms)
      | None => None
      end
    | TComma => None
    | TColon => None
    end.

  (* ---- the token trees the derive macros and json_map! hand to json! (named_struct.rs into_json, macros.rs json_map!) ----
     derive:    json!({ "name": (IntoJson::to_json(&self.field)), .. })      every member followed by a comma
     json_map!: json!({ "key": (&self.field), .. })                          members separated by commas
     The member value is a parenthesised expression: one token tree, abstracted to its value. *)
  Definition derive_member (m : str * value F) : list tt :=
    [TExpr (VStr (fst m)) (Some (fst m)); TColon; TExpr (snd m) None; TComma].
  Definition derive_tokens (ms : list (str * value F)) : tt := TBrace (flat_map derive_member ms).

  Fixpoint map_members (ms : list (str * value F)) : list tt :=
    match ms with
    | [] => []
    | [m] => [TExpr (VStr (fst m)) (Some (fst m)); TColon; TExpr (snd m) None]
    | m :: r => TExpr (VStr (fst m)) (Some (fst m)) :: TColon :: TExpr (snd m) None :: TComma :: map_members r
    end.
  Definition map_tokens (ms : list (str * value F)) : tt := TBrace (map_members ms).
End Macro.

(* ---- the RFC 8259 text equivalent to a literal ----
   `null`, brackets, braces, commas and colons are written as they are; an expression is written as the JSON text of its value
   (Json.serialize: for the literals true / false / numbers / strings that is the literal itself up to the spelling of the
   number or the escapes); a key is written as the JSON string of its text; a trailing comma, which RFC 8259 does not allow,
   is dropped.  JsonMacroProofs.render_text: for a literal of the grammar this text is a JSON text denoting the same value. *)
Section Render.
  Variable F : Type.
  Variable fdisplay : F -> str.

  Fixpoint render (t : tt F) : str :=
    match t with
    | TNull _ => s_null
    | TComma _ => [ch_comma]
    | TColon _ => [ch_colon]
    | TExpr _ v _ => serialize F fdisplay v
    | TBracket _ l =>
      ch_lbrack ::
      (fix elems (l : list (tt F)) : str :=
         match l with
         | [] => []
         | x :: r =>
           render x ++
           match r with
           | TComma _ :: r' => match r' with [] => [] | _ :: _ => ch_comma :: elems r' end
           | _ => []
           end
         end) l ++ [ch_rbrack]
    | TBrace _ l =>
      ch_lbrace ::
      (fix members (l : list (tt F)) : str :=
         match l with
         | TExpr _ _ (Some k) :: TColon _ :: x :: r =>
           string_to_string k ++ [ch_colon] ++ render x ++
           match r with
           | TComma _ :: r' => match r' with [] => [] | _ :: _ => ch_comma :: members r' end
           | _ => []
           end
         | _ => []
         end) l ++ [ch_rbrace]
    end.
End Render.

Arguments TNull {F}.
Arguments TComma {F}.
Arguments TColon {F}.
Arguments TExpr {F} v key.
Arguments TBracket {F} l.
Arguments TBrace {F} l.
