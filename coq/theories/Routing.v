(* Model of humphrey/src/app.rs :: get_handler and call_websocket_handler (C04). Strings = scalar lists (Krauss). *)
From Hv Require Import Prelude Krauss.
Open Scope N_scope.

(* Iterator::find with the index of the hit *)
Fixpoint find_index {A} (f : A -> bool) (l : list A) (i : nat) : option (nat * A) :=
  match l with
  | [] => None
  | x :: l' => if f x then Some (i, x) else find_index f l' (S i)
  end.

Record subapp := { sa_host : list N; sa_routes : list (list N) }.

Inductive choice := InSub (i j : nat) | InDefault (j : nat).

(* get_handler: host = Some value of the Host header; uri = request.uri (path without query) *)
Definition get_handler (subapps : list subapp) (default : subapp) (host : option (list N)) (uri : list N) : option choice :=
  let from_default :=
    match find_index (fun r => wildcard_match r uri) (sa_routes default) 0 with
    | Some (j, _) => Some (InDefault j)
    | None => None
    end in
  match host with
  | Some h =>
    match find_index (fun s => wildcard_match (sa_host s) h) subapps 0 with
    | Some (i, s) =>
      match find_index (fun r => wildcard_match r uri) (sa_routes s) 0 with
      | Some (j, _) => Some (InSub i j)
      | None => from_default
      end
    | None => from_default
    end
  | None => from_default
  end.

(* app.rs call_websocket_handler: the same selection over each sub-application's websocket_routes; an App sub-application
   carries both tables. No match: the stream is dropped (connection closed without an upgrade). *)
Record subapp2 := { s2_host : list N; s2_routes : list (list N); s2_ws_routes : list (list N) }.
Definition http_view (s : subapp2) : subapp := {| sa_host := s2_host s; sa_routes := s2_routes s |}.
Definition ws_view (s : subapp2) : subapp := {| sa_host := s2_host s; sa_routes := s2_ws_routes s |}.
Definition dispatch_request (subapps : list subapp2) (default : subapp2) (upgrade : bool)
    (host : option (list N)) (uri : list N) : option choice :=
  if upgrade then get_handler (map ws_view subapps) (ws_view default) host uri
  else get_handler (map http_view subapps) (http_view default) host uri.
