(* Lemmas about the WebSocket endpoint model (WsMessage.v) against the script semantics (WsMessageSpec.v); the frame
   layer is C10's (FrameProofs.v). *)
From Coq Require Import Lia.
From Hv Require Import Prelude Bytes Stream StreamProofs Frame FrameSpec FrameProofs TablesHttp TablesWs Http
  WsMessage WsMessageSpec.
From Hv Require Sha1 Sha1Spec Sha1Proofs Base64 Base64Spec Base64Proofs.
Open Scope N_scope.

(* ================= the frame decoder: what one successful call consumes and allocates ================= *)
Lemma read_take_total cs : forall n, total_len cs = blen (fst (read_take n cs)) + total_len (snd (read_take n cs)).
Proof.
  induction cs as [|c cs IH]; intro n; cbn [read_take]; destruct (n =? 0) eqn:E0; cbn [fst snd]; try reflexivity.
  rewrite total_len_cons. destruct (blen c =? 0) eqn:El.
  - apply N.eqb_eq in El. cbn [fst snd]. unfold blen at 2. cbn. lia.
  - destruct (n <? blen c) eqn:En; cbn [fst snd].
    + apply N.ltb_lt in En. rewrite total_len_cons, blen_firstn, blen_skipn by lia. lia.
    + specialize (IH (n - blen c)). destruct (read_take (n - blen c) cs) as [b r]. cbn [fst snd] in *.
      rewrite blen_app. lia.
Qed.

Lemma from_stream_inner_consumes cs1 h0 h1 f cs' a :
  from_stream_inner cs1 h0 h1 = (Ok (f, cs'), a) ->
  total_len cs' + blen (payload f) <= total_len cs1 /\ a = 2 * blen (payload f) + 32.
Proof.
  unfold from_stream_inner. destruct (opcode_of_N (N.land h0 15)); [|discriminate].
  destruct (read_len (N.land h1 127) cs1) as [[n cs2]|] eqn:EL; [|discriminate].
  assert (T2 : total_len cs2 <= total_len cs1).
  { unfold read_len in EL. destruct (N.land h1 127 =? 126).
    - destruct (read_exact 2 cs1) as [[b r]|] eqn:E; [|discriminate]. injection EL as _ <-.
      rewrite (read_exact_total _ _ _ _ E). lia.
    - destruct (N.land h1 127 =? 127).
      + destruct (read_exact 8 cs1) as [[b r]|] eqn:E; [|discriminate]. injection EL as _ <-.
        rewrite (read_exact_total _ _ _ _ E). lia.
      + injection EL as _ <-. lia. }
  destruct (read_key (negb (N.land h1 128 =? 0)) cs2) as [[key cs3]|] eqn:EK; [|discriminate].
  assert (T3 : total_len cs3 <= total_len cs2).
  { unfold read_key in EK. destruct (negb (N.land h1 128 =? 0)).
    - destruct (read_exact 4 cs2) as [[b r]|] eqn:E; [|discriminate]. injection EK as _ <-.
      rewrite (read_exact_total _ _ _ _ E). lia.
    - injection EK as _ <-. lia. }
  pose proof (read_take_total cs3 n) as TT.
  destruct (read_take n cs3) as [data cs4]. cbn [fst snd] in TT.
  destruct (blen data =? n); [|discriminate]. intros [= <- <- <-]. cbn [payload]. rewrite xor_key_blen.
  split; [lia|]. destruct (blen data); reflexivity.
Qed.

Lemma decode_m_consumes cs f cs' a :
  decode_m cs = (Ok (f, cs'), a) ->
  total_len cs' + 2 + blen (payload f) <= total_len cs /\ a = 2 * blen (payload f) + 32.
Proof.
  unfold decode_m. destruct (read_exact 2 cs) as [[hdr cs1]|] eqn:E; [|discriminate].
  pose proof (read_exact_total _ _ _ _ E) as Ht.
  destruct hdr as [|h0 [|h1 [|? ?]]]; try discriminate.
  intro H. apply from_stream_inner_consumes in H. lia.
Qed.

Lemma decode_m_err_alloc cs e a : decode_m cs = (Err e, a) -> a <= 2 * total_len cs + 32.
Proof.
  intro H. pose proof (decode_safe cs) as [_ A]. unfold decode_alloc in A. rewrite H in A. exact A.
Qed.

Lemma decode_m_no_crash cs w a : decode_m cs <> (Crash w, a).
Proof.
  intro H. pose proof (decode_safe cs) as [C _]. unfold decode in C. rewrite H in C. discriminate.
Qed.

(* ================= fuel: any amount above the number of bytes in the reader gives the same answer ================= *)
Lemma recv_loop_fuel sf : forall fuel1 fuel2 cs acc,
  total_len cs < N.of_nat fuel1 -> total_len cs < N.of_nat fuel2 ->
  recv_loop sf fuel1 cs acc = recv_loop sf fuel2 cs acc.
Proof.
  induction fuel1 as [|f1 IH]; intros fuel2 cs acc H1 H2; [lia|].
  destruct fuel2 as [|f2]; [lia|]. cbn [recv_loop].
  destruct (decode_m cs) as [r a] eqn:D. destruct r as [[f cs1]|e|w]; try reflexivity.
  destruct (decode_m_consumes _ _ _ _ D) as [T _].
  destruct (sf acc f); [|reflexivity]. f_equal. apply IH; lia.
Qed.

Lemma fuel_of_ok cs : total_len cs < N.of_nat (fuel_of cs).
Proof. unfold fuel_of. lia. Qed.

(* the fuel never runs out *)
Lemma recv_loop_no_fuel_err : forall fuel cs acc,
  total_len cs < N.of_nat fuel -> r_res (recv_loop on_frame fuel cs acc) <> Err OutOfFuel.
Proof.
  induction fuel as [|fu IH]; intros cs acc H; [lia|]. cbn [recv_loop].
  destruct (decode_m cs) as [r a] eqn:D. destruct r as [[f cs1]|e|w]; cbn [r_res].
  - destruct (decode_m_consumes _ _ _ _ D) as [T _].
    unfold on_frame. destruct (fopcode f); try (destruct (fin f)); cbn [r_res add_write]; try discriminate;
      apply IH; lia.
  - intro E. injection E as ->. unfold decode_m in D.
    destruct (read_exact 2 cs) as [[hdr c1]|]; [|discriminate].
    destruct hdr as [|h0 [|h1 [|? ?]]]; try discriminate.
    unfold from_stream_inner in D.
    destruct (opcode_of_N (N.land h0 15)); [|discriminate].
    destruct (read_len (N.land h1 127) c1) as [[n c2]|]; [|discriminate].
    destruct (read_key (negb (N.land h1 128 =? 0)) c2) as [[k c3]|]; [|discriminate].
    destruct (read_take n c3) as [d c4]. destruct (blen d =? n); discriminate.
  - discriminate.
Qed.

(* ================= the receive loop on a stream of encoded frames ================= *)
(* what the loop does with a list of decoded frames; the end of the list is the end of the stream *)
Fixpoint recv_frames (acc : list frame) (fs : list frame) : outcome message * list bytes * list frame :=
  match fs with
  | [] => (Err ReadError, [], [])
  | f :: r =>
    match on_frame acc f with
    | SDone res w => (res, w, r)
    | SCont acc' w => let '(res, ws, rem) := recv_frames acc' r in (res, w ++ ws, rem)
    end
  end.

(* what may follow the last complete frame: nothing, or the beginning of a frame (abrupt disconnect) *)
Definition tail_ok (tail : bytes) : Prop := tail = [] \/ exists g, wf g /\ strict_prefix tail (encode g).

Lemma decode_tail cs tail : tail_ok tail -> wf_chunks cs -> concat cs = tail -> decode cs = Err ReadError.
Proof.
  intros [->|(g & Wg & P)] W Hc.
  - apply decode_short; [assumption|]. unfold total_len. rewrite Hc. cbn. lia.
  - exact (decode_truncated g tail cs Wg P W Hc).
Qed.

Lemma norm_masked f : mask f = true -> norm f = f.
Proof. intro H. unfold norm. now rewrite H. Qed.

Lemma decode_m_of_decode cs x : decode cs = x -> exists a, decode_m cs = (x, a).
Proof. unfold decode. destruct (decode_m cs) as [r a]. cbn [fst]. intros <-. now exists a. Qed.

Lemma on_frame_res_cases acc f res w :
  on_frame acc f = SDone res w -> (exists m, res = Ok m) \/ res = Err ConnectionClosed.
Proof.
  unfold on_frame. destruct (fopcode f); try (destruct (fin f)); intros [= <- <-]; try discriminate; eauto.
Qed.

Lemma recv_frames_res acc fs : forall res ws rem,
  recv_frames acc fs = (res, ws, rem) ->
  (exists m, res = Ok m) \/ res = Err ConnectionClosed \/ (res = Err ReadError /\ rem = []).
Proof.
  revert acc. induction fs as [|f r IH]; intros acc res ws rem; cbn [recv_frames].
  - intros [= <- <- <-]. auto.
  - destruct (on_frame acc f) as [acc' w|res' w] eqn:E.
    + destruct (recv_frames acc' r) as [[res1 ws1] rem1] eqn:E1. intros [= <- <- <-].
      exact (IH _ _ _ _ E1).
    + intros [= <- <- <-]. destruct (on_frame_res_cases _ _ _ _ E); auto.
Qed.

Lemma recv_loop_frames : forall fs acc cs fuel tail res ws rem,
  Forall client_frame fs -> wf_chunks cs -> concat cs = concat (map encode fs) ++ tail ->
  (res = Err ReadError -> tail_ok tail) ->
  total_len cs < N.of_nat fuel ->
  recv_frames acc fs = (res, ws, rem) ->
  r_res (recv_loop on_frame fuel cs acc) = res /\ r_writes (recv_loop on_frame fuel cs acc) = ws /\
  (res <> Err ReadError ->
   wf_chunks (r_rest (recv_loop on_frame fuel cs acc)) /\
   concat (r_rest (recv_loop on_frame fuel cs acc)) = concat (map encode rem) ++ tail /\
   total_len (r_rest (recv_loop on_frame fuel cs acc)) + 2 <= total_len cs).
Proof.
  induction fs as [|f r IH]; intros acc cs fuel tail res ws rem HF W Hc HT Hfuel; cbn [recv_frames].
  - intros [= <- <- <-]. destruct fuel as [|fu]; [lia|]. cbn [recv_loop map concat app] in *.
    destruct (decode_m_of_decode cs _ (decode_tail cs tail (HT eq_refl) W Hc)) as [a ->]. cbn [r_res r_writes]. repeat split; congruence.
  - inversion HF as [|? ? [Wf Mf] HF']; subst. cbn [map concat] in Hc. rewrite <- app_assoc in Hc.
    destruct (decode_encode f _ cs Wf W Hc) as (cs1 & D & Hc1 & W1). rewrite (norm_masked f Mf) in D.
    destruct (decode_m_of_decode cs _ D) as [a Dm].
    destruct (decode_m_consumes _ _ _ _ Dm) as [T _].
    destruct fuel as [|fu]; [lia|]. cbn [recv_loop]. rewrite Dm.
    destruct (on_frame acc f) as [acc' w|res' w] eqn:E.
    + destruct (recv_frames acc' r) as [[res1 ws1] rem1] eqn:E1. intros [= <- <- <-].
      assert (Hfu : total_len cs1 < N.of_nat fu) by lia.
      destruct (IH acc' cs1 fu tail res1 ws1 rem1 HF' W1 Hc1 HT Hfu E1) as (R1 & R2 & R3).
      cbn [add_write r_res r_writes r_rest]. repeat split; try congruence.
      * apply R3. assumption.
      * apply R3. assumption.
      * specialize (R3 H) as (_ & _ & R3). lia.
    + intros [= <- <- <-]. cbn [r_res r_writes r_rest]. repeat split; auto. lia.
Qed.

(* ================= a whole session on a list of decoded frames ================= *)
Fixpoint session_in (echo : bool) (limit : option nat) (acc : list frame) (fs : list frame)
  : list message * outcome unit * list bytes :=
  match fs with
  | [] => ([], Err ReadError, drop_stream false)
  | f :: r =>
    match on_frame acc f with
    | SCont acc' w => let '(ms, fn, ws) := session_in echo limit acc' r in (ms, fn, w ++ ws)
    | SDone (Ok m) w =>
      let '(ms, fn, ws) := match option_map pred limit with
                           | Some O => ([], Ok tt, drop_stream false)
                           | l' => session_in echo l' [] r
                           end in
      (m :: ms, fn, w ++ (if echo then [send_bytes m] else []) ++ ws)
    | SDone (Err e) w => ([], Err e, w ++ drop_stream (e =? ConnectionClosed))
    | SDone (Crash c) w => ([], Crash c, w)
    end
  end.

Lemma session_in_recv : forall fs acc echo limit res ws rem,
  recv_frames acc fs = (res, ws, rem) ->
  session_in echo limit acc fs =
  match res with
  | Ok m =>
    let '(ms, fn, ws') := match option_map pred limit with
                          | Some O => ([], Ok tt, drop_stream false)
                          | l' => session_in echo l' [] rem
                          end in
    (m :: ms, fn, ws ++ (if echo then [send_bytes m] else []) ++ ws')
  | Err e => ([], Err e, ws ++ drop_stream (e =? ConnectionClosed))
  | Crash c => ([], Crash c, ws)
  end.
Proof.
  induction fs as [|f r IH]; intros acc echo limit res ws rem; cbn [recv_frames session_in].
  - intros [= <- <- <-]. reflexivity.
  - destruct (on_frame acc f) as [acc' w|res' w] eqn:E.
    + destruct (recv_frames acc' r) as [[res1 ws1] rem1] eqn:E1. intros [= <- <- <-].
      rewrite (IH acc' echo limit res1 ws1 rem1 E1).
      destruct res1 as [m|e|c].
      * destruct (match option_map pred limit with Some O => _ | _ => _ end) as [[ms fn] ws']. now rewrite app_assoc.
      * now rewrite app_assoc.
      * reflexivity.
    + intros [= <- <- <-]. destruct res' as [m|e|c]; reflexivity.
Qed.

Lemma recv_frames_shorter : forall fs acc res ws rem,
  recv_frames acc fs = (res, ws, rem) -> res <> Err ReadError -> (length rem < length fs)%nat.
Proof.
  induction fs as [|f r IH]; intros acc res ws rem; cbn [recv_frames].
  - intros [= <- <- <-] H. congruence.
  - destruct (on_frame acc f) as [acc' w|res' w].
    + destruct (recv_frames acc' r) as [[res1 ws1] rem1] eqn:E1. intros [= <- <- <-] H.
      specialize (IH _ _ _ _ E1 H). cbn [length]. lia.
    + intros [= <- <- <-] _. cbn [length]. lia.
Qed.

Lemma recv_frames_suffix : forall fs acc res ws rem,
  recv_frames acc fs = (res, ws, rem) -> exists pre, fs = pre ++ rem.
Proof.
  induction fs as [|f r IH]; intros acc res ws rem; cbn [recv_frames].
  - intros [= <- <- <-]. now exists [].
  - destruct (on_frame acc f) as [acc' w|res' w].
    + destruct (recv_frames acc' r) as [[res1 ws1] rem1] eqn:E1. intros [= <- <- <-].
      destruct (IH _ _ _ _ E1) as [pre ->]. now exists (f :: pre).
    + intros [= <- <- <-]. now exists [f].
Qed.

Lemma recv_frames_close : forall fs acc res ws rem,
  has_close fs = true -> recv_frames acc fs = (res, ws, rem) ->
  res <> Err ReadError /\ (forall m, res = Ok m -> has_close rem = true).
Proof.
  induction fs as [|f r IH]; intros acc res ws rem; cbn [recv_frames has_close]; [discriminate|].
  unfold on_frame. destruct (fopcode f) eqn:Eo.
  - destruct (fin f).
    + intros H [= <- <- <-]. split; [discriminate|]. auto.
    + destruct (recv_frames (f :: acc) r) as [[res1 ws1] rem1] eqn:E1. intros H [= <- <- <-]. exact (IH _ _ _ _ H E1).
  - destruct (fin f).
    + intros H [= <- <- <-]. split; [discriminate|]. auto.
    + destruct (recv_frames (f :: acc) r) as [[res1 ws1] rem1] eqn:E1. intros H [= <- <- <-]. exact (IH _ _ _ _ H E1).
  - destruct (fin f).
    + intros H [= <- <- <-]. split; [discriminate|]. auto.
    + destruct (recv_frames (f :: acc) r) as [[res1 ws1] rem1] eqn:E1. intros H [= <- <- <-]. exact (IH _ _ _ _ H E1).
  - intros _ [= <- <- <-]. split; [discriminate|]. intros m; discriminate.
  - destruct (recv_frames acc r) as [[res1 ws1] rem1] eqn:E1. intros H [= <- <- <-]. exact (IH _ _ _ _ H E1).
  - destruct (recv_frames acc r) as [[res1 ws1] rem1] eqn:E1. intros H [= <- <- <-]. exact (IH _ _ _ _ H E1).
Qed.

Lemma encode_length_ge2 f : (2 <= length (encode f))%nat.
Proof.
  unfold encode, encode_header. destruct (flen f <? 126); [|destruct (flen f <? 65536)]; cbn [app length]; lia.
Qed.

Lemma frames_total_len fs tail cs :
  concat cs = concat (map encode fs) ++ tail -> 2 * N.of_nat (length fs) <= total_len cs.
Proof.
  intro Hc. unfold total_len, blen. rewrite Hc, app_length.
  assert (H : (2 * length fs <= length (concat (map encode fs)))%nat).
  { clear Hc. induction fs as [|f r IH]; cbn [map concat length]; [lia|]. rewrite app_length. pose proof (encode_length_ge2 f). lia. }
  lia.
Qed.

Lemma Forall_suffix {A} (P : A -> Prop) pre l : Forall P (pre ++ l) -> Forall P l.
Proof. intro H. apply Forall_app in H. tauto. Qed.

Lemma serve_loop_limit0 sf df fuel echo cs :
  serve_loop sf df fuel echo (Some O) cs = mkServe [] (Ok tt) (df false) 0.
Proof. destruct fuel; reflexivity. Qed.

(* the model's session on any chunking of the encoded frames = the session on the frame list *)
Lemma serve_loop_frames echo : forall n fs, (length fs <= n)%nat -> forall cs fuel limit tail,
  limit <> Some O -> Forall client_frame fs -> wf_chunks cs -> concat cs = concat (map encode fs) ++ tail ->
  (has_close fs = true \/ tail_ok tail) -> (length fs < fuel)%nat ->
  (s_msgs (serve_loop on_frame drop_stream fuel echo limit cs),
   s_final (serve_loop on_frame drop_stream fuel echo limit cs),
   s_writes (serve_loop on_frame drop_stream fuel echo limit cs)) = session_in echo limit [] fs.
Proof.
  induction n as [|n IH]; intros fs Hn cs fuel limit tail HL HF W Hc HT Hfu.
  - destruct fs; [|cbn in Hn; lia]. destruct fuel as [|fu]; [lia|].
    assert (E : recv_frames [] [] = (Err ReadError, [], [])) by reflexivity.
    destruct HT as [HT|HT]; [discriminate|].
    destruct (recv_loop_frames [] [] cs (fuel_of cs) tail _ _ _ HF W Hc (fun _ => HT) (fuel_of_ok cs) E) as (R1 & R2 & _).
    destruct limit as [[|k]|]; [congruence| |]; cbn [serve_loop]; rewrite R1; cbn [s_msgs s_final s_writes]; rewrite R2; reflexivity.
  - destruct fuel as [|fu]; [lia|].
    destruct (recv_frames [] fs) as [[res ws] rem] eqn:E.
    assert (HT' : res = Err ReadError -> tail_ok tail).
    { intro Hr. destruct HT as [HT|HT]; [|assumption]. destruct (recv_frames_close _ _ _ _ _ HT E) as [X _]. contradiction. }
    destruct (recv_loop_frames fs [] cs (fuel_of cs) tail _ _ _ HF W Hc HT' (fuel_of_ok cs) E) as (R1 & R2 & R3).
    rewrite (session_in_recv fs [] echo limit res ws rem E).
    assert (SL : serve_loop on_frame drop_stream (S fu) echo limit cs =
                 let o := recv_loop on_frame (fuel_of cs) cs [] in
                 match r_res o with
                 | Ok m =>
                   let rest := serve_loop on_frame drop_stream fu echo (option_map pred limit) (r_rest o) in
                   mkServe (m :: s_msgs rest) (s_final rest)
                           (r_writes o ++ (if echo then [send_bytes m] else []) ++ s_writes rest)
                           (N.max (r_alloc o) (s_alloc rest))
                 | Err e => mkServe [] (Err e) (r_writes o ++ drop_stream (e =? ConnectionClosed)) (r_alloc o)
                 | Crash w => mkServe [] (Crash w) (r_writes o) (r_alloc o)
                 end).
    { destruct limit as [[|k]|]; [congruence| |]; reflexivity. }
    rewrite SL. cbv zeta. rewrite R1, R2.
    destruct res as [m|e|c]; cbn [s_msgs s_final s_writes]; try reflexivity.
    assert (Hne : Ok m <> Err ReadError) by discriminate.
    destruct (R3 Hne) as (W' & Hc' & _).
    pose proof (recv_frames_shorter _ _ _ _ _ E Hne) as Hlen.
    destruct (recv_frames_suffix _ _ _ _ _ E) as [pre Hpre].
    destruct (option_map pred limit) as [[|k]|] eqn:EL.
    + rewrite serve_loop_limit0. reflexivity.
    + assert (HT2 : has_close rem = true \/ tail_ok tail).
      { destruct HT as [HT|HT]; [left|now right]. destruct (recv_frames_close _ _ _ _ _ HT E) as [_ X]. now apply (X m). }
      assert (HF2 : Forall client_frame rem) by (rewrite Hpre in HF; exact (Forall_suffix _ _ _ HF)).
      assert (HLk : Some (S k) <> Some O) by discriminate.
      rewrite <- (IH rem ltac:(lia) (r_rest (recv_loop on_frame (fuel_of cs) cs [])) fu (Some (S k)) tail HLk HF2 W' Hc' HT2 ltac:(lia)).
      reflexivity.
    + assert (HT2 : has_close rem = true \/ tail_ok tail).
      { destruct HT as [HT|HT]; [left|now right]. destruct (recv_frames_close _ _ _ _ _ HT E) as [_ X]. now apply (X m). }
      assert (HF2 : Forall client_frame rem) by (rewrite Hpre in HF; exact (Forall_suffix _ _ _ HF)).
      assert (HLk : @None nat <> Some O) by discriminate.
      rewrite <- (IH rem ltac:(lia) (r_rest (recv_loop on_frame (fuel_of cs) cs [])) fu None tail HLk HF2 W' Hc' HT2 ltac:(lia)).
      reflexivity.
Qed.

(* ================= the session on a well-formed script = what the script means ================= *)
Definition Cur (acc : list frame) (cur : option (bool * bytes)) : Prop :=
  match acc with
  | [] => cur = None
  | _ :: _ => cur = Some (m_text (finish_message (rev acc)), concat (map payload (rev acc)))
  end.
Definition open_of (acc : list frame) : bool := match acc with [] => false | _ => true end.

Lemma finish_snoc l f :
  l <> [] -> finish_message (l ++ [f]) = mkMsg (m_text (finish_message l)) (concat (map payload l) ++ payload f).
Proof.
  destruct l as [|g l]; [congruence|]. intros _. unfold finish_message. rewrite map_app, concat_app.
  cbn [app map concat m_text]. now rewrite app_nil_r.
Qed.

Lemma rev_cons_ne {A} (x : A) l : rev (x :: l) <> [].
Proof. cbn [rev]. destruct (rev l); discriminate. Qed.

Definition writes_spec (echo : bool) (cur : option (bool * bytes)) (fs : list frame) : list bytes :=
  map encode (if echo then echo_replies_of cur fs else replies_of fs) ++
  (if has_close fs then [] else [encode (server_frame Close [])]).

Definition final_spec (fs : list frame) : outcome unit :=
  Err (if has_close fs then ConnectionClosed else ReadError).

Lemma send_bytes_frame m : send_bytes m = encode (message_frame m).
Proof. reflexivity. Qed.

Lemma session_in_spec echo : forall fs acc cur,
  Cur acc cur -> script_okb (open_of acc) fs = true ->
  session_in echo None acc fs = (messages_of cur fs, final_spec fs, writes_spec echo cur fs).
Proof.
  induction fs as [|f r IH]; intros acc cur HC HS.
  - unfold writes_spec, final_spec. destruct echo; reflexivity.
  - cbn [session_in script_okb] in *. unfold on_frame.
    destruct (fopcode f) eqn:Eo.
    + (* Continuation *)
      apply andb_true_iff in HS as [HO HS]. destruct acc as [|a acc]; [discriminate|].
      cbn [Cur] in HC. subst cur.
      pose proof (finish_snoc (rev (a :: acc)) f (rev_cons_ne a acc)) as FS.
      destruct (fin f) eqn:Ef.
      * cbn [option_map]. change (rev (f :: a :: acc)) with (rev (a :: acc) ++ [f]). rewrite FS.
        rewrite (IH [] None eq_refl HS).
        unfold writes_spec, final_spec. cbn [messages_of echo_replies_of replies_of has_close]. rewrite Eo, Ef.
        destruct echo; reflexivity.
      * assert (HC' : Cur (f :: a :: acc) (Some (m_text (finish_message (rev (a :: acc))), concat (map payload (rev (a :: acc))) ++ payload f))).
        { cbn [Cur]. change (rev (f :: a :: acc)) with (rev (a :: acc) ++ [f]). rewrite FS. cbn [m_text].
          rewrite map_app, concat_app. cbn [map concat]. now rewrite app_nil_r. }
        rewrite (IH (f :: a :: acc) _ HC' HS).
        unfold writes_spec, final_spec. cbn [messages_of echo_replies_of replies_of has_close]. rewrite Eo, Ef.
        destruct echo; reflexivity.
    + (* Text *)
      apply andb_true_iff in HS as [HO HS]. destruct acc as [|a acc]; [|discriminate].
      cbn [Cur] in HC. subst cur.
      destruct (fin f) eqn:Ef.
      * cbn [option_map rev app]. rewrite (IH [] None eq_refl HS).
        unfold writes_spec, final_spec, finish_message. cbn [messages_of echo_replies_of replies_of has_close map concat]. rewrite Eo, Ef.
        rewrite app_nil_r. destruct echo; reflexivity.
      * assert (HC' : Cur [f] (Some (true, payload f))).
        { cbn [Cur rev app]. unfold finish_message. cbn [m_text map concat]. now rewrite Eo, app_nil_r. }
        rewrite (IH [f] _ HC' HS).
        unfold writes_spec, final_spec. cbn [messages_of echo_replies_of replies_of has_close]. rewrite Eo, Ef.
        destruct echo; reflexivity.
    + (* Binary *)
      apply andb_true_iff in HS as [HO HS]. destruct acc as [|a acc]; [|discriminate].
      cbn [Cur] in HC. subst cur.
      destruct (fin f) eqn:Ef.
      * cbn [option_map rev app]. rewrite (IH [] None eq_refl HS).
        unfold writes_spec, final_spec, finish_message. cbn [messages_of echo_replies_of replies_of has_close map concat]. rewrite Eo, Ef.
        rewrite app_nil_r. destruct echo; reflexivity.
      * assert (HC' : Cur [f] (Some (false, payload f))).
        { cbn [Cur rev app]. unfold finish_message. cbn [m_text map concat]. now rewrite Eo, app_nil_r. }
        rewrite (IH [f] _ HC' HS).
        unfold writes_spec, final_spec. cbn [messages_of echo_replies_of replies_of has_close]. rewrite Eo, Ef.
        destruct echo; reflexivity.
    + (* Close *)
      unfold writes_spec, final_spec. cbn [messages_of echo_replies_of replies_of has_close]. rewrite Eo.
      destruct echo; reflexivity.
    + (* Ping *)
      apply andb_true_iff in HS as [_ HS]. rewrite (IH acc cur HC HS).
      unfold writes_spec, final_spec. cbn [messages_of echo_replies_of replies_of has_close]. rewrite Eo.
      destruct echo; reflexivity.
    + (* Pong *)
      apply andb_true_iff in HS as [_ HS]. rewrite (IH acc cur HC HS).
      unfold writes_spec, final_spec. cbn [messages_of echo_replies_of replies_of has_close]. rewrite Eo.
      destruct echo; reflexivity.
Qed.

(* C11 recv_delivers + writes: every chunking of every well-formed client script (followed by nothing, by the beginning of
   a further frame, or — when the script contains a Close — by anything) *)
Theorem serve_script echo fs tail cs :
  Forall client_frame fs -> script_okb false fs = true -> wf_chunks cs ->
  concat cs = concat (map encode fs) ++ tail -> (has_close fs = true \/ tail_ok tail) ->
  s_msgs (serve echo None cs) = messages_of None fs /\
  s_final (serve echo None cs) = final_spec fs /\
  s_writes (serve echo None cs) = writes_spec echo None fs.
Proof.
  intros HF HS W Hc HT. unfold serve.
  assert (HL : @None nat <> Some O) by discriminate.
  assert (Hfu : (length fs < fuel_of cs)%nat).
  { pose proof (frames_total_len fs tail cs Hc). unfold fuel_of. lia. }
  pose proof (serve_loop_frames echo (length fs) fs (le_n _) cs (fuel_of cs) None tail HL HF W Hc HT Hfu) as E.
  rewrite (session_in_spec echo fs [] None eq_refl HS) in E. now injection E.
Qed.

(* ================= everything the server wrote is a sequence of well-formed unmasked frames ================= *)
Definition reply_frames (echo : bool) (fs : list frame) : list frame :=
  (if echo then echo_replies_of None fs else replies_of fs) ++ (if has_close fs then [] else [server_frame Close []]).

Lemma writes_spec_frames echo fs : writes_spec echo None fs = map encode (reply_frames echo fs).
Proof. unfold writes_spec, reply_frames. rewrite map_app. destruct (has_close fs); reflexivity. Qed.

Lemma server_frame_wf o p : blen p < 2 ^ 63 -> Forall byte p -> wf (server_frame o p).
Proof. exact (new_frame_wf o p). Qed.

Lemma norm_server_frame o p : norm (server_frame o p) = server_frame o p.
Proof. reflexivity. Qed.

Definition is_server_frame (g : frame) : Prop :=
  exists o p, g = server_frame o p /\ blen p < 2 ^ 63 /\ Forall byte p.

Lemma is_server_frame_wf g : is_server_frame g -> wf g /\ mask g = false /\ norm g = g.
Proof. intros (o & p & -> & L & B). split; [now apply server_frame_wf|]. split; reflexivity. Qed.

Lemma client_payload f : client_frame f -> blen (payload f) < 2 ^ 63 /\ Forall byte (payload f).
Proof. intros [(L & B & P & _) _]. split; [now rewrite <- L|assumption]. Qed.

Lemma replies_server fs : Forall client_frame fs -> Forall is_server_frame (replies_of fs).
Proof.
  induction fs as [|f r IH]; intro HF; cbn [replies_of]; [constructor|].
  inversion HF as [|? ? Hf HF']; subst. destruct (client_payload f Hf) as [L B].
  destruct (fopcode f); try (now apply IH).
  - constructor; [|constructor]. now exists Close, (payload f).
  - constructor; [|now apply IH]. now exists Pong, (payload f).
Qed.

(* echoing needs the whole message to be shorter than 2^63 bytes *)
Lemma echo_replies_server : forall fs cur,
  Forall client_frame fs ->
  (match cur with Some (_, p) => blen p | None => 0 end) + blen (concat (map payload fs)) < 2 ^ 63 ->
  (match cur with Some (_, p) => Forall byte p | None => True end) ->
  Forall is_server_frame (echo_replies_of cur fs).
Proof.
  induction fs as [|f r IH]; intros cur HF HL HB; cbn [echo_replies_of]; [constructor|].
  inversion HF as [|? ? Hf HF']; subst. destruct (client_payload f Hf) as [L B].
  cbn [map concat] in HL. rewrite blen_app in HL.
  assert (HLr : blen (concat (map payload r)) < 2 ^ 63) by lia.
  destruct (fopcode f).
  - (* Continuation *)
    destruct cur as [[t p]|].
    + destruct (fin f).
      * constructor.
        -- exists (if t then Text else Binary), (p ++ payload f). cbn [message_frame m_text m_payload]. repeat split.
           ++ rewrite blen_app. lia.
           ++ apply Forall_app. split; assumption.
        -- apply IH; [assumption|lia|exact I].
      * apply IH; [assumption| rewrite blen_app; lia | apply Forall_app; split; assumption].
    + apply IH; [assumption|lia|exact I].
  - destruct (fin f).
    + constructor; [now exists Text, (payload f)|]. apply IH; [assumption|lia|exact I].
    + apply IH; [assumption|lia|assumption].
  - destruct (fin f).
    + constructor; [now exists Binary, (payload f)|]. apply IH; [assumption|lia|exact I].
    + apply IH; [assumption|lia|assumption].
  - constructor; [|constructor]. now exists Close, (payload f).
  - constructor; [now exists Pong, (payload f)|]. apply IH; [assumption|destruct cur as [[? ?]|]; lia|assumption].
  - apply IH; [assumption|destruct cur as [[? ?]|]; lia|assumption].
Qed.

Lemma reply_frames_server echo fs :
  Forall client_frame fs -> (echo = true -> blen (concat (map payload fs)) < 2 ^ 63) ->
  Forall is_server_frame (reply_frames echo fs).
Proof.
  intros HF HE. unfold reply_frames. apply Forall_app. split.
  - destruct echo; [apply echo_replies_server; [assumption|cbn; specialize (HE eq_refl); lia|exact I] | now apply replies_server].
  - destruct (has_close fs); [constructor|]. constructor; [|constructor]. exists Close, []. repeat split; try (cbn; lia); try constructor.
Qed.

Lemma map_norm_server l : Forall is_server_frame l -> map norm l = l.
Proof.
  induction 1 as [|g l Hg _ IH]; [reflexivity|]. cbn [map]. rewrite IH.
  destruct (is_server_frame_wf g Hg) as (_ & _ & ->). reflexivity.
Qed.

(* C11 writes_are_frames, on scripts *)
Theorem script_writes_are_frames echo fs tail cs :
  Forall client_frame fs -> script_okb false fs = true -> wf_chunks cs ->
  concat cs = concat (map encode fs) ++ tail -> (has_close fs = true \/ tail_ok tail) ->
  (echo = true -> blen (concat (map payload fs)) < 2 ^ 63) ->
  let R := reply_frames echo fs in
  s_writes (serve echo None cs) = map encode R /\
  Forall (fun g => wf g /\ mask g = false /\ FrameBytes g (encode g)) R /\
  (forall ws, wf_chunks ws -> concat ws = concat (s_writes (serve echo None cs)) ->
     exists ws', decode_many (length R) ws = Ok (R, ws') /\ concat ws' = [] /\ wf_chunks ws').
Proof.
  intros HF HS W Hc HT HE R.
  destruct (serve_script echo fs tail cs HF HS W Hc HT) as (_ & _ & HW).
  pose proof (reply_frames_server echo fs HF HE) as HR. fold R in HR.
  rewrite writes_spec_frames in HW. fold R in HW. split; [assumption|]. split.
  - eapply Forall_impl; [|exact HR]. intros g Hg. destruct (is_server_frame_wf g Hg) as (Wg & Mg & _).
    split; [assumption|]. split; [assumption|]. now apply encode_layout.
  - intros ws Wws Hws. rewrite HW in Hws.
    assert (HWf : Forall wf R) by (eapply Forall_impl; [|exact HR]; intros g Hg; now destruct (is_server_frame_wf g Hg)).
    rewrite <- (app_nil_r (concat (map encode R))) in Hws.
    destruct (decode_many_encode R [] ws HWf Wws Hws) as (ws' & D & C & W').
    rewrite (map_norm_server R HR) in D. now exists ws'.
Qed.

(* ================= the opening handshake ================= *)
Lemma magic_is_guid : MAGIC_STRING = RFC_GUID.
Proof. reflexivity. Qed.

Lemma accept_value_spec key :
  Forall byte key -> blen key < 2 ^ 60 -> accept_value key = Ok (accept_spec key).
Proof.
  intros HB HL. unfold accept_value, accept_spec. rewrite magic_is_guid.
  assert (HB2 : Forall Sha1Proofs.is_byte (key ++ RFC_GUID)).
  { apply Forall_app. split; [exact HB|]. unfold RFC_GUID, Sha1Proofs.is_byte. repeat constructor. }
  assert (HL2 : N.of_nat (length (key ++ RFC_GUID)) * 8 + 583 < 2 ^ 64).
  { rewrite app_length. unfold blen in HL. change (length RFC_GUID) with 36%nat.
    change (2 ^ 60) with 1152921504606846976 in HL. change (2 ^ 64) with 18446744073709551616. lia. }
  pose proof (Sha1Proofs.sha1_model_eq_spec _ HB2 HL2) as S. rewrite S. cbn [obind].
  apply Base64Proofs.encode_model_spec. exact (proj2 (Sha1Proofs.sha1_output _ _ S)).
Qed.

(* the 101 response *)
Definition response_101 (acc : bytes) : response :=
  {| s_version := [72; 84; 84; 80; 47; 49; 46; 49];                      (* HTTP/1.1 *)
     s_status := 1;                                                      (* StatusCode::SwitchingProtocols *)
     s_headers := [(HKnown H_Upgrade, [119; 101; 98; 115; 111; 99; 107; 101; 116]);     (* Upgrade: websocket *)
                   (HKnown H_Connection, [85; 112; 103; 114; 97; 100; 101]);            (* Connection: Upgrade *)
                   (HCustom [115; 101; 99; 45; 119; 101; 98; 115; 111; 99; 107; 101; 116; 45; 97; 99; 99; 101; 112; 116], acc)];
                                                                         (* sec-websocket-accept: <acc> *)
     s_body := [] |}.

(* "HTTP/1.1 101 Switching Protocols\r\nConnection: Upgrade\r\nUpgrade: websocket\r\nsec-websocket-accept: " *)
Definition head_101 : bytes :=
  [72; 84; 84; 80; 47; 49; 46; 49; 32; 49; 48; 49; 32; 83; 119; 105; 116; 99; 104; 105; 110; 103; 32; 80; 114; 111; 116; 111;
   99; 111; 108; 115; 13; 10; 67; 111; 110; 110; 101; 99; 116; 105; 111; 110; 58; 32; 85; 112; 103; 114; 97; 100; 101; 13; 10;
   85; 112; 103; 114; 97; 100; 101; 58; 32; 119; 101; 98; 115; 111; 99; 107; 101; 116; 13; 10; 115; 101; 99; 45; 119; 101; 98;
   115; 111; 99; 107; 101; 116; 45; 97; 99; 99; 101; 112; 116; 58; 32].

Lemma serialize_101 acc : serialize_response (response_101 acc) = head_101 ++ acc ++ [13; 10; 13; 10].
Proof.
  transitivity (head_101 ++ (acc ++ []) ++ [13; 10; 13; 10]); [vm_compute; reflexivity|]. now rewrite app_nil_r.
Qed.

Lemma status_101 : status_code 1 = 101 /\ status_phrase 1 = [83; 119; 105; 116; 99; 104; 105; 110; 103; 32; 80; 114; 111; 116; 111; 99; 111; 108; 115].
Proof. split; reflexivity. Qed.

Definition key_name : hname := HCustom [115; 101; 99; 45; 119; 101; 98; 115; 111; 99; 107; 101; 116; 45; 107; 101; 121].  (* sec-websocket-key *)

Lemma key_name_eq : hname_of WS_KEY_HEADER = key_name.
Proof. reflexivity. Qed.

Theorem handshake_accept req key :
  hget key_name (r_headers req) = Some key -> Forall byte key -> blen key < 2 ^ 60 ->
  handshake req = Ok (response_101 (accept_spec key)) /\
  handshake_bytes req = Ok (head_101 ++ accept_spec key ++ [13; 10; 13; 10]).
Proof.
  intros HK HB HL. unfold handshake_bytes, handshake. rewrite key_name_eq, HK, (accept_value_spec key HB HL). cbn [obind].
  split; [reflexivity|]. now rewrite <- serialize_101.
Qed.

Theorem handshake_no_key req :
  hget key_name (r_headers req) = None -> handshake req = Err HandshakeError /\ handshake_bytes req = Err HandshakeError.
Proof. intro HK. unfold handshake_bytes, handshake. rewrite key_name_eq, HK. split; reflexivity. Qed.

(* the hand-off in app.rs: only a request whose Upgrade header is exactly "websocket" reaches the handshake; without
   a key header nothing is written *)
Theorem upgrade_spec req :
  upgrade req =
  match hget (HKnown H_Upgrade) (r_headers req) with
  | Some v => if beq v [119; 101; 98; 115; 111; 99; 107; 101; 116] then Some (handshake_bytes req) else None
  | None => None
  end.
Proof. reflexivity. Qed.

(* ================= the code as it was (F20, F21) ================= *)
Definition ex_ping : frame := mkFrame true false false false Ping true 2 (mkKey 17 34 51 68) [104; 105].        (* "hi" *)
Definition ex_ping0 : frame := mkFrame true false false false Ping true 0 (mkKey 1 2 3 4) [].
Definition ex_text : frame := mkFrame true false false false Text true 5 (mkKey 55 250 33 61) [104; 101; 108; 108; 111].
Definition ex_close : frame := mkFrame true false false false Close true 2 (mkKey 9 8 7 6) [3; 232].            (* 1000 *)

Lemma ex_client_frames : Forall client_frame [ex_ping; ex_ping0; ex_text; ex_close].
Proof. repeat constructor. Qed.

(* F20: a masked Ping "hi", a masked empty Ping and a masked Close 1000 were answered with the bytes 68 69 03 e8 (the
   two payloads, no frame at all for the empty Ping); the same stream is answered with three frames now *)
Theorem serve_old_refuted :
  exists fs cs, Forall client_frame fs /\ script_okb false fs = true /\ wf_chunks cs /\ concat cs = concat (map encode fs) /\
    concat (s_writes (serve_old false None cs)) = [104; 105; 3; 232] /\
    concat (s_writes (serve_old false None cs)) <> concat (writes_spec false None fs) /\
    decode [concat (s_writes (serve_old false None cs))] = Err ReadError /\
    s_writes (serve false None cs) = writes_spec false None fs /\
    s_writes (serve false None cs) = [[138; 2; 104; 105]; [138; 0]; [136; 2; 3; 232]].
Proof.
  exists [ex_ping; ex_ping0; ex_close], [concat (map encode [ex_ping; ex_ping0; ex_close])].
  split; [repeat constructor|]. split; [reflexivity|]. split; [repeat constructor; discriminate|].
  split; [cbn [concat]; now rewrite app_nil_r|]. vm_compute. repeat split; try reflexivity. discriminate.
Qed.

(* F20, drop: dropping an open stream wrote nothing *)
Theorem drop_old_refuted : concat (drop_stream_old false) = [] /\ drop_stream false = [[136; 0]].
Proof. split; reflexivity. Qed.

(* F21: one byte of the frame 81 85 <key> "hello" has arrived when recv_nonblocking is called, the rest follows: the
   old code returned an empty text message and left the remaining bytes to be misread; the blocking receive (and the
   repaired non-blocking one) deliver "hello" *)
Theorem recv_nb_old_refuted :
  exists cs, wf_chunks cs /\ concat cs = encode ex_text /\
    n_res (recv_nb_old (fun _ => 1) cs) = Some (Ok (mkMsg true [])) /\
    r_res (recv cs) = Ok (mkMsg true [104; 101; 108; 108; 111]) /\
    n_res (recv_nb (fun _ => 1) cs) = Some (Ok (mkMsg true [104; 101; 108; 108; 111])) /\
    (* the bytes left behind by the old code are then read as a frame with a reserved opcode *)
    r_res (recv (n_rest (recv_nb_old (fun _ => 1) cs))) = Err InvalidOpcode.
Proof.
  exists [[129]; [133; 55; 250; 33; 61; 95; 159; 77; 81; 88]].
  split; [repeat constructor; discriminate|]. vm_compute. repeat split; reflexivity.
Qed.

(* ================= non-blocking receive ================= *)
Lemma blen_cons_pos x (l : bytes) : 0 < blen (x :: l).
Proof. rewrite blen_cons. lia. Qed.

Definition tl_chunk (c : bytes) (cs : chunks) : chunks := match c with [] => cs | _ => c :: cs end.

Lemma read_exact_1_cons y c2 cs : read_exact 1 ((y :: c2) :: cs) = Some ([y], tl_chunk c2 cs).
Proof.
  cbn [read_exact N.eqb]. change (1 =? 0) with false. cbv iota.
  destruct (blen (y :: c2) =? 0) eqn:E0; [apply N.eqb_eq in E0; pose proof (blen_cons_pos y c2); lia|].
  destruct c2 as [|z c3].
  - change (blen [y]) with 1. change (1 <? 1) with false. cbv iota. change (1 - 1) with 0.
    destruct cs; reflexivity.
  - destruct (1 <? blen (y :: z :: c3)) eqn:E1; [reflexivity|].
    apply N.ltb_ge in E1. rewrite !blen_cons in E1. lia.
Qed.

Lemma read_exact_2_one x cs :
  read_exact 2 ([x] :: cs) = match read_exact 1 cs with Some (b, r) => Some (x :: b, r) | None => None end.
Proof.
  cbn [read_exact]. change (2 =? 0) with false. cbv iota. change (blen [x]) with 1.
  change (1 =? 0) with false. change (2 <? 1) with false. cbv iota. change (2 - 1) with 1.
  destruct (read_exact 1 cs) as [[b r]|]; reflexivity.
Qed.

Lemma read_exact_2_two x y c2 cs : read_exact 2 ((x :: y :: c2) :: cs) = Some ([x; y], tl_chunk c2 cs).
Proof.
  cbn [read_exact]. change (2 =? 0) with false. cbv iota.
  destruct (blen (x :: y :: c2) =? 0) eqn:E0; [apply N.eqb_eq in E0; pose proof (blen_cons_pos x (y :: c2)); lia|].
  destruct c2 as [|z c3].
  - change (blen [x; y]) with 2. change (2 <? 2) with false. cbv iota. change (2 - 2) with 0.
    destruct cs; reflexivity.
  - destruct (2 <? blen (x :: y :: z :: c3)) eqn:E1; [reflexivity|].
    apply N.ltb_ge in E1. rewrite !blen_cons in E1. lia.
Qed.

Lemma read_1_cons x c1 cs : read 1 ((x :: c1) :: cs) = ([x], tl_chunk c1 cs).
Proof.
  unfold read. change (1 =? 0) with false. cbv iota. destruct c1 as [|y c2].
  - reflexivity.
  - destruct (blen (x :: y :: c2) <=? 1) eqn:E; [|reflexivity]. apply N.leb_le in E. rewrite !blen_cons in E. lia.
Qed.

Lemma read_2_one x cs : read 2 ([x] :: cs) = ([x], cs).
Proof. reflexivity. Qed.

Lemma read_2_two x y c2 cs : read 2 ((x :: y :: c2) :: cs) = ([x; y], tl_chunk c2 cs).
Proof.
  unfold read. change (2 =? 0) with false. cbv iota. destruct c2 as [|z c3].
  - reflexivity.
  - destruct (blen (x :: y :: z :: c3) <=? 2) eqn:E; [|reflexivity]. apply N.leb_le in E. rewrite !blen_cons in E. lia.
Qed.

Lemma decode_m_one x cs :
  decode_m ([x] :: cs) =
  match read_exact 1 cs with
  | None => (Err ReadError, 0)
  | Some ([h1], cs2) => from_stream_inner cs2 x h1
  | Some _ => (Crash CrashHeaderLen, 0)
  end.
Proof.
  unfold decode_m. rewrite read_exact_2_one. destruct (read_exact 1 cs) as [[b r]|] eqn:E; [|reflexivity].
  pose proof (read_exact_len _ _ _ _ E) as L. destruct b as [|h1 [|? ?]]; try (unfold blen in L; cbn in L; lia). reflexivity.
Qed.

Lemma decode_m_two x y c2 cs : decode_m ((x :: y :: c2) :: cs) = from_stream_inner (tl_chunk c2 cs) x y.
Proof. unfold decode_m. now rewrite read_exact_2_two. Qed.

(* whenever at least one byte has arrived (and the peer has not closed), the non-blocking frame read returns exactly
   what the blocking one returns, whatever the number of bytes available *)
Lemma frame_nb_agrees k cs : 1 <= k -> wf_chunks cs -> cs <> [] -> frame_nb k cs = Some (decode_m cs).
Proof.
  intros Hk W Hne. destruct cs as [|c cs]; [congruence|]. inversion W as [|? ? Hc W']; subst.
  unfold frame_nb. destruct (k =? 0) eqn:E0; [apply N.eqb_eq in E0; lia|].
  destruct (N.eq_dec k 1) as [->|Hk1].
  - change (N.min 1 2) with 1. destruct c as [|x c1]; [congruence|]. rewrite read_1_cons.
    destruct c1 as [|y c2]; cbn [tl_chunk].
    + rewrite decode_m_one. destruct (read_exact 1 cs) as [[b r]|]; [|reflexivity].
      destruct b as [|h1 [|? ?]]; reflexivity.
    + rewrite read_exact_1_cons, decode_m_two. reflexivity.
  - replace (N.min k 2) with 2 by lia. destruct c as [|x [|y c2]]; [congruence| |].
    + rewrite read_2_one, decode_m_one. destruct (read_exact 1 cs) as [[b r]|]; [|reflexivity].
      destruct b as [|h1 [|? ?]]; reflexivity.
    + rewrite read_2_two, decode_m_two. reflexivity.
Qed.

Lemma frame_nb_zero cs : frame_nb 0 cs = None.
Proof. reflexivity. Qed.

Lemma frame_nb_eof k : frame_nb k [] = None.
Proof. unfold frame_nb. destruct (k =? 0); [reflexivity|]. unfold read. destruct (N.min k 2 =? 0); reflexivity. Qed.

(* reads keep the reader well-formed *)
Lemma from_stream_inner_wf cs1 h0 h1 f cs' a :
  wf_chunks cs1 -> from_stream_inner cs1 h0 h1 = (Ok (f, cs'), a) -> wf_chunks cs'.
Proof.
  intro W. unfold from_stream_inner. destruct (opcode_of_N (N.land h0 15)); [|discriminate].
  destruct (read_len (N.land h1 127) cs1) as [[n cs2]|] eqn:EL; [|discriminate].
  assert (W2 : wf_chunks cs2).
  { unfold read_len in EL. destruct (N.land h1 127 =? 126).
    - destruct (read_exact 2 cs1) as [[b r]|] eqn:E; [|discriminate]. injection EL as _ <-.
      now destruct (read_exact_some _ _ _ _ W E) as (_ & _ & _ & _ & X).
    - destruct (N.land h1 127 =? 127).
      + destruct (read_exact 8 cs1) as [[b r]|] eqn:E; [|discriminate]. injection EL as _ <-.
        now destruct (read_exact_some _ _ _ _ W E) as (_ & _ & _ & _ & X).
      + now injection EL as _ <-. }
  destruct (read_key (negb (N.land h1 128 =? 0)) cs2) as [[key cs3]|] eqn:EK; [|discriminate].
  assert (W3 : wf_chunks cs3).
  { unfold read_key in EK. destruct (negb (N.land h1 128 =? 0)).
    - destruct (read_exact 4 cs2) as [[b r]|] eqn:E; [|discriminate]. injection EK as _ <-.
      now destruct (read_exact_some _ _ _ _ W2 E) as (_ & _ & _ & _ & X).
    - now injection EK as _ <-. }
  destruct (read_take n cs3) as [data cs4] eqn:ET.
  destruct (read_take_spec _ _ _ _ W3 ET) as (_ & _ & W4).
  destruct (blen data =? n); [|discriminate]. now intros [= _ <- _].
Qed.

Lemma decode_m_wf cs f cs' a : wf_chunks cs -> decode_m cs = (Ok (f, cs'), a) -> wf_chunks cs'.
Proof.
  intro W. unfold decode_m. destruct (read_exact 2 cs) as [[hdr cs1]|] eqn:E; [|discriminate].
  destruct (read_exact_some _ _ _ _ W E) as (_ & _ & _ & _ & W1).
  destruct hdr as [|h0 [|h1 [|? ?]]]; try discriminate. now apply from_stream_inner_wf.
Qed.

(* one round of the blocking loop, fuel-free *)
Lemma recv_loop_unfold fuel cs acc :
  total_len cs < N.of_nat fuel ->
  recv_loop on_frame fuel cs acc =
  match decode_m cs with
  | (Err e, a) => mkOut (Err e) [] [] a
  | (Crash w, a) => mkOut (Crash w) [] [] a
  | (Ok (f, cs1), a) =>
    match on_frame acc f with
    | SDone res w => mkOut res w cs1 (a + step_alloc f + msg_alloc res)
    | SCont acc' w => add_write w (a + step_alloc f) (recv_loop on_frame (fuel_of cs1) cs1 acc')
    end
  end.
Proof.
  intro H. destruct fuel as [|fu]; [lia|]. cbn [recv_loop].
  destruct (decode_m cs) as [r a] eqn:D. destruct r as [[f cs1]|e|w]; try reflexivity.
  destruct (decode_m_consumes _ _ _ _ D) as [T _].
  destruct (on_frame acc f); [|reflexivity]. f_equal. apply recv_loop_fuel; [lia|apply fuel_of_ok].
Qed.

(* how a non-blocking call relates to the blocking one on the same reader *)
Definition nb_refines (avail : N -> N) (t0 : N) (o : nb_out) (b : recv_out) : Prop :=
  match n_res o with
  | Some r => r_res b = r /\ r_writes b = n_writes o /\ r_rest b = n_rest o
  | None =>
    wf_chunks (n_rest o) /\
    r_res b = r_res (recv (n_rest o)) /\
    r_writes b = n_writes o ++ r_writes (recv (n_rest o)) /\
    r_rest b = r_rest (recv (n_rest o)) /\
    (n_rest o = [] \/ avail (t0 - total_len (n_rest o)) = 0)
  end.

Lemma recv_nb_loop_refines avail t0 : forall fuel cs,
  wf_chunks cs -> total_len cs < N.of_nat fuel ->
  nb_refines avail t0 (recv_nb_loop frame_nb fuel avail t0 cs) (recv cs).
Proof.
  induction fuel as [|fu IH]; intros cs W Hf; [lia|]. cbn [recv_nb_loop].
  destruct (N.eq_dec (avail (t0 - total_len cs)) 0) as [K0|K0].
  { rewrite K0, frame_nb_zero. unfold nb_refines. cbn [n_res n_rest n_writes]. repeat split; auto. }
  assert (Hd : cs = [] \/ cs <> []) by (destruct cs; [left|right]; congruence).
  destruct Hd as [->|Hne].
  { rewrite frame_nb_eof. unfold nb_refines. cbn [n_res n_rest n_writes]. repeat split; auto. }
  assert (K1 : 1 <= avail (t0 - total_len cs)) by lia.
  rewrite (frame_nb_agrees _ cs K1 W Hne).
  unfold recv. rewrite (recv_loop_unfold (fuel_of cs) cs [] (fuel_of_ok cs)).
  destruct (decode_m cs) as [r a] eqn:D. destruct r as [[f cs1]|e|w].
  - destruct (decode_m_consumes _ _ _ _ D) as [T _]. pose proof (decode_m_wf _ _ _ _ W D) as W1.
    destruct (on_frame [] f) as [acc' w|res w] eqn:E.
    + destruct acc' as [|g acc''].
      * specialize (IH cs1 W1 ltac:(lia)). unfold nb_refines in *. cbn [nb_add n_res n_rest n_writes].
        fold (recv cs1). destruct (n_res (recv_nb_loop frame_nb fu avail t0 cs1)) as [r|].
        -- destruct IH as (I1 & I2 & I3). cbn [add_write r_res r_writes r_rest]. repeat split; congruence.
        -- destruct IH as (I0 & I1 & I2 & I3 & I4). cbn [add_write r_res r_writes r_rest].
           repeat split; try assumption. rewrite I2. now rewrite app_assoc.
      * unfold nb_refines. cbn [nb_add nb_of_recv n_res n_rest n_writes add_write r_res r_writes r_rest].
        rewrite (recv_loop_fuel on_frame fu (fuel_of cs1) cs1 (g :: acc'') ltac:(lia) (fuel_of_ok cs1)).
        repeat split; reflexivity.
    + unfold nb_refines. cbn [n_res n_rest n_writes r_res r_writes r_rest]. repeat split; reflexivity.
  - unfold nb_refines. cbn [n_res n_rest n_writes r_res r_writes r_rest]. repeat split; reflexivity.
  - unfold nb_refines. cbn [n_res n_rest n_writes r_res r_writes r_rest]. repeat split; reflexivity.
Qed.

(* C11 nb_agrees: for every arrival pattern, a non-blocking receive either returns exactly what the blocking receive
   returns (same result, same replies written, same bytes left), or it reports "nothing yet" — having answered the
   pings it consumed, leaving the reader at a frame boundary from which the blocking receive continues identically, and
   only when no byte of the next frame had arrived (or the peer has closed) *)
Theorem recv_nb_refines avail cs :
  wf_chunks cs -> nb_refines avail (total_len cs) (recv_nb avail cs) (recv cs).
Proof. intro W. unfold recv_nb. apply recv_nb_loop_refines; [assumption|apply fuel_of_ok]. Qed.

(* in particular: at least one byte available at every non-blocking read, and a stream that does not end before the
   call returns => identical to the blocking receive *)
Corollary recv_nb_agrees avail cs :
  wf_chunks cs -> (forall off, 1 <= avail off) ->
  n_res (recv_nb avail cs) = Some (r_res (recv cs)) /\ n_writes (recv_nb avail cs) = r_writes (recv cs) /\
  n_rest (recv_nb avail cs) = r_rest (recv cs)
  \/
  n_res (recv_nb avail cs) = None /\ n_rest (recv_nb avail cs) = [].
Proof.
  intros W HA. pose proof (recv_nb_refines avail cs W) as R. unfold nb_refines in R.
  destruct (n_res (recv_nb avail cs)) as [r|].
  - left. destruct R as (R1 & R2 & R3). repeat split; congruence.
  - right. destruct R as (_ & _ & _ & _ & [R|R]); [now split|]. specialize (HA (total_len cs - total_len (n_rest (recv_nb avail cs)))). lia.
Qed.

(* nothing available (k = 0): "nothing yet", and not a byte is consumed, nothing written *)
Theorem recv_nb_nothing avail cs :
  avail 0 = 0 -> recv_nb avail cs = mkNb None [] cs 0.
Proof.
  intro H. unfold recv_nb, fuel_of. cbn [recv_nb_loop]. rewrite N.sub_diag, H. reflexivity.
Qed.

(* ================= safety (C03): no crash, termination, allocation linear in the bytes supplied ================= *)
Lemma blen_concat_rev (l : list bytes) : blen (concat (rev l)) = blen (concat l).
Proof.
  induction l as [|x l IH]; [reflexivity|]. cbn [rev concat]. rewrite concat_app, !blen_app. cbn [concat]. rewrite app_nil_r. lia.
Qed.

Lemma payload_rev_len (l : list frame) : blen (concat (map payload (rev l))) = blen (concat (map payload l)).
Proof. rewrite map_rev. apply blen_concat_rev. Qed.

Lemma recv_loop_alloc : forall fuel cs acc,
  r_alloc (recv_loop on_frame fuel cs acc) <= 64 * total_len cs + 2 * blen (concat (map payload acc)) + 32.
Proof.
  induction fuel as [|fu IH]; intros cs acc; cbn [recv_loop]; [cbn [r_alloc]; lia|].
  destruct (decode_m cs) as [r a] eqn:D. destruct r as [[f cs1]|e|w].
  - destruct (decode_m_consumes _ _ _ _ D) as [T ->].
    pose proof (IH cs1 acc) as IH1. pose proof (IH cs1 (f :: acc)) as IH2. cbn [map concat] in IH2. rewrite blen_app in IH2.
    assert (FM : blen (m_payload (finish_message (rev (f :: acc)))) = blen (payload f) + blen (concat (map payload acc))).
    { unfold finish_message. cbn [m_payload]. rewrite payload_rev_len. cbn [map concat]. now rewrite blen_app. }
    remember (on_frame acc f) as st eqn:E. unfold on_frame in E. unfold step_alloc.
    destruct (fopcode f) eqn:Eo; try (destruct (fin f)); subst st; cbn [add_write r_alloc msg_alloc]; lia.
  - cbn [r_alloc]. pose proof (decode_m_err_alloc _ _ _ D). lia.
  - exfalso. exact (decode_m_no_crash _ _ _ D).
Qed.

Lemma recv_loop_no_crash : forall fuel cs acc, is_crash (r_res (recv_loop on_frame fuel cs acc)) = false.
Proof.
  induction fuel as [|fu IH]; intros cs acc; cbn [recv_loop]; [reflexivity|].
  destruct (decode_m cs) as [r a] eqn:D. destruct r as [[f cs1]|e|w].
  - unfold on_frame. destruct (fopcode f); try (destruct (fin f)); cbn [add_write r_res is_crash]; try reflexivity; apply IH.
  - reflexivity.
  - exfalso. exact (decode_m_no_crash _ _ _ D).
Qed.

(* C03 for one receive call: every reader (any chunks, empty reads and non-byte values included) *)
Theorem recv_safe cs :
  is_crash (r_res (recv cs)) = false /\ r_res (recv cs) <> Err OutOfFuel /\ r_alloc (recv cs) <= 64 * total_len cs + 32.
Proof.
  unfold recv. split; [apply recv_loop_no_crash|]. split; [apply recv_loop_no_fuel_err, fuel_of_ok|].
  pose proof (recv_loop_alloc (fuel_of cs) cs []) as A. cbn [map concat] in A. change (blen []) with 0 in A. lia.
Qed.

(* what a successful receive leaves behind *)
Lemma recv_loop_rest : forall fuel cs acc m,
  r_res (recv_loop on_frame fuel cs acc) = Ok m ->
  total_len (r_rest (recv_loop on_frame fuel cs acc)) + 2 <= total_len cs.
Proof.
  induction fuel as [|fu IH]; intros cs acc m; cbn [recv_loop]; [discriminate|].
  destruct (decode_m cs) as [r a] eqn:D. destruct r as [[f cs1]|e|w]; try discriminate.
  destruct (decode_m_consumes _ _ _ _ D) as [T _].
  destruct (on_frame acc f) as [acc' w|res w]; cbn [add_write r_res r_rest].
  - intro H. specialize (IH _ _ _ H). lia.
  - intros _. lia.
Qed.

Lemma recv_loop_rest_wf : forall fuel cs acc,
  wf_chunks cs -> wf_chunks (r_rest (recv_loop on_frame fuel cs acc)).
Proof.
  induction fuel as [|fu IH]; intros cs acc W; cbn [recv_loop]; [assumption|].
  destruct (decode_m cs) as [r a] eqn:D. destruct r as [[f cs1]|e|w]; try constructor.
  pose proof (decode_m_wf _ _ _ _ W D) as W1.
  destruct (on_frame acc f) as [acc' w|res w]; cbn [add_write r_rest]; [now apply IH|assumption].
Qed.

Lemma serve_loop_fuel : forall fuel1 fuel2 echo limit cs,
  total_len cs < N.of_nat fuel1 -> total_len cs < N.of_nat fuel2 ->
  serve_loop on_frame drop_stream fuel1 echo limit cs = serve_loop on_frame drop_stream fuel2 echo limit cs.
Proof.
  induction fuel1 as [|f1 IH]; intros fuel2 echo limit cs H1 H2; [lia|]. destruct fuel2 as [|f2]; [lia|].
  cbn [serve_loop]. destruct limit as [[|k]|]; try reflexivity.
  - destruct (r_res (recv_loop on_frame (fuel_of cs) cs [])) as [m|e|w] eqn:E; try reflexivity.
    pose proof (recv_loop_rest _ _ _ _ E) as T. rewrite (IH f2); [reflexivity|lia|lia].
  - destruct (r_res (recv_loop on_frame (fuel_of cs) cs [])) as [m|e|w] eqn:E; try reflexivity.
    pose proof (recv_loop_rest _ _ _ _ E) as T. rewrite (IH f2); [reflexivity|lia|lia].
Qed.

(* the session, one receive at a time (fuel-free) *)
Lemma serve_unfold echo limit cs :
  serve echo limit cs =
  match limit with
  | Some O => mkServe [] (Ok tt) (drop_stream false) 0
  | _ =>
    let o := recv cs in
    match r_res o with
    | Ok m =>
      let rest := serve echo (option_map pred limit) (r_rest o) in
      mkServe (m :: s_msgs rest) (s_final rest)
              (r_writes o ++ (if echo then [send_bytes m] else []) ++ s_writes rest)
              (N.max (r_alloc o) (s_alloc rest))
    | Err e => mkServe [] (Err e) (r_writes o ++ drop_stream (e =? ConnectionClosed)) (r_alloc o)
    | Crash w => mkServe [] (Crash w) (r_writes o) (r_alloc o)
    end
  end.
Proof.
  unfold serve, recv. unfold fuel_of at 1. cbn [serve_loop]. destruct limit as [[|k]|]; try reflexivity.
  - cbv zeta. destruct (r_res (recv_loop on_frame (fuel_of cs) cs [])) as [m|e|w] eqn:E; try reflexivity.
    pose proof (recv_loop_rest _ _ _ _ E) as T.
    rewrite (serve_loop_fuel (N.to_nat (total_len cs)) (fuel_of (r_rest (recv_loop on_frame (fuel_of cs) cs [])))); [reflexivity|lia|apply fuel_of_ok].
  - cbv zeta. destruct (r_res (recv_loop on_frame (fuel_of cs) cs [])) as [m|e|w] eqn:E; try reflexivity.
    pose proof (recv_loop_rest _ _ _ _ E) as T.
    rewrite (serve_loop_fuel (N.to_nat (total_len cs)) (fuel_of (r_rest (recv_loop on_frame (fuel_of cs) cs [])))); [reflexivity|lia|apply fuel_of_ok].
Qed.

(* C03 for a whole session *)
Theorem serve_safe echo : forall n cs limit, total_len cs < N.of_nat n ->
  is_crash (s_final (serve echo limit cs)) = false /\ s_final (serve echo limit cs) <> Err OutOfFuel /\
  s_alloc (serve echo limit cs) <= 64 * total_len cs + 32.
Proof.
  induction n as [|n IH]; intros cs limit Hn; [lia|]. rewrite serve_unfold.
  assert (L0 : is_crash (s_final (mkServe [] (Ok tt) (drop_stream false) 0)) = false /\
               s_final (mkServe [] (Ok tt) (drop_stream false) 0) <> Err OutOfFuel /\
               s_alloc (mkServe [] (Ok tt) (drop_stream false) 0) <= 64 * total_len cs + 32).
  { cbn. repeat split; [discriminate|lia]. }
  assert (Main : forall l',
    let o := recv cs in
    let r := match r_res o with
             | Ok m =>
               let rest := serve echo l' (r_rest o) in
               mkServe (m :: s_msgs rest) (s_final rest)
                       (r_writes o ++ (if echo then [send_bytes m] else []) ++ s_writes rest)
                       (N.max (r_alloc o) (s_alloc rest))
             | Err e => mkServe [] (Err e) (r_writes o ++ drop_stream (e =? ConnectionClosed)) (r_alloc o)
             | Crash w => mkServe [] (Crash w) (r_writes o) (r_alloc o)
             end in
    is_crash (s_final r) = false /\ s_final r <> Err OutOfFuel /\ s_alloc r <= 64 * total_len cs + 32).
  { intros l'. cbv zeta. destruct (recv_safe cs) as (C & F & A).
    destruct (r_res (recv cs)) as [m|e|w] eqn:E; cbn [s_final s_alloc is_crash].
    - pose proof (recv_loop_rest _ _ _ _ E) as T. fold (recv cs) in T.
      destruct (IH (r_rest (recv cs)) l' ltac:(lia)) as (C' & F' & A'). repeat split; try assumption. lia.
    - repeat split; [congruence|lia].
    - discriminate. }
  destruct limit as [[|k]|]; [exact L0|exact (Main _)|exact (Main _)].
Qed.

(* ================= polling and blocking agree on the whole session ================= *)
Definition serve_view (s : serve_out) : list message * outcome unit * list bytes := (s_msgs s, s_final s, s_writes s).

Lemma serve_view_unfold cs :
  serve_view (serve false None cs) =
  match r_res (recv cs) with
  | Ok m =>
    let '(ms, fn, ws) := serve_view (serve false None (r_rest (recv cs))) in (m :: ms, fn, r_writes (recv cs) ++ ws)
  | Err e => ([], Err e, r_writes (recv cs) ++ drop_stream (e =? ConnectionClosed))
  | Crash w => ([], Crash w, r_writes (recv cs))
  end.
Proof.
  rewrite serve_unfold at 1. cbv zeta. cbn [option_map]. destruct (r_res (recv cs)); reflexivity.
Qed.

Fixpoint poll_msgs (rs : list (option (outcome message))) : list message :=
  match rs with
  | [] => []
  | Some (Ok m) :: r => m :: poll_msgs r
  | _ :: r => poll_msgs r
  end.

Fixpoint poll_final (rs : list (option (outcome message))) : outcome unit :=
  match rs with
  | [] => Ok tt
  | Some (Err e) :: _ => Err e
  | Some (Crash w) :: _ => Crash w
  | _ :: r => poll_final r
  end.

(* C11 "blocking and non-blocking receive agree on the messages": whatever the arrival pattern of each call, a
   sequence of recv_nonblocking calls that ends with an error has delivered exactly the blocking session (messages,
   final error, every byte written); a sequence that stops earlier has delivered a prefix of it, and the blocking loop
   continued on the same stream delivers the rest *)
Theorem poll_then_serve : forall avs cs, wf_chunks cs ->
  let p := poll_loop avs cs in
  if p_open p then
    s_msgs (serve false None cs) = poll_msgs (p_results p) ++ s_msgs (serve false None (p_rest p)) /\
    s_final (serve false None cs) = s_final (serve false None (p_rest p)) /\
    s_writes (serve false None cs) = p_writes p ++ s_writes (serve false None (p_rest p)) /\
    poll_final (p_results p) = Ok tt
  else
    s_msgs (serve false None cs) = poll_msgs (p_results p) /\
    s_final (serve false None cs) = poll_final (p_results p) /\
    s_writes (serve false None cs) = p_writes p.
Proof.
  induction avs as [|av avs IH]; intros cs W; cbn [poll_loop].
  - cbn [p_open p_results p_writes p_rest poll_msgs poll_final app]. repeat split; reflexivity.
  - pose proof (recv_nb_refines av cs W) as R. unfold nb_refines in R.
    pose proof (serve_view_unfold cs) as U. unfold serve_view in U.
    destruct (n_res (recv_nb av cs)) as [[m|e|w]|] eqn:En.
    + destruct R as (R1 & R2 & R3). rewrite R1, R2, R3 in U.
      assert (W' : wf_chunks (n_rest (recv_nb av cs))) by (rewrite <- R3; apply recv_loop_rest_wf; assumption).
      specialize (IH (n_rest (recv_nb av cs)) W'). cbv zeta in IH.
      cbn [p_open p_results p_writes p_rest poll_msgs poll_final].
      destruct (serve_view (serve false None (n_rest (recv_nb av cs)))) as [[ms fn] ws] eqn:SV.
      unfold serve_view in SV. injection SV as S1 S2 S3. injection U as U1 U2 U3.
      destruct (p_open (poll_loop avs (n_rest (recv_nb av cs)))).
      * destruct IH as (I1 & I2 & I3 & I4). rewrite U1, U2, U3. repeat split; try congruence.
        -- cbn [app]. congruence.
        -- rewrite <- app_assoc. congruence.
      * destruct IH as (I1 & I2 & I3). rewrite U1, U2, U3. repeat split; congruence.
    + destruct R as (R1 & R2 & R3). rewrite R1, R2 in U. injection U as U1 U2 U3.
      cbn [p_open p_results p_writes p_rest poll_msgs poll_final]. repeat split; assumption.
    + destruct R as (R1 & R2 & R3). rewrite R1, R2 in U. injection U as U1 U2 U3.
      cbn [p_open p_results p_writes p_rest poll_msgs poll_final]. repeat split; assumption.
    + destruct R as (W' & R1 & R2 & R3 & _).
      pose proof (serve_view_unfold (n_rest (recv_nb av cs))) as U'. unfold serve_view in U'.
      rewrite R1, R2, R3 in U.
      assert (V : (s_msgs (serve false None cs), s_final (serve false None cs), s_writes (serve false None cs)) =
                  (s_msgs (serve false None (n_rest (recv_nb av cs))), s_final (serve false None (n_rest (recv_nb av cs))),
                   n_writes (recv_nb av cs) ++ s_writes (serve false None (n_rest (recv_nb av cs))))).
      { rewrite U. destruct (r_res (recv (n_rest (recv_nb av cs)))) as [m|e|w].
        - destruct (serve_view (serve false None (r_rest (recv (n_rest (recv_nb av cs)))))) as [[ms fn] ws].
          injection U' as -> -> ->. now rewrite <- app_assoc.
        - injection U' as -> -> ->. now rewrite <- app_assoc.
        - injection U' as -> -> ->. reflexivity. }
      injection V as V1 V2 V3.
      specialize (IH (n_rest (recv_nb av cs)) W'). cbv zeta in IH.
      cbn [p_open p_results p_writes p_rest poll_msgs poll_final].
      destruct (p_open (poll_loop avs (n_rest (recv_nb av cs)))).
      * destruct IH as (I1 & I2 & I3 & I4). rewrite V1, V2, V3. repeat split; try congruence.
        rewrite <- app_assoc. congruence.
      * destruct IH as (I1 & I2 & I3). rewrite V1, V2, V3. repeat split; congruence.
Qed.

(* ================= server drop: a handler that stops after n messages ================= *)
Definition limited_final (n : nat) (msgs : list message) (closed : bool) : outcome unit :=
  if closed then Err ConnectionClosed else if Nat.eqb (length msgs) n then Ok tt else Err ReadError.

Lemma on_frame_data acc f :
  fopcode f = Continuation \/ fopcode f = Text \/ fopcode f = Binary ->
  on_frame acc f = if fin f then SDone (Ok (finish_message (rev (f :: acc)))) [] else SCont (f :: acc) [].
Proof. unfold on_frame. intros [->|[->| ->]]; reflexivity. Qed.

Lemma cut_after_0 fs : cut_after 0 fs = [].
Proof. destruct fs; reflexivity. Qed.

Lemma session_in_limit echo : forall fs n acc,
  session_in echo (Some (S n)) acc fs =
  (fst (fst (session_in echo None acc (cut_after (S n) fs))),
   limited_final (S n) (fst (fst (session_in echo None acc (cut_after (S n) fs)))) (has_close (cut_after (S n) fs)),
   snd (session_in echo None acc (cut_after (S n) fs))).
Proof.
  induction fs as [|f r IH]; intros n acc.
  - reflexivity.
  - assert (Data : fopcode f = Continuation \/ fopcode f = Text \/ fopcode f = Binary ->
      session_in echo (Some (S n)) acc (f :: r) =
      (fst (fst (session_in echo None acc (if fin f then f :: cut_after n r else f :: cut_after (S n) r))),
       limited_final (S n) (fst (fst (session_in echo None acc (if fin f then f :: cut_after n r else f :: cut_after (S n) r))))
                     (has_close (if fin f then f :: cut_after n r else f :: cut_after (S n) r)),
       snd (session_in echo None acc (if fin f then f :: cut_after n r else f :: cut_after (S n) r)))).
    { intro HD. pose proof (on_frame_data acc f HD) as OD.
      assert (HC : forall l, has_close (f :: l) = has_close l).
      { intro l. cbn [has_close]. destruct HD as [->|[->| ->]]; reflexivity. }
      destruct (fin f) eqn:Ef.
      - cbn [session_in]. rewrite OD. cbn [option_map pred]. rewrite HC. destruct n as [|k].
        + rewrite cut_after_0. cbn [session_in fst snd has_close]. reflexivity.
        + rewrite (IH k []).
          destruct (session_in echo None [] (cut_after (S k) r)) as [[ms fn] ws]. cbn [fst snd].
          unfold limited_final. cbn [length Nat.eqb]. reflexivity.
      - cbn [session_in]. rewrite OD. rewrite (IH n (f :: acc)). rewrite HC.
        destruct (session_in echo None (f :: acc) (cut_after (S n) r)) as [[ms fn] ws]. reflexivity. }
    cbn [cut_after]. destruct (fopcode f) eqn:Eo.
    + apply Data. auto.
    + apply Data. auto.
    + apply Data. auto.
    + cbn [session_in has_close]. unfold on_frame. rewrite Eo. reflexivity.
    + cbn [session_in has_close]. unfold on_frame. rewrite Eo. rewrite (IH n acc).
      destruct (session_in echo None acc (cut_after (S n) r)) as [[ms fn] ws]. reflexivity.
    + cbn [session_in has_close]. unfold on_frame. rewrite Eo. rewrite (IH n acc).
      destruct (session_in echo None acc (cut_after (S n) r)) as [[ms fn] ws]. reflexivity.
Qed.

Lemma script_okb_cut : forall fs n open, script_okb open fs = true -> script_okb open (cut_after n fs) = true.
Proof.
  induction fs as [|f r IH]; intros n open H; destruct n as [|n]; try reflexivity.
  cbn [cut_after script_okb] in *. destruct (fopcode f) eqn:Eo.
  - apply andb_true_iff in H as [H1 H2]. destruct (fin f) eqn:Ef; cbn [script_okb]; rewrite Eo, H1, Ef; cbn [andb negb]; now apply IH.
  - apply andb_true_iff in H as [H1 H2]. destruct (fin f) eqn:Ef; cbn [script_okb]; rewrite Eo, H1, Ef; cbn [andb negb]; now apply IH.
  - apply andb_true_iff in H as [H1 H2]. destruct (fin f) eqn:Ef; cbn [script_okb]; rewrite Eo, H1, Ef; cbn [andb negb]; now apply IH.
  - apply andb_true_iff in H as [H1 H2]. cbn [script_okb]. rewrite Eo, H1. reflexivity.
  - apply andb_true_iff in H as [H1 H2]. cbn [script_okb]. rewrite Eo, H1. cbn [andb]. now apply IH.
  - apply andb_true_iff in H as [H1 H2]. cbn [script_okb]. rewrite Eo, H1. cbn [andb]. now apply IH.
Qed.

(* C11 "ending by server drop": the handler stops after n >= 1 messages and drops the stream *)
Theorem serve_limit_script echo n fs tail cs :
  Forall client_frame fs -> script_okb false fs = true -> wf_chunks cs ->
  concat cs = concat (map encode fs) ++ tail -> (has_close fs = true \/ tail_ok tail) ->
  s_msgs (serve echo (Some (S n)) cs) = messages_of None (cut_after (S n) fs) /\
  s_final (serve echo (Some (S n)) cs) =
    limited_final (S n) (messages_of None (cut_after (S n) fs)) (has_close (cut_after (S n) fs)) /\
  s_writes (serve echo (Some (S n)) cs) = writes_spec echo None (cut_after (S n) fs).
Proof.
  intros HF HS W Hc HT. unfold serve.
  assert (HL : Some (S n) <> Some O) by discriminate.
  assert (Hfu : (length fs < fuel_of cs)%nat).
  { pose proof (frames_total_len fs tail cs Hc). unfold fuel_of. lia. }
  pose proof (serve_loop_frames echo (length fs) fs (le_n _) cs (fuel_of cs) (Some (S n)) tail HL HF W Hc HT Hfu) as E.
  rewrite session_in_limit in E.
  rewrite (session_in_spec echo (cut_after (S n) fs) [] None eq_refl (script_okb_cut fs (S n) false HS)) in E.
  cbn [fst snd] in E. now injection E.
Qed.

Theorem serve_limit0 echo cs :
  serve echo (Some O) cs = mkServe [] (Ok tt) [encode (server_frame Close [])] 0.
Proof. unfold serve. apply serve_loop_limit0. Qed.

(* ================= every client byte stream: whatever arrives, the server writes only well-formed unmasked frames,
   and the session ends with exactly one Close frame ================= *)
Lemma layout_payload_bytes f bs : FrameBytesAny f bs -> Forall byte bs -> Forall byte (payload f).
Proof.
  intros (len7 & ext & wire & -> & LA & MW) Hb.
  apply Forall_app in Hb as [_ Hb]. apply Forall_app in Hb as [_ Hb]. apply Forall_app in Hb as [Hk Hw].
  destruct (mask f); [|now subst].
  apply masked_unique in MW. rewrite <- (xor_key_invol (mkey f) (payload f)), <- MW.
  apply xor_from_byte; [|assumption]. unfold key_bytes in Hk.
  inversion Hk as [|? ? K0 Hk1]; subst. inversion Hk1 as [|? ? K1 Hk2]; subst.
  inversion Hk2 as [|? ? K2 Hk3]; subst. inversion Hk3 as [|? ? K3 _]; subst. repeat split; assumption.
Qed.

Lemma decode_m_bytes cs f cs1 a :
  wf_chunks cs -> Forall byte (concat cs) -> decode_m cs = (Ok (f, cs1), a) ->
  Forall byte (payload f) /\ Forall byte (concat cs1).
Proof.
  intros W HB D. assert (D' : decode cs = Ok (f, cs1)) by (unfold decode; now rewrite D).
  destruct (decode_sound cs f cs1 W HB D') as (pre & Hc & L & _). rewrite Hc in HB. apply Forall_app in HB as [HB1 HB2].
  split; [exact (layout_payload_bytes f pre L HB1)|assumption].
Qed.

Definition good_write (w : bytes) : Prop :=
  exists o p, w = encode (server_frame o p) /\ blen p < 2 ^ 63 /\ Forall byte p.

Lemma payloads_bytes (l : list frame) :
  Forall (fun f => Forall byte (payload f)) l -> Forall byte (concat (map payload l)).
Proof. induction 1 as [|f l Hf _ IH]; cbn [map concat]; [constructor|]. apply Forall_app. now split. Qed.

Lemma recv_loop_good : forall fuel cs acc,
  wf_chunks cs -> Forall byte (concat cs) -> total_len cs + blen (concat (map payload acc)) < 2 ^ 63 ->
  Forall (fun f => Forall byte (payload f)) acc ->
  Forall good_write (r_writes (recv_loop on_frame fuel cs acc)) /\
  Forall byte (concat (r_rest (recv_loop on_frame fuel cs acc))) /\
  total_len (r_rest (recv_loop on_frame fuel cs acc)) <= total_len cs /\
  (forall m, r_res (recv_loop on_frame fuel cs acc) = Ok m ->
     Forall byte (m_payload m) /\ blen (m_payload m) <= total_len cs + blen (concat (map payload acc))).
Proof.
  induction fuel as [|fu IH]; intros cs acc W HB HL HA; cbn [recv_loop].
  - cbn [r_writes r_rest r_res]. repeat split; try constructor; try assumption; try lia. all: discriminate.
  - destruct (decode_m cs) as [r a] eqn:D. destruct r as [[f cs1]|e|w].
    + destruct (decode_m_consumes _ _ _ _ D) as [T _]. pose proof (decode_m_wf _ _ _ _ W D) as W1.
      destruct (decode_m_bytes _ _ _ _ W HB D) as [Bf B1].
      assert (GW : forall o, good_write (encode (new_frame o (payload f)))).
      { intro o. exists o, (payload f). repeat split; [lia|assumption]. }
      remember (on_frame acc f) as st eqn:E. unfold on_frame in E.
      assert (Fin : st = (if fin f then SDone (Ok (finish_message (rev (f :: acc)))) [] else SCont (f :: acc) []) ->
        Forall good_write (r_writes match st with
                                    | SDone res w => mkOut res w cs1 (a + step_alloc f + msg_alloc res)
                                    | SCont acc' w => add_write w (a + step_alloc f) (recv_loop on_frame fu cs1 acc')
                                    end) /\
        Forall byte (concat (r_rest match st with
                                    | SDone res w => mkOut res w cs1 (a + step_alloc f + msg_alloc res)
                                    | SCont acc' w => add_write w (a + step_alloc f) (recv_loop on_frame fu cs1 acc')
                                    end)) /\
        total_len (r_rest match st with
                          | SDone res w => mkOut res w cs1 (a + step_alloc f + msg_alloc res)
                          | SCont acc' w => add_write w (a + step_alloc f) (recv_loop on_frame fu cs1 acc')
                          end) <= total_len cs /\
        (forall m, r_res match st with
                         | SDone res w => mkOut res w cs1 (a + step_alloc f + msg_alloc res)
                         | SCont acc' w => add_write w (a + step_alloc f) (recv_loop on_frame fu cs1 acc')
                         end = Ok m ->
           Forall byte (m_payload m) /\ blen (m_payload m) <= total_len cs + blen (concat (map payload acc)))).
      { intros ->. destruct (fin f).
        - cbn [r_writes r_rest r_res]. split; [constructor|]. split; [assumption|]. split; [lia|].
          intros m H. injection H as <-. unfold finish_message. cbn [m_payload]. split.
          + apply payloads_bytes. change (Forall (fun f : frame => Forall byte (payload f)) (rev (f :: acc))). apply Forall_rev. now constructor.
          + change (blen (concat (map payload (rev (f :: acc)))) <= total_len cs + blen (concat (map payload acc))).
            rewrite payload_rev_len. cbn [map concat]. rewrite blen_app. lia.
        - assert (HL1 : total_len cs1 + blen (concat (map payload (f :: acc))) < 2 ^ 63).
          { cbn [map concat]. rewrite blen_app. lia. }
          destruct (IH cs1 (f :: acc) W1 B1 HL1 ltac:(now constructor)) as (I1 & I2 & I3 & I4).
          cbn [add_write r_writes r_rest r_res app]. split; [assumption|]. split; [assumption|]. split; [lia|].
          intros m H. specialize (I4 m H) as [I4 I5]. split; [assumption|]. cbn [map concat] in I5. rewrite blen_app in I5. lia. }
      destruct (fopcode f) eqn:Eo; try (now apply Fin).
      * subst st. cbn [r_writes r_rest r_res]. split; [constructor; [apply GW|constructor]|]. split; [assumption|]. split; [lia|].
        intros m H. discriminate.
      * subst st. destruct (IH cs1 acc W1 B1 ltac:(lia) HA) as (I1 & I2 & I3 & I4).
        cbn [add_write r_writes r_rest r_res app]. split; [constructor; [apply GW|assumption]|]. split; [assumption|]. split; [lia|].
        intros m H. specialize (I4 m H) as [I4 I5]. split; [assumption|lia].
      * subst st. destruct (IH cs1 acc W1 B1 ltac:(lia) HA) as (I1 & I2 & I3 & I4).
        cbn [add_write r_writes r_rest r_res app]. split; [assumption|]. split; [assumption|]. split; [lia|].
        intros m H. specialize (I4 m H) as [I4 I5]. split; [assumption|lia].
    + cbn [r_writes r_rest r_res]. split; [constructor|]. split; [constructor|]. split; [unfold total_len, blen; cbn; lia|]. intros m H; discriminate.
    + cbn [r_writes r_rest r_res]. split; [constructor|]. split; [constructor|]. split; [unfold total_len, blen; cbn; lia|]. intros m H; discriminate.
Qed.

Theorem serve_writes_good echo : forall n cs limit,
  total_len cs < N.of_nat n -> wf_chunks cs -> Forall byte (concat cs) -> total_len cs < 2 ^ 63 ->
  Forall good_write (s_writes (serve echo limit cs)).
Proof.
  induction n as [|n IH]; intros cs limit Hn W HB HL; [lia|]. rewrite serve_unfold.
  assert (GC : good_write (encode (server_frame Close []))).
  { exists Close, []. repeat split; try (cbn; lia); try constructor. }
  assert (GD : forall b, Forall good_write (drop_stream b)).
  { intros [|]; cbn [drop_stream]; [constructor|]. constructor; [exact GC|constructor]. }
  assert (Main : forall l',
    Forall good_write (s_writes
      match r_res (recv cs) with
      | Ok m =>
        let rest := serve echo l' (r_rest (recv cs)) in
        mkServe (m :: s_msgs rest) (s_final rest)
                (r_writes (recv cs) ++ (if echo then [send_bytes m] else []) ++ s_writes rest)
                (N.max (r_alloc (recv cs)) (s_alloc rest))
      | Err e => mkServe [] (Err e) (r_writes (recv cs) ++ drop_stream (e =? ConnectionClosed)) (r_alloc (recv cs))
      | Crash w => mkServe [] (Crash w) (r_writes (recv cs)) (r_alloc (recv cs))
      end)).
  { intro l'. unfold recv.
    destruct (recv_loop_good (fuel_of cs) cs [] W HB ltac:(cbn [map concat]; change (blen []) with 0; lia) ltac:(constructor))
      as (G1 & G2 & G3 & G4).
    pose proof (recv_loop_rest_wf (fuel_of cs) cs [] W) as Wr.
    destruct (r_res (recv_loop on_frame (fuel_of cs) cs [])) as [m|e|w] eqn:E; cbn [s_writes].
    - pose proof (recv_loop_rest _ _ _ _ E) as T. destruct (G4 m eq_refl) as [Bm Lm].
      cbn [map concat] in Lm. change (blen []) with 0 in Lm.
      apply Forall_app. split; [assumption|]. apply Forall_app. split.
      + destruct echo; [|constructor]. constructor; [|constructor].
        exists (if m_text m then Text else Binary), (m_payload m). repeat split; [lia|assumption].
      + apply IH; [lia|assumption|assumption|lia].
    - apply Forall_app. split; [assumption|apply GD].
    - assumption. }
  destruct limit as [[|k]|]; [apply GD|exact (Main _)|exact (Main _)].
Qed.

Lemma good_writes_frames (ws : list bytes) :
  Forall good_write ws -> exists R, ws = map encode R /\ Forall is_server_frame R.
Proof.
  induction 1 as [|w ws (o & p & -> & L & B) _ (R & -> & HR)]; [now exists []|].
  exists (server_frame o p :: R). split; [reflexivity|]. constructor; [|assumption]. now exists o, p.
Qed.

(* the first clause of C11 for EVERY client: any byte stream, any split into reads, any handler behaviour modelled
   (echo or not, any limit) — what the server writes is the concatenation of RFC 6455 layouts of unmasked frames and
   parses back into them *)
Theorem serve_writes_always_frames echo limit cs :
  wf_chunks cs -> Forall byte (concat cs) -> total_len cs < 2 ^ 63 ->
  exists R, s_writes (serve echo limit cs) = map encode R /\
    Forall (fun g => wf g /\ mask g = false /\ FrameBytes g (encode g)) R /\
    (forall ws, wf_chunks ws -> concat ws = concat (s_writes (serve echo limit cs)) ->
       exists ws', decode_many (length R) ws = Ok (R, ws') /\ concat ws' = [] /\ wf_chunks ws').
Proof.
  intros W HB HL.
  pose proof (serve_writes_good echo (fuel_of cs) cs limit (fuel_of_ok cs) W HB HL) as G.
  destruct (good_writes_frames _ G) as (R & HW & HR). exists R. split; [assumption|]. split.
  - eapply Forall_impl; [|exact HR]. intros g Hg. destruct (is_server_frame_wf g Hg) as (Wg & Mg & _).
    split; [assumption|]. split; [assumption|]. now apply encode_layout.
  - intros ws Wws Hws. rewrite HW in Hws.
    assert (HWf : Forall wf R) by (eapply Forall_impl; [|exact HR]; intros g Hg; now destruct (is_server_frame_wf g Hg)).
    rewrite <- (app_nil_r (concat (map encode R))) in Hws.
    destruct (decode_many_encode R [] ws HWf Wws Hws) as (ws' & D & C & W').
    rewrite (map_norm_server R HR) in D. now exists ws'.
Qed.

(* ================= every session ends with a Close frame on the wire ================= *)
Lemma recv_closed_last : forall fuel cs acc,
  r_res (recv_loop on_frame fuel cs acc) = Err ConnectionClosed ->
  exists ws p, r_writes (recv_loop on_frame fuel cs acc) = ws ++ [encode (server_frame Close p)].
Proof.
  induction fuel as [|fu IH]; intros cs acc; cbn [recv_loop]; [discriminate|].
  destruct (decode_m cs) as [r a] eqn:D. destruct r as [[f cs1]|e|w].
  - remember (on_frame acc f) as st eqn:E. unfold on_frame in E.
    assert (Rec : forall acc' w,
      r_res (recv_loop on_frame fu cs1 acc') = Err ConnectionClosed ->
      exists ws p, w ++ r_writes (recv_loop on_frame fu cs1 acc') = ws ++ [encode (server_frame Close p)]).
    { intros acc' w H. destruct (IH _ _ H) as (ws & p & ->). exists (w ++ ws), p. now rewrite app_assoc. }
    destruct (fopcode f); try (destruct (fin f)); subst st; cbn [add_write r_res r_writes];
      try (intro H; discriminate H); try (apply Rec).
    all: intros _; exists [], (payload f); reflexivity.
  - cbn [r_res]. intro H. injection H as ->. exfalso.
    unfold decode_m in D. destruct (read_exact 2 cs) as [[hdr c1]|]; [|discriminate].
    destruct hdr as [|h0 [|h1 [|? ?]]]; try discriminate. unfold from_stream_inner in D.
    destruct (opcode_of_N (N.land h0 15)); [|discriminate].
    destruct (read_len (N.land h1 127) c1) as [[n c2]|]; [|discriminate].
    destruct (read_key (negb (N.land h1 128 =? 0)) c2) as [[k c3]|]; [|discriminate].
    destruct (read_take n c3) as [d c4]. destruct (blen d =? n); discriminate.
  - discriminate.
Qed.

(* C11 drop_sends_close, for every input: whatever the client sent and however the session ended (client Close, read
   error, invalid opcode, limit reached), the last thing on the wire is a Close frame: the echo of the client's Close, or
   the empty Close written by Drop *)
Theorem serve_ends_with_close echo : forall n cs limit, total_len cs < N.of_nat n ->
  exists ws p, s_writes (serve echo limit cs) = ws ++ [encode (server_frame Close p)] /\
               (s_final (serve echo limit cs) <> Err ConnectionClosed -> p = []).
Proof.
  induction n as [|n IH]; intros cs limit Hn; [lia|]. rewrite serve_unfold.
  assert (L0 : exists ws p, s_writes (mkServe [] (Ok tt) (drop_stream false) 0) = ws ++ [encode (server_frame Close p)] /\
               (s_final (mkServe [] (Ok tt) (drop_stream false) 0) <> Err ConnectionClosed -> p = [])).
  { exists [], []. split; [reflexivity|auto]. }
  assert (Main : forall l',
    exists ws p,
      s_writes match r_res (recv cs) with
               | Ok m =>
                 let rest := serve echo l' (r_rest (recv cs)) in
                 mkServe (m :: s_msgs rest) (s_final rest)
                         (r_writes (recv cs) ++ (if echo then [send_bytes m] else []) ++ s_writes rest)
                         (N.max (r_alloc (recv cs)) (s_alloc rest))
               | Err e => mkServe [] (Err e) (r_writes (recv cs) ++ drop_stream (e =? ConnectionClosed)) (r_alloc (recv cs))
               | Crash w => mkServe [] (Crash w) (r_writes (recv cs)) (r_alloc (recv cs))
               end = ws ++ [encode (server_frame Close p)] /\
      (s_final match r_res (recv cs) with
               | Ok m =>
                 let rest := serve echo l' (r_rest (recv cs)) in
                 mkServe (m :: s_msgs rest) (s_final rest)
                         (r_writes (recv cs) ++ (if echo then [send_bytes m] else []) ++ s_writes rest)
                         (N.max (r_alloc (recv cs)) (s_alloc rest))
               | Err e => mkServe [] (Err e) (r_writes (recv cs) ++ drop_stream (e =? ConnectionClosed)) (r_alloc (recv cs))
               | Crash w => mkServe [] (Crash w) (r_writes (recv cs)) (r_alloc (recv cs))
               end <> Err ConnectionClosed -> p = [])).
  { intro l'. destruct (recv_safe cs) as (C & _ & _).
    destruct (r_res (recv cs)) as [m|e|w] eqn:E; cbn [s_writes s_final].
    - pose proof (recv_loop_rest _ _ _ _ E) as T. fold (recv cs) in T.
      destruct (IH (r_rest (recv cs)) l' ltac:(lia)) as (ws & p & -> & HP).
      exists (r_writes (recv cs) ++ (if echo then [send_bytes m] else []) ++ ws), p.
      split; [now rewrite <- !app_assoc|assumption].
    - destruct (N.eq_dec e ConnectionClosed) as [->|Hne].
      + destruct (recv_closed_last _ _ _ E) as (ws & p & HW). fold (recv cs) in HW. rewrite HW.
        exists ws, p. cbn [N.eqb drop_stream]. change (ConnectionClosed =? ConnectionClosed) with true. cbn [drop_stream].
        rewrite app_nil_r. split; [reflexivity|congruence].
      + exists (r_writes (recv cs)), []. replace (e =? ConnectionClosed) with false by (symmetry; now apply N.eqb_neq).
        split; [reflexivity|auto].
    - discriminate. }
  destruct limit as [[|k]|]; [exact L0|exact (Main _)|exact (Main _)].
Qed.

(* ================= "all deliveries of the client byte stream" ================= *)
Corollary serve_chunking_independent echo limit fs tail cs1 cs2 :
  Forall client_frame fs -> script_okb false fs = true -> (has_close fs = true \/ tail_ok tail) ->
  wf_chunks cs1 -> concat cs1 = concat (map encode fs) ++ tail ->
  wf_chunks cs2 -> concat cs2 = concat (map encode fs) ++ tail ->
  s_msgs (serve echo limit cs1) = s_msgs (serve echo limit cs2) /\
  s_final (serve echo limit cs1) = s_final (serve echo limit cs2) /\
  s_writes (serve echo limit cs1) = s_writes (serve echo limit cs2).
Proof.
  intros HF HS HT W1 H1 W2 H2. destruct limit as [[|n]|].
  - rewrite !serve_limit0. repeat split; reflexivity.
  - destruct (serve_limit_script echo n fs tail cs1 HF HS W1 H1 HT) as (A1 & A2 & A3).
    destruct (serve_limit_script echo n fs tail cs2 HF HS W2 H2 HT) as (B1 & B2 & B3). repeat split; congruence.
  - destruct (serve_script echo fs tail cs1 HF HS W1 H1 HT) as (A1 & A2 & A3).
    destruct (serve_script echo fs tail cs2 HF HS W2 H2 HT) as (B1 & B2 & B3). repeat split; congruence.
Qed.

(* ================= non-vacuity: a script with fragmentation, interleaved control frames and a close ================= *)
Definition ex_frag1 : frame := mkFrame false false false false Text true 3 (mkKey 1 2 3 4) [104; 101; 108].      (* "hel", no FIN *)
Definition ex_frag2 : frame := mkFrame true false false false Continuation true 2 (mkKey 0 0 0 0) [108; 111].   (* "lo", FIN *)
Definition ex_script : list frame := [ex_frag1; ex_ping; ex_frag2; ex_ping0; ex_text; ex_close; ex_text].

Lemma ex_script_ok :
  Forall client_frame ex_script /\ script_okb false ex_script = true /\ has_close ex_script = true /\
  messages_of None ex_script = [mkMsg true [104; 101; 108; 108; 111]; mkMsg true [104; 101; 108; 108; 111]] /\
  map encode (replies_of ex_script) = [[138; 2; 104; 105]; [138; 0]; [136; 2; 3; 232]] /\
  cut_after 1 ex_script = [ex_frag1; ex_ping; ex_frag2].
Proof. repeat split; try reflexivity. repeat constructor. Qed.

(* the same script delivered byte by byte: the model computes what the theorems say *)
Lemma ex_script_run :
  let o := serve true None (bytewise (concat (map encode ex_script))) in
  s_msgs o = messages_of None ex_script /\ s_final o = Err ConnectionClosed /\
  s_writes o = [[138; 2; 104; 105]; [129; 5; 104; 101; 108; 108; 111]; [138; 0]; [129; 5; 104; 101; 108; 108; 111]; [136; 2; 3; 232]].
Proof. vm_compute. repeat split; reflexivity. Qed.

(* ================= every byte stream, two deliveries: the session does not depend on how the bytes were split ================= *)
Definition same_stream (cs1 cs2 : chunks) : Prop := wf_chunks cs1 /\ wf_chunks cs2 /\ concat cs1 = concat cs2.

Lemma same_stream_total cs1 cs2 : same_stream cs1 cs2 -> total_len cs1 = total_len cs2.
Proof. intros (_ & _ & H). unfold total_len. now rewrite H. Qed.

Lemma decode_m_same cs1 cs2 :
  same_stream cs1 cs2 -> Forall byte (concat cs1) ->
  match decode_m cs1, decode_m cs2 with
  | (Ok (f1, r1), a1), (Ok (f2, r2), a2) => f1 = f2 /\ same_stream r1 r2 /\ a1 = a2 /\ Forall byte (concat r1)
  | (Err e1, _), (Err e2, _) => e1 = e2
  | _, _ => False
  end.
Proof.
  intros (W1 & W2 & Hc) HB.
  assert (HB2 : Forall byte (firstn 2 (concat cs1))).
  { rewrite <- (firstn_skipn 2 (concat cs1)) in HB. apply Forall_app in HB. tauto. }
  pose proof (decode_refines cs1 W1 HB2) as R1. pose proof (decode_refines cs2 W2) as R2.
  rewrite <- Hc in R2. specialize (R2 HB2). unfold decode in R1, R2.
  destruct (decode_m cs1) as [x1 a1] eqn:D1. destruct (decode_m cs2) as [x2 a2] eqn:D2. cbn [fst] in R1, R2.
  destruct (parse_spec (concat cs1)) as [[g r]|e|w]; destruct x1 as [[f1 r1]|e1|w1]; cbn [refines] in R1; try contradiction;
    destruct x2 as [[f2 r2]|e2|w2]; cbn [refines] in R2; try contradiction.
  - destruct R1 as (-> & C1 & V1). destruct R2 as (-> & C2 & V2).
    destruct (decode_m_consumes _ _ _ _ D1) as [_ ->]. destruct (decode_m_consumes _ _ _ _ D2) as [_ ->].
    split; [reflexivity|]. split; [repeat split; try assumption; congruence|]. split; [reflexivity|].
    exact (proj2 (decode_m_bytes _ _ _ _ W1 HB D1)).
  - congruence.
Qed.

Lemma recv_same : forall n cs1 cs2 acc,
  total_len cs1 < N.of_nat n -> same_stream cs1 cs2 -> Forall byte (concat cs1) ->
  r_res (recv_loop on_frame (fuel_of cs1) cs1 acc) = r_res (recv_loop on_frame (fuel_of cs2) cs2 acc) /\
  r_writes (recv_loop on_frame (fuel_of cs1) cs1 acc) = r_writes (recv_loop on_frame (fuel_of cs2) cs2 acc) /\
  same_stream (r_rest (recv_loop on_frame (fuel_of cs1) cs1 acc)) (r_rest (recv_loop on_frame (fuel_of cs2) cs2 acc)) /\
  Forall byte (concat (r_rest (recv_loop on_frame (fuel_of cs1) cs1 acc))).
Proof.
  induction n as [|n IH]; intros cs1 cs2 acc Hn SS HB; [lia|].
  rewrite (recv_loop_unfold (fuel_of cs1) cs1 acc (fuel_of_ok cs1)), (recv_loop_unfold (fuel_of cs2) cs2 acc (fuel_of_ok cs2)).
  pose proof (decode_m_same cs1 cs2 SS HB) as D.
  assert (Nil : same_stream [] [] /\ Forall byte (concat [])) by (repeat split; constructor).
  destruct (decode_m cs1) as [x1 a1] eqn:D1. destruct (decode_m cs2) as [x2 a2] eqn:D2.
  destruct x1 as [[f1 r1]|e1|w1]; destruct x2 as [[f2 r2]|e2|w2]; try contradiction.
  - destruct D as (<- & S' & <- & HB'). destruct (decode_m_consumes _ _ _ _ D1) as [T _].
    destruct (on_frame acc f1) as [acc' w|res w].
    + destruct (IH r1 r2 acc' ltac:(lia) S' HB') as (I1 & I2 & I3 & I4).
      cbn [add_write r_res r_writes r_rest]. repeat split; try congruence; try apply I3; assumption.
    + cbn [r_res r_writes r_rest]. repeat split; try reflexivity; try apply S'; assumption.
  - subst e2. cbn [r_res r_writes r_rest]. repeat split; try reflexivity; try constructor.
Qed.

Theorem serve_same_stream echo : forall n cs1 cs2 limit,
  total_len cs1 < N.of_nat n -> same_stream cs1 cs2 -> Forall byte (concat cs1) ->
  s_msgs (serve echo limit cs1) = s_msgs (serve echo limit cs2) /\
  s_final (serve echo limit cs1) = s_final (serve echo limit cs2) /\
  s_writes (serve echo limit cs1) = s_writes (serve echo limit cs2).
Proof.
  induction n as [|n IH]; intros cs1 cs2 limit Hn SS HB; [lia|].
  rewrite (serve_unfold echo limit cs1), (serve_unfold echo limit cs2).
  assert (Main : forall l',
    let mk := fun cs =>
      match r_res (recv cs) with
      | Ok m =>
        let rest := serve echo l' (r_rest (recv cs)) in
        mkServe (m :: s_msgs rest) (s_final rest)
                (r_writes (recv cs) ++ (if echo then [send_bytes m] else []) ++ s_writes rest)
                (N.max (r_alloc (recv cs)) (s_alloc rest))
      | Err e => mkServe [] (Err e) (r_writes (recv cs) ++ drop_stream (e =? ConnectionClosed)) (r_alloc (recv cs))
      | Crash w => mkServe [] (Crash w) (r_writes (recv cs)) (r_alloc (recv cs))
      end in
    s_msgs (mk cs1) = s_msgs (mk cs2) /\ s_final (mk cs1) = s_final (mk cs2) /\ s_writes (mk cs1) = s_writes (mk cs2)).
  { intro l'. cbv zeta. unfold recv.
    destruct (recv_same (S n) cs1 cs2 [] Hn SS HB) as (R1 & R2 & R3 & R4). rewrite <- R1, <- R2.
    destruct (r_res (recv_loop on_frame (fuel_of cs1) cs1 [])) as [m|e|w] eqn:E; cbn [s_msgs s_final s_writes].
    - pose proof (recv_loop_rest _ _ _ _ E) as T.
      destruct (IH (r_rest (recv_loop on_frame (fuel_of cs1) cs1 [])) (r_rest (recv_loop on_frame (fuel_of cs2) cs2 [])) l'
                   ltac:(lia) R3 R4) as (I1 & I2 & I3). repeat split; congruence.
    - repeat split; reflexivity.
    - repeat split; reflexivity. }
  destruct limit as [[|k]|]; [repeat split; reflexivity|exact (Main _)|exact (Main _)].
Qed.
