(* Lemmas about the WebSocket endpoint model (WsMessage.v) against the script semantics (WsMessageSpec.v); the frame
   layer is C10's (FrameProofs.v). *)
From Coq Require Import Lia.
From Hv Require Import Prelude Bytes Stream StreamProofs Frame FrameSpec FrameProofs TablesHttp TablesWs Http
  WsMessage WsMessageSpec.
From Hv Require Sha1 Sha1Spec Sha1Proofs Base64 Base64Spec Base64Proofs.
Open Scope N_scope.

(* ================= the frame decoder: what one successful call consumes and allocates ================= *)
Lemma read_take_total cs : forall n, total_len cs = blen (fst (read_take n cs)) + total_len (snd (read_take n cs)).
Proof.
  induction cs as [|c cs IH]; intro n; cbn [read_take]; destruct (n =? 0) eqn:E0; cbn [fst snd]; try reflexivity.
  rewrite total_len_cons. destruct (blen c =? 0) eqn:El.
  - apply N.eqb_eq in El. cbn [fst snd]. unfold blen at 2. cbn. lia.
  - destruct (n <? blen c) eqn:En; cbn [fst snd].
    + apply N.ltb_lt in En. rewrite total_len_cons, blen_firstn, blen_skipn by lia. lia.
    + specialize (IH (n - blen c)). destruct (read_take (n - blen c) cs) as [b r]. cbn [fst snd] in *.
      rewrite blen_app. lia.
Qed.

Lemma from_stream_inner_consumes cs1 h0 h1 f cs' a :
  from_stream_inner cs1 h0 h1 = (Ok (f, cs'), a) ->
  total_len cs' + blen (payload f) <= total_len cs1 /\ a = 2 * blen (payload f) + 32.
Proof.
  unfold from_stream_inner. destruct (opcode_of_N (N.land h0 15)); [|discriminate].
  destruct (read_len (N.land h1 127) cs1) as [[n cs2]|] eqn:EL; [|discriminate].
  assert (T2 : total_len cs2 <= total_len cs1).
  { unfold read_len in EL. destruct (N.land h1 127 =? 126).
    - destruct (read_exact 2 cs1) as [[b r]|] eqn:E; [|discriminate]. injection EL as _ <-.
      rewrite (read_exact_total _ _ _ _ E). lia.
    - destruct (N.land h1 127 =? 127).
      + destruct (read_exact 8 cs1) as [[b r]|] eqn:E; [|discriminate]. injection EL as _ <-.
        rewrite (read_exact_total _ _ _ _ E). lia.
      + injection EL as _ <-. lia. }
  destruct (read_key (negb (N.land h1 128 =? 0)) cs2) as [[key cs3]|] eqn:EK; [|discriminate].
  assert (T3 : total_len cs3 <= total_len cs2).
  { unfold read_key in EK. destruct (negb (N.land h1 128 =? 0)).
    - destruct (read_exact 4 cs2) as [[b r]|] eqn:E; [|discriminate]. injection EK as _ <-.
      rewrite (read_exact_total _ _ _ _ E). lia.
    - injection EK as _ <-. lia. }
  pose proof (read_take_total cs3 n) as TT.
  destruct (read_take n cs3) as [data cs4]. cbn [fst snd] in TT.
  destruct (blen data =? n); [|discriminate]. intros [= <- <- <-]. cbn [payload]. rewrite xor_key_blen.
  split; [lia|]. destruct (blen data); reflexivity.
Qed.

Lemma decode_m_consumes cs f cs' a :
  decode_m cs = (Ok (f, cs'), a) ->
  total_len cs' + 2 + blen (payload f) <= total_len cs /\ a = 2 * blen (payload f) + 32.
Proof.
  unfold decode_m. destruct (read_exact 2 cs) as [[hdr cs1]|] eqn:E; [|discriminate].
  pose proof (read_exact_total _ _ _ _ E) as Ht.
  destruct hdr as [|h0 [|h1 [|? ?]]]; try discriminate.
  intro H. apply from_stream_inner_consumes in H. lia.
Qed.

Lemma decode_m_err_alloc cs e a : decode_m cs = (Err e, a) -> a <= 2 * total_len cs + 32.
Proof.
  intro H. pose proof (decode_safe cs) as [_ A]. unfold decode_alloc in A. rewrite H in A. exact A.
Qed.

Lemma decode_m_no_crash cs w a : decode_m cs <> (Crash w, a).
Proof.
  intro H. pose proof (decode_safe cs) as [C _]. unfold decode in C. rewrite H in C. discriminate.
Qed.

(* ================= fuel: any amount above the number of bytes in the reader gives the same answer ================= *)
Lemma recv_loop_fuel sf : forall fuel1 fuel2 cs acc,
  total_len cs < N.of_nat fuel1 -> total_len cs < N.of_nat fuel2 ->
  recv_loop sf fuel1 cs acc = recv_loop sf fuel2 cs acc.
Proof.
  induction fuel1 as [|f1 IH]; intros fuel2 cs acc H1 H2; [lia|].
  destruct fuel2 as [|f2]; [lia|]. cbn [recv_loop].
  destruct (decode_m cs) as [r a] eqn:D. destruct r as [[f cs1]|e|w]; try reflexivity.
  destruct (decode_m_consumes _ _ _ _ D) as [T _].
  destruct (sf acc f); [|reflexivity]. f_equal. apply IH; lia.
Qed.

Lemma fuel_of_ok cs : total_len cs < N.of_nat (fuel_of cs).
Proof. unfold fuel_of. lia. Qed.

(* the fuel never runs out *)
Lemma recv_loop_no_fuel_err : forall fuel cs acc,
  total_len cs < N.of_nat fuel -> r_res (recv_loop on_frame fuel cs acc) <> Err OutOfFuel.
Proof.
  induction fuel as [|fu IH]; intros cs acc H; [lia|]. cbn [recv_loop].
  destruct (decode_m cs) as [r a] eqn:D. destruct r as [[f cs1]|e|w]; cbn [r_res].
  - destruct (decode_m_consumes _ _ _ _ D) as [T _].
    unfold on_frame. destruct (fopcode f); try (destruct (fin f)); cbn [r_res add_write]; try discriminate;
      apply IH; lia.
  - intro E. injection E as ->. unfold decode_m in D.
    destruct (read_exact 2 cs) as [[hdr c1]|]; [|discriminate].
    destruct hdr as [|h0 [|h1 [|? ?]]]; try discriminate.
    unfold from_stream_inner in D.
    destruct (opcode_of_N (N.land h0 15)); [|discriminate].
    destruct (read_len (N.land h1 127) c1) as [[n c2]|]; [|discriminate].
    destruct (read_key (negb (N.land h1 128 =? 0)) c2) as [[k c3]|]; [|discriminate].
    destruct (read_take n c3) as [d c4]. destruct (blen d =? n); discriminate.
  - discriminate.
Qed.

(* ================= the receive loop on a stream of encoded frames ================= *)
(* what the loop does with a list of decoded frames; the end of the list is the end of the stream *)
Fixpoint recv_frames (acc : list frame) (fs : list frame) : outcome message * list bytes * list frame :=
  match fs with
  | [] => (Err ReadError, [], [])
  | f :: r =>
    match on_frame acc f with
    | SDone res w => (res, w, r)
    | SCont acc' w => let '(res, ws, rem) := recv_frames acc' r in (res, w ++ ws, rem)
    end
  end.

(* what may follow the last complete frame: nothing, or the beginning of a frame (abrupt disconnect) *)
Definition tail_ok (tail : bytes) : Prop := tail = [] \/ exists g, wf g /\ strict_prefix tail (encode g).

Lemma decode_tail cs tail : tail_ok tail -> wf_chunks cs -> concat cs = tail -> decode cs = Err ReadError.
Proof.
  intros [->|(g & Wg & P)] W Hc.
  - apply decode_short; [assumption|]. unfold total_len. rewrite Hc. cbn. lia.
  - exact (decode_truncated g tail cs Wg P W Hc).
Qed.

Lemma norm_masked f : mask f = true -> norm f = f.
Proof. intro H. unfold norm. now rewrite H. Qed.

Lemma decode_m_of_decode cs x : decode cs = x -> exists a, decode_m cs = (x, a).
Proof. unfold decode. destruct (decode_m cs) as [r a]. cbn [fst]. intros <-. now exists a. Qed.

Lemma on_frame_res_cases acc f res w :
  on_frame acc f = SDone res w -> (exists m, res = Ok m) \/ res = Err ConnectionClosed.
Proof.
  unfold on_frame. destruct (fopcode f); try (destruct (fin f)); intros [= <- <-]; try discriminate; eauto.
Qed.

Lemma recv_frames_res acc fs : forall res ws rem,
  recv_frames acc fs = (res, ws, rem) ->
  (exists m, res = Ok m) \/ res = Err ConnectionClosed \/ (res = Err ReadError /\ rem = []).
Proof.
  revert acc. induction fs as [|f r IH]; intros acc res ws rem; cbn [recv_frames].
  - intros [= <- <- <-]. auto.
  - destruct (on_frame acc f) as [acc' w|res' w] eqn:E.
    + destruct (recv_frames acc' r) as [[res1 ws1] rem1] eqn:E1. intros [= <- <- <-].
      exact (IH _ _ _ _ E1).
    + intros [= <- <- <-]. destruct (on_frame_res_cases _ _ _ _ E); auto.
Qed.

Lemma recv_loop_frames : forall fs acc cs fuel tail res ws rem,
  Forall client_frame fs -> wf_chunks cs -> concat cs = concat (map encode fs) ++ tail ->
  (res = Err ReadError -> tail_ok tail) ->
  total_len cs < N.of_nat fuel ->
  recv_frames acc fs = (res, ws, rem) ->
  r_res (recv_loop on_frame fuel cs acc) = res /\ r_writes (recv_loop on_frame fuel cs acc) = ws /\
  (res <> Err ReadError ->
   wf_chunks (r_rest (recv_loop on_frame fuel cs acc)) /\
   concat (r_rest (recv_loop on_frame fuel cs acc)) = concat (map encode rem) ++ tail /\
   total_len (r_rest (recv_loop on_frame fuel cs acc)) + 2 <= total_len cs).
Proof.
  induction fs as [|f r IH]; intros acc cs fuel tail res ws rem HF W Hc HT Hfuel; cbn [recv_frames].
  - intros [= <- <- <-]. destruct fuel as [|fu]; [lia|]. cbn [recv_loop map concat app] in *.
    destruct (decode_m_of_decode cs _ (decode_tail cs tail (HT eq_refl) W Hc)) as [a ->]. cbn [r_res r_writes]. repeat split; congruence.
  - inversion HF as [|? ? [Wf Mf] HF']; subst. cbn [map concat] in Hc. rewrite <- app_assoc in Hc.
    destruct (decode_encode f _ cs Wf W Hc) as (cs1 & D & Hc1 & W1). rewrite (norm_masked f Mf) in D.
    destruct (decode_m_of_decode cs _ D) as [a Dm].
    destruct (decode_m_consumes _ _ _ _ Dm) as [T _].
    destruct fuel as [|fu]; [lia|]. cbn [recv_loop]. rewrite Dm.
    destruct (on_frame acc f) as [acc' w|res' w] eqn:E.
    + destruct (recv_frames acc' r) as [[res1 ws1] rem1] eqn:E1. intros [= <- <- <-].
      assert (Hfu : total_len cs1 < N.of_nat fu) by lia.
      destruct (IH acc' cs1 fu tail res1 ws1 rem1 HF' W1 Hc1 HT Hfu E1) as (R1 & R2 & R3).
      cbn [add_write r_res r_writes r_rest]. repeat split; try congruence.
      * apply R3. assumption.
      * apply R3. assumption.
      * specialize (R3 H) as (_ & _ & R3). lia.
    + intros [= <- <- <-]. cbn [r_res r_writes r_rest]. repeat split; auto. lia.
Qed.

(* ================= a whole session on a list of decoded frames ================= *)
Fixpoint session_in (echo : bool) (limit : option nat) (acc : list frame) (fs : list frame)
  : list message * outcome unit * list bytes :=
  match fs with
  | [] => ([], Err ReadError, drop_stream false)
  | f :: r =>
    match on_frame acc f with
    | SCont acc' w => let '(ms, fn, ws) := session_in echo limit acc' r in (ms, fn, w ++ ws)
    | SDone (Ok m) w =>
      let '(ms, fn, ws) := match option_map pred limit with
                           | Some O => ([], Ok tt, drop_stream false)
                           | l' => session_in echo l' [] r
                           end in
      (m :: ms, fn, w ++ (if echo then [send_bytes m] else []) ++ ws)
    | SDone (Err e) w => ([], Err e, w ++ drop_stream (e =? ConnectionClosed))
    | SDone (Crash c) w => ([], Crash c, w)
    end
  end.

Lemma session_in_recv : forall fs acc echo limit res ws rem,
  recv_frames acc fs = (res, ws, rem) ->
  session_in echo limit acc fs =
  match res with
  | Ok m =>
    let '(ms, fn, ws') := match option_map pred limit with
                          | Some O => ([], Ok tt, drop_stream false)
                          | l' => session_in echo l' [] rem
                          end in
    (m :: ms, fn, ws ++ (if echo then [send_bytes m] else []) ++ ws')
  | Err e => ([], Err e, ws ++ drop_stream (e =? ConnectionClosed))
  | Crash c => ([], Crash c, ws)
  end.
Proof.
  induction fs as [|f r IH]; intros acc echo limit res ws rem; cbn [recv_frames session_in].
  - intros [= <- <- <-]. reflexivity.
  - destruct (on_frame acc f) as [acc' w|res' w] eqn:E.
    + destruct (recv_frames acc' r) as [[res1 ws1] rem1] eqn:E1. intros [= <- <- <-].
      rewrite (IH acc' echo limit res1 ws1 rem1 E1).
      destruct res1 as [m|e|c].
      * destruct (match option_map pred limit with Some O => _ | _ => _ end) as [[ms fn] ws']. now rewrite app_assoc.
      * now rewrite app_assoc.
      * reflexivity.
    + intros [= <- <- <-]. destruct res' as [m|e|c]; reflexivity.
Qed.

Lemma recv_frames_shorter : forall fs acc res ws rem,
  recv_frames acc fs = (res, ws, rem) -> res <> Err ReadError -> (length rem < length fs)%nat.
Proof.
  induction fs as [|f r IH]; intros acc res ws rem; cbn [recv_frames].
  - intros [= <- <- <-] H. congruence.
  - destruct (on_frame acc f) as [acc' w|res' w].
    + destruct (recv_frames acc' r) as [[res1 ws1] rem1] eqn:E1. intros [= <- <- <-] H.
      specialize (IH _ _ _ _ E1 H). cbn [length]. lia.
    + intros [= <- <- <-] _. cbn [length]. lia.
Qed.

Lemma recv_frames_suffix : forall fs acc res ws rem,
  recv_frames acc fs = (res, ws, rem) -> exists pre, fs = pre ++ rem.
Proof.
  induction fs as [|f r IH]; intros acc res ws rem; cbn [recv_frames].
  - intros [= <- <- <-]. now exists [].
  - destruct (on_frame acc f) as [acc' w|res' w].
    + destruct (recv_frames acc' r) as [[res1 ws1] rem1] eqn:E1. intros [= <- <- <-].
      destruct (IH _ _ _ _ E1) as [pre ->]. now exists (f :: pre).
    + intros [= <- <- <-]. now exists [f].
Qed.

Lemma recv_frames_close : forall fs acc res ws rem,
  has_close fs = true -> recv_frames acc fs = (res, ws, rem) ->
  res <> Err ReadError /\ (forall m, res = Ok m -> has_close rem = true).
Proof.
  induction fs as [|f r IH]; intros acc res ws rem; cbn [recv_frames has_close]; [discriminate|].
  unfold on_frame. destruct (fopcode f) eqn:Eo.
  - destruct (fin f).
    + intros H [= <- <- <-]. split; [discriminate|]. auto.
    + destruct (recv_frames (f :: acc) r) as [[res1 ws1] rem1] eqn:E1. intros H [= <- <- <-]. exact (IH _ _ _ _ H E1).
  - destruct (fin f).
    + intros H [= <- <- <-]. split; [discriminate|]. auto.
    + destruct (recv_frames (f :: acc) r) as [[res1 ws1] rem1] eqn:E1. intros H [= <- <- <-]. exact (IH _ _ _ _ H E1).
  - destruct (fin f).
    + intros H [= <- <- <-]. split; [discriminate|]. auto.
    + destruct (recv_frames (f :: acc) r) as [[res1 ws1] rem1] eqn:E1. intros H [= <- <- <-]. exact (IH _ _ _ _ H E1).
  - intros _ [= <- <- <-]. split; [discriminate|]. intros m; discriminate.
  - destruct (recv_frames acc r) as [[res1 ws1] rem1] eqn:E1. intros H [= <- <- <-]. exact (IH _ _ _ _ H E1).
  - destruct (recv_frames acc r) as [[res1 ws1] rem1] eqn:E1. intros H [= <- <- <-]. exact (IH _ _ _ _ H E1).
Qed.

Lemma encode_length_ge2 f : (2 <= length (encode f))%nat.
Proof.
  unfold encode, encode_header. destruct (flen f <? 126); [|destruct (flen f <? 65536)]; cbn [app length]; lia.
Qed.

Lemma frames_total_len fs tail cs :
  concat cs = concat (map encode fs) ++ tail -> 2 * N.of_nat (length fs) <= total_len cs.
Proof.
  intro Hc. unfold total_len, blen. rewrite Hc, app_length.
  assert (H : (2 * length fs <= length (concat (map encode fs)))%nat).
  { clear Hc. induction fs as [|f r IH]; cbn [map concat length]; [lia|]. rewrite app_length. pose proof (encode_length_ge2 f). lia. }
  lia.
Qed.

Lemma Forall_suffix {A} (P : A -> Prop) pre l : Forall P (pre ++ l) -> Forall P l.
Proof. intro H. apply Forall_app in H. tauto. Qed.

Lemma serve_loop_limit0 sf df fuel echo cs :
  serve_loop sf df fuel echo (Some O) cs = mkServe [] (Ok tt) (df false) 0.
Proof. destruct fuel; reflexivity. Qed.

(* the model's session on any chunking of the encoded frames = the session on the frame list *)
Lemma serve_loop_frames echo : forall n fs, (length fs <= n)%nat -> forall cs fuel limit tail,
  limit <> Some O -> Forall client_frame fs -> wf_chunks cs -> concat cs = concat (map encode fs) ++ tail ->
  (has_close fs = true \/ tail_ok tail) -> (length fs < fuel)%nat ->
  (s_msgs (serve_loop on_frame drop_stream fuel echo limit cs),
   s_final (serve_loop on_frame drop_stream fuel echo limit cs),
   s_writes (serve_loop on_frame drop_stream fuel echo limit cs)) = session_in echo limit [] fs.
Proof.
  induction n as [|n IH]; intros fs Hn cs fuel limit tail HL HF W Hc HT Hfu.
  - destruct fs; [|cbn in Hn; lia]. destruct fuel as [|fu]; [lia|].
    assert (E : recv_frames [] [] = (Err ReadError, [], [])) by reflexivity.
    destruct HT as [HT|HT]; [discriminate|].
    destruct (recv_loop_frames [] [] cs (fuel_of cs) tail _ _ _ HF W Hc (fun _ => HT) (fuel_of_ok cs) E) as (R1 & R2 & _).
    destruct limit as [[|k]|]; [congruence| |]; cbn [serve_loop]; rewrite R1; cbn [s_msgs s_final s_writes]; rewrite R2; reflexivity.
  - destruct fuel as [|fu]; [lia|].
    destruct (recv_frames [] fs) as [[res ws] rem] eqn:E.
    assert (HT' : res = Err ReadError -> tail_ok tail).
    { intro Hr. destruct HT as [HT|HT]; [|assumption]. destruct (recv_frames_close _ _ _ _ _ HT E) as [X _]. contradiction. }
    destruct (recv_loop_frames fs [] cs (fuel_of cs) tail _ _ _ HF W Hc HT' (fuel_of_ok cs) E) as (R1 & R2 & R3).
    rewrite (session_in_recv fs [] echo limit res ws rem E).
    assert (SL : serve_loop on_frame drop_stream (S fu) echo limit cs =
                 let o := recv_loop on_frame (fuel_of cs) cs [] in
                 match r_res o with
                 | Ok m =>
                   let rest := serve_loop on_frame drop_stream fu echo (option_map pred limit) (r_rest o) in
                   mkServe (m :: s_msgs rest) (s_final rest)
                           (r_writes o ++ (if echo then [send_bytes m] else []) ++ s_writes rest)
                           (N.max (r_alloc o) (s_alloc rest))
                 | Err e => mkServe [] (Err e) (r_writes o ++ drop_stream (e =? ConnectionClosed)) (r_alloc o)
                 | Crash w => mkServe [] (Crash w) (r_writes o) (r_alloc o)
                 end).
    { destruct limit as [[|k]|]; [congruence| |]; reflexivity. }
    rewrite SL. cbv zeta. rewrite R1, R2.
    destruct res as [m|e|c]; cbn [s_msgs s_final s_writes]; try reflexivity.
    assert (Hne : Ok m <> Err ReadError) by discriminate.
    destruct (R3 Hne) as (W' & Hc' & _).
    pose proof (recv_frames_shorter _ _ _ _ _ E Hne) as Hlen.
    destruct (recv_frames_suffix _ _ _ _ _ E) as [pre Hpre].
    destruct (option_map pred limit) as [[|k]|] eqn:EL.
    + rewrite serve_loop_limit0. reflexivity.
    + assert (HT2 : has_close rem = true \/ tail_ok tail).
      { destruct HT as [HT|HT]; [left|now right]. destruct (recv_frames_close _ _ _ _ _ HT E) as [_ X]. now apply (X m). }
      assert (HF2 : Forall client_frame rem) by (rewrite Hpre in HF; exact (Forall_suffix _ _ _ HF)).
      assert (HLk : Some (S k) <> Some O) by discriminate.
      rewrite <- (IH rem ltac:(lia) (r_rest (recv_loop on_frame (fuel_of cs) cs [])) fu (Some (S k)) tail HLk HF2 W' Hc' HT2 ltac:(lia)).
      reflexivity.
    + assert (HT2 : has_close rem = true \/ tail_ok tail).
      { destruct HT as [HT|HT]; [left|now right]. destruct (recv_frames_close _ _ _ _ _ HT E) as [_ X]. now apply (X m). }
      assert (HF2 : Forall client_frame rem) by (rewrite Hpre in HF; exact (Forall_suffix _ _ _ HF)).
      assert (HLk : @None nat <> Some O) by discriminate.
      rewrite <- (IH rem ltac:(lia) (r_rest (recv_loop on_frame (fuel_of cs) cs [])) fu None tail HLk HF2 W' Hc' HT2 ltac:(lia)).
      reflexivity.
Qed.

(* ================= the session on a well-formed script = what the script means ================= *)
Definition Cur (acc : list frame) (cur : option (bool * bytes)) : Prop :=
  match acc with
  | [] => cur = None
  | _ :: _ => cur = Some (m_text (finish_message (rev acc)), concat (map payload (rev acc)))
  end.
Definition open_of (acc : list frame) : bool := match acc with [] => false | _ => true end.

Lemma finish_snoc l f :
  l <> [] -> finish_message (l ++ [f]) = mkMsg (m_text (finish_message l)) (concat (map payload l) ++ payload f).
Proof.
  destruct l as [|g l]; [congruence|]. intros _. unfold finish_message. rewrite map_app, concat_app.
  cbn [app map concat m_text]. now rewrite app_nil_r.
Qed.

Lemma rev_cons_ne {A} (x : A) l : rev (x :: l) <> [].
Proof. cbn [rev]. destruct (rev l); discriminate. Qed.

Definition writes_spec (echo : bool) (cur : option (bool * bytes)) (fs : list frame) : list bytes :=
  map encode (if echo then echo_replies_of cur fs else replies_of fs) ++
  (if has_close fs then [] else [encode (server_frame Close [])]).

Definition final_spec (fs : list frame) : outcome unit :=
  Err (if has_close fs then ConnectionClosed else ReadError).

Lemma send_bytes_frame m : send_bytes m = encode (message_frame m).
Proof. reflexivity. Qed.

Lemma session_in_spec echo : forall fs acc cur,
  Cur acc cur -> script_okb (open_of acc) fs = true ->
  session_in echo None acc fs = (messages_of cur fs, final_spec fs, writes_spec echo cur fs).
Proof.
  induction fs as [|f r IH]; intros acc cur HC HS.
  - unfold writes_spec, final_spec. destruct echo; reflexivity.
  - cbn [session_in script_okb] in *. unfold on_frame.
    destruct (fopcode f) eqn:Eo.
    + (* Continuation *)
      apply andb_true_iff in HS as [HO HS]. destruct acc as [|a acc]; [discriminate|].
      cbn [Cur] in HC. subst cur.
      pose proof (finish_snoc (rev (a :: acc)) f (rev_cons_ne a acc)) as FS.
      destruct (fin f) eqn:Ef.
      * cbn [option_map]. change (rev (f :: a :: acc)) with (rev (a :: acc) ++ [f]). rewrite FS.
        rewrite (IH [] None eq_refl HS).
        unfold writes_spec, final_spec. cbn [messages_of echo_replies_of replies_of has_close]. rewrite Eo, Ef.
        destruct echo; reflexivity.
      * assert (HC' : Cur (f :: a :: acc) (Some (m_text (finish_message (rev (a :: acc))), concat (map payload (rev (a :: acc))) ++ payload f))).
        { cbn [Cur]. change (rev (f :: a :: acc)) with (rev (a :: acc) ++ [f]). rewrite FS. cbn [m_text].
          rewrite map_app, concat_app. cbn [map concat]. now rewrite app_nil_r. }
        rewrite (IH (f :: a :: acc) _ HC' HS).
        unfold writes_spec, final_spec. cbn [messages_of echo_replies_of replies_of has_close]. rewrite Eo, Ef.
        destruct echo; reflexivity.
    + (* Text *)
      apply andb_true_iff in HS as [HO HS]. destruct acc as [|a acc]; [|discriminate].
      cbn [Cur] in HC. subst cur.
      destruct (fin f) eqn:Ef.
      * cbn [option_map rev app]. rewrite (IH [] None eq_refl HS).
        unfold writes_spec, final_spec, finish_message. cbn [messages_of echo_replies_of replies_of has_close map concat]. rewrite Eo, Ef.
        rewrite app_nil_r. destruct echo; reflexivity.
      * assert (HC' : Cur [f] (Some (true, payload f))).
        { cbn [Cur rev app]. unfold finish_message. cbn [m_text map concat]. now rewrite Eo, app_nil_r. }
        rewrite (IH [f] _ HC' HS).
        unfold writes_spec, final_spec. cbn [messages_of echo_replies_of replies_of has_close]. rewrite Eo, Ef.
        destruct echo; reflexivity.
    + (* Binary *)
      apply andb_true_iff in HS as [HO HS]. destruct acc as [|a acc]; [|discriminate].
      cbn [Cur] in HC. subst cur.
      destruct (fin f) eqn:Ef.
      * cbn [option_map rev app]. rewrite (IH [] None eq_refl HS).
        unfold writes_spec, final_spec, finish_message. cbn [messages_of echo_replies_of replies_of has_close map concat]. rewrite Eo, Ef.
        rewrite app_nil_r. destruct echo; reflexivity.
      * assert (HC' : Cur [f] (Some (false, payload f))).
        { cbn [Cur rev app]. unfold finish_message. cbn [m_text map concat]. now rewrite Eo, app_nil_r. }
        rewrite (IH [f] _ HC' HS).
        unfold writes_spec, final_spec. cbn [messages_of echo_replies_of replies_of has_close]. rewrite Eo, Ef.
        destruct echo; reflexivity.
    + (* Close *)
      unfold writes_spec, final_spec. cbn [messages_of echo_replies_of replies_of has_close]. rewrite Eo.
      destruct echo; reflexivity.
    + (* Ping *)
      apply andb_true_iff in HS as [_ HS]. rewrite (IH acc cur HC HS).
      unfold writes_spec, final_spec. cbn [messages_of echo_replies_of replies_of has_close]. rewrite Eo.
      destruct echo; reflexivity.
    + (* Pong *)
      apply andb_true_iff in HS as [_ HS]. rewrite (IH acc cur HC HS).
      unfold writes_spec, final_spec. cbn [messages_of echo_replies_of replies_of has_close]. rewrite Eo.
      destruct echo; reflexivity.
Qed.

(* C11 recv_delivers + writes: every chunking of every well-formed client script (followed by nothing, by the beginning of
   a further frame, or — when the script contains a Close — by anything) *)
Theorem serve_script echo fs tail cs :
  Forall client_frame fs -> script_okb false fs = true -> wf_chunks cs ->
  concat cs = concat (map encode fs) ++ tail -> (has_close fs = true \/ tail_ok tail) ->
  s_msgs (serve echo None cs) = messages_of None fs /\
  s_final (serve echo None cs) = final_spec fs /\
  s_writes (serve echo None cs) = writes_spec echo None fs.
Proof.
  intros HF HS W Hc HT. unfold serve.
  assert (HL : @None nat <> Some O) by discriminate.
  assert (Hfu : (length fs < fuel_of cs)%nat).
  { pose proof (frames_total_len fs tail cs Hc). unfold fuel_of. lia. }
  pose proof (serve_loop_frames echo (length fs) fs (le_n _) cs (fuel_of cs) None tail HL HF W Hc HT Hfu) as E.
  rewrite (session_in_spec echo fs [] None eq_refl HS) in E. now injection E.
Qed.

(* ================= everything the server wrote is a sequence of well-formed unmasked frames ================= *)
Definition reply_frames (echo : bool) (fs : list frame) : list frame :=
  (if echo then echo_replies_of None fs else replies_of fs) ++ (if has_close fs then [] else [server_frame Close []]).

Lemma writes_spec_frames echo fs : writes_spec echo None fs = map encode (reply_frames echo fs).
Proof. unfold writes_spec, reply_frames. rewrite map_app. destruct (has_close fs); reflexivity. Qed.

Lemma server_frame_wf o p : blen p < 2 ^ 63 -> Forall byte p -> wf (server_frame o p).
Proof. exact (new_frame_wf o p). Qed.

Lemma norm_server_frame o p : norm (server_frame o p) = server_frame o p.
Proof. reflexivity. Qed.

Definition is_server_frame (g : frame) : Prop :=
  exists o p, g = server_frame o p /\ blen p < 2 ^ 63 /\ Forall byte p.

Lemma is_server_frame_wf g : is_server_frame g -> wf g /\ mask g = false /\ norm g = g.
Proof. intros (o & p & -> & L & B). split; [now apply server_frame_wf|]. split; reflexivity. Qed.

Lemma client_payload f : client_frame f -> blen (payload f) < 2 ^ 63 /\ Forall byte (payload f).
Proof. intros [(L & B & P & _) _]. split; [now rewrite <- L|assumption]. Qed.

Lemma replies_server fs : Forall client_frame fs -> Forall is_server_frame (replies_of fs).
Proof.
  induction fs as [|f r IH]; intro HF; cbn [replies_of]; [constructor|].
  inversion HF as [|? ? Hf HF']; subst. destruct (client_payload f Hf) as [L B].
  destruct (fopcode f); try (now apply IH).
  - constructor; [|constructor]. now exists Close, (payload f).
  - constructor; [|now apply IH]. now exists Pong, (payload f).
Qed.

(* echoing needs the whole message to be shorter than 2^63 bytes *)
Lemma echo_replies_server : forall fs cur,
  Forall client_frame fs ->
  (match cur with Some (_, p) => blen p | None => 0 end) + blen (concat (map payload fs)) < 2 ^ 63 ->
  (match cur with Some (_, p) => Forall byte p | None => True end) ->
  Forall is_server_frame (echo_replies_of cur fs).
Proof.
  induction fs as [|f r IH]; intros cur HF HL HB; cbn [echo_replies_of]; [constructor|].
  inversion HF as [|? ? Hf HF']; subst. destruct (client_payload f Hf) as [L B].
  cbn [map concat] in HL. rewrite blen_app in HL.
  assert (HLr : blen (concat (map payload r)) < 2 ^ 63) by lia.
  destruct (fopcode f).
  - (* Continuation *)
    destruct cur as [[t p]|].
    + destruct (fin f).
      * constructor.
        -- exists (if t then Text else Binary), (p ++ payload f). cbn [message_frame m_text m_payload]. repeat split.
           ++ rewrite blen_app. lia.
           ++ apply Forall_app. split; assumption.
        -- apply IH; [assumption|lia|exact I].
      * apply IH; [assumption| rewrite blen_app; lia | apply Forall_app; split; assumption].
    + apply IH; [assumption|lia|exact I].
  - destruct (fin f).
    + constructor; [now exists Text, (payload f)|]. apply IH; [assumption|lia|exact I].
    + apply IH; [assumption|lia|assumption].
  - destruct (fin f).
    + constructor; [now exists Binary, (payload f)|]. apply IH; [assumption|lia|exact I].
    + apply IH; [assumption|lia|assumption].
  - constructor; [|constructor]. now exists Close, (payload f).
  - constructor; [now exists Pong, (payload f)|]. apply IH; [assumption|destruct cur as [[? ?]|]; lia|assumption].
  - apply IH; [assumption|destruct cur as [[? ?]|]; lia|assumption].
Qed.

Lemma reply_frames_server echo fs :
  Forall client_frame fs -> (echo = true -> blen (concat (map payload fs)) < 2 ^ 63) ->
  Forall is_server_frame (reply_frames echo fs).
Proof.
  intros HF HE. unfold reply_frames. apply Forall_app. split.
  - destruct echo; [apply echo_replies_server; [assumption|cbn; specialize (HE eq_refl); lia|exact I] | now apply replies_server].
  - destruct (has_close fs); [constructor|]. constructor; [|constructor]. exists Close, []. repeat split; try (cbn; lia); try constructor.
Qed.

Lemma map_norm_server l : Forall is_server_frame l -> map norm l = l.
Proof.
  induction 1 as [|g l Hg _ IH]; [reflexivity|]. cbn [map]. rewrite IH.
  destruct (is_server_frame_wf g Hg) as (_ & _ & ->). reflexivity.
Qed.

(* C11 writes_are_frames, on scripts *)
Theorem script_writes_are_frames echo fs tail cs :
  Forall client_frame fs -> script_okb false fs = true -> wf_chunks cs ->
  concat cs = concat (map encode fs) ++ tail -> (has_close fs = true \/ tail_ok tail) ->
  (echo = true -> blen (concat (map payload fs)) < 2 ^ 63) ->
  let R := reply_frames echo fs in
  s_writes (serve echo None cs) = map encode R /\
  Forall (fun g => wf g /\ mask g = false /\ FrameBytes g (encode g)) R /\
  (forall ws, wf_chunks ws -> concat ws = concat (s_writes (serve echo None cs)) ->
     exists ws', decode_many (length R) ws = Ok (R, ws') /\ concat ws' = [] /\ wf_chunks ws').
Proof.
  intros HF HS W Hc HT HE R.
  destruct (serve_script echo fs tail cs HF HS W Hc HT) as (_ & _ & HW).
  pose proof (reply_frames_server echo fs HF HE) as HR. fold R in HR.
  rewrite writes_spec_frames in HW. fold R in HW. split; [assumption|]. split.
  - eapply Forall_impl; [|exact HR]. intros g Hg. destruct (is_server_frame_wf g Hg) as (Wg & Mg & _).
    split; [assumption|]. split; [assumption|]. now apply encode_layout.
  - intros ws Wws Hws. rewrite HW in Hws.
    assert (HWf : Forall wf R) by (eapply Forall_impl; [|exact HR]; intros g Hg; now destruct (is_server_frame_wf g Hg)).
    rewrite <- (app_nil_r (concat (map encode R))) in Hws.
    destruct (decode_many_encode R [] ws HWf Wws Hws) as (ws' & D & C & W').
    rewrite (map_norm_server R HR) in D. now exists ws'.
Qed.

(* ================= the opening handshake ================= *)
Lemma magic_is_guid : MAGIC_STRING = RFC_GUID.
Proof. reflexivity. Qed.

Lemma accept_value_spec key :
  Forall byte key -> blen key < 2 ^ 60 -> accept_value key = Ok (accept_spec key).
Proof.
  intros HB HL. unfold accept_value, accept_spec. rewrite magic_is_guid.
  assert (HB2 : Forall Sha1Proofs.is_byte (key ++ RFC_GUID)).
  { apply Forall_app. split; [exact HB|]. unfold RFC_GUID, Sha1Proofs.is_byte. repeat constructor. }
  assert (HL2 : N.of_nat (length (key ++ RFC_GUID)) * 8 + 583 < 2 ^ 64).
  { rewrite app_length. unfold blen in HL. change (length RFC_GUID) with 36%nat.
    change (2 ^ 60) with 1152921504606846976 in HL. change (2 ^ 64) with 18446744073709551616. lia. }
  pose proof (Sha1Proofs.sha1_model_eq_spec _ HB2 HL2) as S. rewrite S. cbn [obind].
  apply Base64Proofs.encode_model_spec. exact (proj2 (Sha1Proofs.sha1_output _ _ S)).
Qed.

(* the 101 response *)
Definition response_101 (acc : bytes) : response :=
  {| s_version := [72; 84; 84; 80; 47; 49; 46; 49];                      (* HTTP/1.1 *)
     s_status := 1;                                                      (* StatusCode::SwitchingProtocols *)
     s_headers := [(HKnown H_Upgrade, [119; 101; 98; 115; 111; 99; 107; 101; 116]);     (* Upgrade: websocket *)
                   (HKnown H_Connection, [85; 112; 103; 114; 97; 100; 101]);            (* Connection: Upgrade *)
                   (HCustom [115; 101; 99; 45; 119; 101; 98; 115; 111; 99; 107; 101; 116; 45; 97; 99; 99; 101; 112; 116], acc)];
                                                                         (* sec-websocket-accept: <acc> *)
     s_body := [] |}.

(* "HTTP/1.1 101 Switching Protocols\r\nConnection: Upgrade\r\nUpgrade: websocket\r\nsec-websocket-accept: " *)
Definition head_101 : bytes :=
  [72; 84; 84; 80; 47; 49; 46; 49; 32; 49; 48; 49; 32; 83; 119; 105; 116; 99; 104; 105; 110; 103; 32; 80; 114; 111; 116; 111;
   99; 111; 108; 115; 13; 10; 67; 111; 110; 110; 101; 99; 116; 105; 111; 110; 58; 32; 85; 112; 103; 114; 97; 100; 101; 13; 10;
   85; 112; 103; 114; 97; 100; 101; 58; 32; 119; 101; 98; 115; 111; 99; 107; 101; 116; 13; 10; 115; 101; 99; 45; 119; 101; 98;
   115; 111; 99; 107; 101; 116; 45; 97; 99; 99; 101; 112; 116; 58; 32].

Lemma serialize_101 acc : serialize_response (response_101 acc) = head_101 ++ acc ++ [13; 10; 13; 10].
Proof.
  transitivity (head_101 ++ (acc ++ []) ++ [13; 10; 13; 10]); [vm_compute; reflexivity|]. now rewrite app_nil_r.
Qed.

Lemma status_101 : status_code 1 = 101 /\ status_phrase 1 = [83; 119; 105; 116; 99; 104; 105; 110; 103; 32; 80; 114; 111; 116; 111; 99; 111; 108; 115].
Proof. split; reflexivity. Qed.

Definition key_name : hname := HCustom [115; 101; 99; 45; 119; 101; 98; 115; 111; 99; 107; 101; 116; 45; 107; 101; 121].  (* sec-websocket-key *)

Lemma key_name_eq : hname_of WS_KEY_HEADER = key_name.
Proof. reflexivity. Qed.

Theorem handshake_accept req key :
  hget key_name (r_headers req) = Some key -> Forall byte key -> blen key < 2 ^ 60 ->
  handshake req = Ok (response_101 (accept_spec key)) /\
  handshake_bytes req = Ok (head_101 ++ accept_spec key ++ [13; 10; 13; 10]).
Proof.
  intros HK HB HL. unfold handshake_bytes, handshake. rewrite key_name_eq, HK, (accept_value_spec key HB HL). cbn [obind].
  split; [reflexivity|]. now rewrite <- serialize_101.
Qed.

Theorem handshake_no_key req :
  hget key_name (r_headers req) = None -> handshake req = Err HandshakeError /\ handshake_bytes req = Err HandshakeError.
Proof. intro HK. unfold handshake_bytes, handshake. rewrite key_name_eq, HK. split; reflexivity. Qed.

(* the hand-off in app.rs: only a request whose Upgrade header is exactly "websocket" reaches the handshake; without
   a key header nothing is written *)
Theorem upgrade_spec req :
  upgrade req =
  match hget (HKnown H_Upgrade) (r_headers req) with
  | Some v => if beq v [119; 101; 98; 115; 111; 99; 107; 101; 116] then Some (handshake_bytes req) else None
  | None => None
  end.
Proof. reflexivity. Qed.

(* ================= the code as it was (F20, F21) ================= *)
Definition ex_ping : frame := mkFrame true false false false Ping true 2 (mkKey 17 34 51 68) [104; 105].        (* "hi" *)
Definition ex_ping0 : frame := mkFrame true false false false Ping true 0 (mkKey 1 2 3 4) [].
Definition ex_text : frame := mkFrame true false false false Text true 5 (mkKey 55 250 33 61) [104; 101; 108; 108; 111].
Definition ex_close : frame := mkFrame true false false false Close true 2 (mkKey 9 8 7 6) [3; 232].            (* 1000 *)

Lemma ex_client_frames : Forall client_frame [ex_ping; ex_ping0; ex_text; ex_close].
Proof. repeat constructor. Qed.

(* F20: a masked Ping "hi", a masked empty Ping and a masked Close 1000 were answered with the bytes 68 69 03 e8 (the
   two payloads, no frame at all for the empty Ping); the same stream is answered with three frames now *)
Theorem serve_old_refuted :
  exists fs cs, Forall client_frame fs /\ script_okb false fs = true /\ wf_chunks cs /\ concat cs = concat (map encode fs) /\
    concat (s_writes (serve_old false None cs)) = [104; 105; 3; 232] /\
    concat (s_writes (serve_old false None cs)) <> concat (writes_spec false None fs) /\
    decode [concat (s_writes (serve_old false None cs))] = Err ReadError /\
    s_writes (serve false None cs) = writes_spec false None fs /\
    s_writes (serve false None cs) = [[138; 2; 104; 105]; [138; 0]; [136; 2; 3; 232]].
Proof.
  exists [ex_ping; ex_ping0; ex_close], [concat (map encode [ex_ping; ex_ping0; ex_close])].
  split; [repeat constructor|]. split; [reflexivity|]. split; [repeat constructor; discriminate|].
  split; [cbn [concat]; now rewrite app_nil_r|]. vm_compute. repeat split; try reflexivity. discriminate.
Qed.

(* F20, drop: dropping an open stream wrote nothing *)
Theorem drop_old_refuted : concat (drop_stream_old false) = [] /\ drop_stream false = [[136; 0]].
Proof. split; reflexivity. Qed.

(* F21: one byte of the frame 81 85 <key> "hello" has arrived when recv_nonblocking is called, the rest follows: the
   old code returned an empty text message and left the remaining bytes to be misread; the blocking receive (and the
   repaired non-blocking one) deliver "hello" *)
Theorem recv_nb_old_refuted :
  exists cs, wf_chunks cs /\ concat cs = encode ex_text /\
    n_res (recv_nb_old (fun _ => 1) cs) = Some (Ok (mkMsg true [])) /\
    r_res (recv cs) = Ok (mkMsg true [104; 101; 108; 108; 111]) /\
    n_res (recv_nb (fun _ => 1) cs) = Some (Ok (mkMsg true [104; 101; 108; 108; 111])) /\
    (* the bytes left behind by the old code are then read as a frame with a reserved opcode *)
    r_res (recv (n_rest (recv_nb_old (fun _ => 1) cs))) = Err InvalidOpcode.
Proof.
  exists [[129]; [133; 55; 250; 33; 61; 95; 159; 77; 81; 88]].
  split; [repeat constructor; discriminate|]. vm_compute. repeat split; reflexivity.
Qed.
