(* C09: what the upstream receives. The bytes written to the upstream parse (with the upstream's own view of the peer)
   to the client's request with the rewritten path and one more X-Forwarded-For header carrying the origin address. *)
From Coq Require Import Lia.
From Hv Require Import Prelude Bytes StreamBuf TablesHttp Http StaticFs StaticFsProofs Conn Proxy BytesProofs HttpReqSpec HttpReqProofs.
Open Scope N_scope.
Arguments N.eqb : simpl never.
Arguments N.ltb : simpl never.
Arguments N.leb : simpl never.

(* the textual form of an address as the parser or the socket layer produced it *)
Definition ip_text_ok (s : bytes) : Prop := nob LF s = true /\ utf8 s /\ ws_prefix_len s = 0%nat.

(* ---- dropping whole characters from the front of a UTF-8 string ---- *)
Lemma nob_skip_cont d l : nob d l = true -> nob d (skip_cont l) = true.
Proof.
  induction l as [|b r IH]; [auto|]. cbn [skip_cont]. destruct (cont b); [|auto].
  rewrite nob_cons. intro H. apply andb_true_iff in H as [_ H]. auto.
Qed.

Lemma nob_drop_chars d : forall n l r, nob d l = true -> drop_chars n l = Some r -> nob d r = true.
Proof.
  induction n as [|n IH]; intros l r H E; cbn [drop_chars] in E.
  - now injection E as <-.
  - destruct l as [|x l']; [discriminate|]. apply (IH (skip_cont l') r); [|exact E].
    apply nob_skip_cont. rewrite nob_cons in H. now apply andb_true_iff in H as [_ H].
Qed.

(* the first byte of a valid UTF-8 string is not a continuation byte *)
Lemma utf8_head_not_cont b r : utf8 (b :: r) -> cont b = false.
Proof.
  intro U. inversion U as [|l n Hlen Hrest]; subst. unfold utf8_char_len in Hlen.
  unfold cont. destruct (128 <=? b) eqn:E1; [|reflexivity]. destruct (b <=? 191) eqn:E2; [|reflexivity]. exfalso.
  apply N.leb_le in E1. apply N.leb_le in E2.
  replace (b <? 128) with false in Hlen by (symmetry; apply N.ltb_ge; lia).
  replace ((194 <=? b) && (b <=? 223)) with false in Hlen
    by (symmetry; apply andb_false_iff; left; apply N.leb_gt; lia).
  replace (b =? 224) with false in Hlen by (symmetry; apply N.eqb_neq; lia).
  replace (((225 <=? b) && (b <=? 236)) || (b =? 238) || (b =? 239)) with false in Hlen.
  2:{ symmetry. rewrite !orb_false_iff. repeat split; [apply andb_false_iff; left; apply N.leb_gt; lia | apply N.eqb_neq; lia | apply N.eqb_neq; lia]. }
  replace (b =? 237) with false in Hlen by (symmetry; apply N.eqb_neq; lia).
  replace (b =? 240) with false in Hlen by (symmetry; apply N.eqb_neq; lia).
  replace ((241 <=? b) && (b <=? 243)) with false in Hlen
    by (symmetry; apply andb_false_iff; left; apply N.leb_gt; lia).
  replace (b =? 244) with false in Hlen by (symmetry; apply N.eqb_neq; lia).
  discriminate.
Qed.

Lemma skip_cont_utf8 l : utf8 l -> skip_cont l = l.
Proof.
  destruct l as [|b r]; [reflexivity|]. intro U. cbn [skip_cont]. now rewrite (utf8_head_not_cont b r U).
Qed.

Lemma skip_cont_app_conts a l : forallb cont a = true -> skip_cont (a ++ l) = skip_cont l.
Proof.
  induction a as [|x a IH]; [reflexivity|]. cbn [forallb app skip_cont]. intro H. apply andb_true_iff in H as [H1 H2].
  rewrite H1. auto.
Qed.

(* after the lead byte of a character of length S n come exactly n continuation bytes *)
Lemma char_tail_conts b r n : utf8_char_len (b :: r) = S n -> (n <= length r)%nat /\ forallb cont (firstn n r) = true.
Proof.
  unfold utf8_char_len.
  repeat match goal with
         | |- context [if ?c then _ else _] => destruct c eqn:?
         | |- context [match ?r with [] => _ | _ :: _ => _ end] => destruct r
         end; intro H; try discriminate; injection H as <-; cbn [length firstn forallb]; split; try lia;
    repeat match goal with
           | H : _ && _ = true |- _ => apply andb_true_iff in H as [? ?]
           end;
    unfold cont in *; rewrite ?andb_true_r;
    repeat match goal with
           | |- _ && _ = true => apply andb_true_iff; split
           end; try assumption; try reflexivity;
    try (apply andb_true_iff; split; apply N.leb_le; repeat match goal with H : (_ <=? _) = true |- _ => apply N.leb_le in H end; lia).
  all: repeat match goal with H : _ && _ = true |- _ => apply andb_true_iff in H as [? ?] end;
       repeat match goal with H : (_ <=? _) = true |- _ => apply N.leb_le in H end;
       repeat match goal with H : (_ =? _) = true |- _ => apply N.eqb_eq in H end;
       apply N.leb_le; lia.
Qed.

Lemma drop_one_char_utf8 b r : utf8 (b :: r) -> utf8 (skip_cont r).
Proof.
  intro U. inversion U as [|l n Hlen Hrest]; subst. cbn [skipn] in Hrest.
  destruct (char_tail_conts b r n Hlen) as [Hn Hc].
  rewrite <- (firstn_skipn n r), skip_cont_app_conts by exact Hc. now rewrite skip_cont_utf8.
Qed.

Lemma drop_chars_utf8 : forall n l r, utf8 l -> drop_chars n l = Some r -> utf8 r.
Proof.
  induction n as [|n IH]; intros l r U E; cbn [drop_chars] in E.
  - now injection E as <-.
  - destruct l as [|x l']; [discriminate|]. apply (IH (skip_cont l') r); [|exact E]. now apply (drop_one_char_utf8 x).
Qed.

(* ---- the rewritten path is still a well-formed request target ---- *)
Lemma rewrite_uri_ok matches uri uri' m q v :
  start_ok m uri q v -> rewrite_uri matches uri = Some uri' -> start_ok m uri' q v.
Proof.
  intros HS E. unfold rewrite_uri in E. destruct (drop_chars _ uri) as [rest|] eqn:D; [|discriminate].
  destruct HS. injection E as <-.
  assert (R1 : nob SP rest = true) by exact (nob_drop_chars SP _ uri rest so_uri_sp D).
  assert (R2 : nob LF rest = true) by exact (nob_drop_chars LF _ uri rest so_uri_lf D).
  assert (R3 : nob QMARK rest = true) by exact (nob_drop_chars QMARK _ uri rest so_uri_q D).
  assert (R4 : utf8 rest) by exact (drop_chars_utf8 _ uri rest so_uri_u D).
  assert (G : forall x, start_ok m x q v -> start_ok m x q v) by auto.
  destruct rest as [|c rest'].
  - constructor; try assumption; try reflexivity. apply utf8_ascii. repeat constructor.
  - rewrite (match47 c).
    destruct (c =? 47); constructor; try assumption;
      try (rewrite nob_cons; apply andb_true_iff; split; [reflexivity|assumption]).
    apply utf8_ascii_cons; [reflexivity|assumption].
Qed.

(* ---- the request as the upstream parses it ---- *)
Definition seen_request (ipp : bytes -> option bytes) (p' : peer) (req : request) (uri' : bytes) : request :=
  let r := upstream_request req uri' in
  {| r_method := r_method r; r_uri := r_uri r; r_query := r_query r; r_version := r_version r;
     r_headers := r_headers r; r_content := r_content r; r_addr := address_of ipp (r_headers r) p' |}.

Lemma hget_app_other n hs k v : hname_eqb n k = false -> hget n (hs ++ [(k, v)]) = hget n hs.
Proof.
  intro H. induction hs as [|[k' v'] hs IH]; cbn [app hget].
  - now rewrite H.
  - destruct (hname_eqb n k'); [reflexivity|exact IH].
Qed.

Lemma xff_hdr_ok v : ip_text_ok v -> hdr_ok (XFF, v).
Proof.
  intros (H1 & H2 & H3). constructor; cbn [fst snd]; try assumption.
  - vm_compute. reflexivity.
  - vm_compute. reflexivity.
  - vm_compute. reflexivity.
  - apply utf8_valid_iff. vm_compute. reflexivity.
Qed.

Theorem upstream_sees ipp p p' req matches uri' rest' :
  parsed_ok ipp p req ->
  rewrite_uri matches (r_uri req) = Some uri' ->
  ip_text_ok (a_origin (r_addr req)) ->
  parse_request_flat ipp p' (upstream_bytes req uri' ++ rest') = Ok (sorted_request (seen_request ipp p' req uri'), rest').
Proof.
  intros P R I.
  assert (P' : parsed_ok ipp p' (seen_request ipp p' req uri')).
  { destruct P as [Ps Ph Pb Pa]. constructor; cbn [seen_request upstream_request r_method r_uri r_query r_version r_headers r_content r_addr].
    - eapply rewrite_uri_ok; eassumption.
    - apply Forall_app. split; [assumption|]. constructor; [|constructor]. now apply xff_hdr_ok.
    - unfold body_ok in *. rewrite hget_app_other by (vm_compute; reflexivity). exact Pb.
    - reflexivity. }
  pose proof (roundtrip_parsed ipp p' (seen_request ipp p' req uri') rest' P') as H.
  replace (roundtrip_residue (seen_request ipp p' req uri')) with (@nil N) in H.
  - exact H.
  - unfold roundtrip_residue, seen_request, upstream_request. cbn [r_headers]. destruct (r_headers req); reflexivity.
Qed.

(* the request the upstream sees differs from the client's only in the path and the added header *)
Corollary upstream_sees_fields ipp p p' req matches uri' :
  parsed_ok ipp p req -> rewrite_uri matches (r_uri req) = Some uri' -> ip_text_ok (a_origin (r_addr req)) ->
  exists r', parse_request_flat ipp p' (upstream_bytes req uri') = Ok (r', []) /\
    r_method r' = r_method req /\ r_uri r' = uri' /\ r_query r' = r_query req /\ r_version r' = r_version req /\
    r_content r' = r_content req /\
    (forall n, hget_all n (r_headers r') = hget_all n (r_headers req ++ [(XFF, a_origin (r_addr req))])).
Proof.
  intros P R I. exists (sorted_request (seen_request ipp p' req uri')). split.
  - rewrite <- (app_nil_r (upstream_bytes req uri')). now apply (upstream_sees ipp p p' req matches).
  - destruct (sorted_request_equiv (seen_request ipp p' req uri')) as (E1 & E2 & E3 & E4 & E5 & E6 & E7).
    cbn [sorted_request seen_request upstream_request r_method r_uri r_query r_version r_content r_headers] in *.
    repeat split; try reflexivity. intro n. apply E7.
Qed.
