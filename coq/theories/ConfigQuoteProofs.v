(* C15 model note: the quoted-string test of the model (is_quoted, on bytes) is the code's wildcard_match on the pattern
   QUOTE * QUOTE (C05's matcher model, on the decoded characters). Kept in its own file: KraussProofs sets a global
   reduction flag for N.eqb that the other configuration proofs do not want. *)
From Coq Require Import Lia.
From Hv Require Import Prelude Bytes TablesConfig Config ConfigProofs Krauss KraussProofs.
Open Scope N_scope.

(* ================================================================================================
   6. The quoted-string test is the wildcard matcher on the pattern  " * "
   ================================================================================================ *)

(* scalar values of a UTF-8 string (what chars() iterates over) *)
Fixpoint utf8_decode_fuel (fuel : nat) (l : bytes) : list N :=
  match fuel with
  | O => []
  | S f =>
    match l with
    | [] => []
    | b :: r =>
      if b <? 128 then b :: utf8_decode_fuel f r
      else if b <? 224 then
        match r with c1 :: r1 => ((b - 192) * 64 + (c1 - 128)) :: utf8_decode_fuel f r1 | _ => [] end
      else if b <? 240 then
        match r with c1 :: c2 :: r2 => ((b - 224) * 4096 + (c1 - 128) * 64 + (c2 - 128)) :: utf8_decode_fuel f r2 | _ => [] end
      else
        match r with
        | c1 :: c2 :: c3 :: r3 => ((b - 240) * 262144 + (c1 - 128) * 4096 + (c2 - 128) * 64 + (c3 - 128)) :: utf8_decode_fuel f r3
        | _ => []
        end
    end
  end.
Definition utf8_decode (l : bytes) : list N := utf8_decode_fuel (length l) l.

Lemma cont_range : forall c, cont c = true -> 128 <= c <= 191.
Proof. intros c H. unfold cont in H. apply andb_true_iff in H. destruct H as [H1 H2]. apply N.leb_le in H1, H2. lia. Qed.

(* the shape of one valid character *)
Lemma utf8_valid_fuel_cases : forall f b r, utf8_valid_fuel (S f) (b :: r) = true ->
  (b < 128 /\ utf8_valid_fuel f r = true) \/
  (exists c1 r1, r = c1 :: r1 /\ 194 <= b < 224 /\ 128 <= c1 /\ utf8_valid_fuel f r1 = true) \/
  (exists c1 c2 r2, r = c1 :: c2 :: r2 /\ 224 <= b < 240 /\ 128 <= c1 /\ 128 <= c2 /\ (b = 224 -> 160 <= c1) /\
                    utf8_valid_fuel f r2 = true) \/
  (exists c1 c2 c3 r3, r = c1 :: c2 :: c3 :: r3 /\ 240 <= b /\ 128 <= c1 /\ 128 <= c2 /\ 128 <= c3 /\ (b = 240 -> 144 <= c1) /\
                       utf8_valid_fuel f r3 = true).
Proof.
  intros f b r H. cbn [utf8_valid_fuel] in H.
  assert (Hnorm : forall c, cont c = true -> 128 <= c) by (intros c Hc; apply cont_range in Hc; lia).
  Ltac uv_split H :=
    repeat match type of H with (_ && _) = true => let H' := fresh "Hc" in apply andb_true_iff in H; destruct H as [H H'] end.
  destruct (b <? 128) eqn:E1; [left; split; [apply N.ltb_lt; exact E1|exact H]|]. apply N.ltb_ge in E1. right.
  destruct ((194 <=? b) && (b <=? 223)) eqn:E2.
  { left. apply andb_true_iff in E2. destruct E2 as [Ea Eb]. apply N.leb_le in Ea, Eb.
    destruct r as [|c1 r1]; [discriminate|]. apply andb_true_iff in H. destruct H as [Hc Hv].
    exists c1, r1. split; [reflexivity|]. split; [lia|]. split; [apply Hnorm; exact Hc|exact Hv]. }
  right. destruct (b =? 224) eqn:E3.
  { left. apply N.eqb_eq in E3. destruct r as [|c1 [|c2 r2]]; try discriminate.
    apply andb_true_iff in H. destruct H as [H Hv]. apply andb_true_iff in H. destruct H as [H Hc2].
    apply andb_true_iff in H. destruct H as [Ha Hb]. apply N.leb_le in Ha, Hb.
    exists c1, c2, r2. split; [reflexivity|]. split; [lia|]. split; [lia|]. split; [apply Hnorm; exact Hc2|]. split; [intros _; exact Ha|exact Hv]. }
  destruct (((225 <=? b) && (b <=? 236)) || (b =? 238) || (b =? 239)) eqn:E4.
  { left. destruct r as [|c1 [|c2 r2]]; try discriminate.
    apply andb_true_iff in H. destruct H as [H Hv]. apply andb_true_iff in H. destruct H as [Hc1 Hc2].
    assert (225 <= b <= 239).
    { apply orb_true_iff in E4. destruct E4 as [E4|E4]; [apply orb_true_iff in E4; destruct E4 as [E4|E4]|].
      - apply andb_true_iff in E4. destruct E4 as [Ea Eb]. apply N.leb_le in Ea, Eb. lia.
      - apply N.eqb_eq in E4. lia.
      - apply N.eqb_eq in E4. lia. }
    exists c1, c2, r2. split; [reflexivity|]. split; [lia|]. split; [apply Hnorm; exact Hc1|]. split; [apply Hnorm; exact Hc2|].
    split; [intros ->; lia|exact Hv]. }
  destruct (b =? 237) eqn:E5.
  { left. apply N.eqb_eq in E5. destruct r as [|c1 [|c2 r2]]; try discriminate.
    apply andb_true_iff in H. destruct H as [H Hv]. apply andb_true_iff in H. destruct H as [H Hc2].
    apply andb_true_iff in H. destruct H as [Ha Hb]. apply N.leb_le in Ha, Hb.
    exists c1, c2, r2. split; [reflexivity|]. split; [lia|]. split; [lia|]. split; [apply Hnorm; exact Hc2|]. split; [intros ->; lia|exact Hv]. }
  right. destruct (b =? 240) eqn:E6.
  { apply N.eqb_eq in E6. destruct r as [|c1 [|c2 [|c3 r3]]]; try discriminate.
    apply andb_true_iff in H. destruct H as [H Hv]. apply andb_true_iff in H. destruct H as [H Hc3].
    apply andb_true_iff in H. destruct H as [H Hc2]. apply andb_true_iff in H. destruct H as [Ha Hb]. apply N.leb_le in Ha, Hb.
    exists c1, c2, c3, r3. split; [reflexivity|]. split; [lia|]. split; [lia|]. split; [apply Hnorm; exact Hc2|].
    split; [apply Hnorm; exact Hc3|]. split; [intros _; exact Ha|exact Hv]. }
  destruct ((241 <=? b) && (b <=? 243)) eqn:E7.
  { apply andb_true_iff in E7. destruct E7 as [Ea Eb]. apply N.leb_le in Ea, Eb.
    destruct r as [|c1 [|c2 [|c3 r3]]]; try discriminate.
    apply andb_true_iff in H. destruct H as [H Hv]. apply andb_true_iff in H. destruct H as [H Hc3].
    apply andb_true_iff in H. destruct H as [Hc1 Hc2].
    exists c1, c2, c3, r3. split; [reflexivity|]. split; [lia|]. split; [apply Hnorm; exact Hc1|]. split; [apply Hnorm; exact Hc2|].
    split; [apply Hnorm; exact Hc3|]. split; [intros ->; lia|exact Hv]. }
  destruct (b =? 244) eqn:E8; [|discriminate].
  apply N.eqb_eq in E8. destruct r as [|c1 [|c2 [|c3 r3]]]; try discriminate.
  apply andb_true_iff in H. destruct H as [H Hv]. apply andb_true_iff in H. destruct H as [H Hc3].
  apply andb_true_iff in H. destruct H as [H Hc2]. apply andb_true_iff in H. destruct H as [Ha Hb]. apply N.leb_le in Ha, Hb.
  exists c1, c2, c3, r3. split; [reflexivity|]. split; [lia|]. split; [lia|]. split; [apply Hnorm; exact Hc2|].
  split; [apply Hnorm; exact Hc3|]. split; [intros ->; lia|exact Hv].
Qed.

Lemma last_cons_ne : forall {A} (a : A) l d, l <> [] -> last (a :: l) d = last l d.
Proof. intros A a l d H. destruct l; [congruence|reflexivity]. Qed.

(* first and last scalar are a double quote exactly when the first and last byte are *)
Lemma utf8_decode_ends : forall f v, utf8_valid_fuel f v = true ->
  (utf8_decode_fuel f v = [] <-> v = []) /\
  (v <> [] -> (hd 0 (utf8_decode_fuel f v) = 34 <-> hd 0 v = 34) /\ (last (utf8_decode_fuel f v) 0 = 34 <-> last v 0 = 34)).
Proof.
  induction f as [|f IH]; intros v H.
  - destruct v; [|discriminate]. split; [split; reflexivity|congruence].
  - destruct v as [|b r]; [split; [split; reflexivity|congruence]|].
    destruct (utf8_valid_fuel_cases f b r H) as [[Hb Hv]|[[c1 [r1 [-> [Hb [Hc1 Hv]]]]]|[[c1 [c2 [r2 [-> [Hb [Hc1 [Hc2 [H224 Hv]]]]]]]]|
      [c1 [c2 [c3 [r3 [-> [Hb [Hc1 [Hc2 [Hc3 [H240 Hv]]]]]]]]]]]]];
      destruct (IH _ Hv) as [Hnil Hends]; cbn [utf8_decode_fuel].
    + replace (b <? 128) with true by (symmetry; apply N.ltb_lt; exact Hb).
      split; [split; discriminate|]. intros _. split; [reflexivity|].
      destruct r as [|x r']; [rewrite (proj2 Hnil eq_refl); reflexivity|].
      assert (Hne : utf8_decode_fuel f (x :: r') <> []) by (intros E; apply Hnil in E; discriminate).
      rewrite (last_cons_ne b _ 0 Hne). rewrite (last_cons_ne b (x :: r') 0) by discriminate. apply Hends. discriminate.
    + replace (b <? 128) with false by (symmetry; apply N.ltb_ge; lia).
      replace (b <? 224) with true by (symmetry; apply N.ltb_lt; lia).
      split; [split; discriminate|]. intros _. cbn [hd]. split; [split; intros E; exfalso; lia|].
      destruct r1 as [|x r']; [rewrite (proj2 Hnil eq_refl); cbn [last]; split; intros E; exfalso; lia|].
      assert (Hne : utf8_decode_fuel f (x :: r') <> []) by (intros E; apply Hnil in E; discriminate).
      rewrite (last_cons_ne _ _ 0 Hne).
      change (last (b :: c1 :: x :: r') 0) with (last (x :: r') 0). apply Hends. discriminate.
    + replace (b <? 128) with false by (symmetry; apply N.ltb_ge; lia).
      replace (b <? 224) with false by (symmetry; apply N.ltb_ge; lia).
      replace (b <? 240) with true by (symmetry; apply N.ltb_lt; lia).
      split; [split; discriminate|]. intros _. cbn [hd].
      assert (Hs : (b - 224) * 4096 + (c1 - 128) * 64 + (c2 - 128) <> 34).
      { destruct (N.eq_dec b 224) as [->|Hn]; [specialize (H224 eq_refl); lia|lia]. }
      split; [split; intros E; exfalso; [congruence|lia]|].
      destruct r2 as [|x r']; [rewrite (proj2 Hnil eq_refl); cbn [last]; split; intros E; exfalso; [congruence|lia]|].
      assert (Hne : utf8_decode_fuel f (x :: r') <> []) by (intros E; apply Hnil in E; discriminate).
      rewrite (last_cons_ne _ _ 0 Hne).
      change (last (b :: c1 :: c2 :: x :: r') 0) with (last (x :: r') 0). apply Hends. discriminate.
    + replace (b <? 128) with false by (symmetry; apply N.ltb_ge; lia).
      replace (b <? 224) with false by (symmetry; apply N.ltb_ge; lia).
      replace (b <? 240) with false by (symmetry; apply N.ltb_ge; lia).
      split; [split; discriminate|]. intros _. cbn [hd].
      assert (Hs : (b - 240) * 262144 + (c1 - 128) * 4096 + (c2 - 128) * 64 + (c3 - 128) <> 34).
      { destruct (N.eq_dec b 240) as [->|Hn]; [specialize (H240 eq_refl); lia|lia]. }
      split; [split; intros E; exfalso; [congruence|lia]|].
      destruct r3 as [|x r']; [rewrite (proj2 Hnil eq_refl); cbn [last]; split; intros E; exfalso; [congruence|lia]|].
      assert (Hne : utf8_decode_fuel f (x :: r') <> []) by (intros E; apply Hnil in E; discriminate).
      rewrite (last_cons_ne _ _ 0 Hne).
      change (last (b :: c1 :: c2 :: c3 :: x :: r') 0) with (last (x :: r') 0). apply Hends. discriminate.
Qed.

Lemma glob_quoted : forall t, Glob [34; 42; 34] t <-> exists u, t = 34 :: u ++ [34].
Proof.
  intros t. split.
  - intros H. inversion H as [| |c p t' Hc Hg]; subst.
    inversion Hg as [|p u t'' Hg'|c p t'' Hc' _]; subst; [|exfalso; apply Hc'; reflexivity].
    inversion Hg' as [| |c p t3 Hc3 Hg3]; subst. inversion Hg3; subst. exists u. reflexivity.
  - intros [u ->]. apply g_chr; [discriminate|]. apply (g_star [34] u [34]). apply g_chr; [discriminate|]. apply g_nil.
Qed.

(* C15 model note: is_quoted on the bytes is wildcard_match("\"*\"", value) on the characters *)
Theorem is_quoted_wildcard : forall v, utf8_valid v = true ->
  (wildcard_match [34; 42; 34] (utf8_decode v) = true <-> is_quoted v = true).
Proof.
  intros v Hv. rewrite wildcard_match_spec, glob_quoted. unfold utf8_decode, utf8_valid in *.
  split.
  - intros [u Hu]. destruct v as [|b r]; [discriminate|].
    destruct (utf8_decode_ends _ _ Hv) as [_ Hends]. destruct (Hends ltac:(discriminate)) as [Hhd _].
    assert (Hb : b = 34) by (apply Hhd; rewrite Hu; reflexivity). subst b.
    cbn [length utf8_decode_fuel utf8_valid_fuel] in *. change (34 <? 128) with true in *. cbv iota in Hu, Hv.
    injection Hu as Hu.
    destruct (utf8_decode_ends _ _ Hv) as [Hnil Hends'].
    assert (Hr : r <> []) by (intros ->; destruct u; discriminate).
    destruct (Hends' Hr) as [_ Hlast]. unfold is_quoted. destruct r as [|x r']; [congruence|].
    apply N.eqb_eq. apply Hlast. rewrite Hu. apply last_last.
  - intros Hq. destruct (is_quoted_shape v Hq) as [m ->].
    cbn [length utf8_decode_fuel utf8_valid_fuel] in *. change (34 <? 128) with true in *. cbv iota in Hv |- *.
    destruct (utf8_decode_ends _ _ Hv) as [Hnil Hends].
    assert (Hne : m ++ [34] <> []) by (destruct m; discriminate).
    destruct (Hends Hne) as [_ Hlast].
    assert (Hdn : utf8_decode_fuel (length (m ++ [34])) (m ++ [34]) <> []) by (intros E; apply Hnil in E; congruence).
    exists (removelast (utf8_decode_fuel (length (m ++ [34])) (m ++ [34]))). f_equal.
    rewrite (app_removelast_last 0 Hdn) at 1. f_equal. f_equal. apply Hlast. apply last_last.
Qed.
