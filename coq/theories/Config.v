(* Model of humphrey-server/src/config/{tree,traceback,extended_hashmap,config}.rs after the repairs F10-F13 (C15, C03 conf).
   Strings are UTF-8 byte lists (a Rust String / &str); the API takes &str, so inputs are valid UTF-8.
   Every slicing / unwrap site of the Rust text has an RCrash branch; ConfigProofs shows none is reachable.
   Definitions only. *)
From Hv Require Import Prelude Bytes TablesConfig.
Open Scope N_scope.

(* ---------------------------------------------------------------------------------------------- results *)
(* ConfigError {message, file, line} for the tree layer; &'static str (class only, file = [], line = 0) for from_tree *)
Record cerr := { ce_class : N; ce_file : bytes; ce_line : N }.
Inductive res (A : Type) : Type :=
| ROk (a : A)
| RErr (e : cerr)
| RCrash (why : N).
Arguments ROk {A} a.
Arguments RErr {A} e.
Arguments RCrash {A} why.

Definition to_outcome {A} (r : res A) : outcome A :=
  match r with ROk a => Ok a | RErr e => Err (ce_class e) | RCrash w => Crash w end.

Definition rbind {A B} (x : res A) (f : A -> res B) : res B :=
  match x with ROk a => f a | RErr e => RErr e | RCrash w => RCrash w end.

(* syntax error classes (tree.rs messages) *)
Definition E_NoServer : N := 1.   (* Could not find `server` section (line 0) *)
Definition E_Syntax : N := 2.     (* Syntax error: a non-empty line without a space *)
Definition E_Value : N := 3.      (* Could not parse value *)
Definition E_IncValue : N := 4.   (* Invalid include value *)
Definition E_Eof : N := 5.        (* Unexpected end of file, expected `}` *)
Definition E_IncRead : N := 6.    (* Could not read included file *)
Definition E_IncOpen : N := 7.    (* Could not open included file *)
Definition E_Depth : N := 9.      (* nested too deeply (sections: fix F12; includes: fix F13) *)
Definition E_Trailing : N := 10.  (* content after the end of the `server` section (fix: unmatched brace) *)
Definition E_Unmatched : N := 11. (* unmatched closing brace in an included file *)
Definition E_Fuel : N := 99.      (* model only: loop fuel exhausted (proved unreachable) *)
(* validation error classes (config.rs messages) *)
Definition V_Port : N := 20.
Definition V_Threads : N := 21.
Definition V_Timeout : N := 22.
Definition V_NoThreads : N := 23.
Definition V_BlOpen : N := 24.
Definition V_BlRead : N := 25.
Definition V_BlIp : N := 26.
Definition V_BlMode : N := 27.
Definition V_LogLevel : N := 28.
Definition V_LogConsole : N := 29.
Definition V_CacheSize : N := 30.
Definition V_CacheTime : N := 31.
Definition V_LbMode : N := 32.
Definition V_Route : N := 33.
(* panic sites *)
Definition C_SliceValue : N := 1.   (* value[1..value.len() - 1] *)
Definition C_LastChar : N := 2.     (* chars.next_back().unwrap() in parse_size *)
Definition C_Compulsory : N := 3.   (* get_compulsory(..).unwrap() in parse_route *)

Definition mkerr (c : N) (file : bytes) (line : N) : cerr := {| ce_class := c; ce_file := file; ce_line := line |}.
Definition verr {A} (c : N) : res A := RErr (mkerr c [] 0).

(* ---------------------------------------------------------------------------------------------- strings *)
Fixpoint starts_with (p l : bytes) : bool :=
  match p, l with
  | [], _ => true
  | x :: p', y :: l' => (x =? y) && starts_with p' l'
  | _ :: _, [] => false
  end.

(* str::strip_suffix(c) for an ASCII c: in valid UTF-8 a byte < 128 is always a whole character *)
Definition strip_suffix_byte (c : N) (l : bytes) : option bytes :=
  match l with
  | [] => None
  | _ => if last l 0 =? c then Some (removelast l) else None
  end.

(* &s[a..b]: None = panic (range out of order / out of bounds / not on a char boundary) *)
Definition str_slice (l : bytes) (a b : nat) : option bytes :=
  if Nat.leb a b && Nat.leb b (length l) && is_char_boundary l a && is_char_boundary l b
  then Some (firstn (b - a) (skipn a l)) else None.

(* str::lines(): split_inclusive(LF), then strip one LF and one CR before it; no final empty line *)
Fixpoint lines (l : bytes) : list bytes :=
  match l with
  | [] => []
  | b :: r =>
    if b =? 10 then [] :: lines r
    else if (b =? 13) && (match r with c :: _ => c =? 10 | [] => false end) then lines r
    else match lines r with
         | [] => [[b]]
         | x :: xs => (b :: x) :: xs
         end
  end.

Definition upper_byte (b : N) : N := if (97 <=? b) && (b <=? 122) then b - 32 else b.

(* the last character of a (valid UTF-8) string: (bytes before it, its bytes) *)
Fixpoint take_cont (rl : bytes) (acc : bytes) : bytes * bytes :=     (* rl reversed; returns (reversed rest, char bytes) *)
  match rl with
  | [] => ([], acc)
  | b :: r => if cont b then take_cont r (b :: acc) else (r, b :: acc)
  end.
Definition split_last_char (l : bytes) : option (bytes * bytes) :=
  match l with
  | [] => None
  | _ => let '(r, c) := take_cont (rev l) [] in Some (rev r, c)
  end.

(* ---------------------------------------------------------------------------------------------- numbers *)
Definition i64_min : Z := (-9223372036854775808)%Z.
Definition i64_max : Z := 9223372036854775807%Z.

(* i64::from_str: optional sign, at least one digit, range checked *)
Definition parse_i64 (l : bytes) : option Z :=
  match l with
  | 45 :: r =>
    match r with
    | [] => None
    | _ => match dec_digits 0 r with
           | Some n => let z := (- Z.of_N n)%Z in if (i64_min <=? z)%Z then Some z else None
           | None => None
           end
    end
  | _ =>
    let ds := match l with 43 :: r => r | _ => l end in
    match ds with
    | [] => None
    | _ => match dec_digits 0 ds with
           | Some n => if (Z.of_N n <=? i64_max)%Z then Some (Z.of_N n) else None
           | None => None
           end
    end
  end.

(* i64 Display *)
Definition z_render (z : Z) : bytes :=
  if (z <? 0)%Z then 45 :: dec_render (Z.to_N (- z)) else dec_render (Z.to_N z).

Definition checked_mul (a b : Z) : option Z :=
  let p := (a * b)%Z in
  if (i64_min <=? p)%Z && (p <=? i64_max)%Z then Some p else None.

Definition kw_true : bytes := [116; 114; 117; 101].
Definition kw_false : bytes := [102; 97; 108; 115; 101].
Definition parse_bool (l : bytes) : option bool :=
  if beq l kw_true then Some true else if beq l kw_false then Some false else None.

Fixpoint assoc_n {A} (k : N) (t : list (N * A)) : option A :=
  match t with
  | [] => None
  | (k', v) :: t' => if k =? k' then Some v else assoc_n k t'
  end.

(* parse_size after fix F10: Ok n / Err 0 = Err(()) / Crash *)
Definition parse_size (size : bytes) : outcome Z :=
  match size with
  | [] => Err 0
  | [_] => match parse_i64 size with Some z => Ok z | None => Err 0 end
  | _ =>
    match split_last_char size with
    | None => Crash C_LastChar
    | Some (init, lastc) =>
      match parse_i64 init with
      | None => Err 0
      | Some number =>
        match lastc with
        | [c] =>
          let u := upper_byte c in
          match assoc_n u size_units with
          | Some m => match checked_mul number m with Some z => Ok z | None => Err 0 end
          | None => if is_digit u then match parse_i64 size with Some z => Ok z | None => Err 0 end else Err 0
          end
        | _ => Err 0                       (* a multi-byte last character is no unit *)
        end
      end
    end
  end.

(* ---------------------------------------------------------------------------------------------- tree *)
Inductive node : Type :=
| NNum (k v : bytes)
| NBool (k v : bytes)
| NStr (k v : bytes)
| NSec (k : bytes) (cs : list node)
| NHost (k : bytes) (cs : list node)
| NRoute (k : bytes) (cs : list node).

(* the abstract file system: what File::open + read_to_string see *)
Inductive fentry : Type :=
| FNone                 (* open fails *)
| FDir                  (* open succeeds, read fails *)
| FData (b : bytes).    (* contents; read_to_string fails if they are not UTF-8 *)

Definition HASH : N := 35.
Definition QUOTE : N := 34.
Definition LBRACE : N := 123.
Definition RBRACE : N := 125.
Definition COMMA : N := 44.

(* clean_up: cut at the first '#', trim (Unicode whitespace) *)
Definition clean_up (line : bytes) : bytes :=
  trim (match split_once HASH line with Some (a, _) => a | None => line end).

(* wildcard_match on the pattern QUOTE * QUOTE: first and last character are a double quote and there are at least two characters
   (ConfigQuoteProofs.is_quoted_wildcard: equivalent to Krauss.wildcard_match on the decoded scalars) *)
Definition is_quoted (v : bytes) : bool :=
  match v with
  | 34 :: r => match r with [] => false | _ => last r 0 =? 34 end
  | _ => false
  end.

Definition kw_route_sp : bytes := [114; 111; 117; 116; 101; 32].          (* "route " *)
Definition kw_route_brace : bytes := [114; 111; 117; 116; 101; 32; 123].  (* "route {" *)
Definition kw_host_sp : bytes := [104; 111; 115; 116; 32].                (* "host " *)
Definition kw_host_brace : bytes := [104; 111; 115; 116; 32; 123].        (* "host {" *)
Definition kw_include : bytes := [105; 110; 99; 108; 117; 100; 101].      (* "include" *)
Definition kw_server : bytes := [115; 101; 114; 118; 101; 114].           (* "server" *)
Definition kw_server_open : bytes := [115; 101; 114; 118; 101; 114; 32; 123].  (* "server {" *)

(* s.splitn(2, ' ').last().unwrap() *)
Definition after_space (s : bytes) : bytes :=
  match split_once SP s with Some (_, b) => b | None => s end.

(* raw.strip_prefix(QUOTE).and_then(|u| u.strip_suffix(QUOTE)).unwrap_or(raw)   (fix F11) *)
Definition host_name_of (raw : bytes) : bytes :=
  match raw with
  | 34 :: r => match strip_suffix_byte QUOTE r with Some m => m | None => raw end
  | _ => raw
  end.

(* the value typing chain of parse_section: quoted string / i64 / bool / size *)
Definition type_value (key value : bytes) : outcome node :=
  if is_quoted value then
    match str_slice value 1 (length value - 1) with
    | Some s => Ok (NStr key s)
    | None => Crash C_SliceValue
    end
  else match parse_i64 value with
       | Some _ => Ok (NNum key value)
       | None =>
         match parse_bool value with
         | Some _ => Ok (NBool key value)
         | None => match parse_size value with
                   | Ok z => Ok (NNum key (z_render z))
                   | Err _ => Err E_Value
                   | Crash w => Crash w
                   end
         end
       end.

(* state of the TracebackIterator: remaining lines and current_line *)
Definition pstate : Type := (list bytes * N)%type.

(* include(path, containing_file, line, depth) with the recursive call abstracted:
   room = false when depth + 1 >= MAX_DEPTH; ps fuel name file lines line0 = parse_section one level deeper *)
Definition include_with (files : bytes -> fentry) (room : bool)
  (ps : nat -> bytes -> bytes -> list bytes -> N -> res (node * pstate))
  (path file : bytes) (ln : N) : res (list node) :=
  if negb room then RErr (mkerr E_Depth file ln)
  else match files path with
       | FNone => RErr (mkerr E_IncOpen file ln)
       | FDir => RErr (mkerr E_IncRead file ln)
       | FData b =>
         if utf8_valid b then
           let ils := lines (b ++ [LF; RBRACE]) in
           match ps (S (length ils)) included_section_name path ils 0 with
           | ROk (_, (_ :: _, ln')) => RErr (mkerr E_Unmatched path ln')   (* closed before the appended brace *)
           | ROk (NSec _ cs, ([], _)) => ROk cs
           | ROk (_, ([], _)) => ROk []     (* unreachable: parse_section only returns sections *)
           | RErr e => RErr e
           | RCrash w => RCrash w
           end
         else RErr (mkerr E_IncRead file ln)
       end.

(* One iteration of the loop of parse_section on the line `raw` (already taken from the iterator; ln = current_line()).
   ps = parse_section one level deeper (fuel, name, file, lines, line); room = whether depth + 1 < MAX_DEPTH;
   continue = the rest of the loop (remaining lines, current_line, values so far in reverse). *)
Definition section_step (files : bytes -> fentry)
  (ps : nat -> bytes -> bytes -> list bytes -> N -> res (node * pstate)) (room : bool)
  (continue : list bytes -> N -> list node -> res (node * pstate))
  (f : nat) (name file raw : bytes) (rest : list bytes) (ln : N) (acc : list node) : res (node * pstate) :=
  let line := clean_up raw in
  match strip_suffix_byte LBRACE line with
  | Some sn0 =>
    let sn := trim sn0 in
    if starts_with kw_route_sp sn && negb (beq sn kw_route_brace) then
      match ps f (trim (after_space sn)) file rest ln with
      | ROk (NSec k cs, (rest', ln')) => continue rest' ln' (NRoute k cs :: acc)
      | ROk (_, (rest', ln')) => continue rest' ln' acc
      | RErr e => RErr e
      | RCrash w => RCrash w
      end
    else if starts_with kw_host_sp sn && negb (beq sn kw_host_brace) then
      match ps f (host_name_of (trim (after_space sn))) file rest ln with
      | ROk (NSec k cs, (rest', ln')) => continue rest' ln' (NHost k cs :: acc)
      | ROk (_, (rest', ln')) => continue rest' ln' acc
      | RErr e => RErr e
      | RCrash w => RCrash w
      end
    else
      match ps f sn file rest ln with
      | ROk (n, (rest', ln')) => continue rest' ln' (n :: acc)
      | RErr e => RErr e
      | RCrash w => RCrash w
      end
  | None =>
    if beq line [RBRACE] then ROk (NSec name (rev acc), (rest, ln))
    else match line with
         | [] => continue rest ln acc
         | _ =>
           match split_once SP line with
           | None => RErr (mkerr E_Syntax file ln)
           | Some (a, b) =>
             let key := trim a in
             let value := trim b in
             if negb (beq key kw_include) then
               match type_value key value with
               | Ok n => continue rest ln (n :: acc)
               | Err c => RErr (mkerr c file ln)
               | Crash w => RCrash w
               end
             else if is_quoted value then
               match str_slice value 1 (length value - 1) with
               | None => RCrash C_SliceValue
               | Some path =>
                 match include_with files room ps path file ln with
                 | ROk nodes => continue rest ln (rev nodes ++ acc)
                 | RErr e => RErr e
                 | RCrash w => RCrash w
                 end
               end
             else RErr (mkerr E_IncValue file ln)
           end
         end
  end.

(* The loop of parse_section: one iteration = one lines.next(). acc = values so far, reversed. *)
Definition section_loop (files : bytes -> fentry)
  (ps : nat -> bytes -> bytes -> list bytes -> N -> res (node * pstate)) (room : bool) (name file : bytes)
  : nat -> list bytes -> N -> list node -> res (node * pstate) :=
  fix loop (fuel : nat) (ls : list bytes) (ln : N) (acc : list node) {struct fuel} : res (node * pstate) :=
    match fuel with
    | O => RErr (mkerr E_Fuel file ln)
    | S f =>
      match ls with
      | [] => RErr (mkerr E_Eof file (ln + 1))         (* next() = None still increments current_line *)
      | raw :: rest => section_step files ps room (loop f) f name file raw rest (ln + 1) acc
      end
    end.

(* parse_section(name, lines, filename, depth) with d = MAX_DEPTH - depth levels left. *)
Fixpoint parse_section (files : bytes -> fentry) (d : nat) (fuel : nat) (name file : bytes) (ls : list bytes) (ln : N)
  {struct d} : res (node * pstate) :=
  match d with
  | O => RErr (mkerr E_Depth file ln)                 (* depth >= MAX_DEPTH on entry: the line that opened the section *)
  | S d' =>
    section_loop files (parse_section files d') (match d' with O => false | S _ => true end) name file fuel ls ln []
  end.

(* the search for "server {" at the start of parse_conf *)
Fixpoint find_server (ls : list bytes) (ln : N) : option pstate :=
  match ls with
  | [] => None
  | l :: rest => if beq (clean_up l) kw_server_open then Some (rest, ln + 1) else find_server rest (ln + 1)
  end.

(* only comments and blank lines may follow the server section: line number of the first other line *)
Fixpoint check_trailing (ls : list bytes) (ln : N) : option N :=
  match ls with
  | [] => None
  | l :: r => match clean_up l with [] => check_trailing r (ln + 1) | _ => Some (ln + 1) end
  end.

Definition parse_conf (files : bytes -> fentry) (file conf : bytes) : res node :=
  match find_server (lines conf) 0 with
  | None => RErr (mkerr E_NoServer file 0)
  | Some (rest, ln) =>
    match parse_section files conf_max_depth (S (length rest)) kw_server file rest ln with
    | ROk (n, (rest', ln')) =>
      match check_trailing rest' ln' with
      | None => ROk n
      | Some k => RErr (mkerr E_Trailing file k)
      end
    | RErr e => RErr e
    | RCrash w => RCrash w
    end
  end.

(* ---------------------------------------------------------------------------------------------- flatten *)
Fixpoint join_dot (l : list bytes) : bytes :=
  match l with
  | [] => []
  | [x] => x
  | x :: r => x ++ 46 :: join_dot r
  end.

Definition cmap : Type := list (bytes * node).

(* ConfigNode::flatten: insertion order; a later insert of the same key replaces the earlier one *)
Fixpoint flatten (level : list bytes) (n : node) : cmap :=
  match n with
  | NSec k cs => if beq k section_plugins then [] else flat_map (flatten (level ++ [k])) cs
  | NNum k _ | NBool k _ | NStr k _ => [(join_dot (level ++ [k]), n)]
  | NHost _ _ | NRoute _ _ => []
  end.

(* HashMap::get after the inserts: the last binding wins *)
Fixpoint map_get (key : bytes) (m : cmap) : option node :=
  match m with
  | [] => None
  | (k, v) :: m' => match map_get key m' with
                    | Some x => Some x
                    | None => if beq k key then Some v else None
                    end
  end.

Definition node_text (n : node) : option bytes :=
  match n with
  | NStr _ v | NNum _ v | NBool _ v => Some v
  | _ => None
  end.

(* ExtendedMap for HashMap<String, ConfigNode> *)
Definition get_owned (m : cmap) (key : bytes) : option bytes :=
  match map_get key m with Some n => node_text n | None => None end.
Definition get_optional (m : cmap) (key default : bytes) : bytes :=
  match get_owned m key with Some v => v | None => default end.
Definition get_optional_parsed {T} (p : bytes -> option T) (m : cmap) (key : bytes) (default : T) : option T :=
  match map_get key m with
  | None => Some default
  | Some n => match node_text n with Some v => p v | None => None end
  end.

Definition parse_u64 := parse_unsigned usize_max.

Fixpoint assoc_b {A} (k : bytes) (t : list (bytes * A)) : option A :=
  match t with
  | [] => None
  | (k', v) :: t' => if beq k k' then Some v else assoc_b k t'
  end.

(* LogLevel::from_str *)
Definition parse_log_level (v : bytes) : option N := assoc_b (ascii_lower v) log_level_table.

(* ---------------------------------------------------------------------------------------------- Config *)
Record route_cfg := {
  rt_type : N;                          (* RouteType index *)
  rt_matches : bytes;
  rt_path : option bytes;
  rt_lb : option (list bytes * N);      (* load balancer: targets, mode index *)
  rt_ws : option bytes }.

Record host_cfg := { hc_matches : bytes; hc_routes : list route_cfg }.

Record config := {
  cf_address : bytes;
  cf_port : N;
  cf_threads : N;
  cf_websocket : option bytes;
  cf_timeout : option N;
  cf_bl_list : list bytes;
  cf_bl_mode : N;
  cf_log_level : N;
  cf_log_console : bool;
  cf_log_file : option bytes;
  cf_cache_size : N;
  cf_cache_time : N;
  cf_default_host : host_cfg;
  cf_hosts : list host_cfg }.

(* node.get_routes(): Route children with their own children flattened at level [] *)
Definition children (n : node) : list node :=
  match n with
  | NSec _ cs | NHost _ cs | NRoute _ cs => cs
  | _ => []
  end.
Definition routes_of (n : node) : list (bytes * cmap) :=
  match n with
  | NSec _ cs | NHost _ cs =>
    flat_map (fun c => match c with NRoute w ics => [(w, flat_map (flatten []) ics)] | _ => [] end) cs
  | _ => []
  end.
Definition hosts_of (n : node) : list (bytes * node) :=
  match n with
  | NSec _ cs => flat_map (fun c => match c with NHost w _ => [(w, c)] | _ => [] end) cs
  | _ => []
  end.

Definition map_has (m : cmap) (key : bytes) : bool :=
  match map_get key m with Some _ => true | None => false end.

(* the body of the `for wild in wild.split(',').map(trim)` loop of parse_route *)
Definition route_for (conf : cmap) (wild : bytes) : res route_cfg :=
  let ws := get_owned conf rkey_websocket in
  let simple (ty : N) (key : bytes) : res route_cfg :=
    match get_owned conf key with
    | Some p => ROk {| rt_type := ty; rt_matches := wild; rt_path := Some p; rt_lb := None; rt_ws := ws |}
    | None => RCrash C_Compulsory
    end in
  if map_has conf [102; 105; 108; 101] then simple RT_File [102; 105; 108; 101]
  else if map_has conf [100; 105; 114; 101; 99; 116; 111; 114; 121] then simple RT_Directory [100; 105; 114; 101; 99; 116; 111; 114; 121]
  else if map_has conf rkey_proxy then
    match get_owned conf rkey_proxy with
    | None => RCrash C_Compulsory
    | Some p =>
      let targets := split_on COMMA p in
      match assoc_b (get_optional conf rkey_lb_mode default_lb_mode) lb_mode_table with
      | None => verr V_LbMode
      | Some mode => ROk {| rt_type := RT_Proxy; rt_matches := wild; rt_path := None; rt_lb := Some (targets, mode); rt_ws := ws |}
      end
    end
  else if map_has conf [114; 101; 100; 105; 114; 101; 99; 116] then simple RT_Redirect [114; 101; 100; 105; 114; 101; 99; 116]
  else if negb (map_has conf rkey_websocket) then verr V_Route
  else ROk {| rt_type := RT_ExclusiveWebSocket; rt_matches := wild; rt_path := None; rt_lb := None; rt_ws := ws |}.

Fixpoint collect {A B} (f : A -> res B) (l : list A) : res (list B) :=
  match l with
  | [] => ROk []
  | x :: r => rbind (f x) (fun y => rbind (collect f r) (fun ys => ROk (y :: ys)))
  end.

Definition parse_route (wild : bytes) (conf : cmap) : res (list route_cfg) :=
  collect (route_for conf) (map trim (split_on COMMA wild)).

Definition parse_host (wild : bytes) (n : node) : res host_cfg :=
  rbind (collect (fun wc => parse_route (fst wc) (snd wc)) (routes_of n))
        (fun rss => ROk {| hc_matches := wild; hc_routes := concat rss |}).

(* load_list_file + the IpAddr parse of every line; ipp = IpAddr::from_str, returning the canonical text *)
Definition load_blacklist (ipp : bytes -> option bytes) (files : bytes -> fentry) (path : option bytes) : res (list bytes) :=
  match path with
  | None => ROk []
  | Some p =>
    match files p with
    | FNone => verr V_BlOpen
    | FDir => verr V_BlRead
    | FData b =>
      if utf8_valid b then
        collect (fun l => match ipp l with Some a => ROk a | None => verr V_BlIp end) (lines b)
      else verr V_BlRead
    end
  end.

Definition opt_or {A} (o : option A) (c : N) (k : A -> res config) : res config :=
  match o with Some a => k a | None => verr c end.

(* Config::from_tree, validation steps in source order *)
Definition from_tree (ipp : bytes -> option bytes) (files : bytes -> fentry) (tree : node) : res config :=
  let m := flatten [] tree in
  let address := get_optional m key_address default_address in
  opt_or (get_optional_parsed parse_u16 m key_port default_port) V_Port (fun port =>
  opt_or (get_optional_parsed parse_usize m key_threads default_threads) V_Threads (fun threads =>
  let websocket := get_owned m key_websocket in
  opt_or (get_optional_parsed parse_u64 m key_timeout default_timeout) V_Timeout (fun tsecs =>
  let timeout := if 0 <? tsecs then Some tsecs else None in
  if threads <? min_threads then verr V_NoThreads else
  rbind (load_blacklist ipp files (get_owned m key_blacklist_file)) (fun bl =>
  opt_or (assoc_b (get_optional m key_blacklist_mode default_blacklist_mode) blacklist_mode_table) V_BlMode (fun blmode =>
  opt_or (get_optional_parsed parse_log_level m key_log_level default_log_level) V_LogLevel (fun level =>
  let log_file := get_owned m key_log_file in
  opt_or (get_optional_parsed parse_bool m key_log_console default_log_console) V_LogConsole (fun console =>
  opt_or (get_optional_parsed parse_usize m key_cache_size default_cache_size) V_CacheSize (fun csize =>
  opt_or (get_optional_parsed parse_usize m key_cache_time default_cache_time) V_CacheTime (fun ctime =>
  rbind (parse_host default_host_matches tree) (fun dhost =>
  rbind (collect (fun hn => parse_host (fst hn) (snd hn)) (hosts_of tree)) (fun hosts =>
  ROk {| cf_address := address; cf_port := port; cf_threads := threads; cf_websocket := websocket;
         cf_timeout := timeout; cf_bl_list := bl; cf_bl_mode := blmode; cf_log_level := level;
         cf_log_console := console; cf_log_file := log_file; cf_cache_size := csize; cf_cache_time := ctime;
         cf_default_host := dhost; cf_hosts := hosts |}))))))))))).

(* parse_conf followed by Config::from_tree (what Config::load does with the file's text) *)
Definition load (ipp : bytes -> option bytes) (files : bytes -> fentry) (file conf : bytes) : res config :=
  rbind (parse_conf files file conf) (from_tree ipp files).
