(* Model of humphrey-ws/src/frame.rs (C10; decode_safe feeds C03) and Message::to_frame (message.rs).
   Mirrors the code after the two repairs
     fix: apply the masking key to the payload when serialising a masked frame          (F19)
     fix: do not allocate the payload buffer from the length the peer claims            (F09, frame part)
   and keeps models of the code as it was (encode_old, decode_old_m) for the refutations.
   Definitions only. *)
From Hv Require Import Prelude Stream.
Open Scope N_scope.

(* error classes of WebsocketError produced by the decoder *)
Definition ReadError : N := 1.
Definition InvalidOpcode : N := 2.
(* panic sites *)
Definition CrashHeaderLen : N := 1.      (* header buffer not 2 bytes: impossible, read_exact fills [u8; 2] *)
Definition CrashCapacity : N := 2.       (* old code: vec![0; n] with n > isize::MAX panics "capacity overflow" *)

(* ---- enum Opcode, TryFrom<u8>, `as u8` ---- *)
Inductive opcode := Continuation | Text | Binary | Close | Ping | Pong.

Definition opcode_to_N (o : opcode) : N :=
  match o with Continuation => 0 | Text => 1 | Binary => 2 | Close => 8 | Ping => 9 | Pong => 10 end.

Definition opcode_of_N (v : N) : option opcode :=
  if v =? 0 then Some Continuation
  else if v =? 1 then Some Text
  else if v =? 2 then Some Binary
  else if v =? 8 then Some Close
  else if v =? 9 then Some Ping
  else if v =? 10 then Some Pong
  else None.

(* ---- masking_key: [u8; 4] ---- *)
Record key4 := mkKey { k0 : N; k1 : N; k2 : N; k3 : N }.
Definition zero_key : key4 := mkKey 0 0 0 0.
Definition key_bytes (k : key4) : bytes := [k0 k; k1 k; k2 k; k3 k].
Definition key_of_list (b : bytes) : key4 := mkKey (nth 0 b 0) (nth 1 b 0) (nth 2 b 0) (nth 3 b 0).
(* masking_key[j] for j = i % 4 *)
Definition key_at (k : key4) (j : N) : N :=
  if j =? 0 then k0 k else if j =? 1 then k1 k else if j =? 2 then k2 k else k3 k.

(* ---- struct Frame ---- *)
Record frame := mkFrame {
  fin : bool; rsv1 : bool; rsv2 : bool; rsv3 : bool;
  fopcode : opcode; mask : bool; flen : N; mkey : key4; payload : bytes }.

Definition b2n (b : bool) : N := if b then 1 else 0.

(* .iter().enumerate().map(|(i, x)| x ^ key[i % 4]) — the same loop masks (encode) and unmasks (decode) *)
Fixpoint xor_from (k : key4) (i : N) (l : bytes) : bytes :=
  match l with
  | [] => []
  | x :: t => N.lxor x (key_at k (i mod 4)) :: xor_from k (i + 1) t
  end.
Definition xor_key (k : key4) (l : bytes) : bytes := xor_from k 0 l.

(* uN::to_be_bytes (k bytes; depends only on n mod 256^k, like the `as u16` cast before it) / from_be_bytes *)
Fixpoint be_bytes (k : nat) (n : N) : bytes :=
  match k with O => [] | S k' => be_bytes k' (n / 256) ++ [n mod 256] end.
Definition be_value (l : bytes) : N := fold_left (fun a b => a * 256 + b) l 0.

(* ---- impl From<Frame> for Vec<u8> ---- *)
Definition header_byte0 (f : frame) : N :=
  N.lor (N.lor (N.lor (N.lor (N.shiftl (b2n (fin f)) 7) (N.shiftl (b2n (rsv1 f)) 6))
                      (N.shiftl (b2n (rsv2 f)) 5)) (N.shiftl (b2n (rsv3 f)) 4)) (opcode_to_N (fopcode f)).

Definition encode_header (f : frame) : bytes :=
  let m := N.shiftl (b2n (mask f)) 7 in
  if flen f <? 126 then [header_byte0 f; N.lor m (flen f mod 256)]
  else if flen f <? 65536 then [header_byte0 f; N.lor m 126] ++ be_bytes 2 (flen f mod 65536)
  else [header_byte0 f; N.lor m 127] ++ be_bytes 8 (flen f).

Definition encode (f : frame) : bytes :=
  encode_header f
  ++ (if mask f then key_bytes (mkey f) else [])
  ++ (if mask f then xor_key (mkey f) (payload f) else payload f).

(* as it was before fix F19: key written, payload appended unmasked *)
Definition encode_old (f : frame) : bytes :=
  encode_header f ++ (if mask f then key_bytes (mkey f) else []) ++ payload f.

(* ---- Frame::new, Message::to_frame ---- *)
Definition new_frame (o : opcode) (p : bytes) : frame :=
  mkFrame true false false false o false (blen p) zero_key p.

Definition message_to_frame (text : bool) (p : bytes) : bytes :=
  encode (new_frame (if text then Text else Binary) p).

(* ---- Frame::from_stream / from_stream_inner ----
   Result and an allocation meter: an upper bound on the capacity of the payload Vec (the only heap allocation).
   take(length).read_to_end grows the Vec only when it is full, to max(2*cap, len+32): capacity <= 2*len + 32. *)
Definition read_len (len7 : N) (cs : chunks) : option (N * chunks) :=
  if len7 =? 126 then
    match read_exact 2 cs with Some (b, r) => Some (be_value b, r) | None => None end
  else if len7 =? 127 then
    match read_exact 8 cs with Some (b, r) => Some (be_value b, r) | None => None end
  else Some (len7, cs).

Definition read_key (m : bool) (cs : chunks) : option (key4 * chunks) :=
  if m then match read_exact 4 cs with Some (b, r) => Some (key_of_list b, r) | None => None end
  else Some (zero_key, cs).

Definition from_stream_inner (cs1 : chunks) (h0 h1 : N) : outcome (frame * chunks) * N :=
  let fin_ := negb (N.land h0 128 =? 0) in
  let r1 := negb (N.land h0 64 =? 0) in
  let r2 := negb (N.land h0 32 =? 0) in
  let r3 := negb (N.land h0 16 =? 0) in
  match opcode_of_N (N.land h0 15) with
  | None => (Err InvalidOpcode, 0)
  | Some op =>
    let mask_ := negb (N.land h1 128 =? 0) in
    match read_len (N.land h1 127) cs1 with
    | None => (Err ReadError, 0)
    | Some (length, cs2) =>
      match read_key mask_ cs2 with
      | None => (Err ReadError, 0)
      | Some (key, cs3) =>
        let '(data, cs4) := read_take length cs3 in
        let alloc := 2 * blen data + 32 in
        if blen data =? length
        then (Ok (mkFrame fin_ r1 r2 r3 op mask_ length key (xor_key key data), cs4), alloc)
        else (Err ReadError, alloc)
      end
    end
  end.

Definition decode_m (cs : chunks) : outcome (frame * chunks) * N :=
  match read_exact 2 cs with
  | None => (Err ReadError, 0)
  | Some (hdr, cs1) =>
    match hdr with
    | [h0; h1] => from_stream_inner cs1 h0 h1
    | _ => (Crash CrashHeaderLen, 0)
    end
  end.

Definition decode (cs : chunks) : outcome (frame * chunks) := fst (decode_m cs).
Definition decode_alloc (cs : chunks) : N := snd (decode_m cs).

(* as it was before fix F09: `vec![0; length as usize]` then read_exact; the meter is the size requested *)
Definition from_stream_inner_old (cs1 : chunks) (h0 h1 : N) : outcome (frame * chunks) * N :=
  match opcode_of_N (N.land h0 15) with
  | None => (Err InvalidOpcode, 0)
  | Some op =>
    let mask_ := negb (N.land h1 128 =? 0) in
    match read_len (N.land h1 127) cs1 with
    | None => (Err ReadError, 0)
    | Some (length, cs2) =>
      match read_key mask_ cs2 with
      | None => (Err ReadError, 0)
      | Some (key, cs3) =>
        if 9223372036854775808 <=? length then (Crash CrashCapacity, 0)
        else match read_exact length cs3 with
             | None => (Err ReadError, length)
             | Some (data, cs4) =>
               (Ok (mkFrame (negb (N.land h0 128 =? 0)) (negb (N.land h0 64 =? 0)) (negb (N.land h0 32 =? 0))
                            (negb (N.land h0 16 =? 0)) op mask_ length key (xor_key key data), cs4), length)
             end
      end
    end
  end.

Definition decode_old_m (cs : chunks) : outcome (frame * chunks) * N :=
  match read_exact 2 cs with
  | None => (Err ReadError, 0)
  | Some (hdr, cs1) =>
    match hdr with
    | [h0; h1] => from_stream_inner_old cs1 h0 h1
    | _ => (Crash CrashHeaderLen, 0)
    end
  end.
