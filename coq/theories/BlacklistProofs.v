From Coq Require Import Lia.
From Hv Require Import Prelude Bytes TablesHttp Http Blacklist.
Open Scope N_scope.

Lemma existsb_app' {A} (f : A -> bool) l1 l2 : existsb f (l1 ++ l2) = existsb f l1 || existsb f l2.
Proof. apply existsb_app. Qed.

Lemma existsb_rev {A} (f : A -> bool) l : existsb f (rev l) = existsb f l.
Proof.
  induction l as [|x l IH]; [reflexivity|]. cbn [rev existsb]. rewrite existsb_app, IH. cbn [existsb].
  rewrite orb_false_r. apply orb_comm.
Qed.

(* the blacklist test sees exactly: the connected peer and every parsable forwarded address *)
Lemma is_blacklisted_spec ipp bl p hs :
  is_blacklisted bl (address_of ipp hs p) = mem (p_ip p) bl || existsb (fun a => mem a bl) (forwarded ipp hs).
Proof.
  unfold is_blacklisted, address_of, forwarded.
  destruct (hget XFF hs) as [fwd|]; [|cbn; now rewrite !orb_false_r].
  set (ps := filter_map (fun s => ipp (trim s)) (split_on 44 fwd)).
  rewrite <- (existsb_rev _ ps). destruct (rev ps) as [|last rest_rev].
  - cbn. now rewrite !orb_false_r.
  - cbn [a_origin a_proxies existsb]. rewrite existsb_app, existsb_rev. cbn [existsb]. rewrite orb_false_r.
    destruct (mem last bl), (existsb (fun a => mem a bl) rest_rev), (mem (p_ip p) bl); reflexivity.
Qed.

Theorem serve_spec ipp block bl p hs :
  serve ipp block bl p hs =
  if block && mem (p_ip p) bl then Dropped
  else if mem (p_ip p) bl || existsb (fun a => mem a bl) (forwarded ipp hs) then Forbidden
  else Served.
Proof.
  unfold serve, verify_connection. rewrite negb_involutive, is_blacklisted_spec. reflexivity.
Qed.

Theorem listed_never_served ipp block bl p hs :
  mem (p_ip p) bl = true -> serve ipp block bl p hs <> Served.
Proof.
  intro H. rewrite serve_spec, H. destruct block; cbn; discriminate.
Qed.

Theorem listed_block_dropped_forbidden_403 ipp bl p hs :
  mem (p_ip p) bl = true ->
  serve ipp true bl p hs = Dropped /\ serve ipp false bl p hs = Forbidden.
Proof. intro H. rewrite !serve_spec, H. split; reflexivity. Qed.

Theorem forwarded_listed_403 ipp block bl p hs a :
  mem (p_ip p) bl = false -> In a (forwarded ipp hs) -> mem a bl = true ->
  serve ipp block bl p hs = Forbidden.
Proof.
  intros Hp Hin Ha. rewrite serve_spec, Hp, andb_false_r. cbn [orb].
  replace (existsb (fun a0 => mem a0 bl) (forwarded ipp hs)) with true; [reflexivity|].
  symmetry. apply existsb_exists. eauto.
Qed.

Theorem unlisted_served ipp block bl p hs :
  mem (p_ip p) bl = false -> (forall a, In a (forwarded ipp hs) -> mem a bl = false) ->
  serve ipp block bl p hs = Served.
Proof.
  intros Hp Hall. rewrite serve_spec, Hp, andb_false_r. cbn [orb].
  replace (existsb (fun a0 => mem a0 bl) (forwarded ipp hs)) with false; [reflexivity|].
  symmetry. apply Bool.not_true_is_false. intro H. apply existsb_exists in H as (a & Hin & Ha).
  rewrite (Hall a Hin) in Ha. discriminate.
Qed.

(* before the fix: a listed peer could move itself off the list in forbidden mode *)
Theorem serve_old_refuted :
  exists ipp bl p hs, mem (p_ip p) bl = true /\ serve_old ipp false bl p hs = Served.
Proof.
  exists ipv4_parse, [[49;50;55;46;48;46;48;46;57]], {| p_ip := [49;50;55;46;48;46;48;46;57]; p_port := 1 |},
         [(XFF, [57;46;57;46;57;46;57])].
  split; vm_compute; reflexivity.
Qed.
